#!/usr/bin/env python3
"""Source translator for behavioural code (DESIGN §14): regenerates lean/HtmlVerif/Generated/Src.lean from the
*text* of selected functions of /repo, on every run.

Each selected Python function becomes a Lean function over `Py.PVal` in the exception monad `Py.PyM`, written in
Lean's `do` notation (`let mut`, `for … in`, `if`, `return`, `continue`, `throw`), whose control flow is the Python
function's control flow statement by statement; every Python operation becomes a call to a primitive of
`Py/Prim.lean` (the stated semantics of the fragment) or to another translated function.  Theorems in
`Props/Src*.lean` then prove, for all inputs, that the translated function computes what the hand-written model
computes — so the model is tied to what the source says *now*, not to what it said when the model was written.

Nothing from the repository is imported or executed here: `ast.parse` only.

A function the translator cannot express (a construct outside the fragment) is emitted as
`def <name>_available : Bool := false` plus a stub; the tie theorems are stated under `<name>_available = true`, so a
refactoring that leaves the fragment makes the tie unavailable (recorded in the evidence; the correspondence check
still ties the model to the code) instead of failing a theorem for a reason that says nothing about the property.
"""
from __future__ import annotations

import ast
import os
import sys
from dataclasses import dataclass, field

HERE = os.path.dirname(os.path.abspath(__file__))
VERIF = os.path.dirname(HERE)
GEN = os.path.join(VERIF, "lean", "HtmlVerif", "Generated")


def repo() -> str:
    return os.environ.get("VERIF_REPO", "/repo")


class Untranslatable(Exception):
    pass


class ArityMismatch(Untranslatable):
    """the call does not fit the callee's signature: Python raises TypeError at the call"""


def lchar(c: str) -> str:
    o = ord(c)
    if 32 <= o < 127 and c not in "'\\\"":
        return f"'{c}'"
    return f"Char.ofNat {o}"


def lstr(s: str) -> str:
    return "[" + ", ".join(lchar(c) for c in s) + "]"


def lname(s: str) -> str:
    """a Python identifier as a Lean identifier"""
    if s in LEAN_KEYWORDS or s.startswith("_"):
        return "v_" + s
    return s


LEAN_KEYWORDS = {
    "at", "meta", "repr", "open", "from", "end", "fun", "let", "do", "if", "then", "else", "match", "with", "in",
    "for", "return", "have", "show", "by", "where", "deriving", "instance", "class", "structure", "inductive", "def",
    "theorem", "namespace", "section", "variable", "universe", "import", "mut", "try", "catch", "finally", "unless",
    "break", "continue", "type", "Type", "Prop", "Sort", "map", "val", "key", "prev", "it", "G", "fuel", "pure",
    "throw", "some", "none", "true", "false", "str", "html", "list", "dict", "bool", "int", "float", "obj", "tuple",
    "attribute", "local", "private", "protected", "partial", "unsafe", "macro", "syntax", "notation", "prefix",
    "infix", "postfix", "using", "calc", "nomatch", "nofun", "omit", "include", "export", "abbrev", "axiom",
    "example", "opaque", "mutual", "set_option", "attrs", "args", "self", "other", "text", "table", "value", "name",
    "result", "item", "x", "y",
}
# (ordinary names such as `text` are not keywords; they are prefixed all the same so that a Python local can never
#  capture a name of the Lean prelude or of Py/Prim.lean — the translation stays hygienic by construction.)


@dataclass
class FnSpec:
    file: str                    # path under the repo
    qual: str                    # `func` or `Class.method`
    lean: str                    # Lean name of the translation
    drop_self: bool = False      # staticmethod called through self / cls
    returns_self: bool = False   # the method's effect is on `self` (Python returns None): translation returns the new self
    out_param: str | None = None  # a list parameter mutated in place: translation returns the new list
    recursive: bool = False      # takes a fuel argument (set automatically for members of a group)
    group: str | None = None     # functions that call one another: emitted in one `mutual` block, recursion bounded by fuel
    doc: str = ""


#: translation order = dependency order (callees first)
SPECS: list[FnSpec] = [
    FnSpec("htmltools/_util.py", "html_escape", "html_escape"),
    FnSpec("htmltools/_core.py", "HTML.as_string", "HTML_as_string"),
    FnSpec("htmltools/_core.py", "HTML.__add__", "HTML_add"),
    FnSpec("htmltools/_core.py", "HTML.__radd__", "HTML_radd"),
    FnSpec("htmltools/_core.py", "_normalize_text", "normalize_text"),
    FnSpec("htmltools/_core.py", "TagAttrDict._normalize_attr_name", "normalize_attr_name", drop_self=True),
    FnSpec("htmltools/_core.py", "TagAttrDict._normalize_attr_value", "normalize_attr_value", drop_self=True),
    FnSpec("htmltools/_core.py", "TagAttrDict.__setitem__", "TagAttrDict_setitem", returns_self=True),
    FnSpec("htmltools/_core.py", "TagAttrDict.update", "TagAttrDict_update", returns_self=True),
    FnSpec("htmltools/_core.py", "Tag.get_html_string", "Tag_get_html_string", group="render"),
    FnSpec("htmltools/_core.py", "TagList.get_html_string", "TagList_get_html_string", group="render"),
]

#: method name -> classes whose translated method of that name a call `x.m(...)` may reach (decided at run time by
#: the class of `x`; any other receiver raises AttributeError)
DISPATCH = {"get_html_string": ["Tag", "TagList"]}
#: instance fields holding an instance of a class with translated self-mutating methods
FIELD_CLASS = {("Tag", "attrs"): "TagAttrDict", ("Tag", "children"): "TagList"}

#: Lean text emitted *after* the named translation (dispatchers that need it)
AFTER: dict[str, str] = {
    "HTML_radd": '''
/-- Python's binary `+`: `HTML` operands go to the translated `HTML.__add__` / `HTML.__radd__`
    (`str.__add__(HTML)` returns NotImplemented, so the reflected method of the right operand runs) -/
def pyAdd (G : Globals) (a b : PVal) : PyM PVal :=
  match a, b with
  | .html _, _ => HTML_add G a b
  | _, .html _ => HTML_radd G b a      -- the left operand's `__add__` is missing or returns NotImplemented for an HTML
  | _, _ => pyAddBase a b
''',
}

#: one-argument builtins
BUILTIN1 = {"enumerate": "pyEnumerate", "reversed": "pyReversed", "range": "pyRange", "list": "pyList", "tuple": "pyTuple"}

# method name -> (primitive, number of explicit arguments accepted (min, max))
STR_METHODS = {
    "endswith": ("pyEndswith", 1, 1),
    "startswith": ("pyStartswith", 1, 1),
    "replace": ("pyReplace", 2, 2),
    "items": ("pyItems", 0, 0),
    "keys": ("pyKeys", 0, 0),
    "values": ("pyValues", 0, 0),
    "split": ("pySplit", 0, 0),
    "strip": ("pyStrip", 0, 0),
    "lower": ("pyLower", 0, 0),
}
#: string methods whose semantics depends on what the running interpreter contributes (passed through `G`)
G_METHODS = {"pySplit", "pyStrip", "pyLower"}


class Fn:
    """translation of one function"""

    def __init__(self, spec: FnSpec, node: ast.FunctionDef, cls: ast.ClassDef | None, known: dict[str, "FnInfo"]):
        self.spec = spec
        self.node = node
        self.cls = cls
        self.known = known
        self.lines: list[str] = []
        self.tmp = 0
        a = node.args
        if a.posonlyargs:
            raise Untranslatable("positional-only parameters")
        self.params = [x.arg for x in a.args]
        self.vararg = a.vararg.arg if a.vararg else None
        self.kwarg = a.kwarg.arg if a.kwarg else None
        self.kwonly = [x.arg for x in a.kwonlyargs]
        if spec.drop_self and self.params and self.params[0] in ("self", "cls"):
            self.params = self.params[1:]
        self.defaults = {}
        ds = a.defaults
        for p, d in zip(a.args[len(a.args) - len(ds):], ds):
            self.defaults[p.arg] = d
        for p, d in zip(a.kwonlyargs, a.kw_defaults):
            if d is not None:
                self.defaults[p.arg] = d
        self.all_params = self.params + ([self.vararg] if self.vararg else []) + self.kwonly + ([self.kwarg] if self.kwarg else [])
        self.locals = [n for n in self.assigned_names(node) if n not in self.all_params]

    # ---- helpers
    @staticmethod
    def assigned_names(fn: ast.FunctionDef) -> list[str]:
        """names bound by assignment, augmented assignment or a `for` target, in the order of their first binding in
        the source text (the order in which the translation declares them — independent of how they are spelled)"""
        out: list[str] = []

        def add(n: str):
            if n not in out:
                out.append(n)

        def tgt(t):
            if isinstance(t, ast.Name):
                add(t.id)
            elif isinstance(t, (ast.Tuple, ast.List)):
                for e in t.elts:
                    tgt(e)

        def visit(stmts):
            for n in stmts:
                if isinstance(n, ast.Assign):
                    for t in n.targets:
                        tgt(t)
                elif isinstance(n, (ast.AugAssign, ast.AnnAssign)):
                    tgt(n.target)
                elif isinstance(n, ast.For):
                    tgt(n.target)
                    visit(n.body)
                    visit(n.orelse)
                elif isinstance(n, (ast.If, ast.While)):
                    visit(n.body)
                    visit(n.orelse)
                elif isinstance(n, ast.With):
                    visit(n.body)
                elif isinstance(n, ast.Try):
                    visit(n.body)
                    for h in n.handlers:
                        visit(h.body)
                    visit(n.orelse)
                    visit(n.finalbody)

        visit(fn.body)
        return out

    def fresh(self, base: str = "t") -> str:
        self.tmp += 1
        return f"{base}_{self.tmp}"

    def const(self, v) -> str:
        if v is None:
            return "PVal.none"
        if v is True:
            return "(PVal.bool true)"
        if v is False:
            return "(PVal.bool false)"
        if isinstance(v, str):
            return f"(PVal.str {lstr(v)})"
        if isinstance(v, int):
            return f"(PVal.int ({v}))"
        raise Untranslatable(f"constant {v!r}")

    # ---- expressions: V(e) is a Lean term of type PVal usable inside a `do` statement (may contain `(← …)`)
    def V(self, e: ast.expr) -> str:
        for hook in EXPR_HOOKS:
            r = hook(self, e)
            if r is not None:
                return r
        if isinstance(e, ast.Constant):
            return self.const(e.value)
        if isinstance(e, ast.Name):
            return self.name(e.id)
        if isinstance(e, ast.Attribute):
            return f"(← pyGetAttr {self.V(e.value)} \"{e.attr}\")"
        if isinstance(e, ast.Tuple):
            return "(PVal.tuple [" + ", ".join(self.elt(x) for x in e.elts) + "])"
        if isinstance(e, ast.List):
            return "(PVal.list [" + ", ".join(self.elt(x) for x in e.elts) + "])"
        if isinstance(e, ast.Dict):
            items = []
            for k, v in zip(e.keys, e.values):
                if not (isinstance(k, ast.Constant) and isinstance(k.value, str)):
                    raise Untranslatable("dict display with a non-literal key")
                items.append(f"({lstr(k.value)}, {self.V(v)})")
            return "(PVal.dict [" + ", ".join(items) + "])"
        if isinstance(e, ast.BinOp):
            if isinstance(e.op, ast.Add):
                if self.ty(e.left) == "str" and self.ty(e.right) == "str":
                    # both operands are plain `str` by construction: no reflected-operator dispatch can happen
                    return f"(← pyAddBase {self.V(e.left)} {self.V(e.right)})"
                if not self.known.get("HTML_radd") or not self.known["HTML_radd"].available or not self.known["HTML_add"].available:
                    raise Untranslatable("`+` on operands that may be HTML, but HTML.__add__/__radd__ are not translated")
                return f"(← pyAdd G {self.V(e.left)} {self.V(e.right)})"
            if isinstance(e.op, ast.Mult):
                return f"(← pyMul {self.V(e.left)} {self.V(e.right)})"
            if isinstance(e.op, ast.Sub):
                return f"(← pySub {self.V(e.left)} {self.V(e.right)})"
            raise Untranslatable(f"binary operator {type(e.op).__name__}")
        if isinstance(e, ast.UnaryOp) and isinstance(e.op, ast.Not):
            return f"(PVal.bool (!truthy {self.V(e.operand)}))"
        if isinstance(e, ast.UnaryOp) and isinstance(e.op, ast.USub) and isinstance(e.operand, ast.Constant) and isinstance(e.operand.value, int):
            return f"(PVal.int (-{e.operand.value}))"
        if isinstance(e, ast.BoolOp):
            # short-circuit: each operand after the first is evaluated inside its own `do` block
            cur = self.M(e.values[-1])
            comb = "pyAnd" if isinstance(e.op, ast.And) else "pyOr"
            for v in reversed(e.values[:-1]):
                cur = f"({comb} {self.M(v)} {cur})"
            return f"(← {cur})"
        if isinstance(e, ast.IfExp):
            return f"(← if truthy {self.V(e.test)} then {self.M(e.body)} else {self.M(e.orelse)})"
        if isinstance(e, ast.Compare):
            return self.compare(e)
        if isinstance(e, ast.Subscript):
            return self.subscript(e)
        if isinstance(e, ast.Call):
            return self.call(e)
        if isinstance(e, ast.JoinedStr):
            parts = []
            for p in e.values:
                if isinstance(p, ast.Constant):
                    parts.append(self.const(p.value))
                elif isinstance(p, ast.FormattedValue):
                    if p.format_spec is not None or p.conversion not in (-1, 115):
                        raise Untranslatable("format spec / conversion in an f-string")
                    parts.append(f"(← pyStr {self.V(p.value)})")
                else:
                    raise Untranslatable("f-string part")
            return f"(← pyConcat [{', '.join(parts)}])"
        if isinstance(e, ast.ListComp):
            return self.listcomp(e)
        raise Untranslatable(f"expression {type(e).__name__}")

    def ty(self, e: ast.expr) -> str | None:
        """"str" when the expression is a plain `str` by construction (used only to pick the non-dispatching `+`)"""
        if isinstance(e, ast.Constant) and isinstance(e.value, str):
            return "str"
        if isinstance(e, ast.JoinedStr):
            return "str"
        if isinstance(e, ast.Call):
            f = e.func
            if isinstance(f, ast.Name) and f.id in ("str", "html_escape", "_normalize_text"):
                return "str"
            if isinstance(f, ast.Attribute) and f.attr in ("as_string", "join"):
                return "str"
        if isinstance(e, ast.Attribute) and isinstance(e.value, ast.Name) and e.value.id == "self" and self.cls is not None \
                and (self.cls.name, e.attr) in STR_FIELDS:
            return "str"
        if isinstance(e, ast.BinOp) and isinstance(e.op, ast.Add) and self.ty(e.left) == "str" and self.ty(e.right) == "str":
            return "str"
        if isinstance(e, ast.BinOp) and isinstance(e.op, ast.Mult) and (self.ty(e.left) == "str" or self.ty(e.right) == "str"):
            return "str"
        return None

    def elt(self, x: ast.expr) -> str:
        if isinstance(x, ast.Starred):
            raise Untranslatable("starred element")
        return self.V(x)

    def M(self, e: ast.expr) -> str:
        """a self-contained term of type PyM PVal"""
        v = self.V(e)
        return f"(do pure {v})" if "←" in v else f"(pure {v})"

    def name(self, n: str) -> str:
        for sc in reversed(getattr(self, "scopes", [])):
            if n in sc:
                return sc[n]
        if n in self.all_params or n in self.locals:
            return lname(n)
        if n in GLOBAL_NAMES:
            return GLOBAL_NAMES[n]
        c = self.module_constant(n)
        if c is not None:
            return c
        raise Untranslatable(f"free name {n}")

    MUTATORS = {"add", "append", "update", "discard", "remove", "pop", "clear", "setdefault", "extend", "insert", "popitem",
                "sort", "reverse", "__setitem__", "__delitem__", "cache_clear", "set", "reset"}

    def module_constant(self, n: str) -> str | None:
        """a module-level name bound exactly once, to a literal, and never rebound or mutated anywhere in the module:
        its value, inlined (a hoisted constant reads like the literal it replaced).  Strings, ints, bools, None; tuples,
        lists, sets and frozenset(...) of such (a set becomes a list: only membership tests and joins are translated)."""
        mod = getattr(self, "module", None)
        if mod is None:
            return None
        binds = []
        for st in mod.body:
            tgt, val = None, None
            if isinstance(st, ast.Assign) and len(st.targets) == 1 and isinstance(st.targets[0], ast.Name):
                tgt, val = st.targets[0].id, st.value
            elif isinstance(st, ast.AnnAssign) and isinstance(st.target, ast.Name) and st.value is not None:
                tgt, val = st.target.id, st.value
            if tgt == n:
                binds.append(val)
        if len(binds) != 1:
            return None
        for node in ast.walk(mod):
            if isinstance(node, ast.Global) and n in node.names:
                return None
            if isinstance(node, ast.Name) and node.id == n and isinstance(node.ctx, (ast.Store, ast.Del)) and node is not None:
                # the one module-level binding is allowed; any other store (e.g. inside a function, `for NAME in`) is not
                if not any(isinstance(st, (ast.Assign, ast.AnnAssign)) and
                           ((isinstance(st, ast.Assign) and st.targets[0] is node) or (isinstance(st, ast.AnnAssign) and st.target is node))
                           for st in mod.body):
                    return None
            if isinstance(node, ast.AugAssign) and isinstance(node.target, ast.Name) and node.target.id == n:
                return None
            if isinstance(node, ast.Call) and isinstance(node.func, ast.Attribute) and isinstance(node.func.value, ast.Name) \
                    and node.func.value.id == n and node.func.attr in self.MUTATORS:
                return None
            if isinstance(node, ast.Subscript) and isinstance(node.value, ast.Name) and node.value.id == n and isinstance(node.ctx, (ast.Store, ast.Del)):
                return None

        def lit(v):
            if isinstance(v, ast.Constant) and (v.value is None or isinstance(v.value, (str, int, bool))) and not isinstance(v.value, float):
                return self.const(v.value)
            if isinstance(v, ast.UnaryOp) and isinstance(v.op, ast.USub) and isinstance(v.operand, ast.Constant) and type(v.operand.value) is int:
                return f"(PVal.int (-{v.operand.value}))"
            if isinstance(v, ast.Tuple):
                return "(PVal.tuple [" + ", ".join(lit(x) for x in v.elts) + "])"
            if isinstance(v, (ast.List, ast.Set)):
                return "(PVal.list [" + ", ".join(lit(x) for x in v.elts) + "])"
            if isinstance(v, ast.Call) and isinstance(v.func, ast.Name) and v.func.id in ("frozenset", "set", "tuple", "list") \
                    and len(v.args) == 1 and not v.keywords and isinstance(v.args[0], (ast.Tuple, ast.List, ast.Set)):
                inner = "[" + ", ".join(lit(x) for x in v.args[0].elts) + "]"
                return f"(PVal.tuple {inner})" if v.func.id == "tuple" else f"(PVal.list {inner})"
            raise Untranslatable("not a literal")
        try:
            return lit(binds[0])
        except Untranslatable:
            return None

    def compare(self, e: ast.Compare) -> str:
        if len(e.ops) != 1:
            raise Untranslatable("chained comparison")
        op, l, r = e.ops[0], e.left, e.comparators[0]
        if isinstance(op, (ast.Is, ast.IsNot)):
            neg = "!" if isinstance(op, ast.IsNot) else ""
            if isinstance(r, ast.Constant) and r.value is None:
                return f"(PVal.bool ({neg}isNone {self.V(l)}))"
            if isinstance(r, ast.Constant) and r.value in (True, False) and isinstance(r.value, bool):
                return f"(PVal.bool ({neg}isBool {'true' if r.value else 'false'} {self.V(l)}))"
            raise Untranslatable("`is` against something other than None / True / False")
        if isinstance(op, ast.In):
            return f"(← pyIn {self.V(l)} {self.V(r)})"
        if isinstance(op, ast.NotIn):
            return f"(PVal.bool (!truthy (← pyIn {self.V(l)} {self.V(r)})))"
        if isinstance(op, ast.Eq):
            return f"(← pyEq {self.V(l)} {self.V(r)})"
        if isinstance(op, ast.NotEq):
            return f"(PVal.bool (!truthy (← pyEq {self.V(l)} {self.V(r)})))"
        if isinstance(op, ast.Gt):
            return f"(← pyGt {self.V(l)} {self.V(r)})"
        if isinstance(op, ast.Lt):
            return f"(← pyLt {self.V(l)} {self.V(r)})"
        if isinstance(op, ast.GtE):
            return f"(← pyGe {self.V(l)} {self.V(r)})"
        if isinstance(op, ast.LtE):
            return f"(← pyLe {self.V(l)} {self.V(r)})"
        raise Untranslatable(f"comparison {type(op).__name__}")

    def subscript(self, e: ast.Subscript) -> str:
        s = e.slice
        if isinstance(s, ast.Slice):
            if s.step is not None:
                raise Untranslatable("slice step")

            def bound(b):
                if b is None:
                    return "none"
                if isinstance(b, ast.Constant) and isinstance(b.value, int):
                    return f"(some ({b.value}))"
                if isinstance(b, ast.UnaryOp) and isinstance(b.op, ast.USub) and isinstance(b.operand, ast.Constant):
                    return f"(some (-{b.operand.value}))"
                raise Untranslatable("non-constant slice bound")

            return f"(← pySlice {self.V(e.value)} {bound(s.lower)} {bound(s.upper)})"
        return f"(← pyGetItem {self.V(e.value)} {self.V(s)})"

    def class_names(self, e: ast.expr, depth: int = 0) -> list[str]:
        if isinstance(e, ast.Name):
            alias = self.module_alias(e.id)
            if alias is not None:
                # a module-level name bound (once) to a class or a tuple of classes — a hoisted `(str, HTML)` — is that tuple;
                # bound to anything else it is not a class, and reading it as one would mistranslate the test
                if depth >= 3:
                    raise Untranslatable("isinstance against a deeply aliased class tuple")
                return self.class_names(alias, depth + 1)
            return [e.id]
        if isinstance(e, ast.Tuple) and all(isinstance(x, ast.Name) for x in e.elts):
            out = []
            for x in e.elts:
                out += self.class_names(x, depth)
            return out
        raise Untranslatable("isinstance against a non-literal class tuple")

    def module_alias(self, n: str):
        """the value expression of a module-level assignment `n = …` (None when `n` is not assigned at module level, e.g. a
        class, an import, a builtin); a name assigned more than once, or rebound elsewhere, is untranslatable"""
        mod = getattr(self, "module", None)
        if mod is None:
            return None
        vals = []
        for st in mod.body:
            if isinstance(st, ast.Assign) and len(st.targets) == 1 and isinstance(st.targets[0], ast.Name) and st.targets[0].id == n:
                vals.append(st.value)
            elif isinstance(st, ast.AnnAssign) and isinstance(st.target, ast.Name) and st.target.id == n and st.value is not None:
                vals.append(st.value)
        if not vals:
            return None
        if len(vals) > 1 or any(isinstance(x, ast.Global) and n in x.names for x in ast.walk(mod)):
            raise Untranslatable(f"isinstance against {n}, which is rebound")
        return vals[0]

    def call_known(self, info: "FnInfo", args: list[ast.expr], kws: list[ast.keyword], recv: str | None = None) -> str:
        """a call to another translated function: arguments matched to parameters by position / keyword / default"""
        if not info.available:
            raise Untranslatable(f"calls {info.spec.qual}, which is not translated")
        params = list(info.params)
        vals: dict[str, str] = {}
        if recv is not None:
            vals[params[0]] = recv
            rest = params[1:]
        else:
            rest = params
        if any(isinstance(a, ast.Starred) for a in args) or any(k.arg is None for k in kws):
            raise Untranslatable("star arguments in a call to a translated function")
        if info.vararg is not None:
            vals[info.vararg] = "(PVal.tuple [" + ", ".join(self.V(a) for a in args[len(rest):]) + "])"
            args = args[:len(rest)]
        if len(args) > len(rest):
            raise ArityMismatch("too many arguments")
        for p, a in zip(rest, args):
            vals[p] = self.V(a)
        kwextra = []
        for k in kws:
            if k.arg in vals:
                raise ArityMismatch("duplicate argument")
            if k.arg in info.params or k.arg in info.kwonly:
                vals[k.arg] = self.V(k.value)
            elif info.kwarg is not None:
                kwextra.append(f"({lstr(k.arg)}, {self.V(k.value)})")
            else:
                raise ArityMismatch(f"unknown keyword {k.arg}")
        if info.kwarg is not None:
            vals[info.kwarg] = "(PVal.dict [" + ", ".join(kwextra) + "])"
        out = []
        for p in info.all_params:
            if p in vals:
                out.append(vals[p])
            elif p in info.defaults:
                d = info.defaults[p]
                if not isinstance(d, ast.Constant):
                    raise Untranslatable("non-constant default")
                out.append(self.const(d.value))
            else:
                raise ArityMismatch(f"missing argument {p}")
        fuel = " fuel" if info.spec.recursive else ""
        return f"(← {info.spec.lean} G{fuel} " + " ".join(out) + ")"

    def call(self, e: ast.Call) -> str:
        f = e.func
        if isinstance(f, ast.Name):
            if f.id == "isinstance" and len(e.args) == 2 and not e.keywords:
                cs = ", ".join(f'"{c}"' for c in self.class_names(e.args[1]))
                return f"(PVal.bool (isInstance {self.V(e.args[0])} [{cs}]))"
            if f.id == "str" and len(e.args) == 1 and not e.keywords:
                return f"(← pyStr {self.V(e.args[0])})"
            if f.id == "len" and len(e.args) == 1 and not e.keywords:
                return f"(← pyLen {self.V(e.args[0])})"
            if f.id == "HTML" and len(e.args) == 1 and not e.keywords:
                return f"(← mkHTML {self.V(e.args[0])})"
            if f.id in BUILTIN1 and len(e.args) == 1 and not e.keywords:
                return f"(← {BUILTIN1[f.id]} {self.V(e.args[0])})"
            if f.id in self.known_by_pyname():
                return self.call_known(self.known_by_pyname()[f.id], e.args, e.keywords)
            inl = self.inline_helper(f.id, e)
            if inl is not None:
                return inl
            raise Untranslatable(f"call of {f.id}")
        if isinstance(f, ast.Attribute):
            # re.search(pattern, text)
            if isinstance(f.value, ast.Name) and f.value.id == "re" and f.attr == "search" and len(e.args) == 2 and not e.keywords:
                return f"(← reSearch {self.V(e.args[0])} {self.V(e.args[1])})"
            # "sep".join(x)
            if f.attr == "join" and len(e.args) == 1 and not e.keywords:
                return f"(← pyJoin {self.V(f.value)} {self.V(e.args[0])})"
            # self.method(...) of the same class, statically resolved
            if isinstance(f.value, ast.Name) and f.value.id in ("self", "cls") and self.cls is not None:
                q = f"{self.cls.name}.{f.attr}"
                info = self.pick(q)
                if info is not None:
                    if info.spec.returns_self:
                        raise Untranslatable("self-mutating method used as an expression")
                    return self.call_known(info, e.args, e.keywords, recv=None if info.spec.drop_self else self.name("self"))
            # Class.m(...): a translated static method called through its class, from anywhere
            if isinstance(f.value, ast.Name) and f.value.id not in ("self", "cls", "re") and f.value.id[:1].isupper():
                info = self.pick(f"{f.value.id}.{f.attr}")
                if info is not None and info.available and info.spec.drop_self and not info.spec.returns_self:
                    return self.call_known(info, e.args, e.keywords)
            # x.m(...) decided by the class of x at run time
            if f.attr in DISPATCH:
                arms = []
                for cls in DISPATCH[f.attr]:
                    info = self.pick(f"{cls}.{f.attr}")
                    if info is None or not info.available:
                        raise Untranslatable(f"method {cls}.{f.attr} is not translated")
                    try:
                        call = self.call_known(info, e.args, e.keywords, recv=self.V(f.value))
                        arms.append(f'| "{cls}" => (do pure {call})')
                    except ArityMismatch:
                        arms.append(f'| "{cls}" => throw PyErr.typeError')
                return f"(← match pyClassOf {self.V(f.value)} with " + " ".join(arms) + " | _ => throw PyErr.attributeError)"
            if f.attr == "_repr_html_" and not e.args and not e.keywords:
                return f"(← pyReprHtml {self.V(f.value)})"
            # x.as_string() and other translated methods resolved by name
            for info in self.known.values():
                if "." in info.spec.qual and info.spec.qual.split(".")[1] == f.attr and info.spec.qual.split(".")[0] in METHOD_OWNER.get(f.attr, ()):
                    if info.spec.returns_self:
                        raise Untranslatable("self-mutating method used as an expression")
                    return self.call_known(info, e.args, e.keywords, recv=self.V(f.value))
            if f.attr in STR_METHODS and not e.keywords:
                prim, lo, hi = STR_METHODS[f.attr]
                if lo <= len(e.args) <= hi:
                    return "(← " + " ".join([prim] + (["G"] if prim in G_METHODS else []) + [self.V(f.value)] + [self.V(a) for a in e.args]) + ")"
            if f.attr == "get" and 1 <= len(e.args) <= 2 and not e.keywords:
                d = self.V(e.args[1]) if len(e.args) == 2 else "PVal.none"
                return f"(← pyDictGet {self.V(f.value)} {self.V(e.args[0])} {d})"
            raise Untranslatable(f"method call .{f.attr}()")
        raise Untranslatable("call of a computed callee")

    def inline_helper(self, fname: str, e: ast.Call) -> str | None:
        """`helper(a, b)` where `helper` is an undecorated module-level function of the same file whose body is a single
        `return <expression>` (after an optional docstring), with plain positional parameters: the expression, with the
        arguments bound once, in order — an extracted one-line helper reads like the expression it replaced"""
        mod = getattr(self, "module", None)
        if mod is None or e.keywords or any(isinstance(a, ast.Starred) for a in e.args):
            return None
        defs = [st for st in mod.body if isinstance(st, ast.FunctionDef) and st.name == fname]
        if len(defs) != 1:
            return None
        d = defs[0]
        a = d.args
        if d.decorator_list or a.vararg or a.kwarg or a.kwonlyargs or a.posonlyargs or a.defaults or len(a.args) != len(e.args):
            return None
        body = [st for st in d.body if not (isinstance(st, ast.Expr) and isinstance(st.value, ast.Constant) and isinstance(st.value.value, str))]
        if len(body) != 1 or not isinstance(body[0], ast.Return) or body[0].value is None:
            return None
        depth = getattr(self, "_inline_depth", 0)
        if depth >= 3:
            return None
        self._inline_depth = depth + 1
        try:
            binds, scope = [], {}
            for p, arg in zip(a.args, e.args):
                self.tmp += 1
                v = f"inl_{self.tmp}"
                binds.append(f"let {v} := {self.V(arg)}")
                scope[p.arg] = v
            if not hasattr(self, "scopes"):
                self.scopes = []
            # the helper's body sees its parameters and module-level names only
            saved = (self.all_params, self.locals, self.scopes)
            self.all_params, self.locals, self.scopes = [], [], [scope]
            try:
                val = self.V(body[0].value)
            finally:
                self.all_params, self.locals, self.scopes = saved
            return "(← (do " + "; ".join(binds + [f"pure {val}"]) + "))"
        finally:
            self._inline_depth = depth

    def pick(self, qual: str, pred=lambda i: True):
        """the translation of the Python function `qual` a call from this function reaches: when several area plug-ins
        translate the same function (under their own Lean names), the one of the caller's own area, else the first"""
        cands = [i for i in self.known.values() if i.spec.qual == qual and pred(i)]
        if not cands:
            return None
        mine = getattr(self.spec, "area", None)
        for i in cands:
            if getattr(i.spec, "area", None) == mine:
                return i
        return cands[0]

    def known_by_pyname(self) -> dict[str, "FnInfo"]:
        out: dict[str, "FnInfo"] = {}
        mine = getattr(self.spec, "area", None)
        for i in self.known.values():
            if "." not in i.spec.qual and (i.spec.qual not in out or getattr(i.spec, "area", None) == mine):
                out[i.spec.qual] = i
        return out

    def listcomp(self, e: ast.ListComp) -> str:
        raise Untranslatable("list comprehension outside the right-hand side of an assignment")

    def listcomp_stmts(self, ind: int, e: ast.ListComp) -> str:
        """`[elt for x in it if c …]` as the right-hand side of an assignment: the loop is emitted as statements
        (the comprehension variable is scoped to it), the value is the accumulated list"""
        if len(e.generators) != 1 or e.generators[0].is_async or not isinstance(e.generators[0].target, ast.Name):
            raise Untranslatable("list comprehension with several generators / a pattern target")
        g = e.generators[0]
        acc = self.fresh("acc")
        var = self.fresh("cv")
        self.emit(ind, f"let mut {acc} : List PVal := []")
        self.emit(ind, f"for {var} in (← pyIter {self.V(g.iter)}) do")
        self.scopes = getattr(self, "scopes", []) + [{g.target.id: var}]
        try:
            k = ind + 1
            for c in g.ifs:
                self.emit(k, f"if truthy {self.V(c)} then")
                k += 1
            self.emit(k, f"{acc} := {acc} ++ [{self.V(e.elt)}]")
        finally:
            self.scopes = self.scopes[:-1]
        return f"(PVal.list {acc})"

    # ---- statements
    def emit(self, ind: int, s: str):
        self.lines.append("  " * ind + s)

    def assign_to(self, ind: int, target: ast.expr, val: str):
        if isinstance(target, ast.Name):
            nm = self.name(target.id)
            self.emit(ind, f"{nm} := {val}")
            return
        if isinstance(target, ast.Subscript) and isinstance(target.value, ast.Name) and not isinstance(target.slice, ast.Slice):
            c = target.value.id
            if c not in self.fresh_containers:
                raise Untranslatable(f"item assignment into {c}, which is not a container created in this function")
            nm = self.name(c)
            self.emit(ind, f"{nm} := (← pySetItem {nm} {self.V(target.slice)} {val})")
            return
        if isinstance(target, ast.Attribute) and isinstance(target.value, ast.Name) and (
                target.value.id == "self" or target.value.id in self.fresh_objects):
            nm = self.name(target.value.id)
            self.mutates_self = self.mutates_self or target.value.id == "self"
            self.emit(ind, f"{nm} := (← pySetAttr {nm} \"{target.attr}\" {val})")
            return
        if isinstance(target, (ast.Tuple, ast.List)) and len(target.elts) == 2 and all(isinstance(x, ast.Name) for x in target.elts):
            a, b = (self.name(x.id) for x in target.elts)
            t = self.fresh("pair")
            self.emit(ind, f"let {t} ← pyUnpack2 {val}")
            self.emit(ind, f"{a} := {t}.1")
            self.emit(ind, f"{b} := {t}.2")
            return
        raise Untranslatable(f"assignment target {type(target).__name__}")

    def stmts(self, ind: int, body: list[ast.stmt]):
        for s in body:
            self.stmt(ind, s)

    def stmt(self, ind: int, s: ast.stmt):
        for hook in STMT_HOOKS:
            if hook(self, ind, s):
                return
        if isinstance(s, ast.Expr) and isinstance(s.value, ast.Constant) and isinstance(s.value.value, str):
            return  # docstring
        if isinstance(s, ast.Pass):
            self.emit(ind, "pure ()")
            return
        if isinstance(s, ast.Assign):
            if len(s.targets) != 1:
                raise Untranslatable("multiple assignment targets")
            if isinstance(s.value, ast.ListComp):
                self.assign_to(ind, s.targets[0], self.listcomp_stmts(ind, s.value))
                return
            self.assign_to(ind, s.targets[0], self.V(s.value))
            return
        if isinstance(s, ast.AnnAssign):
            if s.value is None:
                return
            self.assign_to(ind, s.target, self.V(s.value))
            return
        if isinstance(s, ast.AugAssign):
            if not isinstance(s.op, ast.Add) or not isinstance(s.target, ast.Name):
                raise Untranslatable("augmented assignment other than name += expr")
            nm = self.name(s.target.id)
            if s.target.id in self.fresh_containers:
                raise Untranslatable("+= on a container")
            # `x += e` on str / HTML / tuple operands: no __iadd__, falls back to x = x + e
            self.emit(ind, f"{nm} := (← pyAdd G {nm} {self.V(s.value)})")
            return
        if isinstance(s, ast.If):
            self.emit(ind, f"if truthy {self.V(s.test)} then")
            self.stmts(ind + 1, s.body)
            if s.orelse:
                self.emit(ind, "else")
                self.stmts(ind + 1, s.orelse)
            return
        if isinstance(s, ast.For):
            if s.orelse:
                raise Untranslatable("for … else")
            it = self.fresh("it")
            self.emit(ind, f"for {it} in (← pyIter {self.V(s.iter)}) do")
            self.assign_to(ind + 1, s.target, it)
            self.stmts(ind + 1, s.body)
            return
        if isinstance(s, ast.Continue):
            self.emit(ind, "continue")
            return
        if isinstance(s, ast.Break):
            self.emit(ind, "break")
            return
        if isinstance(s, ast.Return):
            if self.spec.returns_self:
                if s.value is not None and not (isinstance(s.value, ast.Constant) and s.value.value is None):
                    raise Untranslatable("a self-mutating method returns a value")
                self.emit(ind, f"return {self.name('self')}")
            else:
                self.emit(ind, "return " + (self.V(s.value) if s.value is not None else "PVal.none"))
            return
        if isinstance(s, ast.Raise):
            self.emit(ind, "throw " + self.exc(s.exc))
            return
        if isinstance(s, ast.Expr) and isinstance(s.value, ast.Call):
            self.call_stmt(ind, s.value)
            return
        raise Untranslatable(f"statement {type(s).__name__}")

    def exc(self, e: ast.expr | None) -> str:
        n = e.func if isinstance(e, ast.Call) else e
        if isinstance(n, ast.Name) and n.id in EXC:
            # the message expression is not evaluated (it cannot change the exception kind)
            return "PyErr." + EXC[n.id]
        raise Untranslatable("raise of an unknown exception")

    def call_stmt(self, ind: int, c: ast.Call):
        f = c.func
        # super().update(d) / super().__setitem__(k, v) / super().__init__() in a dict subclass
        if (isinstance(f, ast.Attribute) and isinstance(f.value, ast.Call) and isinstance(f.value.func, ast.Name)
                and f.value.func.id == "super" and not f.value.args and self.cls is not None
                and any(isinstance(b, ast.Name) and b.id == "dict" or isinstance(b, ast.Subscript) and isinstance(b.value, ast.Name) and b.value.id in ("dict", "Dict") for b in self.cls.bases)):
            me = self.name("self")
            if f.attr == "update" and len(c.args) == 1 and not c.keywords:
                self.emit(ind, f"{me} := (← pyDictUpdate {me} {self.V(c.args[0])})")
                return
            if f.attr == "__setitem__" and len(c.args) == 2 and not c.keywords:
                self.emit(ind, f"{me} := (← pySetItem {me} {self.V(c.args[0])} {self.V(c.args[1])})")
                return
            raise Untranslatable(f"super().{f.attr}()")
        # self.method(...) where the method's effect is on self
        if isinstance(f, ast.Attribute) and isinstance(f.value, ast.Name) and f.value.id == "self" and self.cls is not None:
            q = f"{self.cls.name}.{f.attr}"
            info = self.pick(q, lambda i: i.spec.returns_self)
            if info is not None:
                me = self.name("self")
                self.emit(ind, f"{me} := " + self.call_known(info, c.args, c.keywords, recv=me))
                return
        # self.<field>.<method>(...) where the field holds an instance whose translated method mutates it
        if (isinstance(f, ast.Attribute) and isinstance(f.value, ast.Attribute) and isinstance(f.value.value, ast.Name)
                and f.value.value.id == "self" and self.cls is not None and (self.cls.name, f.value.attr) in FIELD_CLASS):
            owner = FIELD_CLASS[(self.cls.name, f.value.attr)]
            me = self.name("self")
            fld = f.value.attr
            info = self.pick(f"{owner}.{f.attr}", lambda i: i.spec.returns_self)
            if info is not None:
                self.mutates_self = True
                new = self.call_known(info, c.args, c.keywords, recv=f"(← pyGetAttr {me} \"{fld}\")")
                self.emit(ind, f"{me} := (← pySetAttr {me} \"{fld}\" {new})")
                return
            if owner == "TagAttrDict" and f.attr == "pop" and len(c.args) == 1 and not c.keywords:
                self.mutates_self = True
                self.emit(ind, f"{me} := (← pySetAttr {me} \"{fld}\" (← pyDictPop (← pyGetAttr {me} \"{fld}\") {self.V(c.args[0])}))")
                return
        # an expression statement whose value is dropped
        self.emit(ind, f"let _ := {self.V(c)}")

    # ---- whole function
    def translate(self) -> str:
        body = self.node.body
        self.fresh_containers = self.find_fresh_containers()
        self.fresh_objects: set[str] = set()
        self.mutates_self = False
        self.scopes = []
        sig = " ".join(f"({lname(p)} : PVal)" for p in self.all_params)
        self.lines = []
        base = 2 if self.spec.recursive else 1
        self.stmts(base, body)
        if not body or not self.terminal(body[-1]):
            # (C14) a function that mutates its list parameter `out_param` (conditions checked in pytr_c14.py) returns the new list
            self.emit(base, f"return {self.name('self')}" if self.spec.returns_self else
                      f"return {self.name(self.spec.out_param)}" if self.spec.out_param else "return PVal.none")
        stmts = self.lines
        self.lines = []
        for p in self.all_params:
            if p in self.assigned_names(self.node) or ((self.spec.returns_self or self.mutates_self) and p == "self") \
                    or p == self.spec.out_param:      # (C14)
                self.emit(base, f"let mut {lname(p)} := {lname(p)}")
        for v in self.locals:
            self.emit(base, f"let mut {lname(v)} : PVal := PVal.none")
        decls = self.lines
        self.lines = decls + stmts
        return self.head(sig) + "\n" + "\n".join(self.lines)

    def head(self, sig: str) -> str:
        """(C17) the first line(s) of the definition; a subclass (FN_CLASS) gives a translation another result type"""
        if self.spec.recursive:
            return (f"def {self.spec.lean} (G : Globals) (fuel0 : Nat) {sig} : PyM PVal :=\n"
                    f"  match fuel0 with\n  | 0 => throw PyErr.fuel\n  | fuel + 1 => do")
        return f"def {self.spec.lean} (G : Globals) {sig} : PyM PVal := do"

    def terminal(self, s: ast.stmt) -> bool:
        if isinstance(s, (ast.Return, ast.Raise)):
            return True
        if isinstance(s, ast.If) and s.orelse:
            return self.terminal(s.body[-1]) and self.terminal(s.orelse[-1])
        return False

    def find_fresh_containers(self) -> set[str]:
        """locals bound (only) to a container created in this function, never aliased: their mutation through the
        name is a functional update of the name"""
        fresh: set[str] = set()
        other: set[str] = set()
        for n in ast.walk(self.node):
            tgts = []
            if isinstance(n, ast.Assign):
                tgts = [(t, n.value) for t in n.targets]
            elif isinstance(n, ast.AnnAssign) and n.value is not None:
                tgts = [(n.target, n.value)]
            for t, v in tgts:
                if isinstance(t, ast.Name):
                    if isinstance(v, (ast.Dict, ast.List)) and not (v.keys if isinstance(v, ast.Dict) else v.elts):
                        fresh.add(t.id)
                    else:
                        other.add(t.id)
        fresh -= other
        # aliasing: the name must never be the whole right-hand side of an assignment, stored in a container or returned
        for n in ast.walk(self.node):
            if isinstance(n, (ast.Assign, ast.AnnAssign)) and isinstance(n.value, ast.Name) and n.value.id in fresh:
                fresh.discard(n.value.id)
        return fresh


@dataclass
class FnInfo:
    spec: FnSpec
    available: bool
    params: list[str] = field(default_factory=list)
    all_params: list[str] = field(default_factory=list)
    kwonly: list[str] = field(default_factory=list)
    vararg: str | None = None
    kwarg: str | None = None
    defaults: dict = field(default_factory=dict)
    reason: str = ""
    text: str = ""


KWONLY_OK: set[str] = set()
EXC = {"TypeError": "typeError", "ValueError": "valueError", "KeyError": "keyError", "RuntimeError": "runtimeError",
       "NotImplementedError": "notImplemented", "Exception": "exception", "IndexError": "indexError",
       "AttributeError": "attributeError"}
GLOBAL_NAMES = {
    "HTML_ESCAPE_TABLE": "G.HTML_ESCAPE_TABLE",
    "HTML_ATTRS_ESCAPE_TABLE": "G.HTML_ATTRS_ESCAPE_TABLE",
    "_VOID_TAG_NAMES": "(PVal.list (G.VOID_TAG_NAMES.map PVal.str))",
    "_NO_ESCAPE_TAG_NAMES": "(PVal.list (G.NO_ESCAPE_TAG_NAMES.map PVal.str))",
}
#: instance fields that hold a plain `str` (`UserString.data`)
STR_FIELDS = {("HTML", "data")}
#: classes whose method of that name is meant when the receiver is not `self`
METHOD_OWNER = {"as_string": ("HTML",)}


def find(mod: ast.Module, qual: str):
    parts = qual.split(".")
    if len(parts) == 2 and parts[1] == "<inner>":
        # (C17) `f.<inner>`: the one function defined directly inside the module-level function `f`, whatever its name
        for n in mod.body:
            if isinstance(n, ast.FunctionDef) and n.name == parts[0]:
                inner = [m for m in n.body if isinstance(m, ast.FunctionDef)]
                return (inner[0], None) if len(inner) == 1 else (None, None)
        return None, None
    if len(parts) == 1:
        # (C15b) the *last* module-level `def` of that name: a later `def` rebinds the name (`@overload` stubs followed
        # by the implementation)
        hit = None
        for n in mod.body:
            if isinstance(n, ast.FunctionDef) and n.name == parts[0]:
                hit = n
        return hit, None
    for n in mod.body:
        if isinstance(n, ast.ClassDef) and n.name == parts[0]:
            for m in n.body:
                if isinstance(m, ast.FunctionDef) and m.name == parts[1]:
                    return m, n
    return None, None


def stub(spec: FnSpec, nparams: int) -> str:
    if spec.lean in STUBS:          # (C17) a translation with another type has its own stub
        return STUBS[spec.lean](spec, nparams)
    sig = " ".join(f"(_a{i} : PVal)" for i in range(nparams))
    fuel = " (_fuel : Nat)" if (spec.recursive or spec.group) else ""
    return f"def {spec.lean} (_G : Globals){fuel} {sig} : PyM PVal := throw PyErr.unsupported"


def _signature(spec: FnSpec, mods: dict, known: dict) -> "Fn":
    path = os.path.join(repo(), spec.file)
    if spec.file not in mods:
        with open(path, encoding="utf-8") as f:
            mods[spec.file] = ast.parse(f.read())
    node, cls = find(mods[spec.file], spec.qual)
    if node is None:
        raise Untranslatable("function not found in the source")
    fn = FN_CLASS.get(spec.lean, Fn)(spec, node, cls, known)      # (C17) FN_CLASS
    fn.module = mods[spec.file]
    return fn


def _info_of(fn: "Fn", text: str = "") -> FnInfo:
    return FnInfo(fn.spec, True, fn.params, fn.all_params, fn.kwonly, fn.vararg, fn.kwarg, fn.defaults, "", text)


def generate(write: bool = True) -> dict:
    if HERE not in sys.path:
        sys.path.insert(0, HERE)
    plugin_problems = load_plugins()
    mods: dict[str, ast.Module] = {}
    known: dict[str, FnInfo] = {}
    out = ["-- GENERATED by harness/pytranslate.py from the source text of /repo — do not edit.",
           "import HtmlVerif.Py.Prim"] + [f"import {m}" for m in IMPORTS] + ["", "set_option linter.unusedVariables false", "",
           "namespace HtmlVerif.Generated.Src", "open HtmlVerif HtmlVerif.Py", ""]
    notes = list(plugin_problems)
    done: set[str] = set()

    def unavailable(spec: FnSpec, reason: str):
        notes.append(f"source tie unavailable for {spec.qual}: {reason} (the correspondence check alone ties the model to this function)")

    for spec in SPECS:
        if spec.lean in done:
            continue
        members = [x for x in SPECS if x.group == spec.group] if spec.group else [spec]
        for m in members:
            m.recursive = m.recursive or bool(m.group)
            done.add(m.lean)
        fns: dict[str, Fn] = {}
        reason = ""
        try:
            for m in members:
                fns[m.lean] = _signature(m, mods, known)
            for m in members:          # signatures first: members may call one another
                known[m.lean] = _info_of(fns[m.lean])
            for m in members:
                known[m.lean].text = fns[m.lean].translate()
        except (Untranslatable, SyntaxError, OSError) as e:
            reason = f"{type(e).__name__}: {e}"
        if reason:
            for m in members:
                info = FnInfo(m, False)
                info.reason = reason if len(members) == 1 else f"{reason} (in the group `{m.group}` of functions that call one another)"
                known[m.lean] = info
                unavailable(m, info.reason)
        if spec.group:
            out.append("mutual")
        for m in members:
            info = known[m.lean]
            nparams = len(fns[m.lean].all_params) if m.lean in fns else ARITY.get(m.lean, 1)
            out.append(f"/-- `{m.qual}` ({m.file}) -/" if info.available else f"/-- `{m.qual}`: not in the translatable fragment — {info.reason} -/")
            out.append(info.text if info.available else stub(m, nparams))
            out.append("")
        if spec.group:
            out.append("end")
            out.append("")
        for m in members:
            out.append(f"def {m.lean}_available : Bool := {'true' if known[m.lean].available else 'false'}")
        out.append("")
        for m in members:
            if m.lean in AFTER:
                out.append(AFTER[m.lean].strip("\n"))
                out.append("")
    # the table the driver's `src` op dispatches on: every translated function by name and arity
    out.append("/-- `src <name> [args]`: run a translated function (recursive ones with ample fuel) -/")
    out.append("def runByName (G : Globals) (f : String) (a : List PVal) : Option (PyM PVal) :=")
    out.append("  match f, a with")
    for lean_name, info in known.items():
        n = len(info.all_params) if info.available else None
        if n is None or lean_name in NO_RUN:      # (C17) NO_RUN: not of type `PyM PVal`; run by the area's own op
            continue
        vs = [f"x{i}" for i in range(n)]
        fuel = " 100000" if (info.spec.recursive or info.spec.group) else ""
        out.append(f'  | "{lean_name}", [{", ".join(vs)}] => some ({lean_name} G{fuel} {" ".join(vs)})')
    if "HTML_radd" in known and known["HTML_radd"].available and known["HTML_add"].available:
        out.append('  | "add", [x0, x1] => some (pyAdd G x0 x1)')
    out.append("  | _, _ => none")
    out.append("")
    out.append("end HtmlVerif.Generated.Src")
    text = "\n".join(out) + "\n"
    if write:
        p = os.path.join(GEN, "Src.lean")
        old = open(p).read() if os.path.exists(p) else None
        if old != text:
            with open(p, "w") as f:
                f.write(text)
    return {"notes": notes, "available": {k: v.available for k, v in known.items()}, "text": text}


#: arity of the stub when the function itself cannot even be found
ARITY = {"html_escape": 2, "HTML_as_string": 1, "HTML_add": 2, "HTML_radd": 2, "normalize_text": 1,
         "normalize_attr_name": 1, "normalize_attr_value": 1, "TagAttrDict_setitem": 3, "TagAttrDict_update": 3,
         "Tag_get_html_string": 3, "TagList_get_html_string": 5}

#: extra Lean modules the generated file imports (Py/Prim<Area>.lean of the area plug-ins)
IMPORTS: list[str] = []
#: (C17) per Lean name: a subclass of `Fn` that translates that function (other result type: overrides `head`),
#: the text of its stub, and the translations the generic `src` op cannot run
FN_CLASS: dict = {}
STUBS: dict = {}
NO_RUN: set = set()
#: expression / statement hooks of the area plug-ins: called first; return a Lean term (or True for a handled statement)
#: or None to decline
EXPR_HOOKS: list = []
STMT_HOOKS: list = []


def load_plugins() -> list[str]:
    """area plug-ins `harness/pytr_<area>.py`: each may extend SPECS, AFTER, DISPATCH, FIELD_CLASS, BUILTIN1, STR_METHODS,
    G_METHODS, GLOBAL_NAMES, METHOD_OWNER, STR_FIELDS, ARITY, IMPORTS, EXPR_HOOKS, STMT_HOOKS through `register(pytranslate)`.
    Loaded in file-name order; a plug-in that fails to load is reported and skipped."""
    import importlib
    problems = []
    if getattr(load_plugins, "done", False):
        return problems
    load_plugins.done = True
    me = sys.modules[__name__]
    late = []
    for fn in sorted(os.listdir(HERE)):
        if fn.startswith("pytr_") and fn.endswith(".py"):
            try:
                mod = importlib.import_module(fn[:-3])
                n0 = len(SPECS)
                mod.register(me)
                for sp in SPECS[n0:]:
                    sp.area = fn[:-3]
                late.append((fn, mod))
            except Exception as e:  # noqa: BLE001
                problems.append(f"translator plug-in {fn}: {type(e).__name__}: {e}")
    # (C11) second pass: a plug-in whose functions call translated functions of plug-ins that sort after it appends its
    # SPECS in `register_late` (translation order = dependency order)
    for fn, mod in late:
        if hasattr(mod, "register_late"):
            try:
                n0 = len(SPECS)
                mod.register_late(me)
                for sp in SPECS[n0:]:
                    sp.area = fn[:-3]
            except Exception as e:  # noqa: BLE001
                problems.append(f"translator plug-in {fn} (late): {type(e).__name__}: {e}")
    return problems


if __name__ == "__main__":
    r = generate(write="--dry" not in sys.argv)
    print(r["text"] if "--print" in sys.argv else "")
    for n in r["notes"]:
        print("NOTE", n, file=sys.stderr)
