"""Translator plug-in for C08 (equality and views) and C13's neutralisation step.

Group `eq`: `_equals_impl` and the three `__eq__` methods that are `return _equals_impl(self, other)`.  They call one
another through Python's `==` on field values: inside this group `a == b` / `a != b` become `pyEqDeep <dispatch> a b`
(Py/PrimC08.lean — the stated semantics of `==` on the covered value shapes), where `<dispatch>` is the run-time dispatch
over the translated `__eq__` methods by the class of the receiver, exactly like the `DISPATCH` of ordinary methods:
`eqDispatch (Tag_eq G fuel) (TagList_eq G fuel) (HTMLDependency_eq G fuel)` (Py/PrimC08.lean).
`!=` is `not ==` for every class involved (none of `Tag`, `TagList`, `HTMLDependency`, `UserString`, `UserList` defines
`__ne__`, so `object.__ne__` inverts `__eq__`; for the built-in kinds the two are complementary).

Views: `Tag.__repr__`, `Tag._repr_html_`, `TagList.__repr__`, `TagList._repr_html_` (each `return str(self)`; `str(x)` is the
primitive `pyStr` of Py/Prim.lean).  `Tag.__str__` / `TagList.__str__` / `_render_tag_or_taglist` are NOT registered: they
call `x.render()` (→ `tagify()`, `get_dependencies()`: not translated here), read the module global
`html_dependency_render_mode` at call time (`from . import …`: `Globals` does not carry it) and, in "json" mode, call
`serialize_to_script_json()` (→ `json.dumps`: outside the fragment).

New syntax (hooks; anything else in these functions goes through the ordinary translator):
  isinstance(y, type(x))      -> isInstanceTypeOf y x
  x.__dict__                  -> pyObjDict x
  getattr(x, key, default)    -> pyGetAttrD x key default
"""
from __future__ import annotations

import ast

EQ_CLASSES = ["Tag", "TagList", "HTMLDependency"]
EQ_LEAN = {"Tag": "Tag_eq", "TagList": "TagList_eq", "HTMLDependency": "HTMLDependency_eq"}


def register(T):
    F = "htmltools/_core.py"
    T.SPECS += [
        T.FnSpec(F, "_equals_impl", "equals_impl", group="eq"),
        T.FnSpec(F, "Tag.__eq__", "Tag_eq", group="eq"),
        T.FnSpec(F, "TagList.__eq__", "TagList_eq", group="eq"),
        T.FnSpec(F, "HTMLDependency.__eq__", "HTMLDependency_eq", group="eq"),
    ]
    T.SPECS += [
        T.FnSpec(F, "Tag.__repr__", "Tag_repr"),
        T.FnSpec(F, "Tag._repr_html_", "Tag_repr_html"),
        T.FnSpec(F, "TagList.__repr__", "TagList_repr"),
        T.FnSpec(F, "TagList._repr_html_", "TagList_repr_html"),
    ]
    T.ARITY.update({"Tag_repr": 1, "Tag_repr_html": 1, "TagList_repr": 1, "TagList_repr_html": 1})
    T.ARITY.update({"equals_impl": 2, "Tag_eq": 2, "TagList_eq": 2, "HTMLDependency_eq": 2})
    if "HtmlVerif.Py.PrimC08" not in T.IMPORTS:
        T.IMPORTS.append("HtmlVerif.Py.PrimC08")

    def eq_dispatch(fn) -> str:
        """`x.__eq__(y)` decided by the class of x at run time, over the translated `__eq__` methods"""
        fs = []
        for cls in EQ_CLASSES:
            info = fn.known.get(EQ_LEAN[cls])
            if info is None or not info.available:
                raise T.Untranslatable(f"`==` may reach {cls}.__eq__, which is not translated")
            if len(info.params) != 2 or info.vararg or info.kwarg or info.kwonly:
                raise T.Untranslatable(f"{cls}.__eq__ does not take (self, other)")
            fs.append(f"({info.spec.lean} G fuel)")
        return "(eqDispatch " + " ".join(fs) + ")"

    def expr_hook(fn, e):
        in_eq = fn.spec.group == "eq"
        # a == b / a != b inside the group: the deep `==` over the translated `__eq__` methods
        if in_eq and isinstance(e, ast.Compare) and len(e.ops) == 1 and isinstance(e.ops[0], (ast.Eq, ast.NotEq)):
            l, r = fn.V(e.left), fn.V(e.comparators[0])
            t = f"(← pyEqDeep {eq_dispatch(fn)} {l} {r})"
            return t if isinstance(e.ops[0], ast.Eq) else f"(PVal.bool (!truthy {t}))"
        if isinstance(e, ast.Call) and isinstance(e.func, ast.Name) and not e.keywords:
            # isinstance(y, type(x))
            if (e.func.id == "isinstance" and len(e.args) == 2 and isinstance(e.args[1], ast.Call)
                    and isinstance(e.args[1].func, ast.Name) and e.args[1].func.id == "type"
                    and len(e.args[1].args) == 1 and not e.args[1].keywords):
                shadow_check(fn, "isinstance", "type")
                return f"(PVal.bool (isInstanceTypeOf {fn.V(e.args[0])} {fn.V(e.args[1].args[0])}))"
            # getattr(x, key, default)
            if e.func.id == "getattr" and len(e.args) == 3:
                shadow_check(fn, "getattr")
                return f"(← pyGetAttrD {fn.V(e.args[0])} {fn.V(e.args[1])} {fn.V(e.args[2])})"
        # x.__dict__
        if isinstance(e, ast.Attribute) and e.attr == "__dict__" and isinstance(e.ctx, ast.Load):
            return f"(← pyObjDict {fn.V(e.value)})"
        return None

    def shadow_check(fn, *names):
        for n in names:
            if n in fn.all_params or n in fn.locals:
                raise T.Untranslatable(f"the builtin `{n}` is shadowed by a local")

    T.EXPR_HOOKS.append(expr_hook)
