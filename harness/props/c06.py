"""C06 — Block layout follows the documented line and indentation rules."""
from __future__ import annotations

import core
import gen
from wire import Toks, p_node, p_list

PID = "C06"
MANIFEST = dict(
    text="Lean theorems C06_tag / C06_kids_line / C06_kids_run / C06_list: for every validly nested tree (inline tags contain no block tags), "
         "every indent and every eol string, the renderer's two-variable state machine produces exactly joinLines eol (layout t) where "
         "`layout` is a declarative line-oriented pretty-printer (one line for empty / single-text / inline tags; open line, each maximal run of "
         "non-block children on one line, each block child laid out recursively one level deeper, close line aligned) that never mentions the "
         "loop state; C06_shift: indent=k shifts every line by k levels. Proved by mutual structural induction, using C05_flat for run members. "
         "Tie: exact-string correspondence with get_html_string on exhaustive small trees and random large ones; the layout equation is also "
         "evaluated on the real output for every validly nested case.",
    design="DESIGN.md §6 C06",
    note="Modelled, not verified: Python isinstance dispatch order in the child loop; str * int.",
    technique="Lean 4 refinement proof (renderer state machine = declarative layout) by mutual structural induction + differential correspondence (exact string)",
)
PROP_FILES = ["HtmlVerif/Props/C06.lean", "HtmlVerif/Props/ConstsRender.lean", "HtmlVerif/Props/SrcRender.lean"]


def valid(n) -> bool:
    if n[0] != "tag":
        return True
    if n[2]:
        return all(valid(c) for c in n[4])
    return no_ws(n)


def no_ws(n) -> bool:
    if n[0] == "tag":
        return (not n[2]) and all(no_ws(c) for c in n[4])
    return True


def multiline(n) -> bool:
    return n[0] == "tag" and n[2] and len([c for c in n[4] if c[0] not in ("meta", "dep")]) > 0 and valid(n)


def run(tier: str) -> int:
    ck = core.Check(PID, tier, PROP_FILES)
    ck.prepare()
    ck.rule = ("a case is one rendering (tree or list, indent, eol); non-trivial = validly nested block tag with at least one visible child "
               "(so the multi-line rule is exercised); distinct by wire term")
    fns = gen.fn_catalogue(ck.proof.translate_info)
    rng = ck.rng

    # generator biased to valid nestings: flip_ws = 0 keeps catalogue defaults (block-in-inline still possible: judged only on correspondence)
    lines, scopes = gen.render_lines(rng, tier, ck.budget, all_fns=fns,
                                     leaves=[("text", "a"), ("text", "x\ny"), ("text", ""), ("html", "<i>"), ("robj", "<u>r</u>"), ("meta", 0)],
                                     tags=[("div", True), ("span", False), ("br", False), ("hr", True), ("p", True)])
    ck.exhaustive_scopes += scopes
    from wire import enode, es
    for _ in range(ck.budget(1500, 30000)):
        t = gen.rand_tag(rng, rng.randint(2, 8), flip_ws=0.0, all_names=fns)
        lines.append(f"render_tag {enode(t)} {rng.choice([0, 1, 2, 5])} {es(rng.choice([chr(10), '', chr(13) + chr(10), '<!>', ' ', '|' * 3]))}")
    impl = core.impl_many(lines)
    for l, im in zip(lines, impl):
        opn, rest = l.split(" ", 1)
        t = Toks(rest)
        if opn == "render_tag":
            nt = multiline(p_node(t))
        else:
            ks = p_list(t, p_node)
            nt = all(valid(k) for k in ks) and len(ks) > 1
        ck.add(l, im, nontrivial=nt, tag=opn)
    import histories
    for l, im in histories.render_history_cases(ck.rng, ck.budget(1500, 20000), all_fns=fns):
        ck.add(l, im, nontrivial=True, tag="render_after_edits")
    ck.exhaustive_scopes.append({"scope": "render – edit in place through the public API – render again histories (stale-state detection)", "exhaustive": False})
    ck.add_src(['Tag_get_html_string', 'TagList_get_html_string'], quick=250, thorough=2500)
    ck.correspond(holds=True)
    return ck.finish()
