"""Implementation side of the `src` op for the C08 area: `_equals_impl`, `Tag.__eq__`, `TagList.__eq__`,
`HTMLDependency.__eq__` called on the realised values (translator + Py/PrimC08.lean validation)."""
from __future__ import annotations

import ops_src


def _version(fields):
    from packaging.version import Version
    return Version(fields["__str__"])


def _dep(fields):
    """an HTMLDependency with the instance attributes given (those absent keep the constructor's defaults)"""
    import htmltools
    d = htmltools.HTMLDependency(fields.get("name") or "d", "1.0")
    for k, v in fields.items():
        setattr(d, k, v)
    return d


def _repr_obj(fields):
    import adapters
    return adapters.ReprObj(fields["s"])


def _meta(fields):
    import adapters
    return adapters.Meta(fields["n"])


ops_src.REALIZE.setdefault("Version", _version)
ops_src.REALIZE.setdefault("HTMLDependency", _dep)
ops_src.REALIZE["EqReprObj"] = _repr_obj
ops_src.REALIZE["EqMeta"] = _meta


def _core():
    from htmltools import _core
    return _core


ops_src.CALLS["equals_impl"] = lambda a: _core()._equals_impl(a[0], a[1])
ops_src.CALLS["Tag_eq"] = lambda a: _core().Tag.__eq__(a[0], a[1])
ops_src.CALLS["TagList_eq"] = lambda a: _core().TagList.__eq__(a[0], a[1])
ops_src.CALLS["HTMLDependency_eq"] = lambda a: _core().HTMLDependency.__eq__(a[0], a[1])

# the views that are `return str(self)` (called unbound: `self` may be any value)
ops_src.CALLS["Tag_repr"] = lambda a: _core().Tag.__repr__(a[0])
ops_src.CALLS["Tag_repr_html"] = lambda a: _core().Tag._repr_html_(a[0])
ops_src.CALLS["TagList_repr"] = lambda a: _core().TagList.__repr__(a[0])
ops_src.CALLS["TagList_repr_html"] = lambda a: _core().TagList._repr_html_(a[0])


# primitives of Py/PrimC08.lean that no translated function calls yet: `s.replace(old, new)` with a key of any length
from ops import op  # noqa: E402
from wire import Toks  # noqa: E402


@op("srcc08")
def _srcc08(t: Toks) -> str:
    f = t.next()
    assert t.next() == "["
    a = []
    while t.peek() != "]":
        a.append(ops_src.p_pval(t))
    t.next()
    if f != "replace" or len(a) != 3:
        return "unsupported"
    import htmltools
    if not isinstance(a[0], (str, htmltools.HTML)):
        return "unsupported"
    try:
        r = a[0].replace(a[1], a[2])
    except Exception as e:  # noqa: BLE001
        for cls in type(e).__mro__:
            if cls.__name__ in ops_src.EXC:
                return "err " + cls.__name__
        return "err Exception"
    return "ok " + ops_src.e_pval(r)
