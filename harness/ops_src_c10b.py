"""Implementation side of the source tie for the constructor validation of `HTMLDependency` (C10; DESIGN §14): the real
`HTMLDependency._validate_dict` / `_validate_dicts` / `__init__`, called as *functions* (unbound, `self` = first value) on
the realised values, for the ops `src` (ops_src.py) and `srcc10b`.

  srcc10b [ (<raw> <T|F> <rank> <str(Version)>)… ] <function> [ <pval>… ]

is `src <function> [ … ]` for this side: the table (what `packaging` answers for the version strings of the line, and the
rank the harness gives each Version) is what the *Lean* side needs in place of `packaging`; here it only supplies the
rank under which a freshly parsed Version is reported back.

`__init__` is run on an instance whose `__dict__` is empty (what `object.__new__` gives); the answer is the instance's
`__dict__` in assignment order."""
from __future__ import annotations

import ops_src
from ops import op
from wire import Toks, es, ds

#: str(Version) -> rank, for the line being evaluated
_RANKS: dict = {}
_RV = None


def _rv():
    global _RV
    if _RV is None:
        from packaging.version import Version

        class RankedVersion(Version):       # `Version` has __slots__; a subclass instance can carry the rank
            pass

        _RV = RankedVersion
    return _RV


def _mk_version(f):
    v = _rv()(f["text"])
    v._srctie_rank = f.get("rank")
    return v


ops_src.REALIZE.setdefault("Version", _mk_version)


class _Pre:
    """an answer that is already a pval term"""

    def __init__(self, term: str):
        self.term = term


def _enc(v) -> str:
    import htmltools
    from packaging.version import Version
    if isinstance(v, Version):
        r = getattr(v, "_srctie_rank", None)
        if r is None:
            r = _RANKS.get(str(v))
        return "O Version [ rank " + ("N" if r is None else f"I {r}") + " text S " + es(str(v)) + " ]"
    if isinstance(v, htmltools.HTMLDependency):
        return "O " + type(v).__name__ + " [ " + "".join(k + " " + _enc(x) + " " for k, x in vars(v).items()) + "]"
    if type(v) is htmltools.TagList:
        return "O TagList [ data L [ " + "".join(_enc(x) + " " for x in v.data) + "] ]"
    if type(v) is htmltools.Tag:
        return (f"O Tag [ name {_enc(v.name)} attrs {_enc(dict(v.attrs))} children {_enc(v.children)} "
                f"add_ws {_enc(v.add_ws)} ]")
    if type(v) is ops_src._Repr:
        return "O ReprObj [ _repr_html_ S " + es(v._t) + " ]"
    if type(v) is list:
        return "L [ " + "".join(_enc(x) + " " for x in v) + "]"
    if type(v) is tuple:
        return "U [ " + "".join(_enc(x) + " " for x in v) + "]"
    if type(v) is dict:
        return "M [ " + "".join(es(k) + " " + _enc(x) + " " for k, x in v.items()) + "]"
    return ops_src.e_pval(v)


ops_src.ENCODE.append(lambda v, enc: v.term if isinstance(v, _Pre) else None)


def _dep():
    import htmltools
    return htmltools.HTMLDependency


def _init(a):
    obj = a[0]
    if hasattr(obj, "__dict__"):
        obj.__dict__.clear()
    _dep().__init__(obj, a[1], a[2], source=a[3], script=a[4], stylesheet=a[5], all_files=a[6], meta=a[7], head=a[8])
    return _Pre(_enc(obj))


ops_src.CALLS["HTMLDependency_validate_dict"] = lambda a: _dep()._validate_dict(a[0], a[1], a[2])
ops_src.CALLS["HTMLDependency_validate_dicts"] = lambda a: _dep()._validate_dicts(a[0], a[1], a[2])
ops_src.CALLS["HTMLDependency_init"] = _init


@op("srcc10b")
def _srcc10b(t: Toks) -> str:
    global _RANKS
    assert t.next() == "["
    ranks = {}
    while t.peek() != "]":
        t.next()                      # raw
        ok = t.next() == "T"
        r = int(t.next())
        text = ds(t.next())
        if ok:
            ranks[text] = r
    t.next()
    _RANKS = ranks
    try:
        return ops_src._src(t)
    finally:
        _RANKS = {}
