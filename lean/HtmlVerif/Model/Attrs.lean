/-
TagAttrDict (_core.py:514-586): name/value normalisation, `update`, `__setitem__`;
the attribute half of Tag.__init__ (_core.py:675-676).
-/
import HtmlVerif.Model.Escape
import HtmlVerif.Model.Tree
import HtmlVerif.Model.Render

namespace HtmlVerif

/-- a value supplied for an attribute (`TagAttrValue`), before normalisation -/
inductive AttrArg
  | none                 -- None
  | boolF                -- False
  | boolT                -- True
  | str (s : Str)
  | html (s : Str)       -- HTML(s)
  | num (txt : Str)      -- int / float, carried as its str() text (supplied by the harness)
  | bad                  -- any other type
  deriving DecidableEq, Repr, Inhabited

/-- `_normalize_attr_name`: drop one trailing underscore, then every `_` becomes `-` -/
def normAttrName (x : Str) : Str :=
  let y := if x.getLast? = some '_' then x.dropLast else x
  y.map fun c => if c = '_' then '-' else c

/-- `_normalize_attr_value` -/
def normAttrValue : AttrArg → Except Err (Option AttrVal)
  | .none => .ok none
  | .boolF => .ok none
  | .boolT => .ok (some (.plain []))
  | .str s => .ok (some (.plain s))
  | .html s => .ok (some (.html s))
  | .num t => .ok (some (.plain t))
  | .bad => .error .typeError

/-- `attrz[nm] + " " + val`: values given for the same name within one call are joined by one space.
    When exactly one side is HTML() the plain side is escaped for an attribute context before it becomes
    part of the (never again escaped) HTML value; plain+plain stays plain and is escaped by the writer. -/
def mergeVal (cfg : Cfg) : AttrVal → AttrVal → AttrVal
  | .plain a, .plain b => .plain (a ++ ' ' :: b)
  | .plain a, .html b => .html (htmlEscapeT cfg.attrTbl a ++ ' ' :: b)
  | .html a, .plain b => .html (a ++ ' ' :: htmlEscapeT cfg.attrTbl b)
  | .html a, .html b => .html (a ++ ' ' :: b)

/-- `d[k] = v` on an insertion-ordered dict: replace in place, else append -/
def dictSet (k : Str) (v : AttrVal) : Attrs → Attrs
  | [] => [(k, v)]
  | (k', v') :: r => if k' = k then (k, v) :: r else (k', v') :: dictSet k v r

/-- the inner two loops of `update`, accumulating into the local `attrz` -/
def accumPairs (cfg : Cfg) : List (Str × AttrArg) → Attrs → Except Err Attrs
  | [], acc => .ok acc
  | (k, v) :: r, acc =>
    match normAttrValue v with
    | .error e => .error e
    | .ok none => accumPairs cfg r acc
    | .ok (some val) =>
      let nm := normAttrName k
      let val' := match alookup nm acc with
        | some old => mergeVal cfg old val
        | none => val
      accumPairs cfg r (dictSet nm val' acc)

def accumDicts (cfg : Cfg) : List (List (Str × AttrArg)) → Attrs → Except Err Attrs
  | [], acc => .ok acc
  | d :: ds, acc =>
    match accumPairs cfg d acc with
    | .error e => .error e
    | .ok acc' => accumDicts cfg ds acc'

/-- `super().update(attrz)` -/
def dictUpdate (cur : Attrs) (attrz : Attrs) : Attrs :=
  attrz.foldl (fun c kv => dictSet kv.1 kv.2 c) cur

/-- `TagAttrDict.update(*args, **kwargs)` (kwargs, if any, already appended as the last dict) -/
def attrsUpdate (cfg : Cfg) (cur : Attrs) (args : List (List (Str × AttrArg))) : Except Err Attrs :=
  match accumDicts cfg args [] with
  | .error e => .error e
  | .ok attrz => .ok (dictUpdate cur attrz)

/-- `TagAttrDict.__setitem__` -/
def attrsSetItem (cur : Attrs) (k : Str) (v : AttrArg) : Except Err Attrs :=
  match normAttrValue v with
  | .error e => .error e
  | .ok none => .ok cur
  | .ok (some val) => .ok (dictSet (normAttrName k) val cur)

/-- attribute half of `Tag.__init__`: positional dicts left to right, then the keyword dict if non-empty -/
def tagInitAttrs (cfg : Cfg) (dicts : List (List (Str × AttrArg))) (kw : List (Str × AttrArg)) :
    Except Err Attrs :=
  attrsUpdate cfg [] (if kw.isEmpty then dicts else dicts ++ [kw])

end HtmlVerif
