/-
`holds C09 <op> <args…> | <impl answer>` — the executable statement of C09: the implementation's
answer is compared with the forward *specification* (`expandAll`), not with the loop model.
-/
import HtmlVerif.Ops.Tagify

namespace HtmlVerif.Ops
open HtmlVerif HtmlVerif.Wire

def depNodes (ds : List Tagify.DepEntry) : Nodes := Nodes.ofList (ds.map depEntryNode)

/-- the statement for `render()` on a list: markup of the expanded tree, its dependencies -/
def holdsC09Rendered (html : Str) (deps raw : Nodes) (expHtml : Str) (expanded : List Tagify.DepEntry) : Bool :=
  html == expHtml && deps.beq (depNodes (Tagify.resolveDeps expanded)) && raw.beq (depNodes expanded)

/-- `| ok <str>` ↦ `.ok s`; `| err <kind>` ↦ `.error kind` -/
def implStrOrErr : P (Except String Str) := do
  expect "|"
  let t ← next
  if t == "ok" then .ok <$> str else .error <$> next

def holdsC09 : OpTable
  | "tagify_list" => some do
    let ks ← nodes
    expect "|"
    match (← peek) with
    | some "[" => let out ← nodes; pure (encBool (out.beq ks.expandAll))
    | _ => set ([] : List String); pure "F"
  | "tagify_tag" => some do
    let n ← node
    expect "|"
    match (← peek) with
    | some "tag" =>
      let out ← node
      match n with
      | .tag nm w a kids => pure (encBool (out.beq (.tag nm w a kids.expandAll)))
      | _ => pure "F"
    | _ => set ([] : List String); pure "F"
  | "render_full_list" => some do
    let ks ← nodes
    expect "|"
    let t ← next
    if t == "ok" then do
      let html ← str; let deps ← nodes; let raw ← nodes
      pure (encBool (holdsC09Rendered html deps raw (renderList cfg ks.expandAll 0 ['\n'] true true)
        (Tagify.collectDepsKids ks.expandAll)))
    else do set ([] : List String); pure "F"       -- render() must not raise
  | "render_full_tag" => some do
    let n ← node
    expect "|"
    let t ← next
    if t == "ok" then do
      let html ← str; let deps ← nodes; let raw ← nodes
      match n with
      | .tag nm w a kids =>
        pure (encBool (holdsC09Rendered html deps raw ((Node.tag nm w a kids.expandAll).render cfg 0 ['\n'])
          (Tagify.collectDepsKids kids.expandAll)))
      | _ => pure "F"
    else do set ([] : List String); pure "F"
  -- markup asked from a tree that may still contain objects: error iff an un-expanded,
  -- non-self-rendering object is reachable; nothing is emitted for it
  | "render_tag" => some do
    let n ← node; let i ← nat; let e ← str
    match (← implStrOrErr) with
    | .ok out => pure (encBool (!n.hasTobj && out == n.render cfg i e))
    | .error k => pure (encBool (n.hasTobj && k == "runtimeError"))
  | "render_list" => some do
    let ks ← nodes; let i ← nat; let e ← str; let aw ← bool; let esc ← bool
    match (← implStrOrErr) with
    | .ok out => pure (encBool (!ks.hasTobjKids && out == renderList cfg ks i e aw esc))
    | .error k => pure (encBool (ks.hasTobjKids && k == "runtimeError"))
  | _ => none

end HtmlVerif.Ops
