/-
Driver ops of C01: the spec parser and the expected image, exposed so that the harness can cross-check
them against an independent Python oracle (`html.parser`).
  parse_html <str>            → `ok <forest>` | `fail`           (tokenize, build, normalise)
  tokenize_html <str>         → `ok [ tokens ]` | `fail`
  expected_tag <node>         → `<T|F guard> <tree>`
  expected_list <nodes>       → `<T|F guard> <forest>`
  decode_refs <str>           → <str>
  render_tag_n …              → as render_tag (the implementation side passes all-digit leaves as numbers)
-/
import HtmlVerif.Ops.Base
import HtmlVerif.Holds.C01

namespace HtmlVerif.Ops
open HtmlVerif HtmlVerif.Wire HtmlVerif.Holds

def encKvList (a : List (Str × Str)) : String :=
  encList (a.map fun (k, v) => encStr k ++ " " ++ encStr v)

mutual
  partial def encPTree : PTree → String
    | .elem n a sc ks => "el " ++ encStr n ++ " " ++ encKvList a ++ " " ++ encBool sc ++ " " ++ encPTrees ks
    | .text s => "tx " ++ encStr s
  partial def encPTrees (ts : List PTree) : String := encList (ts.map encPTree)
end

def encTok : Tok → String
  | .text s => "t " ++ encStr s
  | .stag n a sc => "s " ++ encStr n ++ " " ++ encKvList a ++ " " ++ encBool sc
  | .etag n => "e " ++ encStr n

def htmlOps : OpTable
  | "parse_html" => some do
    let s ← str
    match parseHtml s with
    | some ts => pure ("ok " ++ encPTrees ts)
    | none => pure "fail"
  | "tokenize_html" => some do
    let s ← str
    match tokenize s with
    | some ts => pure ("ok " ++ encList (ts.map encTok))
    | none => pure "fail"
  | "expected_tag" => some do
    let n ← node
    pure (encBool (ordinaryTag cfg n) ++ " " ++ encPTree (expected cfg.void n))
  | "expected_list" => some do
    let ks ← nodes
    pure (encBool (ks.ordinaryKids cfg.noesc) ++ " " ++ encPTrees (expectedKids cfg.void ks))
  | "decode_refs" => some do
    let s ← str
    pure (encStr (decodeRefs s))
  | "render_tag_n" => some do
    let n ← node; let i ← nat; let e ← str
    pure (encExcept encStr (renderTagChecked cfg n i e))
  | _ => none

end HtmlVerif.Ops
