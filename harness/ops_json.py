"""Implementation side of the C13 ops (lean/HtmlVerif/Ops/Json.lean): the real json.dumps, the real
serialize_to_script_json, the real HTMLTextDocument, the real JSON render mode."""
from __future__ import annotations

import ast
import inspect
import json
import re
import textwrap

import htmltools
from htmltools import HTMLDependency, HTMLTextDocument, TagList

from adapters import canon, canon_dep, realize, realize_source
from ops import op
from wire import Toks, p_str, p_opt, p_list, p_depinfo, p_node, es, eopt, elist, edepinfo, enodes, err_of


# ------------------------------------------------------------------ wire forms
def p_indent(t: Toks):
    x = t.next()
    if x == "N":
        return None
    assert x == "I", x
    return int(t.next())


def e_indent(i) -> str:
    return "N" if i is None else f"I {i}"


def p_sdep(t: Toks):
    """(depinfo dict, head markup | None)"""
    info = p_depinfo(t)
    head = p_opt(t)
    return (info, head)


def e_sdep(sd) -> str:
    return edepinfo(sd[0]) + " " + eopt(sd[1])


def realize_sdep(sd) -> HTMLDependency:
    info, head = sd
    kw = {}
    if head is not None:
        kw["head"] = head            # a string head becomes TagList(HTML(head))
    return HTMLDependency(
        info["name"], info["version"],
        source=realize_source(info["source"]),
        script=[dict(x) for x in info["script"]],
        stylesheet=[dict(x) for x in info["stylesheet"]],
        meta=[dict(x) for x in info["metas"]],
        all_files=info["all_files"],
        **kw,
    )


def canon_sdep(d: HTMLDependency):
    """field by field, head as markup; run-time data (version rank, resolved directory) blanked"""
    term = canon_dep(d, None)
    head = None if d.head is None else TagList(d.head).get_html_string()
    return (term[1], head)


def e_extract(html: str, deps) -> str:
    return es(html) + " " + elist([e_sdep(canon_sdep(d)) for d in deps])


# ------------------------------------------------------------------ the regex, read from the source
def source_pattern() -> str:
    """the regex HTMLTextDocument's extraction uses: the literal assigned to `pattern` in
    _static_extract_serialized_html_deps, or — after a refactoring that hoists it — a module-level compiled pattern /
    string constant of htmltools._core that mentions the serialised element's marker attribute"""
    import htmltools._core as _core
    try:
        src = textwrap.dedent(inspect.getsource(HTMLTextDocument._static_extract_serialized_html_deps))
        for node in ast.walk(ast.parse(src)):
            if isinstance(node, ast.Assign) and any(isinstance(t, ast.Name) and t.id == "pattern" for t in node.targets):
                if isinstance(node.value, ast.Constant) and isinstance(node.value.value, str):
                    return node.value.value
    except (OSError, TypeError, SyntaxError):
        pass
    for v in vars(_core).values():
        if isinstance(v, re.Pattern) and "data-html-dependency" in v.pattern:
            return v.pattern
    for v in vars(_core).values():
        if isinstance(v, str) and "data-html-dependency" in v and "(" in v:
            return v
    try:
        for node in ast.walk(ast.parse(inspect.getsource(_core))):
            if isinstance(node, ast.Constant) and isinstance(node.value, str) and "data-html-dependency" in node.value and "(" in node.value:
                return node.value
    except (OSError, SyntaxError):
        pass
    # the source no longer spells a pattern (e.g. the scan was rewritten without `re`): the reference pattern of the model;
    # the real extraction function is still what `extract` / `textdoc` lines and the Python oracles call
    global PATTERN_LOCATED
    PATTERN_LOCATED = False
    return '<script type="application/json" data-html-dependency="">((?:.|\\r|\\n)*?)</script>'


PATTERN_LOCATED = True


_PATTERN = None


def pattern() -> str:
    global _PATTERN
    if _PATTERN is None:
        _PATTERN = source_pattern()
    return _PATTERN


# ------------------------------------------------------------------ ops
@op("jstr")
def _jstr(t: Toks) -> str:
    return es(json.dumps(p_str(t)))


@op("ser")
def _ser(t: Toks) -> str:
    ind = p_indent(t)
    d = realize_sdep(p_sdep(t))
    return "ok " + es(d.serialize_to_script_json(ind).get_html_string())


@op("sern")
def _sern(t: Toks) -> str:
    ind = p_indent(t)
    d = realize(p_node(t))
    return "ok " + es(d.serialize_to_script_json(ind).get_html_string())


@op("scan_raw")
def _scan_raw(t: Toks) -> str:
    h = p_str(t)
    bodies = re.findall(pattern(), h)
    return es(re.sub(pattern(), "", h)) + " " + elist([es(b) for b in bodies])


def p_item(t: Toks):
    return (p_indent(t), p_sdep(t), p_str(t))


def build_html(t0: str, items) -> str:
    out = [t0]
    for ind, sd, chunk in items:
        out.append(realize_sdep(sd).serialize_to_script_json(ind).get_html_string())
        out.append(chunk)
    return "".join(out)


@op("extract")
def _extract(t: Toks) -> str:
    t0 = p_str(t)
    items = p_list(t, p_item)
    doc = HTMLTextDocument(build_html(t0, items))
    return "ok " + e_extract(doc._html, doc._deps)


@op("extract_html")
def _extract_html(t: Toks) -> str:
    doc = HTMLTextDocument(p_str(t))
    return "ok " + e_extract(doc._html, doc._deps)


def p_optdeps(t: Toks):
    x = t.next()
    if x == "N":
        return None
    assert x == "D", x
    return p_list(t, p_sdep)


@op("textdoc")
def _textdoc(t: Toks) -> str:
    h = p_str(t)
    ph = p_opt(t)
    deps = p_optdeps(t)
    p_list(t, lambda t: (p_sdep(t), p_list(t, p_node)))      # the as_html_tags table is the model's parameter
    doc = HTMLTextDocument(h, None if deps is None else [realize_sdep(d) for d in deps], ph)
    r = doc.render()
    return "ok " + e_extract(r["html"], r["dependencies"])


def json_mode_str(obj) -> str:
    old = htmltools.html_dependency_render_mode
    htmltools.html_dependency_render_mode = "json"
    try:
        return str(obj)
    finally:
        htmltools.html_dependency_render_mode = old if old == "invisible" else "invisible"


@op("jsonmode")
def _jsonmode(t: Toks) -> str:
    obj = realize(p_node(t))
    return "ok " + es(json_mode_str(obj))


@op("jmrt")
def _jmrt(t: Toks) -> str:
    obj = realize(p_node(t))
    doc = HTMLTextDocument(json_mode_str(obj))
    return "ok " + e_extract(doc._html, doc._deps)


def tags_table(deps) -> str:
    """`as_html_tags()` of every dependency (flattened), canonicalised: the run-time parameter of `textdoc`"""
    return elist([e_sdep(canon_sdep(d)) + " " + enodes([canon(c) for c in d.as_html_tags()]) for d in deps])
