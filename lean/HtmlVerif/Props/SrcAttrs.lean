/-
Source tie (DESIGN §14) for attribute normalisation and merging: the Lean functions regenerated from the text of
`TagAttrDict._normalize_attr_name`, `_normalize_attr_value`, `__setitem__` and `update` compute, for every input,
what the model (Model/Attrs.lean) computes.  Obligations of C15 and C03.
No loop body is spelled out in these proofs: the loop rule `forIn_sim` takes the body from the regenerated
definition by unification, and what is proved about it is its effect on one pass.
-/
import HtmlVerif.Generated.Src
import HtmlVerif.Lemmas.PyLoop
import HtmlVerif.Lemmas.SrcTie
import HtmlVerif.Props.SrcEscape
import HtmlVerif.Model.Attrs

namespace HtmlVerif.SrcTie
open HtmlVerif HtmlVerif.Py HtmlVerif.Generated.Src

/-- `_normalize_attr_name` as the source has it = `normAttrName` -/
theorem src_normalize_attr_name (h : normalize_attr_name_available = true) (G : Globals) (x : Str) :
    normalize_attr_name G (.str x) = .ok (.str (normAttrName x)) := by
  first
  | exact absurd h (by decide)
  | (unfold normalize_attr_name normAttrName
     by_cases hx : x.getLast? = some '_' <;>
       simp [endswith_char, slice_dropLast, hx, replaceChar_single])

/-- `_normalize_attr_value` as the source has it = `normAttrValue` (None for a dropped value, TypeError for other types) -/
theorem src_normalize_attr_value (h : normalize_attr_value_available = true) (G : Globals) (v : AttrArg) :
    normalize_attr_value G (embArg v) = embRes (fun o => match o with | some w => embVal w | none => PVal.none) (normAttrValue v) := by
  first
  | exact absurd h (by decide)
  | (cases v <;> simp [normalize_attr_value, embArg, normAttrValue, embRes, embVal, embErr, pyOr, isNone, isBool, isInstance,
       builtinClasses, classBases, pyStr])

/-- `TagAttrDict.__setitem__` as the source has it = `attrsSetItem` -/
theorem src_setitem (h : TagAttrDict_setitem_available = true) (h1 : normalize_attr_value_available = true)
    (h2 : normalize_attr_name_available = true) (G : Globals) (cur : Attrs) (k : Str) (v : AttrArg) :
    TagAttrDict_setitem G (embAttrs cur) (.str k) (embArg v) = embRes embAttrs (attrsSetItem cur k v) := by
  first
  | exact absurd h (by decide)
  | (unfold TagAttrDict_setitem attrsSetItem
     rw [src_normalize_attr_value h1]
     cases hv : normAttrValue v with
     | error e => simp [embRes]
     | ok o =>
       cases o with
       | none => simp [embRes, isNone]
       | some w =>
         cases w <;> simp [embRes, isNone, src_normalize_attr_name h2, pySetItem, embAttrs, dictSet_emb_plain, dictSet_emb_html])


/-- `TagAttrDict.update(*args, **kwargs)` as the source has it = `attrsUpdate` on the positional dicts followed by the
    keyword dict when it is non-empty.  `hsp`: a space is not escaped by the text table (what `prev + " " + val`
    relies on when `prev` is `HTML`). -/
theorem src_update (h : TagAttrDict_update_available = true) (h1 : normalize_attr_value_available = true)
    (h2 : normalize_attr_name_available = true) (h3 : html_escape_available = true)
    (h4 : HTML_add_available = true) (h5 : HTML_radd_available = true) (h6 : HTML_as_string_available = true)
    (cfg : Cfg) (hsp : escText cfg [' '] = [' '])
    (ht : keysPlain cfg.textTbl = true) (ha : keysPlain cfg.attrTbl = true)
    (cur : Attrs) (args : List (List (Str × AttrArg))) (kw : List (Str × AttrArg)) :
    TagAttrDict_update (globalsOf cfg) (embAttrs cur) (.tuple (args.map embArgDict)) (embArgDict kw)
      = embRes embAttrs (attrsUpdate cfg cur (if kw.isEmpty then args else args ++ [kw])) := by
  first
  | exact absurd h (by decide)
  | exact absurd h4 (by decide)
  | exact absurd h5 (by decide)
  | skip
  all_goals (
    -- everything after `args` is fixed, for any list of dicts, whatever the loop body is and whatever else the loop
    -- state carries besides `attrz` (its first component)
    have rest : ∀ (ρ : Type) (ds : List (List (Str × AttrArg)))
        (ob : PVal → PVal × ρ → PyM (ForInStep (PVal × ρ))) (init : PVal × ρ), init.1 = embAttrs [] →
        (∀ (d : List (Str × AttrArg)) (acc : Attrs) (s : PVal × ρ), s.1 = embAttrs acc →
          Sim (fun (r : ForInStep (PVal × ρ)) (b' : Attrs) => ∃ s', r = .yield s' ∧ s'.1 = embAttrs b') embErr
            (ob (embArgDict d) s) (d.foldlM (fun acc kv => pairStep cfg kv acc) acc)) →
        (do
          let l ← pyIter (PVal.tuple (ds.map embArgDict))
          let s ← forIn l init ob
          let self ← pyDictUpdate (embAttrs cur) s.1
          Except.ok self : PyM PVal) = embRes embAttrs (attrsUpdate cfg cur ds) := by
      intro ρ ds ob init h0 hob
      have hl := forIn_sim (fun (s : PVal × ρ) (b : Attrs) => s.1 = embAttrs b)
        embErr embArgDict ds ob (fun d acc => d.foldlM (fun acc kv => pairStep cfg kv acc) acc) init [] h0
        (fun d _ s b hR => hob d b s hR)
      have hb := Sim.bind (R' := fun (t : PVal) (b : Attrs) => t = embAttrs (dictUpdate cur b)) hl
        (k := fun s => do
          let self ← pyDictUpdate (embAttrs cur) s.1
          Except.ok self)
        (by
          intro s b hR
          refine ⟨embAttrs (dictUpdate cur b), ?_, rfl⟩
          simp only [hR, embAttrs, pyDictUpdate, pure_eq_ok, ok_bind, dictUpdate_emb])
      simp only [pyIter_tuple, ok_bind]
      rw [attrsUpdate_fold]
      generalize List.foldlM (m := Except Err) (fun (acc : Attrs) (d : List (Str × AttrArg)) =>
        List.foldlM (fun acc kv => pairStep cfg kv acc) acc d) [] ds = y at hb ⊢
      cases y with
      | error e => exact hb
      | ok b => obtain ⟨t, ht, rfl⟩ := hb; exact ht
    have hv := fun v => src_normalize_attr_value h1 (globalsOf cfg) v
    have hn := fun k => src_normalize_attr_name h2 (globalsOf cfg) k
    have he := fun x => src_html_escape h3 cfg ht ha x true
    have he0 := fun x => src_html_escape h3 cfg ht ha x false
    have hsp' : htmlEscapeT cfg.textTbl [' '] = [' '] := hsp
    simp only [if_true, Bool.false_eq_true, if_false] at he he0
    have hkw : truthy (embArgDict kw) = !kw.isEmpty := by cases kw <;> rfl
    have hadd : pyAdd (globalsOf cfg) (PVal.tuple (args.map embArgDict)) (PVal.tuple [embArgDict kw])
        = .ok (PVal.tuple ((args ++ [kw]).map embArgDict)) := by simp [pyAdd, pyAddBase]
    -- one pass of the inner loop does what `pairStep` does, whatever else its state carries
    have inner : ∀ (ρ : Type) (ib : PVal → PVal × ρ → PyM (ForInStep (PVal × ρ))),
        (∀ (k : Str) (v : AttrArg) (acc' : Attrs) (rest : ρ),
          Sim (fun (r : ForInStep (PVal × ρ)) (b' : Attrs) => ∃ s', r = .yield s' ∧ s'.1 = embAttrs b') embErr
            (ib (PVal.tuple [PVal.str k, embArg v]) (embAttrs acc', rest)) (pairStep cfg (k, v) acc')) →
        ∀ (d : List (Str × AttrArg)) (acc : Attrs) (r0 : ρ),
          Sim (fun (s : PVal × ρ) (b : Attrs) => s.1 = embAttrs b) embErr
            (forIn (d.map ((fun kv : Str × PVal => PVal.tuple [PVal.str kv.1, kv.2]) ∘ fun kv : Str × AttrArg => (kv.1, embArg kv.2)))
              (embAttrs acc, r0) ib)
            (d.foldlM (fun acc kv => pairStep cfg kv acc) acc) := by
      intro ρ ib hib d acc r0
      refine forIn_sim (fun (s : PVal × ρ) (b : Attrs) => s.1 = embAttrs b) embErr _ d ib
        (fun kv acc => pairStep cfg kv acc) (embAttrs acc, r0) acc rfl ?_
      intro kv _ s acc' hs
      obtain ⟨k, v⟩ := kv
      obtain ⟨t1, t2⟩ := s
      simp only at hs; subst hs
      exact hib k v acc' t2
    unfold TagAttrDict_update
    simp only [ok_bind, pure_eq_ok, truthy_bool]
    cases hk : kw.isEmpty
    ·
      simp only [hkw, hk, Bool.not_false, Bool.not_true, if_true, hadd, ok_bind, Bool.false_eq_true, if_false]
      refine rest _ _ _ _ rfl ?_
      intro d acc s hs
      obtain ⟨s0, srest⟩ := s
      simp only at hs; subst hs
      simp only [embArgDict, pyItems_dict, pyIter_list, ok_bind, List.map_map]
      refine Sim.bind (inner _ _ ?_ d acc _) (fun s b hR => ⟨_, rfl, _, rfl, hR⟩)
      intro k v acc' rest'
      simp only [pyUnpack2_tuple, ok_bind, hv, pairStep]
      cases hnv : normAttrValue v with
      | error e => simp [embRes, Sim]
      | ok o =>
        cases o with
        | none => simp [embRes, Sim, isNone]
        | some w =>
          have hw : isNone (embVal w) = false := by cases w <;> rfl
          simp only [embRes, ok_bind, hw, Bool.false_eq_true, if_false, hn, pyIn, embAttrs, dictGet_emb, pure_eq_ok,
            truthy_bool, pyGetItem]
          cases hl : alookup (normAttrName k) acc' with
          | none => cases w <;> simp [Sim, pySetItem, dictSet_emb_plain, dictSet_emb_html]
          | some old =>
            cases old <;> cases w <;>
              simp [Sim, pySetItem, dictSet_emb_plain, dictSet_emb_html, isInstance, builtinClasses, pyAnd, he, he0, hsp',
                pyAdd, HTML_add, HTML_radd, HTML_as_string, pyAddBase, mergeVal, pyStr]
    ·
      simp only [hkw, hk, Bool.not_false, Bool.not_true, if_true, hadd, ok_bind, Bool.false_eq_true, if_false]
      refine rest _ _ _ _ rfl ?_
      intro d acc s hs
      obtain ⟨s0, srest⟩ := s
      simp only at hs; subst hs
      simp only [embArgDict, pyItems_dict, pyIter_list, ok_bind, List.map_map]
      refine Sim.bind (inner _ _ ?_ d acc _) (fun s b hR => ⟨_, rfl, _, rfl, hR⟩)
      intro k v acc' rest'
      simp only [pyUnpack2_tuple, ok_bind, hv, pairStep]
      cases hnv : normAttrValue v with
      | error e => simp [embRes, Sim]
      | ok o =>
        cases o with
        | none => simp [embRes, Sim, isNone]
        | some w =>
          have hw : isNone (embVal w) = false := by cases w <;> rfl
          simp only [embRes, ok_bind, hw, Bool.false_eq_true, if_false, hn, pyIn, embAttrs, dictGet_emb, pure_eq_ok,
            truthy_bool, pyGetItem]
          cases hl : alookup (normAttrName k) acc' with
          | none => cases w <;> simp [Sim, pySetItem, dictSet_emb_plain, dictSet_emb_html]
          | some old =>
            cases old <;> cases w <;>
              simp [Sim, pySetItem, dictSet_emb_plain, dictSet_emb_html, isInstance, builtinClasses, pyAnd, he, he0, hsp',
                pyAdd, HTML_add, HTML_radd, HTML_as_string, pyAddBase, mergeVal, pyStr])

/-- `update` for the tables as they are in the source right now -/
theorem src_update_now (h : TagAttrDict_update_available = true) (h1 : normalize_attr_value_available = true)
    (h2 : normalize_attr_name_available = true) (h3 : html_escape_available = true)
    (h4 : HTML_add_available = true) (h5 : HTML_radd_available = true) (h6 : HTML_as_string_available = true)
    (cur : Attrs) (args : List (List (Str × AttrArg))) (kw : List (Str × AttrArg)) :
    TagAttrDict_update (globalsOf cfgNow) (embAttrs cur) (.tuple (args.map embArgDict)) (embArgDict kw)
      = embRes embAttrs (attrsUpdate cfgNow cur (if kw.isEmpty then args else args ++ [kw])) :=
  src_update h h1 h2 h3 h4 h5 h6 cfgNow src_tables_ok.2.2 src_tables_ok.1 src_tables_ok.2.1 cur args kw

end HtmlVerif.SrcTie
