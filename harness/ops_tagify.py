"""Implementation side of the tagify / render() ops (C09; shared with C08/C11)."""
from __future__ import annotations

from adapters import Ranks, canon, canon_list, realize, realize_list, versions_in
from htmltools import Tag, TagList
from ops import op
from wire import Toks, enode, enodes, es, p_list, p_node


def ranks_for(terms) -> Ranks:
    """version ranks of one case: every version occurring anywhere in the input terms"""
    vs = []
    for n in terms:
        versions_in(n, vs)
    return Ranks(vs)


def rank_terms(terms):
    """rewrite the `vrank` field of every dependency in the terms to its rank among the versions of the case
    (the model compares versions through this number; it is computed by `packaging`, not guessed)"""
    ranks = ranks_for(terms)

    def fix(n):
        k = n[0]
        if k == "tag":
            return ("tag", n[1], n[2], n[3], [fix(c) for c in n[4]])
        if k == "dep":
            info = dict(n[1])
            info["vrank"] = ranks.of(info["version"])
            return ("dep", info, n[2], [fix(c) for c in n[3]])
        if k == "tobjL":
            return ("tobjL", n[1], [fix(c) for c in n[2]])
        if k == "tobj1":
            return ("tobj1", n[1], fix(n[2]))
        return n

    return [fix(n) for n in terms]


@op("tagify_list")
def _tagify_list(t: Toks) -> str:
    ns = p_list(t, p_node)
    ranks = ranks_for(ns)
    r = realize_list(ns).tagify()
    if type(r) is not TagList:
        return "bad-type " + type(r).__name__
    return enodes(canon_list(r, ranks))


@op("tagify_tag")
def _tagify_tag(t: Toks) -> str:
    n = p_node(t)
    ranks = ranks_for([n])
    r = realize(n).tagify()
    if not isinstance(r, Tag):
        return "bad-type " + type(r).__name__
    return enode(canon(r, ranks))


def _rendered(obj, ranks) -> str:
    r = obj.render()
    raw = obj.tagify().get_dependencies(dedup=False)
    return ("ok " + es(r["html"]) + " " + enodes([canon(d, ranks) for d in r["dependencies"]])
            + " " + enodes([canon(d, ranks) for d in raw]))


@op("render_full_list")
def _render_full_list(t: Toks) -> str:
    ns = p_list(t, p_node)
    return _rendered(realize_list(ns), ranks_for(ns))


@op("render_full_tag")
def _render_full_tag(t: Toks) -> str:
    n = p_node(t)
    return _rendered(realize(n), ranks_for([n]))


@op("doc_render")
def _doc_render(t: Toks) -> str:
    """HTMLDocument(*content).render(): markup and returned dependency list (Python-side oracle of C09 only:
    compared between a tree and the same tree with objects replaced by their expansion; version ranks not needed)"""
    from htmltools import HTMLDocument
    ns = p_list(t, p_node)
    r = HTMLDocument(*[realize(n) for n in ns]).render()
    return "ok " + es(r["html"]) + " " + enodes([canon(d, None) for d in r["dependencies"]])
