/-
Driver ops for the JSX area (model side) and the wire codec of the component tree.

  jnode := comp <name> [ <key> <jval> … ] [ jnode … ] | tag <name> [ attr … ] [ jnode … ]
         | str p|j|h <s> | meta <n> | dep <depinfo> | tobj <jnode> | tobjL [ jnode … ]
  jval  := vn | vt | vf | vm <txt> | vl T|F [ jval … ] | vd [ <key> <jval> … ] | vx <jnode>

Long strings in answers are compact tokens `~…` (safe characters as they are, others `%<hex>.`); the script body is sent once,
inside `str(tag)`, and stands as U+FFFC in the tag term (`elideBody` / `restoreBody`).

Answers
  jsx_tagify <jnode>                      → `<res> after <jnode> <jnode> <T|F> <T|F>`  (res = `ok <str> <node>` | `err <kind>`;
                                             component after 1 call, after 3 more calls, id-graph unchanged, same output again)
  jsx_init <name> <upper> <allowed> <kwargs> <kids> → `ok <jnode> <ok <str> | err <kind>>` | `err <kind>`
  jsx_render <jnode> <indent> <eol>       → `ok <str>` | `err <kind>`       (_render_react_js)
  jsx_attr <jval> / jsx_style <jval>      → `ok <str>` | `err <kind>`       (_serialize_attr / _serialize_style_attr)
  jsx_libfiles                            → `<name> <version> <src> <T|F exists> …` for react, react-dom
  jsx_alias <jnode>                       → the answer of jsx_tagify followed by `<T|F>`: the result shares no mutable object
                                             with the component (the implementation builds the tree with ONE object for
                                             structurally equal mutable sub-terms: aliasing)
  jsx_num <txt> <pynum>                   → `ok <str>` | `err <kind>`       the text written for the number whose str() is <txt>
        pynum := i <int> | f <neg T|F> <mant> <exp> | inf <neg T|F> | nan      (the number, exactly; used by `holds`)
-/
import HtmlVerif.Ops.Base
import HtmlVerif.Spec.Jsx

namespace HtmlVerif.Ops
open HtmlVerif HtmlVerif.Wire

/-! ### compact string tokens for long answers: `~` then the characters, unsafe ones as `%<hex>.` -/

def zSafe (c : Char) : Bool :=
  c.isAlphanum || "_-.,;:!?(){}[]<>=+*/'\"&#@^|$`".toList.contains c

def encZ (s : Str) : String :=
  String.ofList ('~' :: s.flatMap fun c => if zSafe c then [c] else '%' :: (toHex c.toNat).toList ++ ['.'])

/-- decode after the leading `~` -/
def decZ : List Char → Option Nat → Array Char → Except String Str
  | [], none, acc => .ok acc.toList
  | [], some _, _ => .error "unterminated escape in compact string"
  | c :: r, none, acc => if c = '%' then decZ r (some 0) acc else decZ r none (acc.push c)
  | c :: r, some n, acc =>
    if c = '.' then decZ r none (acc.push (Char.ofNat n))
    else match hexVal c with
      | some v => decZ r (some (n * 16 + v)) acc
      | none => .error "bad escape in compact string"

/-- a string token in either encoding -/
def zstr : P Str := do
  let t ← next
  match t.toList with
  | '~' :: r =>
    match decZ r none #[] with
    | .ok s => pure s
    | .error e => throw e
  | _ =>
    match decodeStr t with
    | .ok s => pure s
    | .error e => throw e

/-! ### the script body is sent once: inside `str(tag)`; in the tag term it is replaced by U+FFFC when
    `str(tag) = <open tag> ++ body ++ "</script>"` holds exactly, and restored by the same rule -/

def bodyMark : Str := [Char.ofNat 0xFFFC]
def scriptClose : Str := chars% "</script>"

/-- the text between the first `>` and the final `</script>` of `s`, if `s` has that shape -/
def bodyOf (s : Str) : Option Str :=
  let after := (s.dropWhile (· ≠ '>')).drop 1
  if s.contains '>' && scriptClose.length ≤ after.length
      && after.drop (after.length - scriptClose.length) == scriptClose then
    some (after.take (after.length - scriptClose.length))
  else none

def elideBody (s : Str) : Node → Node
  | .tag n w a (.cons (.html b) rest) => if bodyOf s == some b then .tag n w a (.cons (.html bodyMark) rest) else .tag n w a (.cons (.html b) rest)
  | x => x

def restoreBody (s : Str) : Node → Node
  | .tag n w a (.cons (.html b) rest) =>
    match bodyOf s with
    | some body => if b == bodyMark then .tag n w a (.cons (.html body) rest) else .tag n w a (.cons (.html b) rest)
    | none => .tag n w a (.cons (.html b) rest)
  | x => x

def strKind : P StrKind := do
  let t ← next
  match t with
  | "p" => pure .plain
  | "j" => pure .jsx
  | "h" => pure .html
  | _ => throw s!"bad strkind {t}"

mutual
  partial def jnode : P JNode := do
    let t ← next
    match t with
    | "comp" => do
      let name ← str; let ps ← jprops; let ks ← jnodes
      pure (.comp name ps ks)
    | "tag" => do
      let name ← str; let a ← listOf attr; let ks ← jnodes
      pure (.tag name a ks)
    | "str" => do let k ← strKind; let s ← str; pure (.str k s)
    | "meta" => do let n ← nat; pure (.md (.mnode n))
    | "dep" => do let d ← depInfo; pure (.md (.dep d))
    | "tobj" => do let e ← jnode; pure (.tobj e)
    | "tobjL" => do let es ← jnodes; pure (.tobjL es)
    | _ => throw s!"bad jnode {t}"
  partial def jnodes : P JNodes := do
    expect "["
    let rec loop (acc : Array JNode) : P JNodes := do
      match (← peek) with
      | some "]" => let _ ← next; pure (JNodes.ofList acc.toList)
      | _ => let x ← jnode; loop (acc.push x)
    loop #[]
  partial def jval : P JVal := do
    let t ← next
    match t with
    | "vn" => pure .null
    | "vt" => pure (.bool true)
    | "vf" => pure (.bool false)
    | "vm" => .num <$> str
    | "vl" => do
      let tup ← bool
      expect "["
      let rec loop (acc : Array JVal) : P JVals := do
        match (← peek) with
        | some "]" => let _ ← next; pure (JVals.ofList acc.toList)
        | _ => let x ← jval; loop (acc.push x)
      let vs ← loop #[]
      pure (.list tup vs)
    | "vd" => .dict <$> jprops
    | "vx" => .node <$> jnode
    | _ => throw s!"bad jval {t}"
  partial def jkwargs : P (List (Str × JVal)) := do
    expect "["
    let rec loop (acc : Array (Str × JVal)) : P (List (Str × JVal)) := do
      match (← peek) with
      | some "]" => let _ ← next; pure acc.toList
      | _ => let k ← str; let v ← jval; loop (acc.push (k, v))
    loop #[]
  partial def jprops : P JProps := do
    let l ← jkwargs
    pure (JProps.ofList l)
end

def encStrKind : StrKind → String
  | .plain => "p"
  | .jsx => "j"
  | .html => "h"

mutual
  partial def encJNode : JNode → String
    | .comp n p k => "comp " ++ encStr n ++ " " ++ encJProps p ++ " " ++ encJNodes k
    | .tag n a k => "tag " ++ encStr n ++ " " ++ encAttrs a ++ " " ++ encJNodes k
    | .str k s => "str " ++ encStrKind k ++ " " ++ encStr s
    | .md (.mnode n) => "meta " ++ toString n
    | .md (.dep d) => "dep " ++ encDepInfo d
    | .tobj e => "tobj " ++ encJNode e
    | .tobjL es => "tobjL " ++ encJNodes es
  partial def encJNodes (ks : JNodes) : String :=
    encList (ks.toList.map encJNode)
  partial def encJVal : JVal → String
    | .null => "vn"
    | .bool true => "vt"
    | .bool false => "vf"
    | .num t => "vm " ++ encStr t
    | .list tup vs => "vl " ++ encBool tup ++ " " ++ encList (vs.toList.map encJVal)
    | .dict fs => "vd " ++ encJProps fs
    | .node n => "vx " ++ encJNode n
  partial def encJProps (ps : JProps) : String :=
    encList (ps.toList.map fun (k, v) => encStr k ++ " " ++ encJVal v)
end

/-- `allowedProps`: `N` | `L [ <s> … ]` -/
def allowedArg : P (Option (List Str)) := do
  let t ← next
  if t == "N" then pure none
  else if t == "L" then some <$> listOf str
  else throw s!"bad allowed {t}"

/-- the pinned React versions, as `_versions.py` has them right now -/
def jsxVersions : List (Str × Str) := Generated.reactVersions

/-- `ok <str(tag)> <tag>` | `err <kind>` for a tagify result -/
def encTagifyRes (r : Except Err Node) : String :=
  match r with
  | .ok n =>
    let s := n.render cfg 0 ['\n']
    "ok " ++ encZ s ++ " " ++ encNode (elideBody s n)
  | .error e => "err " ++ encErr e

def libRow (pkg src : Str) : String :=
  match alookup pkg jsxVersions with
  | some v => encStr pkg ++ " " ++ encStr v ++ " " ++ encStr src ++ " T"
  | none => encStr pkg ++ " missing"

/-- the Python number on the wire, exactly -/
def pyNum : P PyNum := do
  let t ← next
  match t with
  | "i" => .int <$> int
  | "f" => do let n ← bool; let m ← nat; let e ← int; pure (.float n m e)
  | "inf" => .inf <$> bool
  | "nan" => pure .nan
  | _ => throw s!"bad pynum {t}"

/-- four conversions of one component (tagify, str, tagify, tagify) -/
def tagifyAnswer (x : JNode) : String :=
  let o1 := x.tagify .demanded jsxVersions
  let o4 := o1.after.tagifyN .demanded jsxVersions 2
  let again := match o1.result, o4.result with
    | .ok a, .ok b => a.beq b
    | .error a, .error b => a == b
    | _, _ => false
  encTagifyRes o1.result ++ " after " ++ encJNode o1.after ++ " " ++ encJNode o4.after ++ " T " ++ encBool again

def jsxOps : OpTable
  | "jsx_tagify" => some do
    let x ← jnode
    pure (tagifyAnswer x)
  | "jsx_alias" => some do
    -- purity makes sharing invisible: the same answer as for the tree, and nothing of the component is in the result
    let x ← jnode
    pure (tagifyAnswer x ++ " T")
  | "jsx_num" => some do
    let t ← str; let _ ← pyNum
    pure (encExcept encZ (JVal.num t).serialize)
  | "jsx_init" => some do
    let name ← str; let up ← str; let allowed ← allowedArg; let kw ← jkwargs; let ks ← jnodes
    match jsxInit (fun _ => up) name allowed kw ks with
    | .error e => pure ("err " ++ encErr e)
    | .ok x =>
      let r := (x.tagify .demanded jsxVersions).result
      pure ("ok " ++ encJNode x ++ " " ++ (match r with
        | .ok n => "ok " ++ encZ (n.render cfg 0 ['\n'])
        | .error e => "err " ++ encErr e))
  | "jsx_render" => some do
    let x ← jnode; let i ← nat; let e ← str
    pure (encExcept encZ (x.renderJs i e))
  | "jsx_attr" => some do
    let v ← jval
    pure (encExcept encZ v.serialize)
  | "jsx_style" => some do
    let v ← jval
    pure (encExcept encZ v.serializeStyle)
  | "jsx_libfiles" => some do
    pure (libRow (chars% "react") (chars% "react.production.min.js") ++ " "
      ++ libRow (chars% "react-dom") (chars% "react-dom.production.min.js"))
  | _ => none

end HtmlVerif.Ops
