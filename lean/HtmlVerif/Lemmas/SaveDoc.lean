/-
Helper lemmas for C12, part 5: from `as_dict`'s URLs to the attributes of the `<link>` / `<script>` tags of
`as_html_tags`, and from there into the head of the rendered document.
-/
import HtmlVerif.Lemmas.Document
import HtmlVerif.Lemmas.Consolidate
import HtmlVerif.Lemmas.Save
import HtmlVerif.Lemmas.DepTags
import HtmlVerif.Model.SaveDoc

namespace HtmlVerif
open HtmlVerif.Doc

/-! ### `Tag(name, **s)` keeps the value of a key that is alone in normalising to its name -/

theorem alookup_mem {β} {k : Str} {s : List (Str × β)} {u : β} (h : alookup k s = some u) : (k, u) ∈ s := by
  induction s with
  | nil => simp [alookup] at h
  | cons e r ih =>
    obtain ⟨k', v⟩ := e
    by_cases hk : k' = k
    · subst hk; simp [alookup] at h; subst h; simp
    · simp [alookup, hk] at h; exact List.mem_cons_of_mem _ (ih h)

theorem normPairs_strs (s : KVs) :
    normPairs (s.map fun kv => (kv.1, AttrArg.str kv.2)) = s.map fun kv => (normNameSpec kv.1, AttrVal.plain kv.2) := by
  induction s with
  | nil => rfl
  | cons e r ih =>
    simp only [normPairs, List.map_cons, List.filterMap_cons, normValSpec, Option.map_some] at ih ⊢
    rw [ih]

theorem groupVals_strs (k : Str) (s : KVs) :
    groupVals k (s.map fun kv => (normNameSpec kv.1, AttrVal.plain kv.2))
      = (s.filter fun kv => normAttrName kv.1 == k).map fun kv => AttrVal.plain kv.2 := by
  induction s with
  | nil => rfl
  | cons e r ih =>
    simp only [groupVals, List.map_cons, List.filterMap_cons, List.filter_cons] at ih ⊢
    rw [normAttrName_eq_spec]
    by_cases h : normNameSpec e.1 = k
    · simp [h, ih]
    · simp [h, ih]

theorem soleKey_filter {k : Str} {s : KVs} {u : Str} (hs : SoleKey k s = true) (hk : normAttrName k = k)
    (hl : alookup k s = some u) : (s.filter fun kv => normAttrName kv.1 == k) = [(k, u)] := by
  have hm : (k, u) ∈ s.filter fun kv => normAttrName kv.1 == k := by
    rw [List.mem_filter]; exact ⟨alookup_mem hl, by simp [hk]⟩
  simp only [SoleKey, beq_iff_eq] at hs
  generalize s.filter (fun kv => normAttrName kv.1 == k) = l at hs hm
  match l, hs, hm with
  | [x], _, hm => simp at hm; rw [hm]

/-- `Tag(name, **s)`: a childless tag whose attribute `k` is the plain value of `s[k]` -/
theorem mkTag_attr {cfg : Cfg} {name : Str} {s : KVs} {t : Node} (h : mkTag cfg name s = .ok t)
    {k u : Str} (hs : SoleKey k s = true) (hk : normAttrName k = k) (hl : alookup k s = some u) :
    tagAttr name k t = some (.plain u) := by
  unfold mkTag at h
  split at h
  · cases h
  · split at h
    · cases h
    · rename_i a ha
      cases h
      obtain ⟨rfl, _⟩ := tagInitAttrs_ok_inv cfg [] _ a ha
      simp only [tagAttr, if_true, List.flatten_nil, List.nil_append, mergeSpec]
      rw [alookup_mergeSpecN, normPairs_strs, groupVals_strs, soleKey_filter hs hk hl]
      simp [joinVals]

/-! ### `SoleKey` survives the updates `as_dict` makes -/

theorem keys_kvSet (k v : Str) (s : KVs) :
    (kvSet k v s).map Prod.fst = if k ∈ s.map Prod.fst then s.map Prod.fst else s.map Prod.fst ++ [k] := by
  induction s with
  | nil => simp [kvSet]
  | cons e r ih =>
    obtain ⟨k', v'⟩ := e
    by_cases h : k' = k
    · subst h; simp [kvSet]
    · have h' : ¬ k = k' := fun e => h e.symm
      simp only [kvSet, h, if_false, List.map_cons, ih, List.mem_cons, h', false_or]
      split <;> simp

theorem soleKey_keys (k : Str) (s : KVs) :
    SoleKey k s = (((s.map Prod.fst).filter fun x => normAttrName x == k).length == 1) := by
  simp only [SoleKey, List.filter_map, List.length_map]
  rfl

theorem soleKey_kvSet_mem (k k' v : Str) (s : KVs) (h : k' ∈ s.map Prod.fst) :
    SoleKey k (kvSet k' v s) = SoleKey k s := by
  rw [soleKey_keys, soleKey_keys, keys_kvSet, if_pos h]

theorem soleKey_kvSet_other (k k' v : Str) (s : KVs) (h : normAttrName k' ≠ k) :
    SoleKey k (kvSet k' v s) = SoleKey k s := by
  rw [soleKey_keys, soleKey_keys, keys_kvSet]
  split
  · rfl
  · simp [List.filter_append, h]

theorem key_mem_of_alookup {β} {k : Str} {s : List (Str × β)} {u : β} (h : alookup k s = some u) :
    k ∈ s.map Prod.fst :=
  List.mem_map.mpr ⟨(k, u), alookup_mem h, rfl⟩

theorem normAttrName_src : normAttrName dtKSrc = dtKSrc := by decide
theorem normAttrName_href : normAttrName dtKHref = dtKHref := by decide
theorem normAttrName_rel_ne_href : normAttrName dtKRel ≠ dtKHref := by decide

/-! ### the tags of `as_html_tags` carry the URLs of `as_dict` -/

/-- `[Tag("script", **s) for s in d["script"]]`: the `src` of the i-th tag is the URL of the i-th script -/
theorem scriptTags_urls {cfg : Cfg} {base : Str} : ∀ {l r : List KVs} {ts : List Node},
    asDictScripts base l = .ok r → mkTags cfg nScript r = .ok ts → (∀ s ∈ l, SoleKey dtKSrc s = true) →
    ts.map (tagAttr nScript dtKSrc)
      = l.map fun s => (alookup dtKSrc s).map fun p => AttrVal.plain (posixJoin base (quote p)) := by
  intro l
  induction l with
  | nil => intro r ts h1 h2 _; cases h1; cases h2; rfl
  | cons s t ih =>
    intro r ts h1 h2 hs
    unfold asDictScripts at h1
    split at h1
    · cases h1
    · rename_i p hp
      split at h1
      · cases h1
      · rename_i r' hr'
        cases h1
        unfold mkTags at h2
        split at h2
        · cases h2
        · rename_i tg htg
          split at h2
          · cases h2
          · rename_i ts' hts'
            cases h2
            have hsole : SoleKey dtKSrc (kvSet dtKSrc (posixJoin base (quote p)) s) = true := by
              rw [soleKey_kvSet_mem _ _ _ _ (key_mem_of_alookup hp)]; exact hs s (by simp)
            have := mkTag_attr htg hsole normAttrName_src (alookup_kvSet ..)
            simp only [List.map_cons, this, hp, Option.map_some, ih hr' hts' (fun x hx => hs x (by simp [hx]))]

/-- `[Tag("link", **s) for s in d["stylesheet"]]`: the `href` of the i-th tag is the URL of the i-th stylesheet -/
theorem sheetTags_urls {cfg : Cfg} {base : Str} : ∀ {l r : List KVs} {ts : List Node},
    asDictSheets base l = .ok r → mkTags cfg nLink r = .ok ts → (∀ s ∈ l, SoleKey dtKHref s = true) →
    ts.map (tagAttr nLink dtKHref)
      = l.map fun s => (alookup dtKHref s).map fun p => AttrVal.plain (posixJoin base (quote p)) := by
  intro l
  induction l with
  | nil => intro r ts h1 h2 _; cases h1; cases h2; rfl
  | cons s t ih =>
    intro r ts h1 h2 hs
    unfold asDictSheets at h1
    split at h1
    · cases h1
    · rename_i p hp
      split at h1
      · cases h1
      · rename_i r' hr'
        cases h1
        unfold mkTags at h2
        split at h2
        · cases h2
        · rename_i tg htg
          split at h2
          · cases h2
          · rename_i ts' hts'
            cases h2
            have hne : dtKHref ≠ dtKRel := by decide
            have hsole : SoleKey dtKHref (kvSet dtKRel vStylesheet (kvSet dtKHref (posixJoin base (quote p)) s)) = true := by
              rw [soleKey_kvSet_other _ _ _ _ normAttrName_rel_ne_href,
                soleKey_kvSet_mem _ _ _ _ (key_mem_of_alookup hp)]
              exact hs s (by simp)
            have hl : alookup dtKHref (kvSet dtKRel vStylesheet (kvSet dtKHref (posixJoin base (quote p)) s))
                = some (posixJoin base (quote p)) := by
              rw [alookup_kvSet_ne _ _ _ _ hne, alookup_kvSet]
            have := mkTag_attr htg hsole normAttrName_href hl
            simp only [List.map_cons, this, hp, Option.map_some, ih hr' hts' (fun x hx => hs x (by simp [hx]))]

/-- every script / stylesheet dict of the dependency has one key only that becomes `src` / `href` -/
def SoleKeys (d : DepInfo) : Bool := d.script.all (SoleKey dtKSrc) && d.stylesheet.all (SoleKey dtKHref)

/-- **`as_html_tags` writes the URLs of `as_dict`**: meta tags, then one `<link>` per stylesheet whose `href` is
    `urlOf` of its path, then one `<script>` per script whose `src` is `urlOf` of its path, then the head -/
theorem asHtmlTags_urls {cfg : Cfg} {d : DepInfo} {hh : Bool} {head : Nodes} {lp : Option Str} {iv : Bool} {ts : Nodes}
    (h : asHtmlTags cfg d hh head lp iv = .ok ts) (hk : SoleKeys d = true) :
    ∃ metas links scripts : List Node,
      ts = Nodes.ofList (metas ++ links ++ scripts) ++ (if hh then head else .nil) ∧
      (∀ t ∈ metas, ∃ a, t = .tag nMeta true a .nil) ∧ (∀ t ∈ links, ∃ a, t = .tag nLink true a .nil) ∧
      (∀ t ∈ scripts, ∃ a, t = .tag nScript true a .nil) ∧
      links.map (tagAttr nLink dtKHref)
        = d.stylesheet.map (fun s => (alookup dtKHref s).map fun p => AttrVal.plain (urlOf d lp iv p)) ∧
      scripts.map (tagAttr nScript dtKSrc)
        = d.script.map (fun s => (alookup dtKSrc s).map fun p => AttrVal.plain (urlOf d lp iv p)) := by
  simp only [SoleKeys, Bool.and_eq_true, List.all_eq_true] at hk
  unfold asHtmlTags at h
  split at h
  · cases h
  · rename_i dd hdd
    split at h
    · cases h
    · rename_i metas hm
      split at h
      · cases h
      · rename_i links hl
        split at h
        · cases h
        · rename_i scripts hs
          cases h
          have hdict : asDictSheets (sourcePathMap d lp iv).href d.stylesheet = .ok dd.stylesheet ∧
              asDictScripts (sourcePathMap d lp iv).href d.script = .ok dd.script := by
            unfold asDict at hdd
            simp only at hdd
            split at hdd
            · cases hdd
            · rename_i sheets hsh
              split at hdd
              · cases hdd
              · rename_i scr hsc
                split at hdd
                · split at hdd
                  · cases hdd
                  · cases hdd; exact ⟨hsh, hsc⟩
                · cases hdd; exact ⟨hsh, hsc⟩
          refine ⟨metas, links, scripts, rfl, (mkTags_shape hm).2, (mkTags_shape hl).2, (mkTags_shape hs).2, ?_, ?_⟩
          · exact sheetTags_urls hdict.1 hl hk.2
          · exact scriptTags_urls hdict.2 hs hk.1

/-! ### one dependency's block inside the markup appended to the head -/

theorem depMarkupAll_mem {cfg : Cfg} {lp : Option Str} {iv : Bool} : ∀ {ds : List Node} {ms : Nodes},
    depMarkupAll cfg lp iv ds = .ok ms → ∀ x ∈ ds,
      ∃ ts pre post, depTags cfg lp iv x = .ok ts ∧ ms = pre ++ ts.expandAll ++ post := by
  intro ds
  induction ds with
  | nil => intro ms _ x hx; cases hx
  | cons d r ih =>
    intro ms h x hx
    unfold depMarkupAll at h
    split at h
    · cases h
    · rename_i ts hts
      split at h
      · cases h
      · rename_i rs hrs
        cases h
        rcases List.mem_cons.mp hx with rfl | hx
        · unfold depMarkup at hts
          split at hts
          · cases hts
          · rename_i ts' hts'
            cases hts
            exact ⟨ts', .nil, rs, hts', by simp⟩
        · obtain ⟨ts', pre, post, h1, h2⟩ := ih hrs x hx
          exact ⟨ts', ts ++ pre, post, h1, by rw [h2]; simp [Nodes.append_assoc]⟩

theorem expandAll_ofList_childless {ts : List Node} (h : ChildlessTags ts) :
    (Nodes.ofList ts).expandAll = Nodes.ofList ts := (childless_expand h).1

/-- `rendered["dependencies"]`, as the copier sees them, when it is the resolved list -/
theorem mem_depInfos {d : DepInfo} {hh : Bool} {hd : Nodes} {ds : List Node} (h : Node.dep d hh hd ∈ ds) :
    d ∈ depInfos ds := by
  simp only [depInfos, List.mem_filterMap]
  exact ⟨_, h, rfl⟩

theorem docFs_of_ok {cfg : Cfg} {content : Nodes} {kw : List (Str × AttrArg)} {lp : Option Str} {iv : Bool}
    {r : DocRendered} (h : docRender cfg content kw lp iv = .ok r) :
    docFs cfg content kw lp iv = { html := r.html, deps := depInfos r.deps } := by
  simp [docFs, h]

end HtmlVerif
