import HtmlVerif.Model.Equality

namespace HtmlVerif

theorem alookup_self_of_nodup {β} (a : List (Str × β)) (h : (a.map (·.1)).Nodup) (kv : Str × β) (hm : kv ∈ a) :
    alookup kv.1 a = some kv.2 := by
  induction a with
  | nil => cases hm
  | cons x r ih =>
    simp only [List.map_cons, List.nodup_cons] at h
    rcases List.mem_cons.mp hm with rfl | hr
    · simp [alookup]
    · have hne : x.1 ≠ kv.1 := by
        intro e; exact h.1 (e ▸ List.mem_map_of_mem (f := (·.1)) hr)
      simp [alookup, hne, ih h.2 hr]

theorem attrsEqv_refl (a : Attrs) (h : (a.map (·.1)).Nodup) : attrsEqv a a = true := by
  simp only [attrsEqv, beq_self_eq_true, Bool.true_and, List.all_eq_true]
  intro kv hm
  rw [alookup_self_of_nodup a h kv hm]; simp

theorem kvDictEqv_refl (a : List (Str × Str)) (h : (a.map (·.1)).Nodup) : kvDictEqv a a = true := by
  simp only [kvDictEqv, beq_self_eq_true, Bool.true_and, List.all_eq_true]
  intro kv hm
  rw [alookup_self_of_nodup a h kv hm]; simp

theorem kvDictsEqv_refl (ds : List (List (Str × Str))) (h : ∀ d ∈ ds, (d.map (·.1)).Nodup) :
    kvDictsEqv ds ds = true := by
  induction ds with
  | nil => rfl
  | cons d r ih =>
    simp [kvDictsEqv, kvDictEqv_refl d (h d (by simp)), ih (fun x hx => h x (by simp [hx]))]

theorem sourceEqv_refl (s : DepSource) : sourceEqv s s = true := by cases s <;> simp [sourceEqv]

end HtmlVerif
