/-
Helper lemmas for C17: facts about the primitive steps (`callHook`, `enterTag`, `exitTag`) and the
invariants of `exec` proved by mutual induction over programs.
-/
import HtmlVerif.Spec.Hook

namespace HtmlVerif.Hook
open HtmlVerif

/-! ### primitive steps -/

@[simp] theorem addChildren_hook (s : St) (t : TagId) (its : List Item) : (s.addChildren t its).hook = s.hook := rfl
@[simp] theorem addChildren_outer (s : St) (t : TagId) (its : List Item) : (s.addChildren t its).outer = s.outer := rfl

@[simp] theorem addChildren_prev (s : St) (t u : TagId) (its : List Item) :
    ((s.addChildren t its).tags u).prev = (s.tags u).prev := by
  simp only [St.addChildren]; split <;> simp_all

@[simp] theorem addChildren_children_self (s : St) (t : TagId) (its : List Item) :
    ((s.addChildren t its).tags t).children = (s.tags t).children ++ its := by
  simp [St.addChildren]

theorem addChildren_children_ne (s : St) (t u : TagId) (its : List Item) (h : u ≠ t) :
    ((s.addChildren t its).tags u).children = (s.tags u).children := by
  simp [St.addChildren, h]

theorem addChildren_nil (s : St) (t : TagId) : s.addChildren t [] = s := by
  cases s with
  | mk hk tg ou =>
    simp only [St.addChildren, List.append_nil]
    congr
    funext u
    split <;> simp_all

/-- the wrapper installed by `__enter__`, as one equation -/
theorem callHook_wrap (t : TagId) (v : Val) (s : St) :
    callHook (.wrap t) v s = (normDisplayed v).map (s.addChildren t) := by
  simp only [callHook, normDisplayed]
  cases h : wrapFilter v with
  | none => simp [Except.map, addChildren_nil]
  | some v' => simp only []; cases toItems v' <;> rfl

theorem callHook_hook {h : HookId} {v : Val} {s s' : St} (hc : callHook h v s = .ok s') : s'.hook = s.hook := by
  cases h with
  | outer => simp [callHook] at hc; subst hc; rfl
  | unset => simp [callHook] at hc
  | wrap t =>
    rw [callHook_wrap] at hc
    cases hn : normDisplayed v <;> simp_all [Except.map]
    subst hc; rfl

theorem callHook_prev {h : HookId} {v : Val} {s s' : St} (hc : callHook h v s = .ok s') (u : TagId) :
    (s'.tags u).prev = (s.tags u).prev := by
  cases h with
  | outer => simp [callHook] at hc; subst hc; rfl
  | unset => simp [callHook] at hc
  | wrap t =>
    rw [callHook_wrap] at hc
    cases hn : normDisplayed v <;> simp_all [Except.map]
    subst hc; simp

theorem callHook_children_ne {h : HookId} {v : Val} {s s' : St} (hc : callHook h v s = .ok s') (u : TagId)
    (hne : h ≠ .wrap u) : (s'.tags u).children = (s.tags u).children := by
  cases h with
  | outer => simp [callHook] at hc; subst hc; rfl
  | unset => simp [callHook] at hc
  | wrap t =>
    rw [callHook_wrap] at hc
    cases hn : normDisplayed v <;> simp_all [Except.map]
    subst hc
    exact addChildren_children_ne _ _ _ _ (Ne.symm hne)

theorem callHook_outer_ne {h : HookId} {v : Val} {s s' : St} (hc : callHook h v s = .ok s')
    (hne : h ≠ .outer) : s'.outer = s.outer := by
  cases h with
  | outer => exact absurd rfl hne
  | unset => simp [callHook] at hc
  | wrap t =>
    rw [callHook_wrap] at hc
    cases hn : normDisplayed v <;> simp_all [Except.map]
    subst hc; rfl

/-- handing a Tag to any installed hook succeeds -/
theorem callHook_tagRef_ok (h : HookId) (t : TagId) (s : St) (hu : h ≠ .unset) :
    ∃ s', callHook h (.tagRef t) s = .ok s' := by
  cases h with
  | outer => exact ⟨_, rfl⟩
  | unset => exact absurd rfl hu
  | wrap x => exact ⟨s.addChildren x [.tagRef t], by simp [callHook, wrapFilter, toItems, Val.flat, toNodes, nodeOf]⟩

/-! ### the child rules: `flatten`, then the loop -/

theorem nodeOf_toVal (i : Item) : nodeOf i.toVal = .ok i := by cases i <;> rfl

theorem toNodes_map_toVal (its : List Item) : toNodes (its.map Item.toVal) = .ok its := by
  induction its with
  | nil => rfl
  | cons i its ih => simp [toNodes, nodeOf_toVal, ih]

theorem nodeOf_error {v : Val} {e : Err} (h : nodeOf v = .error e) : e = .typeError := by
  cases v <;> simp [nodeOf] at h <;> exact h.symm

theorem toNodes_error {l : List Val} {e : Err} (h : toNodes l = .error e) : e = .typeError := by
  induction l with
  | nil => simp [toNodes] at h
  | cons v l ih =>
    simp only [toNodes] at h
    cases hv : nodeOf v with
    | error e' => rw [hv] at h; simp at h; subst h; exact nodeOf_error hv
    | ok i =>
      rw [hv] at h
      cases hl : toNodes l with
      | error e' => rw [hl] at h; simp at h; subst h; exact ih hl
      | ok is => rw [hl] at h; simp at h

theorem toNodes_append (a b : List Val) : toNodes (a ++ b) = appendE (toNodes a) (toNodes b) := by
  induction a with
  | nil => cases hb : toNodes b <;> simp [toNodes, appendE, hb]
  | cons v a ih =>
    simp only [List.cons_append, toNodes, ih]
    cases nodeOf v with
    | error e => simp [appendE]
    | ok i =>
      cases toNodes a with
      | error e => simp [appendE]
      | ok x => cases toNodes b <;> simp [appendE]

/-- the loop failed -/
def failed : Except Err (List Item) → Bool
  | .error _ => true
  | .ok _ => false

theorem failed_appendE (a b : Except Err (List Item)) : failed (appendE a b) = (failed a || failed b) := by
  cases a <;> cases b <;> simp [failed, appendE]

mutual
  /-- `append(v)` raises exactly when `v` is, or contains at any depth of lists/tuples, a value that is no TagChild -/
  theorem Val.failed_iff (v : Val) : failed (toNodes v.flat) = v.badChild := by
    cases v with
    | list vs => simp only [Val.flat, Val.badChild]; exact Vals.failed_iff vs
    | tuple vs => simp only [Val.flat, Val.badChild]; exact Vals.failed_iff vs
    | tagList its => simp [Val.flat, Val.badChild, toNodes_map_toVal, failed]
    | none => rfl
    | ellipsis => rfl
    | invalid => rfl
    | text s => rfl
    | num s => rfl
    | html s => rfl
    | reprHtml s => rfl
    | tagRef t => rfl
    | tagifiable s => rfl
    | tagifiableRepr s => rfl
  theorem Vals.failed_iff (vs : Vals) : failed (toNodes vs.flat) = vs.anyBadChild := by
    cases vs with
    | nil => rfl
    | cons v vs =>
      simp only [Vals.flat, Vals.anyBadChild, toNodes_append, failed_appendE]
      rw [Val.failed_iff v, Vals.failed_iff vs]
end

theorem toItems_error_iff (v : Val) (e : Err) : toItems v = .error e ↔ e = .typeError ∧ v.badChild = true := by
  have h := Val.failed_iff v
  unfold toItems
  cases hn : toNodes v.flat with
  | error e' =>
    rw [hn] at h
    have := toNodes_error hn
    subst this
    simp only [failed] at h
    constructor
    · intro he; injection he with he; exact ⟨he.symm, h.symm⟩
    · intro he; rw [he.1]
  | ok its =>
    rw [hn] at h
    simp only [failed] at h
    constructor
    · intro he; cases he
    · intro he; rw [he.2] at h; cases h

/-! ### `__enter__` / `__exit__` -/

@[simp] theorem entered_hook (s : St) (t : TagId) : (s.entered t).hook = .wrap t := rfl
@[simp] theorem entered_outer (s : St) (t : TagId) : (s.entered t).outer = s.outer := rfl
@[simp] theorem entered_children (s : St) (t u : TagId) : ((s.entered t).tags u).children = (s.tags u).children := by
  simp only [St.entered]; split <;> simp_all
@[simp] theorem entered_prev_self (s : St) (t : TagId) : ((s.entered t).tags t).prev = some s.hook := by
  simp [St.entered]
theorem entered_prev_ne (s : St) (t u : TagId) (h : u ≠ t) : ((s.entered t).tags u).prev = (s.tags u).prev := by
  simp [St.entered, h]

theorem enterTag_none {s : St} {t : TagId} (h : (s.tags t).prev = none) : enterTag t s = .ok (s.entered t) := by
  simp [enterTag, h]

theorem enterTag_some {s : St} {t : TagId} (h : (s.tags t).prev ≠ none) : enterTag t s = .error .runtimeError := by
  cases hp : (s.tags t).prev with
  | none => exact absurd hp h
  | some x => simp [enterTag, hp]

/-- a block whose tag has not been entered: `__enter__`, body, `__exit__` -/
theorem block_exec_none {s : St} {t : TagId} (b : Progs) (h : (s.tags t).prev = none) :
    (Prog.block t b).exec s =
      ((exitTag t (b.exec (s.entered t)).1).1,
       withOutcome (b.exec (s.entered t)).2 (exitTag t (b.exec (s.entered t)).1).2) := by
  simp [Prog.exec, enterTag_none h]

theorem block_exec_some {s : St} {t : TagId} (b : Progs) (h : (s.tags t).prev ≠ none) :
    (Prog.block t b).exec s = (s, .raised .runtimeError) := by
  simp [Prog.exec, enterTag_some h]

theorem exitTag_prev (t u : TagId) (s : St) : ((exitTag t s).1.tags u).prev = (s.tags u).prev := by
  simp only [exitTag]
  split
  · next s2 hc => simpa using callHook_prev hc u
  · rfl

theorem exitTag_hook {t : TagId} {s : St} {h : HookId} (hp : (s.tags t).prev = some h) :
    (exitTag t s).1.hook = h := by
  simp only [exitTag, hp]
  split
  · next s2 hc => simpa using callHook_hook hc
  · rfl

/-- with a proper hook saved, `__exit__` does not raise and hands the tag to that hook -/
theorem exitTag_ok {t : TagId} {s : St} {h : HookId} (hp : (s.tags t).prev = some h) (hu : h ≠ .unset) :
    ∃ s2, callHook h (.tagRef t) { s with hook := h } = .ok s2 ∧ exitTag t s = (s2, .done) := by
  obtain ⟨s2, hs2⟩ := callHook_tagRef_ok h t { s with hook := h } hu
  exact ⟨s2, hs2, by simp [exitTag, hp, hs2]⟩

theorem exitTag_children_ne {t u : TagId} {s : St} {h : HookId} (hp : (s.tags t).prev = some h) (hne : h ≠ .wrap u) :
    ((exitTag t s).1.tags u).children = (s.tags u).children := by
  simp only [exitTag, hp]
  split
  · next s2 hc => simpa using callHook_children_ne hc u hne
  · rfl

theorem exitTag_outer_ne {t : TagId} {s : St} {h : HookId} (hp : (s.tags t).prev = some h) (hne : h ≠ .outer) :
    (exitTag t s).1.outer = s.outer := by
  simp only [exitTag, hp]
  split
  · next s2 hc => simpa using callHook_outer_ne hc hne
  · rfl

theorem exitTag_wrap {t x : TagId} {s : St} (hp : (s.tags t).prev = some (.wrap x)) :
    exitTag t s = (({ s with hook := .wrap x } : St).addChildren x [.tagRef t], .done) := by
  simp [exitTag, hp, callHook, wrapFilter, toItems, Val.flat, toNodes, nodeOf]

theorem exitTag_outer {t : TagId} {s : St} (hp : (s.tags t).prev = some .outer) :
    exitTag t s = ({ s with hook := .outer, outer := s.outer ++ [.tagRef t] }, .done) := by
  simp [exitTag, hp, callHook]

/-! ### invariants of `exec`, by mutual induction over programs -/

mutual
  /-- a `prev_displayhook` that is set is never changed again -/
  theorem Prog.exec_prev (p : Prog) (s : St) (u : TagId) (h : HookId) (hp : (s.tags u).prev = some h) :
      ((p.exec s).1.tags u).prev = some h := by
    cases p with
    | display v =>
      simp only [Prog.exec]
      split
      · next s' hc => simpa [callHook_prev hc u] using hp
      · exact hp
    | raise => exact hp
    | rebind _ => exact hp
    | block t b =>
      by_cases ht : (s.tags t).prev = none
      · rw [block_exec_none b ht, exitTag_prev]
        apply Progs.exec_prev b
        have hne : u ≠ t := by intro e; subst e; simp [ht] at hp
        rw [entered_prev_ne _ _ _ hne]; exact hp
      · rw [block_exec_some b ht]; exact hp
  theorem Progs.exec_prev (ps : Progs) (s : St) (u : TagId) (h : HookId) (hp : (s.tags u).prev = some h) :
      ((ps.exec s).1.tags u).prev = some h := by
    cases ps with
    | nil => exact hp
    | cons p ps =>
      have h1 := Prog.exec_prev p s u h hp
      simp only [Progs.exec]
      split
      · next s' he => rw [he] at h1; exact Progs.exec_prev ps s' u h h1
      · next s' e he => rw [he] at h1; exact h1
end

mutual
  /-- `sys.displayhook` after any statement is what it was before it -/
  theorem Prog.exec_hook (p : Prog) (s : St) : (p.exec s).1.hook = s.hook := by
    cases p with
    | display v =>
      simp only [Prog.exec]
      split
      · next s' hc => exact callHook_hook hc
      · rfl
    | raise => rfl
    | rebind _ => rfl
    | block t b =>
      by_cases ht : (s.tags t).prev = none
      · rw [block_exec_none b ht]
        exact exitTag_hook (Progs.exec_prev b _ t s.hook (entered_prev_self s t))
      · rw [block_exec_some b ht]
  theorem Progs.exec_hook (ps : Progs) (s : St) : (ps.exec s).1.hook = s.hook := by
    cases ps with
    | nil => rfl
    | cons p ps =>
      have h1 := Prog.exec_hook p s
      simp only [Progs.exec]
      split
      · next s' he => rw [he] at h1; rw [Progs.exec_hook ps s', h1]
      · next s' e he => rw [he] at h1; exact h1
end

theorem ne_of_prev {s : St} {t u : TagId} (ht : (s.tags t).prev = none) (hu : (s.tags u).prev ≠ none) : u ≠ t := by
  intro e; subst e; exact hu ht

mutual
  /-- frame: the children of an entered tag other than the current sink are not touched -/
  theorem Prog.exec_frame (p : Prog) (s : St) (u : TagId) (hu : (s.tags u).prev ≠ none) (hk : s.hook ≠ .wrap u) :
      ((p.exec s).1.tags u).children = (s.tags u).children := by
    cases p with
    | display v =>
      simp only [Prog.exec]
      split
      · next s' hc => exact callHook_children_ne hc u hk
      · rfl
    | raise => rfl
    | rebind _ => rfl
    | block t b =>
      by_cases ht : (s.tags t).prev = none
      · have hne := ne_of_prev ht hu
        rw [block_exec_none b ht]
        rw [exitTag_children_ne (Progs.exec_prev b _ t s.hook (entered_prev_self s t)) hk]
        rw [Progs.exec_frame b (s.entered t) u (by rw [entered_prev_ne _ _ _ hne]; exact hu)
              (by simp only [entered_hook]; intro e; injection e with e; exact hne e.symm)]
        simp
      · rw [block_exec_some b ht]
  theorem Progs.exec_frame (ps : Progs) (s : St) (u : TagId) (hu : (s.tags u).prev ≠ none) (hk : s.hook ≠ .wrap u) :
      ((ps.exec s).1.tags u).children = (s.tags u).children := by
    cases ps with
    | nil => rfl
    | cons p ps =>
      have h1 := Prog.exec_frame p s u hu hk
      have h2 := Prog.exec_hook p s
      obtain ⟨x, hx⟩ := Option.ne_none_iff_exists'.mp hu
      have h3 := Prog.exec_prev p s u x hx
      simp only [Progs.exec]
      split
      · next s' he =>
        rw [he] at h1 h2 h3
        simp only at h1 h2 h3
        rw [Progs.exec_frame ps s' u (by simp [h3]) (by rw [h2]; exact hk), h1]
      · next s' e he => rw [he] at h1; exact h1
end

mutual
  /-- under a tag's wrapper (or anything but the recorder) the outermost recorder is not called -/
  theorem Prog.exec_outer (p : Prog) (s : St) (hk : s.hook ≠ .outer) : (p.exec s).1.outer = s.outer := by
    cases p with
    | display v =>
      simp only [Prog.exec]
      split
      · next s' hc => exact callHook_outer_ne hc hk
      · rfl
    | raise => rfl
    | rebind _ => rfl
    | block t b =>
      by_cases ht : (s.tags t).prev = none
      · rw [block_exec_none b ht]
        rw [exitTag_outer_ne (Progs.exec_prev b _ t s.hook (entered_prev_self s t)) hk]
        rw [Progs.exec_outer b (s.entered t) (by simp)]
        simp
      · rw [block_exec_some b ht]
  theorem Progs.exec_outer (ps : Progs) (s : St) (hk : s.hook ≠ .outer) : (ps.exec s).1.outer = s.outer := by
    cases ps with
    | nil => rfl
    | cons p ps =>
      have h1 := Prog.exec_outer p s hk
      have h2 := Prog.exec_hook p s
      simp only [Progs.exec]
      split
      · next s' he =>
        rw [he] at h1 h2
        rw [Progs.exec_outer ps s' (by rw [h2]; exact hk), h1]
      · next s' e he => rw [he] at h1; exact h1
end

/-- with a proper hook installed at entry, `__exit__` never raises: the block's outcome is its body's -/
theorem block_outcome {s : St} {t : TagId} (b : Progs) (ht : (s.tags t).prev = none) (hu : s.hook ≠ .unset) :
    ((Prog.block t b).exec s).2 = (b.exec (s.entered t)).2 := by
  rw [block_exec_none b ht]
  obtain ⟨s2, _, h2⟩ := exitTag_ok (Progs.exec_prev b _ t s.hook (entered_prev_self s t)) hu
  simp [h2, withOutcome]

/-! ### refinement: the hook-driven execution computes what the program text says (`spec`) -/

theorem agree_entered {s : St} {E : List TagId} {t : TagId} (hA : Agree s E) :
    Agree (s.entered t) (t :: E) := by
  intro u
  by_cases hu : u = t
  · subst hu; simp
  · rw [entered_prev_ne _ _ _ hu, ← hA u]; simp [hu]

theorem agree_of_prev_eq {s s' : St} {E : List TagId} (hA : Agree s E)
    (h : ∀ u, (s'.tags u).prev = (s.tags u).prev) : Agree s' E := by
  intro u; rw [h u]; exact hA u

theorem display_exec_wrap {s : St} {x : TagId} (hk : s.hook = .wrap x) (v : Val) :
    (Prog.display v).exec s =
      match normDisplayed v with
      | .ok its => (s.addChildren x its, .done)
      | .error e => (s, .raised e) := by
  simp only [Prog.exec, hk, callHook_wrap]
  cases normDisplayed v <;> rfl

/-- what `exec` (result `r`, from state `s`, under the wrapper of tag `x`) and `spec` (`d`) must agree on -/
structure Refines (x : TagId) (s : St) (r : St × Outcome) (d : Direct Item) : Prop where
  outcome : r.2 = d.outcome
  agree   : Agree r.1 d.entered
  sink    : (r.1.tags x).children = (s.tags x).children ++ d.items

mutual
  theorem Prog.exec_spec (p : Prog) (s : St) (E : List TagId) (x : TagId) (hA : Agree s E)
      (hk : s.hook = .wrap x) (hx : (s.tags x).prev ≠ none) : Refines x s (p.exec s) (p.spec E) := by
    cases p with
    | display v =>
      rw [display_exec_wrap hk]
      simp only [Prog.spec]
      cases hn : normDisplayed v with
      | error e => exact ⟨rfl, hA, by simp⟩
      | ok its => exact ⟨rfl, agree_of_prev_eq hA (by simp), by simp⟩
    | raise => exact ⟨rfl, hA, by simp [Prog.exec, Prog.spec]⟩
    | rebind _ => exact ⟨rfl, hA, by simp [Prog.exec, Prog.spec]⟩
    | block t b =>
      by_cases ht : (s.tags t).prev = none
      · have htE : t ∉ E := by rw [hA t]; simp [ht]
        have hxt : x ≠ t := ne_of_prev ht hx
        have ih := Progs.exec_spec b (s.entered t) (t :: E) t (agree_entered hA) rfl (by simp)
        have hp2 : (((b.exec (s.entered t)).1).tags t).prev = some (.wrap x) := by
          have := Progs.exec_prev b _ t s.hook (entered_prev_self s t)
          rw [hk] at this; exact this
        have hfr := Progs.exec_frame b (s.entered t) x (by rw [entered_prev_ne _ _ _ hxt]; exact hx)
              (by simp only [entered_hook]; intro e; injection e with e; exact hxt e.symm)
        rw [block_exec_none b ht]
        simp only [Prog.spec, htE, if_false]
        refine ⟨?_, ?_, ?_⟩
        · simp [exitTag_wrap hp2, withOutcome, ih.outcome]
        · exact agree_of_prev_eq ih.agree (fun u => exitTag_prev t u _)
        · simp [exitTag_wrap hp2, hfr]
      · have htE : t ∈ E := by rw [hA t]; exact ht
        rw [block_exec_some b ht]
        simp only [Prog.spec, htE, if_true]
        exact ⟨rfl, hA, by simp⟩
  theorem Progs.exec_spec (ps : Progs) (s : St) (E : List TagId) (x : TagId) (hA : Agree s E)
      (hk : s.hook = .wrap x) (hx : (s.tags x).prev ≠ none) : Refines x s (ps.exec s) (ps.spec E) := by
    cases ps with
    | nil => exact ⟨rfl, hA, by simp [Progs.exec, Progs.spec]⟩
    | cons p ps =>
      have h1 := Prog.exec_spec p s E x hA hk hx
      have h2 := Prog.exec_hook p s
      obtain ⟨y, hy⟩ := Option.ne_none_iff_exists'.mp hx
      have h3 := Prog.exec_prev p s x y hy
      simp only [Progs.exec, Progs.spec]
      split
      · next s' he =>
        rw [he] at h1 h2 h3
        have ho : (p.spec E).outcome = .done := h1.outcome.symm
        have ih := Progs.exec_spec ps s' (p.spec E).entered x h1.agree (by rw [← hk]; exact h2) (by simp at h3; simp [h3])
        simp only [ho]
        exact ⟨ih.outcome, ih.agree, by rw [ih.sink, h1.sink]; simp⟩
      · next s' e he =>
        rw [he] at h1
        have ho : (p.spec E).outcome = .raised e := h1.outcome.symm
        simp only [ho]
        exact ⟨rfl, h1.agree, h1.sink⟩
end

/-! ### facts about the spec alone -/

mutual
  theorem Prog.spec_mono (p : Prog) (E : List TagId) : ∀ u ∈ E, u ∈ (p.spec E).entered := by
    intro u hu
    cases p with
    | display v => simp only [Prog.spec]; split <;> exact hu
    | raise => exact hu
    | rebind _ => exact hu
    | block t b =>
      simp only [Prog.spec]
      split
      · exact hu
      · exact Progs.spec_mono b (t :: E) u (List.mem_cons_of_mem _ hu)
  theorem Progs.spec_mono (ps : Progs) (E : List TagId) : ∀ u ∈ E, u ∈ (ps.spec E).entered := by
    intro u hu
    cases ps with
    | nil => exact hu
    | cons p ps =>
      have h1 := Prog.spec_mono p E u hu
      simp only [Progs.spec]
      split
      · exact Progs.spec_mono ps _ u h1
      · exact h1
end

mutual
  /-- a block that is entered has a tag that was not entered before and is entered afterwards -/
  theorem Prog.blocks_fresh (p : Prog) (E : List TagId) :
      ∀ q ∈ p.blocks E, q.1 ∉ E ∧ q.1 ∈ (p.spec E).entered := by
    intro q hq
    cases p with
    | display v => simp [Prog.blocks] at hq
    | raise => simp [Prog.blocks] at hq
    | rebind _ => simp [Prog.blocks] at hq
    | block t b =>
      by_cases ht : t ∈ E
      · simp [Prog.blocks, ht] at hq
      · simp only [Prog.blocks, ht, if_false, List.mem_cons] at hq
        simp only [Prog.spec, ht, if_false]
        cases hq with
        | inl h => subst h; exact ⟨ht, Progs.spec_mono b (t :: E) t (by simp)⟩
        | inr h =>
          have ih := Progs.blocks_fresh b (t :: E) q h
          exact ⟨fun hin => ih.1 (List.mem_cons_of_mem _ hin), ih.2⟩
  theorem Progs.blocks_fresh (ps : Progs) (E : List TagId) :
      ∀ q ∈ ps.blocks E, q.1 ∉ E ∧ q.1 ∈ (ps.spec E).entered := by
    intro q hq
    cases ps with
    | nil => simp [Progs.blocks] at hq
    | cons p ps =>
      simp only [Progs.blocks, List.mem_append] at hq
      simp only [Progs.spec]
      cases hq with
      | inl h =>
        have ih := Prog.blocks_fresh p E q h
        refine ⟨ih.1, ?_⟩
        split
        · exact Progs.spec_mono ps _ _ ih.2
        · exact ih.2
      | inr h =>
        split at h
        · next ho =>
          have ih := Progs.blocks_fresh ps _ q h
          exact ⟨fun hin => ih.1 (Prog.spec_mono p E _ hin), ih.2⟩
        · simp at h
end

mutual
  /-- frame: a tag that is still not entered afterwards (and is not the current sink) is not touched -/
  theorem Prog.exec_frame_none (p : Prog) (s : St) (u : TagId) (hq : ((p.exec s).1.tags u).prev = none)
      (hk : s.hook ≠ .wrap u) : ((p.exec s).1.tags u).children = (s.tags u).children := by
    cases p with
    | display v =>
      simp only [Prog.exec]
      split
      · next s' hc => exact callHook_children_ne hc u hk
      · rfl
    | raise => rfl
    | rebind _ => rfl
    | block t b =>
      by_cases ht : (s.tags t).prev = none
      · rw [block_exec_none b ht] at hq ⊢
        rw [exitTag_prev] at hq
        have hp2 := Progs.exec_prev b _ t s.hook (entered_prev_self s t)
        have hne : u ≠ t := by intro e; subst e; simp [hp2] at hq
        rw [exitTag_children_ne hp2 hk]
        rw [Progs.exec_frame_none b (s.entered t) u hq
              (by simp only [entered_hook]; intro e; injection e with e; exact hne e.symm)]
        simp
      · rw [block_exec_some b ht]
  theorem Progs.exec_frame_none (ps : Progs) (s : St) (u : TagId) (hq : ((ps.exec s).1.tags u).prev = none)
      (hk : s.hook ≠ .wrap u) : ((ps.exec s).1.tags u).children = (s.tags u).children := by
    cases ps with
    | nil => rfl
    | cons p ps =>
      have h2 := Prog.exec_hook p s
      simp only [Progs.exec] at hq ⊢
      split
      · next s' he =>
        rw [he] at h2; simp only at h2
        simp only [he] at hq
        have hq' : ((p.exec s).1.tags u).prev = none := by
          rw [he]
          cases hp : (s'.tags u).prev with
          | none => rfl
          | some y => rw [Progs.exec_prev ps s' u y hp] at hq; exact absurd hq (by simp)
        have h1 := Prog.exec_frame_none p s u hq' hk
        rw [he] at h1
        rw [Progs.exec_frame_none ps s' u hq (by rw [h2]; exact hk), h1]
      · next s' e he =>
        simp only [he] at hq
        have h1 := Prog.exec_frame_none p s u (by rw [he]; exact hq) hk
        rw [he] at h1; exact h1
end

/-- the state in which a body starts refines the spec of the body -/
theorem body_spec {s : St} {E : List TagId} {t : TagId} (b : Progs) (hA : Agree s E) :
    Refines t (s.entered t) (b.exec (s.entered t)) (b.spec (t :: E)) :=
  Progs.exec_spec b (s.entered t) (t :: E) t (agree_entered hA) rfl (by simp)

theorem prev_none_of_notin {s : St} {E : List TagId} {t : TagId} (hA : Agree s E) (h : t ∉ E) :
    (s.tags t).prev = none := by
  cases hp : (s.tags t).prev with
  | none => rfl
  | some y => exact absurd ((hA t).mpr (by simp [hp])) h

theorem mem_of_agree {s : St} {E : List TagId} {x : TagId} (hA : Agree s E) (hx : (s.tags x).prev ≠ none) : x ∈ E :=
  (hA x).mpr hx

mutual
  /-- every entered block's tag ends up with its former children followed by what its body contributes -/
  theorem Prog.exec_blocks (p : Prog) (s : St) (E : List TagId) (hA : Agree s E)
      (hw : ∀ x, s.hook = .wrap x → (s.tags x).prev ≠ none) :
      ∀ q ∈ p.blocks E, ((p.exec s).1.tags q.1).children = (s.tags q.1).children ++ q.2 := by
    intro q hq
    cases p with
    | display v => simp [Prog.blocks] at hq
    | raise => simp [Prog.blocks] at hq
    | rebind _ => simp [Prog.blocks] at hq
    | block t b =>
      by_cases htE : t ∈ E
      · simp [Prog.blocks, htE] at hq
      · have ht : (s.tags t).prev = none := prev_none_of_notin hA htE
        have hp2 := Progs.exec_prev b _ t s.hook (entered_prev_self s t)
        have hb := body_spec (t := t) b hA
        simp only [Prog.blocks, htE, if_false, List.mem_cons] at hq
        rw [block_exec_none b ht]
        cases hq with
        | inl h =>
          subst h
          rw [exitTag_children_ne hp2 (fun e => hw t e ht), hb.sink]
          simp
        | inr h =>
          have hf := (Progs.blocks_fresh b (t :: E) q h).1
          have ih := Progs.exec_blocks b (s.entered t) (t :: E) t (agree_entered hA) rfl (by simp) q h
          rw [exitTag_children_ne hp2 (fun e => hf (List.mem_cons_of_mem _ (mem_of_agree hA (hw q.1 e)))), ih]
          simp
  theorem Progs.exec_blocks (ps : Progs) (s : St) (E : List TagId) (x : TagId) (hA : Agree s E)
      (hk : s.hook = .wrap x) (hx : (s.tags x).prev ≠ none) :
      ∀ q ∈ ps.blocks E, ((ps.exec s).1.tags q.1).children = (s.tags q.1).children ++ q.2 := by
    intro q hq
    cases ps with
    | nil => simp [Progs.blocks] at hq
    | cons p ps =>
      have hxE := mem_of_agree hA hx
      have hw : ∀ y, s.hook = .wrap y → (s.tags y).prev ≠ none := by
        intro y hy; rw [hk] at hy; injection hy with hy; subst hy; exact hx
      have h1 := Prog.exec_spec p s E x hA hk hx
      have h2 := Prog.exec_hook p s
      obtain ⟨y, hy⟩ := Option.ne_none_iff_exists'.mp hx
      have h3 := Prog.exec_prev p s x y hy
      simp only [Progs.blocks, List.mem_append] at hq
      simp only [Progs.exec]
      split
      · next s' he =>
        rw [he] at h1 h2 h3; simp only at h2 h3
        have ho : (p.spec E).outcome = .done := h1.outcome.symm
        have hk' : s'.hook = .wrap x := by rw [h2]; exact hk
        cases hq with
        | inl h =>
          have hf := Prog.blocks_fresh p E q h
          have ih := Prog.exec_blocks p s E hA hw q h
          rw [he] at ih
          rw [Progs.exec_frame ps s' q.1 ((h1.agree q.1).mp hf.2)
                (by rw [hk']; intro e; injection e with e; subst e; exact hf.1 hxE), ih]
        | inr h =>
          simp only [ho] at h
          have hf := Progs.blocks_fresh ps _ q h
          have ih := Progs.exec_blocks ps s' (p.spec E).entered x h1.agree hk' (by simp [h3]) q h
          have hn : (s'.tags q.1).prev = none := prev_none_of_notin h1.agree hf.1
          have hfr := Prog.exec_frame_none p s q.1 (by rw [he]; exact hn)
                (by rw [hk]; intro e; injection e with e; subst e; exact hf.1 (Prog.spec_mono p E _ hxE))
          rw [he] at hfr
          rw [ih, hfr]
      · next s' e he =>
        rw [he] at h1
        have ho : (p.spec E).outcome = .raised e := h1.outcome.symm
        cases hq with
        | inl h =>
          have ih := Prog.exec_blocks p s E hA hw q h
          rw [he] at ih; exact ih
        | inr h => simp [ho] at h
end

/-! ### top level: under the outermost recorder -/

/-- what `exec` and `specTop` must agree on under the outermost hook -/
structure RefinesTop (s : St) (r : St × Outcome) (d : Direct Val) : Prop where
  outcome : r.2 = d.outcome
  agree   : Agree r.1 d.entered
  log     : r.1.outer = s.outer ++ d.items

theorem Prog.exec_specTop (p : Prog) (s : St) (E : List TagId) (hA : Agree s E) (hk : s.hook = .outer) :
    RefinesTop s (p.exec s) (p.specTop E) := by
  cases p with
  | display v => simp only [Prog.exec, hk, callHook, Prog.specTop]; exact ⟨rfl, hA, rfl⟩
  | raise => exact ⟨rfl, hA, by simp [Prog.exec, Prog.specTop]⟩
  | rebind _ => exact ⟨rfl, hA, by simp [Prog.exec, Prog.specTop]⟩
  | block t b =>
    by_cases ht : (s.tags t).prev = none
    · have htE : t ∉ E := by rw [hA t]; simp [ht]
      have ih := body_spec (t := t) b hA
      have hp2 : (((b.exec (s.entered t)).1).tags t).prev = some .outer := by
        have := Progs.exec_prev b _ t s.hook (entered_prev_self s t)
        rw [hk] at this; exact this
      have ho := Progs.exec_outer b (s.entered t) (by simp)
      rw [block_exec_none b ht]
      simp only [Prog.specTop, htE, if_false]
      refine ⟨?_, ?_, ?_⟩
      · simp [exitTag_outer hp2, withOutcome, ih.outcome]
      · exact agree_of_prev_eq ih.agree (fun u => exitTag_prev t u _)
      · simp [exitTag_outer hp2, ho]
    · have htE : t ∈ E := by rw [hA t]; exact ht
      rw [block_exec_some b ht]
      simp only [Prog.specTop, htE, if_true]
      exact ⟨rfl, hA, by simp⟩

theorem Progs.exec_specTop (ps : Progs) (s : St) (E : List TagId) (hA : Agree s E) (hk : s.hook = .outer) :
    RefinesTop s (ps.exec s) (ps.specTop E) := by
  cases ps with
  | nil => exact ⟨rfl, hA, by simp [Progs.exec, Progs.specTop]⟩
  | cons p ps =>
    have h1 := Prog.exec_specTop p s E hA hk
    have h2 := Prog.exec_hook p s
    simp only [Progs.exec, Progs.specTop]
    split
    · next s' he =>
      rw [he] at h1 h2; simp only at h2
      have ho : (p.specTop E).outcome = .done := h1.outcome.symm
      have ih := Progs.exec_specTop ps s' (p.specTop E).entered h1.agree (by rw [h2]; exact hk)
      simp only [ho]
      exact ⟨ih.outcome, ih.agree, by rw [ih.log, h1.log]; simp⟩
    · next s' e he =>
      rw [he] at h1
      have ho : (p.specTop E).outcome = .raised e := h1.outcome.symm
      simp only [ho]
      exact ⟨rfl, h1.agree, h1.log⟩

theorem Prog.specTop_mono (p : Prog) (E : List TagId) : ∀ u ∈ E, u ∈ (p.specTop E).entered := by
  intro u hu
  cases p with
  | display v => exact hu
  | raise => exact hu
  | rebind _ => exact hu
  | block t b =>
    simp only [Prog.specTop]
    split
    · exact hu
    · exact Progs.spec_mono b (t :: E) u (List.mem_cons_of_mem _ hu)

theorem Progs.specTop_mono (ps : Progs) (E : List TagId) : ∀ u ∈ E, u ∈ (ps.specTop E).entered := by
  intro u hu
  cases ps with
  | nil => exact hu
  | cons p ps =>
    have h1 := Prog.specTop_mono p E u hu
    simp only [Progs.specTop]
    split
    · exact Progs.specTop_mono ps _ u h1
    · exact h1

theorem Prog.blocks_fresh_top (p : Prog) (E : List TagId) :
    ∀ q ∈ p.blocks E, q.1 ∉ E ∧ q.1 ∈ (p.specTop E).entered := by
  intro q hq
  have h := Prog.blocks_fresh p E q hq
  cases p with
  | display v => simp [Prog.blocks] at hq
  | raise => simp [Prog.blocks] at hq
  | rebind _ => simp [Prog.blocks] at hq
  | block t b =>
    by_cases ht : t ∈ E
    · simp [Prog.blocks, ht] at hq
    · simpa [Prog.spec, Prog.specTop, ht] using h

theorem Progs.blocksTop_fresh (ps : Progs) (E : List TagId) :
    ∀ q ∈ ps.blocksTop E, q.1 ∉ E ∧ q.1 ∈ (ps.specTop E).entered := by
  intro q hq
  cases ps with
  | nil => simp [Progs.blocksTop] at hq
  | cons p ps =>
    simp only [Progs.blocksTop, List.mem_append] at hq
    simp only [Progs.specTop]
    cases hq with
    | inl h =>
      have ih := Prog.blocks_fresh_top p E q h
      refine ⟨ih.1, ?_⟩
      split
      · exact Progs.specTop_mono ps _ _ ih.2
      · exact ih.2
    | inr h =>
      split at h
      · next ho =>
        have ih := Progs.blocksTop_fresh ps _ q h
        exact ⟨fun hin => ih.1 (Prog.specTop_mono p E _ hin), ih.2⟩
      · simp at h

theorem Progs.exec_blocksTop (ps : Progs) (s : St) (E : List TagId) (hA : Agree s E) (hk : s.hook = .outer) :
    ∀ q ∈ ps.blocksTop E, ((ps.exec s).1.tags q.1).children = (s.tags q.1).children ++ q.2 := by
  intro q hq
  cases ps with
  | nil => simp [Progs.blocksTop] at hq
  | cons p ps =>
    have hw : ∀ y, s.hook = .wrap y → (s.tags y).prev ≠ none := by
      intro y hy; rw [hk] at hy; cases hy
    have h1 := Prog.exec_specTop p s E hA hk
    have h2 := Prog.exec_hook p s
    simp only [Progs.blocksTop, List.mem_append] at hq
    simp only [Progs.exec]
    split
    · next s' he =>
      rw [he] at h1 h2; simp only at h2
      have ho : (p.specTop E).outcome = .done := h1.outcome.symm
      have hk' : s'.hook = .outer := by rw [h2]; exact hk
      cases hq with
      | inl h =>
        have hf := Prog.blocks_fresh_top p E q h
        have ih := Prog.exec_blocks p s E hA hw q h
        rw [he] at ih
        rw [Progs.exec_frame ps s' q.1 ((h1.agree q.1).mp hf.2) (by rw [hk']; intro e; cases e), ih]
      | inr h =>
        simp only [ho] at h
        have hf := Progs.blocksTop_fresh ps _ q h
        have ih := Progs.exec_blocksTop ps s' (p.specTop E).entered h1.agree hk' q h
        have hn : (s'.tags q.1).prev = none := prev_none_of_notin h1.agree hf.1
        have hfr := Prog.exec_frame_none p s q.1 (by rw [he]; exact hn) (by rw [hk]; intro e; cases e)
        rw [he] at hfr
        rw [ih, hfr]
    · next s' e he =>
      rw [he] at h1
      have ho : (p.specTop E).outcome = .raised e := h1.outcome.symm
      cases hq with
      | inl h =>
        have ih := Prog.exec_blocks p s E hA hw q h
        rw [he] at ih; exact ih
      | inr h => simp [ho] at h

/-! ### the per-block restore flags -/

mutual
  theorem Prog.flags_true (p : Prog) (s : St) : ∀ f ∈ p.flags s, f = true := by
    intro f hf
    cases p with
    | display v => simp [Prog.flags] at hf
    | raise => simp [Prog.flags] at hf
    | rebind _ => simp [Prog.flags] at hf
    | block t b =>
      simp only [Prog.flags, List.mem_cons] at hf
      cases hf with
      | inl h => rw [h]; exact decide_eq_true (Prog.exec_hook _ s)
      | inr h =>
        split at h
        · next s1 _ => exact Progs.flags_true b s1 f h
        · simp at h
  theorem Progs.flags_true (ps : Progs) (s : St) : ∀ f ∈ ps.flags s, f = true := by
    intro f hf
    cases ps with
    | nil => simp [Progs.flags] at hf
    | cons p ps =>
      simp only [Progs.flags, List.mem_append] at hf
      cases hf with
      | inl h => exact Prog.flags_true p s f h
      | inr h =>
        split at h
        · exact Progs.flags_true ps _ f h
        · simp at h
end

/-! ### current behaviour that the property does not ask for (documentation only — no obligation of C17, and the
harness generates no program that depends on it) -/

/-- observed on the pinned code: `__exit__` does not clear `prev_displayhook`, so a tag whose block has *ended* cannot
    be entered again either; nothing changes then.  The property only speaks of a tag whose block is still active; a
    maintainer who clears the field on exit (making tags reusable) changes this lemma, not the property. -/
theorem reenter_exited (t : TagId) (b b' : Progs) (s : St) (h : (s.tags t).prev = none) :
    (Prog.block t b').exec ((Prog.block t b).exec s).1 = (((Prog.block t b).exec s).1, .raised .runtimeError) := by
  apply block_exec_some
  rw [block_exec_none b h, exitTag_prev, Progs.exec_prev b _ t s.hook (entered_prev_self s t)]
  simp

end HtmlVerif.Hook
