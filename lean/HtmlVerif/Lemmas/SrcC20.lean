/-
Source tie for C20 (htmltools/_jsx.py): embedding of the component-tree model (Model/Jsx.lean: `JNode`, `JVal`, …)
into Python values, the measure that bounds the fuel, the side conditions under which the model speaks about a value,
facts about the primitives of Py/PrimC20.lean on the embedded shapes, and the loop lemmas (quantified over the loop
body) used by Props/SrcC20.lean.
-/
import HtmlVerif.Lemmas.SrcTie
import HtmlVerif.Lemmas.SrcRender
import HtmlVerif.Model.Jsx
import HtmlVerif.Py.PrimC20
import HtmlVerif.Generated.Src

namespace HtmlVerif.SrcTie
open HtmlVerif HtmlVerif.Py HtmlVerif.Generated.Src

/-! ### embedding -/

/-- html-Tag attributes as prop values (`str` / `HTML` strings) -/
def attrsAsProps : Attrs → JProps
  | [] => .nil
  | (k, .plain s) :: r => .cons k (.node (.str .plain s)) (attrsAsProps r)
  | (k, .html s) :: r => .cons k (.node (.str .html s)) (attrsAsProps r)

mutual
  /-- a node of the component tree as the Python object `_render_react_js` / `_serialize_attr` see.  `ι t = some n` says
      that the number whose text is `t` is the Python `int` `n` (otherwise it is a `float`).  Only what the three functions
      read is recorded (for a Tag `add_ws` is there because the harness needs it to build the object). -/
  def embJNode (ι : Str → Option Int) : JNode → PVal
    | .comp name props kids =>
      .obj "JSXTag" [("name", .str name), ("attrs", .dict (embJProps ι props)),
                     ("children", .obj "TagList" [("data", .list (embJNodes ι kids))])]
    | .tag name attrs kids =>
      .obj "Tag" [("name", .str name), ("attrs", embAttrs attrs),
                  ("children", .obj "TagList" [("data", .list (embJNodes ι kids))]), ("add_ws", .bool true)]
    | .str .plain s => .str s
    | .str .jsx s => mkJsx s
    | .str .html s => .html s
    | .md (.mnode n) => .obj "MetadataNode" [("id", .int n)]
    | .md (.dep d) => .obj "HTMLDependency" [("name", .str d.name)]
    | .tobj _ => .obj "TagifiableObj" [("tagify", .none)]
    | .tobjL _ => .obj "TagifiableObj" [("tagify", .none)]
  def embJNodes (ι : Str → Option Int) : JNodes → List PVal
    | .nil => []
    | .cons h t => embJNode ι h :: embJNodes ι t
  /-- a prop value -/
  def embJVal (ι : Str → Option Int) : JVal → PVal
    | .null => .none
    | .bool b => .bool b
    | .num t => (match ι t with
      | some n => .int n
      | none => .float t)
    | .list tup vs => if tup then .tuple (embJVals ι vs) else .list (embJVals ι vs)
    | .dict fs => .dict (embJProps ι fs)
    | .node n => embJNode ι n
  def embJVals (ι : Str → Option Int) : JVals → List PVal
    | .nil => []
    | .cons h t => embJVal ι h :: embJVals ι t
  def embJProps (ι : Str → Option Int) : JProps → List (Str × PVal)
    | .nil => []
    | .cons k v t => (k, embJVal ι v) :: embJProps ι t
end

/-- the texts `ι` declares to be ints are the decimal texts of those ints -/
def IntTexts (ι : Str → Option Int) : Prop := ∀ t n, ι t = some n → (toString n).toList = t

theorem embAttrs_asProps (ι) (a : Attrs) : embAttrs a = .dict (embJProps ι (attrsAsProps a)) := by
  have : ∀ a : Attrs, (a.map fun kv => (kv.1, embVal kv.2)) = embJProps ι (attrsAsProps a) := by
    intro a
    induction a with
    | nil => rfl
    | cons x t ih =>
      obtain ⟨k, v⟩ := x
      cases v <;> simp [attrsAsProps, embJProps, embJVal, embJNode, ih]
  simp [embAttrs, this]

theorem embJNodes_toList (ι) : (ks : JNodes) → embJNodes ι ks = ks.toList.map (embJNode ι)
  | .nil => rfl
  | .cons h t => by simp [embJNodes, JNodes.toList, embJNodes_toList ι t]

theorem embJVals_toList (ι) : (vs : JVals) → embJVals ι vs = vs.toList.map (embJVal ι)
  | .nil => rfl
  | .cons h t => by simp [embJVals, JVals.toList, embJVals_toList ι t]

theorem embJProps_toList (ι) : (fs : JProps) → embJProps ι fs = fs.toList.map fun kv => (kv.1, embJVal ι kv.2)
  | .nil => rfl
  | .cons k v t => by simp [embJProps, JProps.toList, embJProps_toList ι t]

/-! ### the measure that bounds the fuel -/

mutual
  /-- calls of the three functions nest at most this deep below a call on the node -/
  def hN : JNode → Nat
    | .comp _ props kids => max (hP props) (hK kids) + 1
    | .tag _ attrs kids => max (if attrs.isEmpty then 0 else 4) (hK kids) + 1
    | _ => 1
  def hK : JNodes → Nat
    | .nil => 0
    | .cons h t => max (hN h) (hK t)
  def hV : JVal → Nat
    | .list _ vs => hVs vs + 1
    | .dict fs => hD fs + 1
    | .node n => hN n + 1
    | _ => 1
  def hVs : JVals → Nat
    | .nil => 0
    | .cons h t => max (hV h) (hVs t)
  /-- the fields of a dict value -/
  def hD : JProps → Nat
    | .nil => 0
    | .cons _ v t => max (hV v) (hD t)
  /-- the props of a component: one may go through `_serialize_style_attr`, which parses a string into a dict of strings
      first — two more levels -/
  def hP : JProps → Nat
    | .nil => 0
    | .cons _ v t => max (hV v + 2) (hP t)
end

theorem hK_mem : (ks : JNodes) → (c : JNode) → c ∈ ks.toList → hN c ≤ hK ks
  | .nil, c, h => by simp [JNodes.toList] at h
  | .cons x t, c, h => by
    simp only [JNodes.toList, List.mem_cons] at h
    simp only [hK]
    rcases h with rfl | h
    · omega
    · have := hK_mem t c h; omega

theorem hVs_mem : (vs : JVals) → (c : JVal) → c ∈ vs.toList → hV c ≤ hVs vs
  | .nil, c, h => by simp [JVals.toList] at h
  | .cons x t, c, h => by
    simp only [JVals.toList, List.mem_cons] at h
    simp only [hVs]
    rcases h with rfl | h
    · omega
    · have := hVs_mem t c h; omega

theorem hD_mem : (fs : JProps) → (kv : Str × JVal) → kv ∈ fs.toList → hV kv.2 ≤ hD fs
  | .nil, kv, h => by simp [JProps.toList] at h
  | .cons k v t, kv, h => by
    simp only [JProps.toList, List.mem_cons] at h
    simp only [hD]
    rcases h with rfl | h
    · simp only; omega
    · have := hD_mem t kv h; omega

theorem hP_mem : (fs : JProps) → (kv : Str × JVal) → kv ∈ fs.toList → hV kv.2 + 2 ≤ hP fs
  | .nil, kv, h => by simp [JProps.toList] at h
  | .cons k v t, kv, h => by
    simp only [JProps.toList, List.mem_cons] at h
    simp only [hP]
    rcases h with rfl | h
    · simp only; omega
    · have := hP_mem t kv h; omega

/-! ### where the model speaks -/

mutual
  /-- side conditions of the tie, through the whole tree: a dict value has each key once (a Python dict has; the model's
      `JProps` is a list), and no metadata node / un-expanded tagifiable object sits where `_serialize_attr` writes
      `str(x)` of it — the model does not describe that text (`JVal.serialize` answers `.error .exception` there). -/
  def tiedN : JNode → Bool
    | .comp _ props kids => tiedP true props && tiedK kids
    | .tag _ _ kids => tiedK kids
    | _ => true
  def tiedK : JNodes → Bool
    | .nil => true
    | .cons h t => tiedN h && tiedK t
  /-- as an argument of `_serialize_attr` -/
  def tiedV : JVal → Bool
    | .list _ vs => tiedVs vs
    | .dict fs => decide fs.keys.Nodup && tiedP false fs
    | .node (.md _) => false
    | .node (.tobj _) => false
    | .node (.tobjL _) => false
    | .node n => tiedN n
    | _ => true
  def tiedVs : JVals → Bool
    | .nil => true
    | .cons h t => tiedV h && tiedVs t
  /-- `top`: the props of a component (the `style` prop goes through `_serialize_style_attr`, which raises TypeError for
      everything that is not None / a str / a dict) -/
  def tiedP (top : Bool) : JProps → Bool
    | .nil => true
    | .cons k v t =>
      (if top && k = chars% "style" then tiedS v else tiedV v) && tiedP top t
  /-- as an argument of `_serialize_style_attr` -/
  def tiedS : JVal → Bool
    | .dict fs => decide fs.keys.Nodup && tiedP false fs
    | _ => true
end

theorem tiedVs_mem : (vs : JVals) → tiedVs vs = true → ∀ c ∈ vs.toList, tiedV c = true
  | .nil, _, c, h => by simp [JVals.toList] at h
  | .cons x t, ht, c, h => by
    simp only [tiedVs, Bool.and_eq_true] at ht
    simp only [JVals.toList, List.mem_cons] at h
    rcases h with rfl | h
    · exact ht.1
    · exact tiedVs_mem t ht.2 c h

theorem tiedK_mem : (ks : JNodes) → tiedK ks = true → ∀ c ∈ ks.toList, tiedN c = true
  | .nil, _, c, h => by simp [JNodes.toList] at h
  | .cons x t, ht, c, h => by
    simp only [tiedK, Bool.and_eq_true] at ht
    simp only [JNodes.toList, List.mem_cons] at h
    rcases h with rfl | h
    · exact ht.1
    · exact tiedK_mem t ht.2 c h

/-- the model's value of a field -/
def fieldVal (top : Bool) (kv : Str × JVal) : Except Err Str :=
  if top && kv.1 = chars% "style" then kv.2.serializeStyle else kv.2.serialize

theorem tiedP_mem (top : Bool) : (fs : JProps) → tiedP top fs = true → ∀ kv ∈ fs.toList,
    if top && kv.1 = chars% "style" then tiedS kv.2 = true else tiedV kv.2 = true
  | .nil, _, c, h => by simp [JProps.toList] at h
  | .cons k v t, ht, c, h => by
    rw [tiedP] at ht
    have ht := Bool.and_eq_true_iff.mp ht
    simp only [JProps.toList, List.mem_cons] at h
    rcases h with rfl | h
    · have h1 := ht.1
      by_cases hc : (top && k = chars% "style") = true
      · simp only [hc, if_true] at h1 ⊢
        exact h1
      · simp only [hc, Bool.false_eq_true, if_false] at h1 ⊢
        exact h1
    · exact tiedP_mem top t ht.2 c h

/-! ### facts about the primitives on the embedded shapes -/

theorem pyIterJ_list (xs : List PVal) : pyIterJ (.list xs) = .ok xs :=
  Eq.trans rfl rfl    -- (not stated as a `rfl` lemma: `simp` would then try it by unfolding under the loop bodies)
theorem pyIterJ_tuple (xs : List PVal) : pyIterJ (.tuple xs) = .ok xs :=
  Eq.trans rfl rfl    -- (not stated as a `rfl` lemma: `simp` would then try it by unfolding under the loop bodies)
theorem pyIterJ_dict (kvs : List (Str × PVal)) : pyIterJ (.dict kvs) = .ok (kvs.map fun kv => .str kv.1) :=
  Eq.trans rfl rfl    -- (not stated as a `rfl` lemma: `simp` would then try it by unfolding under the loop bodies)
theorem pyIterJ_taglist (l : List PVal) : pyIterJ (.obj "TagList" [("data", .list l)]) = .ok l := by
  simp [pyIterJ, asStr, jsxText?, pyIter]
theorem pyAddJ_str (G : Globals) (a b : Str) : pyAddJ (pyAdd G) (.str a) (.str b) = .ok (.str (a ++ b)) :=
  Eq.trans rfl rfl    -- (not stated as a `rfl` lemma: `simp` would then try it by unfolding under the loop bodies)
theorem pyAddJ_int (G : Globals) (a b : Int) : pyAddJ (pyAdd G) (.int a) (.int b) = .ok (.int (a + b)) :=
  Eq.trans rfl rfl    -- (not stated as a `rfl` lemma: `simp` would then try it by unfolding under the loop bodies)
theorem pyStrJ_str (s : Str) : pyStrJ (.str s) = .ok (.str s) :=
  Eq.trans rfl rfl    -- (not stated as a `rfl` lemma: `simp` would then try it by unfolding under the loop bodies)
theorem pyStrJ_html (s : Str) : pyStrJ (.html s) = .ok (.str s) :=
  Eq.trans rfl rfl    -- (not stated as a `rfl` lemma: `simp` would then try it by unfolding under the loop bodies)
theorem pyStrJ_jsx (s : Str) : pyStrJ (mkJsx s) = .ok (.str s) := by simp [pyStrJ, asStr, jsxText?, mkJsx, fieldGet?]
theorem pyStrJ_int (n : Int) : pyStrJ (.int n) = .ok (.str (toString n).toList) :=
  Eq.trans rfl rfl    -- (not stated as a `rfl` lemma: `simp` would then try it by unfolding under the loop bodies)
theorem asStr_str (s : Str) : asStr (.str s) = .str s :=
  Eq.trans rfl rfl    -- (not stated as a `rfl` lemma: `simp` would then try it by unfolding under the loop bodies)
theorem asStr_jsx (s : Str) : asStr (mkJsx s) = .str s := by simp [asStr, jsxText?, mkJsx, fieldGet?]
theorem pyEqJ_str (a b : Str) : pyEqJ (.str a) (.str b) = .ok (.bool (a == b)) :=
  Eq.trans rfl rfl    -- (not stated as a `rfl` lemma: `simp` would then try it by unfolding under the loop bodies)
theorem pyEqJ_int (a b : Int) : pyEqJ (.int a) (.int b) = .ok (.bool (a == b)) :=
  Eq.trans rfl rfl    -- (not stated as a `rfl` lemma: `simp` would then try it by unfolding under the loop bodies)

theorem int_len_eq0 {α} (l : List α) : ((l.length : Int) == 0) = l.isEmpty := by
  cases l with
  | nil => rfl
  | cons a t =>
    have : ((t.length : Int) + 1 == 0) = false := by
      have : ¬ ((t.length : Int) + 1 = 0) := by omega
      simpa using this
    simpa using this

/-- `len(d) == 0` for a dict -/
theorem len0_dict (kvs : List (Str × PVal)) :
    (do let n ← pyLenJ (.dict kvs); pyEqJ n (.int 0) : PyM PVal) = .ok (.bool kvs.isEmpty) := by
  have : pyLenJ (.dict kvs) = .ok (.int kvs.length) := Eq.trans rfl rfl
  rw [this, ok_bind, pyEqJ_int, int_len_eq0]

/-- `len(x.children) == 0` for a TagList (a `UserList`) -/
theorem len0_taglist (l : List PVal) :
    (do let n ← pyLenJ (.obj "TagList" [("data", .list l)]); pyEqJ n (.int 0) : PyM PVal) = .ok (.bool l.isEmpty) := by
  have : pyLenJ (.obj "TagList" [("data", .list l)]) = .ok (.int l.length) := by
    simp [pyLenJ, asStr, jsxText?, isInstance, classBases, fieldGet?]
  rw [this, ok_bind, pyEqJ_int, int_len_eq0]

theorem pyLenJ_taglist (l : List PVal) : pyLenJ (.obj "TagList" [("data", .list l)]) = .ok (.int l.length) := by
  simp [pyLenJ, asStr, jsxText?, isInstance, classBases, fieldGet?]

theorem embJProps_isEmpty (ι) (ps : JProps) : (embJProps ι ps).isEmpty = ps.isEmpty := by
  cases ps <;> rfl

theorem embJNodes_isEmpty (ι) (ks : JNodes) : (embJNodes ι ks).isEmpty = ks.isEmpty := by
  cases ks <;> rfl

theorem pyItems_props (ι) (ps : JProps) :
    pyItems (.dict (embJProps ι ps)) = .ok (.list (ps.toList.map fun kv => PVal.tuple [.str kv.1, embJVal ι kv.2])) := by
  simp [pyItems, embJProps_toList, Function.comp_def]

theorem pyConcat5 (a b c d e : Str) :
    pyConcat [.str a, .str b, .str c, .str d, .str e] = .ok (.str (a ++ (b ++ (c ++ (d ++ e))))) := by
  simp [pyConcat]

theorem pyConcat4 (a b c d : Str) : pyConcat [.str a, .str b, .str c, .str d] = .ok (.str (a ++ (b ++ (c ++ d)))) := by
  simp [pyConcat]

theorem pyConcat3 (a b c : Str) : pyConcat [.str a, .str b, .str c] = .ok (.str (a ++ (b ++ c))) := by
  simp [pyConcat]

theorem pyAnd_bool (a : Bool) (y : PyM PVal) : pyAnd (Except.ok (.bool a)) y = if a = true then y else .ok (.bool a) := by
  cases a <;> simp [pyAnd]

theorem strsOfJ_strs (l : List Str) : strsOfJ (l.map PVal.str) = .ok l := by
  induction l with
  | nil => rfl
  | cons a t ih => simp [strsOfJ, asStr, jsxText?, ih]

theorem pyJoinJ_strs (sep : Str) (l : List Str) :
    pyJoinJ (.str sep) (.list (l.map PVal.str)) = .ok (.str (joinStr sep l)) := by
  simp [pyJoinJ, asStr, jsxText?, pyIterJ, pyIter, strsOfJ_strs]

theorem pyLowerJ_True : pyLowerJ (.str ['T', 'r', 'u', 'e']) = .ok (.str ['t', 'r', 'u', 'e']) := by
  simp [pyLowerJ]
theorem pyLowerJ_False : pyLowerJ (.str ['F', 'a', 'l', 's', 'e']) = .ok (.str ['f', 'a', 'l', 's', 'e']) := by
  simp [pyLowerJ]

theorem inf_chars : "inf".toList = chars% "inf" := by decide
theorem ninf_chars : "-inf".toList = chars% "-inf" := by decide
theorem nan_chars : "nan".toList = chars% "nan" := by decide

/-- the decimal text of an int starts with a digit, or with `-` and a digit -/
theorem int_text_head (n : Int) : ∃ c r, (toString n).toList = c :: r ∧
    (c = '-' ∧ (∃ d r', r = d :: r' ∧ d.isDigit) ∨ c.isDigit) := by
  cases n with
  | ofNat m =>
    have h1 : (toString (Int.ofNat m)).toList = Nat.toDigits 10 m := by
      show (toString m).toList = _
      rw [Nat.toString_eq_repr, Nat.toList_repr]
    rw [h1]
    cases hd : Nat.toDigits 10 m with
    | nil => exact absurd hd Nat.toDigits_ne_nil
    | cons c r =>
      refine ⟨c, r, rfl, Or.inr ?_⟩
      exact Nat.isDigit_of_mem_toDigits (by decide) (by decide) (hd ▸ List.mem_cons_self)
  | negSucc m =>
    have h1 : (toString (Int.negSucc m)).toList = '-' :: Nat.toDigits 10 (m + 1) := by
      show ("-" ++ toString (m + 1)).toList = _
      rw [String.toList_append, Nat.toString_eq_repr, Nat.toList_repr]; rfl
    rw [h1]
    cases hd : Nat.toDigits 10 (m + 1) with
    | nil => exact absurd hd Nat.toDigits_ne_nil
    | cons c r =>
      refine ⟨'-', c :: r, rfl, Or.inl ⟨rfl, c, r, rfl, ?_⟩⟩
      exact Nat.isDigit_of_mem_toDigits (by decide) (by decide) (hd ▸ List.mem_cons_self)

/-- … so it is none of `inf`, `-inf`, `nan`: an int is written as Python writes it -/
theorem numJs_int (n : Int) : numJs (toString n).toList = (toString n).toList := by
  obtain ⟨c, r, h, hc⟩ := int_text_head n
  rw [h]
  unfold numJs
  rcases hc with ⟨rfl, d, r', rfl, hd⟩ | hc
  · have : d ≠ 'i' := by intro e; subst e; revert hd; decide
    simp [this]
  · have h1 : c ≠ 'i' := by intro e; subst e; revert hc; decide
    have h2 : c ≠ '-' := by intro e; subst e; revert hc; decide
    have h3 : c ≠ 'n' := by intro e; subst e; revert hc; decide
    simp [h1, h2, h3]

theorem dictGet_embJProps (ι : Str → Option Int) : (fs : JProps) → fs.keys.Nodup → ∀ kv ∈ fs.toList,
    Py.dictGet? kv.1 (embJProps ι fs) = some (embJVal ι kv.2)
  | .nil, _, kv, h => by simp [JProps.toList] at h
  | .cons k v t, hn, kv, h => by
    simp only [JProps.keys, List.nodup_cons] at hn
    simp only [JProps.toList, List.mem_cons] at h
    simp only [embJProps, Py.dictGet?]
    rcases h with rfl | h
    · simp
    · have hne : k ≠ kv.1 := by
        intro e
        apply hn.1
        rw [e]
        have : ∀ (fs : JProps), fs.keys = fs.toList.map (·.1) := by
          intro fs
          induction fs using JProps.rec (motive_1 := fun _ => True) (motive_2 := fun _ => True) (motive_3 := fun _ => True)
            (motive_4 := fun _ => True) <;> simp_all [JProps.keys, JProps.toList]
        rw [this]
        exact List.mem_map.2 ⟨kv, h, rfl⟩
      simp only [hne, if_false]
      exact dictGet_embJProps ι t hn.2 kv h

/-! ### html-Tag attributes as props -/

theorem attrsAsProps_isEmpty (a : Attrs) : (attrsAsProps a).isEmpty = a.isEmpty := by
  cases a with
  | nil => rfl
  | cons x t => obtain ⟨k, v⟩ := x; cases v <;> rfl

theorem attrsAsProps_mem (a : Attrs) (kv : Str × JVal) (h : kv ∈ (attrsAsProps a).toList) :
    a.isEmpty = false ∧ ∃ s, kv.2 = .node (.str .plain s) ∨ kv.2 = .node (.str .html s) := by
  induction a with
  | nil => simp [attrsAsProps, JProps.toList] at h
  | cons x t ih =>
    obtain ⟨k, v⟩ := x
    refine ⟨rfl, ?_⟩
    cases v with
    | plain s =>
      simp only [attrsAsProps, JProps.toList, List.mem_cons] at h
      rcases h with rfl | h
      · exact ⟨s, Or.inl rfl⟩
      · exact (ih h).2
    | html s =>
      simp only [attrsAsProps, JProps.toList, List.mem_cons] at h
      rcases h with rfl | h
      · exact ⟨s, Or.inr rfl⟩
      · exact (ih h).2

/-- the model's attribute loop for an html Tag is its props loop on the attributes seen as `str` / `HTML` prop values -/
theorem attrsJs_asProps (a : Attrs) : attrsJs a = (attrsAsProps a).fieldsJs true := by
  induction a with
  | nil => rfl
  | cons x t ih =>
    obtain ⟨k, v⟩ := x
    cases v <;> by_cases hk : k = chars% "style" <;>
      simp [attrsJs, attrValJs, attrsAsProps, JProps.fieldsJs, JVal.serialize, JVal.serializeStyle, hk, ih, AttrVal.str]

/-! ### the model's list functions as monadic folds (what the loops of the translations simulate) -/

/-- one pass of the comprehension `[_serialize_attr(y) for y in x]` -/
def serStep (v : JVal) (acc : List Str) : Except Err (List Str) :=
  match v.serialize with
  | .ok s => .ok (acc ++ [s])
  | .error e => .error e

theorem serializeAll_fold : (vs : JVals) → (acc : List Str) →
    vs.toList.foldlM (fun acc v => serStep v acc) acc
      = match vs.serializeAll with
        | .ok ss => .ok (acc ++ ss)
        | .error e => .error e
  | .nil, acc => by simp [JVals.toList, JVals.serializeAll, pure, Except.pure]
  | .cons h t, acc => by
    simp only [JVals.toList, List.foldlM_cons]
    rw [JVals.serializeAll]
    cases hs : h.serialize with
    | error e => simp [serStep, hs, bind, Except.bind]
    | ok s =>
      have e : serStep h acc = .ok (acc ++ [s]) := by simp [serStep, hs]
      rw [e]
      simp only [bind, Except.bind]
      rw [serializeAll_fold t]
      cases t.serializeAll <;> simp

/-- one pass over a field `"k": v` -/
def fieldStep (top : Bool) (kv : Str × JVal) (acc : List Str) : Except Err (List Str) :=
  match fieldVal top kv with
  | .ok s => .ok (acc ++ [jsField kv.1 s])
  | .error e => .error e

theorem fieldsJs_fold (top : Bool) : (fs : JProps) → (acc : List Str) →
    fs.toList.foldlM (fun acc kv => fieldStep top kv acc) acc
      = match fs.fieldsJs top with
        | .ok ss => .ok (acc ++ ss)
        | .error e => .error e
  | .nil, acc => by simp [JProps.toList, JProps.fieldsJs, pure, Except.pure]
  | .cons k v t, acc => by
    simp only [JProps.toList, List.foldlM_cons]
    rw [JProps.fieldsJs]
    have ev : fieldVal top (k, v) = (if (top && decide (k = chars% "style")) = true then v.serializeStyle else v.serialize) := rfl
    rw [← ev]
    cases hs : fieldVal top (k, v) with
    | error e => simp [fieldStep, hs, bind, Except.bind]
    | ok s =>
      have e : fieldStep top (k, v) acc = .ok (acc ++ [jsField k s]) := by simp [fieldStep, hs]
      rw [e]
      simp only [bind, Except.bind]
      rw [fieldsJs_fold top t]
      cases t.fieldsJs top <;> simp

/-- one pass of the `for child in x.children` loop -/
def kidJsStep (i : Nat) (eol : Str) (c : JNode) (acc : Str) : Except Err Str :=
  match c.renderJs i eol with
  | .ok cs => .ok (acc ++ (if cs = [] then [] else ',' :: eol ++ cs))
  | .error e => .error e

theorem kidsJs_fold (i : Nat) (eol : Str) : (ks : JNodes) → (acc : Str) →
    ks.toList.foldlM (fun acc c => kidJsStep i eol c acc) acc
      = match ks.kidsJs i eol with
        | .ok r => .ok (acc ++ r)
        | .error e => .error e
  | .nil, acc => by simp [JNodes.toList, JNodes.kidsJs, pure, Except.pure]
  | .cons h t, acc => by
    simp only [JNodes.toList, List.foldlM_cons]
    rw [JNodes.kidsJs]
    cases hs : h.renderJs i eol with
    | error e => simp [kidJsStep, hs, bind, Except.bind]
    | ok s =>
      have e : kidJsStep i eol h acc = .ok (acc ++ (if s = [] then [] else ',' :: eol ++ s)) := by simp [kidJsStep, hs]
      rw [e]
      simp only [bind, Except.bind]
      rw [kidsJs_fold i eol t]
      cases t.kidsJs i eol <;> simp [List.append_assoc]

theorem joinStr_snoc (sep : Str) (l : List Str) (x : Str) :
    joinStr sep (l ++ [x]) = joinStr sep l ++ (if l.isEmpty then [] else sep) ++ x := by
  induction l with
  | nil => simp [joinStr]
  | cons a t ih =>
    cases t with
    | nil => simp [joinStr]
    | cons b r =>
      have : joinStr sep ((a :: b :: r) ++ [x]) = a ++ sep ++ joinStr sep ((b :: r) ++ [x]) := rfl
      rw [this, ih]
      simp [joinStr, List.append_assoc]

theorem joinStr_cons_snoc (sep : Str) (a : Str) (r : List Str) (x : Str) :
    joinStr sep (a :: (r ++ [x])) = joinStr sep (a :: r) ++ (sep ++ x) := by
  have := joinStr_snoc sep (a :: r) x
  simpa [List.append_assoc] using this

/-! ### loop lemmas (the body `f` is whatever the translator emitted; `hstep` is about one pass) -/

/-- a simulated loop followed by a continuation -/
theorem sim_then {σ β α : Type} {R : σ → α → Prop} {x : PyM σ} {y : Except Err α}
    (k : σ → PyM β) (r : PyM β)
    (hk : match y with
      | .ok b => ∀ s, R s b → k s = r
      | .error e => r = .error (embErr e))
    (hs : Sim R embErr x y) : (x >>= k) = r := by
  cases y with
  | error e => simp only [Sim] at hs; rw [hs, hk]; rfl
  | ok b =>
    obtain ⟨s, h1, h2⟩ := hs
    rw [h1, ok_bind]
    exact hk s h2

/-- the comprehension `[_serialize_attr(y) for y in x]` -/
theorem ser_list_loop {β : Type} (ι : Str → Option Int) (vs : JVals) (f : PVal → List PVal → PyM (ForInStep (List PVal)))
    (hstep : ∀ v ∈ vs.toList, ∀ acc, f (embJVal ι v) acc = match v.serialize with
      | .ok s => .ok (.yield (acc ++ [.str s]))
      | .error e => .error (embErr e))
    (k : List PVal → PyM β) :
    (forIn (embJVals ι vs) ([] : List PVal) f >>= k) = match vs.serializeAll with
      | .ok ss => k (ss.map .str)
      | .error e => .error (embErr e) := by
  have sim := forIn_sim (fun (s : List PVal) (b : List Str) => s = b.map PVal.str) embErr (embJVal ι) vs.toList f
    (fun v acc => serStep v acc) [] [] rfl
    (by
      intro v hv s b hR
      subst hR
      rw [hstep v hv, serStep]
      cases v.serialize with
      | error e => rfl
      | ok t => exact ⟨_, rfl, _, rfl, by simp⟩)
  rw [serializeAll_fold, ← embJVals_toList] at sim
  cases hsa : vs.serializeAll with
  | error e => rw [hsa] at sim; exact sim_then k _ rfl sim
  | ok ss =>
    rw [hsa] at sim
    exact sim_then k _ (by intro s hs; subst hs; simp) sim

/-- the comprehension over the keys of a dict value -/
theorem ser_dict_loop {β : Type} (top : Bool) (fs : JProps) (f : PVal → List PVal → PyM (ForInStep (List PVal)))
    (hstep : ∀ kv ∈ fs.toList, ∀ acc, f (.str kv.1) acc = match fieldVal top kv with
      | .ok s => .ok (.yield (acc ++ [.str (jsField kv.1 s)]))
      | .error e => .error (embErr e))
    (k : List PVal → PyM β) :
    (forIn (fs.toList.map fun kv => PVal.str kv.1) ([] : List PVal) f >>= k) = match fs.fieldsJs top with
      | .ok ss => k (ss.map .str)
      | .error e => .error (embErr e) := by
  have sim := forIn_sim (fun (s : List PVal) (b : List Str) => s = b.map PVal.str) embErr
    (fun kv : Str × JVal => PVal.str kv.1) fs.toList f
    (fun kv acc => fieldStep top kv acc) [] [] rfl
    (by
      intro kv hkv s b hR
      subst hR
      rw [hstep kv hkv, fieldStep]
      cases fieldVal top kv with
      | error e => rfl
      | ok t => exact ⟨_, rfl, _, rfl, by simp⟩)
  rw [fieldsJs_fold] at sim
  cases hsa : fs.fieldsJs top with
  | error e => rw [hsa] at sim; exact sim_then k _ rfl sim
  | ok ss =>
    rw [hsa] at sim
    exact sim_then k _ (by intro s hs; subst hs; simp) sim

/-- the `for k, v in x.attrs.items()` loop of `_render_react_js`: state (res, is_first_attr, k, v) -/
theorem attrs_loop {β : Type} (ι : Str → Option Int) (fs : JProps) (base : Str)
    (f : PVal → PVal × PVal × PVal × PVal → PyM (ForInStep (PVal × PVal × PVal × PVal)))
    (hstep : ∀ kv ∈ fs.toList, ∀ (s : PVal × PVal × PVal × PVal) (acc : List Str),
      s.1 = .str (base ++ joinStr [',', ' '] acc) → s.2.1 = .bool acc.isEmpty →
      match fieldVal true kv with
      | .ok t => ∃ s', f (.tuple [.str kv.1, embJVal ι kv.2]) s = .ok (.yield s')
          ∧ s'.1 = .str (base ++ joinStr [',', ' '] (acc ++ [jsField kv.1 t])) ∧ s'.2.1 = .bool false
      | .error e => f (.tuple [.str kv.1, embJVal ι kv.2]) s = .error (embErr e))
    (init : PVal × PVal × PVal × PVal) (h0 : init.1 = .str base) (h1 : init.2.1 = .bool true)
    (k : PVal × PVal × PVal × PVal → PyM β) (r : PyM β)
    (hk : match fs.fieldsJs true with
      | .ok ss => ∀ s : PVal × PVal × PVal × PVal, s.1 = .str (base ++ joinStr [',', ' '] ss) → k s = r
      | .error e => r = .error (embErr e)) :
    (forIn (fs.toList.map fun kv => PVal.tuple [.str kv.1, embJVal ι kv.2]) init f >>= k) = r := by
  have sim := forIn_sim (fun (s : PVal × PVal × PVal × PVal) (b : List Str) =>
      s.1 = .str (base ++ joinStr [',', ' '] b) ∧ s.2.1 = .bool b.isEmpty) embErr
    (fun kv : Str × JVal => PVal.tuple [.str kv.1, embJVal ι kv.2]) fs.toList f
    (fun kv acc => fieldStep true kv acc) init [] ⟨by simp [h0, joinStr], by simp [h1]⟩
    (by
      intro kv hkv s b hR
      have := hstep kv hkv s b hR.1 hR.2
      rw [fieldStep]
      cases hf : fieldVal true kv with
      | error e => rw [hf] at this; exact this
      | ok t =>
        rw [hf] at this
        obtain ⟨s', e1, e2, e3⟩ := this
        exact ⟨_, e1, s', rfl, e2, by simp [e3]⟩)
  rw [fieldsJs_fold] at sim
  cases hfs : fs.fieldsJs true with
  | error e => rw [hfs] at hk sim; exact sim_then k r hk sim
  | ok ss =>
    rw [hfs] at hk sim
    exact sim_then k r (by intro s hs; exact hk s (by simpa using hs.1)) sim

/-- the `for child in x.children` loop of `_render_react_js`: state (res, child, child_str) -/
theorem kids_loop {β : Type} (ι : Str → Option Int) (ks : JNodes) (i : Nat) (eol : Str) (base : Str)
    (f : PVal → PVal × PVal × PVal → PyM (ForInStep (PVal × PVal × PVal)))
    (hstep : ∀ c ∈ ks.toList, ∀ (s : PVal × PVal × PVal) (acc : Str), s.1 = .str acc →
      match c.renderJs i eol with
      | .ok cs => ∃ s', f (embJNode ι c) s = .ok (.yield s')
          ∧ s'.1 = .str (acc ++ (if cs = [] then [] else ',' :: eol ++ cs))
      | .error e => f (embJNode ι c) s = .error (embErr e))
    (init : PVal × PVal × PVal) (h0 : init.1 = .str base)
    (k : PVal × PVal × PVal → PyM β) (r : PyM β)
    (hk : match ks.kidsJs i eol with
      | .ok t => ∀ s : PVal × PVal × PVal, s.1 = .str (base ++ t) → k s = r
      | .error e => r = .error (embErr e)) :
    (forIn (ks.toList.map (embJNode ι)) init f >>= k) = r := by
  have sim := forIn_sim (fun (s : PVal × PVal × PVal) (b : Str) => s.1 = .str b) embErr
    (embJNode ι) ks.toList f (fun c acc => kidJsStep i eol c acc) init base h0
    (by
      intro c hc s b hR
      have := hstep c hc s b hR
      rw [kidJsStep]
      cases hf : c.renderJs i eol with
      | error e => rw [hf] at this; exact this
      | ok t =>
        rw [hf] at this
        obtain ⟨s', e1, e2⟩ := this
        exact ⟨_, e1, s', rfl, e2⟩)
  rw [kidsJs_fold] at sim
  cases hfs : ks.kidsJs i eol with
  | error e => rw [hfs] at hk sim; exact sim_then k r hk sim
  | ok ss =>
    rw [hfs] at hk sim
    exact sim_then k r (by intro s hs; exact hk s hs) sim

/-! ### `_serialize_style_attr`: the CSS string as a dict -/

theorem splitChar_eq_splitOn (c : Char) (s : Str) : splitChar c s = splitOn c s := by
  induction s with
  | nil => rfl
  | cons x xs ih =>
    rw [splitChar, splitOn, ih]
    split
    · rfl
    · cases splitOn c xs <;> rfl

theorem reSearch_colon (y : Str) : reSearch (.str [':']) (.str y) = .ok (.bool (y.contains ':')) := by
  have h : reSpecial ':' = false := by decide
  simp only [reSearch, List.isEmpty_cons, Bool.false_eq_true, if_false, altChars, h, pure_eq_ok]
  congr 2
  induction y with
  | nil => rfl
  | cons a t ih =>
    rw [List.any_cons, ih, List.contains_cons]
    congr 1
    by_cases h : a = ':'
    · subst h; rfl
    · have h' : ¬ (':' = a) := fun e => h e.symm
      have e1 : (a == ':') = false := by simpa using h
      have e2 : (':' == a) = false := by simpa using h'
      simp [e1, e2]

theorem pySplitSep_str (c : Char) (s : Str) : pySplitSep (.str s) (.str [c]) = .ok (.list ((splitOn c s).map .str)) := by
  simp [pySplitSep, textOf, splitChar_eq_splitOn]

theorem pyTupleJ_list (xs : List PVal) : pyTupleJ (.list xs) = .ok (.tuple xs) :=
  Eq.trans rfl rfl    -- (not stated as a `rfl` lemma: `simp` would then try it by unfolding under the loop bodies)

/-- the comprehension `[tuple(y.split(":")) for y in x.split(";") if re.search(":", y)]` -/
theorem style_loop {β : Type} (pieces : List Str) (f : PVal → List PVal → PyM (ForInStep (List PVal)))
    (hstep : ∀ y ∈ pieces, ∀ acc, f (.str y) acc
      = .ok (.yield (if y.contains ':' then acc ++ [.tuple ((splitOn ':' y).map .str)] else acc)))
    (k : List PVal → PyM β) :
    (forIn (pieces.map PVal.str) ([] : List PVal) f >>= k)
      = k ((pieces.filter (·.contains ':')).map fun y => .tuple ((splitOn ':' y).map .str)) := by
  have := forIn_ok (pieces.map PVal.str) ([] : List PVal) f
    (fun it acc => match it with
      | .str y => if y.contains ':' then acc ++ [.tuple ((splitOn ':' y).map .str)] else acc
      | _ => acc)
    (by
      intro a ha acc
      obtain ⟨y, hy, rfl⟩ := List.mem_map.1 ha
      exact hstep y hy acc)
  rw [this, ok_bind]
  congr 1
  have gen : ∀ (l : List Str) (acc : List PVal),
      (l.map PVal.str).foldl (fun acc it => match it with
        | .str y => if y.contains ':' then acc ++ [PVal.tuple ((splitOn ':' y).map .str)] else acc
        | _ => acc) acc
      = acc ++ (l.filter (·.contains ':')).map fun y => PVal.tuple ((splitOn ':' y).map .str) := by
    intro l
    induction l with
    | nil => simp
    | cons y t ih =>
      intro acc
      simp only [List.map_cons, List.foldl_cons, ih, List.filter_cons]
      by_cases hc : ':' ∈ y <;> simp [hc]
  simpa using gen pieces []

theorem pairsOf_style (pieces : List Str) :
    pairsOf ((pieces.filter (·.contains ':')).map fun y => PVal.tuple ((splitOn ':' y).map .str))
      = match styleTuples pieces with
        | .ok ts => .ok (ts.map fun kv => (kv.1, PVal.str kv.2))
        | .error _ => .error .valueError := by
  induction pieces with
  | nil => rfl
  | cons y t ih =>
    rw [styleTuples]
    by_cases hc : y.contains ':' = true
    · simp only [List.filter_cons, hc, if_true, List.map_cons]
      rcases hsp : splitOn ':' y with _ | ⟨a, _ | ⟨b, _ | ⟨c, r⟩⟩⟩
      · simp [pairsOf]
      · simp [pairsOf]
      · simp only [List.map_cons, List.map_nil, pairsOf, ok_bind, pure_eq_ok, ih]
        cases styleTuples t <;> simp
      · simp [pairsOf]
    · simp only [List.filter_cons, hc, Bool.false_eq_true, if_false]
      exact ih

theorem styleTuples_err (pieces : List Str) (e : Err) (h : styleTuples pieces = .error e) : e = .valueError := by
  induction pieces with
  | nil => simp [styleTuples] at h
  | cons y t ih =>
    rw [styleTuples] at h
    split at h
    · split at h
      · split at h
        · cases h
        · rename_i e' he
          injection h with h
          subst h
          exact ih he
      · injection h with h; exact h.symm
    · exact ih h

theorem dictSet_map_str (k v : Str) (d : List (Str × Str)) :
    Py.dictSet k (.str v) (d.map fun kv => (kv.1, PVal.str kv.2)) = (odictSet k v d).map fun kv => (kv.1, PVal.str kv.2) := by
  induction d with
  | nil => rfl
  | cons x t ih =>
    obtain ⟨k', v'⟩ := x
    simp only [List.map_cons, Py.dictSet, odictSet]
    split <;> simp_all

theorem foldl_dictSet_str (ts d : List (Str × Str)) :
    (ts.map fun kv => (kv.1, PVal.str kv.2)).foldl (fun d kv => Py.dictSet kv.1 kv.2 d) (d.map fun kv => (kv.1, PVal.str kv.2))
      = (ts.foldl (fun acc kv => odictSet kv.1 kv.2 acc) d).map fun kv => (kv.1, PVal.str kv.2) := by
  induction ts generalizing d with
  | nil => rfl
  | cons x t ih => simp only [List.map_cons, List.foldl_cons, dictSet_map_str, ih]

/-- `dict(pairs)` of the parsed CSS string is the model's `parseStyle` -/
theorem pyDict_style (pieces : List Str) :
    pyDict (.list ((pieces.filter (·.contains ':')).map fun y => PVal.tuple ((splitOn ':' y).map .str)))
      = match styleTuples pieces with
        | .ok ts => .ok (.dict ((ts.foldl (fun acc kv => odictSet kv.1 kv.2 acc) []).map fun kv => (kv.1, PVal.str kv.2)))
        | .error _ => .error .valueError := by
  simp only [pyDict, pairsOf_style]
  cases styleTuples pieces with
  | error e => rfl
  | ok ts =>
    simp only [ok_bind, pure_eq_ok]
    have := foldl_dictSet_str ts []
    simp only [List.map_nil] at this
    rw [this]

theorem odictSet_keys_mem {β} (k : Str) (v : β) (x : Str) : (d : List (Str × β)) →
    x ∈ (odictSet k v d).map (·.1) → x = k ∨ x ∈ d.map (·.1)
  | [], h => by simp [odictSet] at h; exact Or.inl h
  | (k', v') :: r, h => by
    simp only [odictSet] at h
    split at h
    · simp only [List.map_cons, List.mem_cons] at h ⊢
      rcases h with h | h
      · exact Or.inl h
      · exact Or.inr (Or.inr h)
    · simp only [List.map_cons, List.mem_cons] at h ⊢
      rcases h with h | h
      · exact Or.inr (Or.inl h)
      · rcases odictSet_keys_mem k v x r h with h | h
        · exact Or.inl h
        · exact Or.inr (Or.inr h)

theorem odictSet_nodup {β} (k : Str) (v : β) : (d : List (Str × β)) → (d.map (·.1)).Nodup →
    ((odictSet k v d).map (·.1)).Nodup
  | [], _ => by simp [odictSet]
  | (k', v') :: r, h => by
    simp only [List.map_cons, List.nodup_cons] at h
    simp only [odictSet]
    split
    · rename_i e
      subst e
      simpa using h
    · rename_i e
      simp only [List.map_cons, List.nodup_cons]
      refine ⟨?_, odictSet_nodup k v r h.2⟩
      intro hm
      rcases odictSet_keys_mem k v k' r hm with h' | h'
      · exact e h'
      · exact h.1 h'

theorem parse_nodup (ts : List (Str × Str)) :
    ((ts.foldl (fun acc kv => odictSet kv.1 kv.2 acc) []).map (·.1)).Nodup := by
  have gen : ∀ (ts d : List (Str × Str)), (d.map (·.1)).Nodup →
      ((ts.foldl (fun acc kv => odictSet kv.1 kv.2 acc) d).map (·.1)).Nodup := by
    intro ts
    induction ts with
    | nil => intro d h; exact h
    | cons x t ih => intro d h; exact ih _ (odictSet_nodup x.1 x.2 d h)
  exact gen ts [] (by simp)

/-- a dict of strings (what a CSS string is parsed into) as a prop value -/
def styleDict (d : List (Str × Str)) : JVal := .dict (JProps.ofList (d.map fun kv => (kv.1, JVal.str kv.2)))

theorem styleDict_emb (ι : Str → Option Int) (d : List (Str × Str)) :
    embJVal ι (styleDict d) = .dict (d.map fun kv => (kv.1, PVal.str kv.2)) := by
  simp only [styleDict, embJVal]
  congr 1
  induction d with
  | nil => rfl
  | cons x t ih => simp [JProps.ofList, embJProps, embJVal, embJNode, ih]

theorem styleDict_serialize (d : List (Str × Str)) :
    (styleDict d).serialize = .ok (jsObj (d.map fun kv => jsField kv.1 (jsQuote kv.2))) := by
  have : (JProps.ofList (d.map fun kv => (kv.1, JVal.str kv.2))).fieldsJs false
      = .ok (d.map fun kv => jsField kv.1 (jsQuote kv.2)) := by
    induction d with
    | nil => rfl
    | cons x t ih => simp [JProps.ofList, JProps.fieldsJs, JVal.serialize, ih]
  simp [styleDict, JVal.serialize, this]

theorem styleDict_keys (d : List (Str × Str)) :
    (JProps.ofList (d.map fun kv => (kv.1, JVal.str kv.2))).keys = d.map (·.1) := by
  induction d with
  | nil => rfl
  | cons x t ih => simp [JProps.ofList, JProps.keys, ih]

theorem styleDict_tied (d : List (Str × Str)) (hn : (d.map (·.1)).Nodup) : tiedV (styleDict d) = true := by
  have : tiedP false (JProps.ofList (d.map fun kv => (kv.1, JVal.str kv.2))) = true := by
    induction d with
    | nil => rfl
    | cons x t ih =>
      simp only [List.map_cons, List.nodup_cons] at hn
      simp [JProps.ofList, tiedP, tiedV, tiedN, ih hn.2]
  simp [styleDict, tiedV, styleDict_keys, hn, this]

theorem styleDict_height (d : List (Str × Str)) : hV (styleDict d) ≤ 3 := by
  have : hD (JProps.ofList (d.map fun kv => (kv.1, JVal.str kv.2))) ≤ 2 := by
    induction d with
    | nil => simp [JProps.ofList, hD]
    | cons x t ih => simp only [List.map_cons, JProps.ofList, hD, hV, hN]; omega
  simp only [styleDict, hV]; omega

end HtmlVerif.SrcTie
