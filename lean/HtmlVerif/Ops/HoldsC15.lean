/-
`holds C15 <op> <args…> | <impl answer>` — the executable statement of C15, evaluated on the implementation's
answers with the *spec-side* definitions the theorems are about (`normNameSpec`, `mergeSpec`,
`overrideKeepOrder`, `kidsOf`).  Every step of a history is judged from the implementation's own previous state.
Answer: `T`, or `F <step>:<clause> …`.
-/
import HtmlVerif.Ops.Attrs
import HtmlVerif.Spec.AttrMerge

namespace HtmlVerif.Ops
open HtmlVerif HtmlVerif.Wire

def anyBad (pairs : List (Str × AttrArg)) : Bool := pairs.any fun kv => kv.2.isBad

def nodupKeys (a : Attrs) : Bool := decide (keysOf a).Nodup

def verdict (fails : List String) : String :=
  if fails.isEmpty then "T" else "F " ++ " ".intercalate fails

def clause (bad : Bool) (label : String) : List String := if bad then [label] else []

def holdsASteps : Nat → Attrs → List AStep → P (List String)
  | _, _, [] => pure []
  | i, cur, s :: r => do
    let pairs := match s with
      | .upd ds kw => ds.flatten ++ kw
      | .set k v => [(k, v)]
    let name := match s with
      | .upd .. => "update_replaces"
      | .set .. => "setitem_replaces"
    let t ← next
    if t == "ok" then
      let a ← listOf attr
      let f := clause (anyBad pairs || a != overrideKeepOrder cur (mergeSpec cfg pairs)) s!"{i}:{name}"
        ++ clause (!nodupKeys a) s!"{i}:wf"
      let rest ← holdsASteps (i + 1) a r
      pure (f ++ rest)
    else if t == "err" then
      let k ← next
      let a ← listOf attr
      let f := clause (!(k == "typeError" && anyBad pairs && a == cur)) s!"{i}:rejects"
      let rest ← holdsASteps (i + 1) a r
      pure (f ++ rest)
    else throw s!"bad step answer {t}"

def holdsC15 : OpTable
  | "norm_name" => some do
    let x ← str
    expect "|"
    let out ← str
    pure (verdict (clause (out != normNameSpec x) "normName_spec"
      ++ clause (normNameSpec out != out) "normName_idem" ++ clause (out.contains '_') "normName_no_underscore"))
  | "ahist" => some do
    let ds ← listOf (listOf attrPair); let kw ← listOf attrPair; let steps ← listOf aStep
    expect "|"
    let pairs := ds.flatten ++ kw
    let t ← next
    if t == "err" then
      let k ← next
      pure (verdict (clause (!(k == "typeError" && anyBad pairs)) "0:init_rejects"))
    else if t == "ok" then
      let a0 ← listOf attr
      let f0 := clause (anyBad pairs || a0 != mergeSpec cfg pairs) "0:init_is_merge" ++ clause (!nodupKeys a0) "0:wf"
      let rest ← holdsASteps 1 a0 steps
      pure (verdict (f0 ++ rest))
    else throw s!"bad init answer {t}"
  | "consolidate" => some do
    let args ← listOf tagArg; let kw ← listOf attrPair
    expect "|"
    let pairs := (dictsOf args).flatten ++ kw
    let t ← next
    if t == "err" then
      let k ← next
      pure (verdict (clause (!(k == "typeError" && anyBad pairs)) "consolidate_error"))
    else if t == "ok" then
      let a ← listOf attr; let ks ← nodes; let same ← bool; let ident ← bool
      pure (verdict (clause (anyBad pairs || a != mergeSpec cfg pairs) "consolidate_spec:attrs"
        ++ clause (!(ks.beq (Nodes.ofList (kidsOf args))) || !ident) "consolidate_spec:children"
        ++ clause (!same) "consolidate_rebuild"))
    else throw s!"bad consolidate answer {t}"
  | "consolidate_args" => some do
    -- children are arbitrary values: "raises iff building the tag raises" (C15_consolidate_error) is exercised
    let targs ← listOf tagArgA; let kw ← listOf attrPair
    expect "|"
    let pairs := (dictsOf targs).flatten ++ kw
    let kidsBad := match kidsCheck (kidsOf targs) with | .ok _ => false | .error _ => true
    let t ← next
    if t == "err" then
      let k ← next
      pure (verdict (clause (!(k == "typeError" && (anyBad pairs || kidsBad))) "consolidate_error"))
    else if t == "ok" then
      let a ← listOf attr; let ks ← Wire.args; let same ← bool; let ident ← bool
      pure (verdict (clause (anyBad pairs || kidsBad) "consolidate_error:accepted-what-Tag-rejects"
        ++ clause (a != mergeSpec cfg pairs) "consolidate_spec:attrs"
        ++ clause (!(ks.beq (Args.ofList (kidsOf targs))) || !ident) "consolidate_spec:children"
        ++ clause (!same) "consolidate_rebuild"))
    else throw s!"bad consolidate answer {t}"
  | "attr_render" => some do
    let ds ← listOf (listOf attrPair); let kw ← listOf attrPair
    let pairs := ds.flatten ++ kw
    match (← implStr) with
    | some out =>
      pure (verdict (clause (anyBad pairs || out != (divWith (mergeSpec cfg pairs)).render cfg 0 ['\n']) "init_rendered"))
    | none => pure (verdict (clause (!anyBad pairs) "init_rejects"))
  | _ => none

end HtmlVerif.Ops
