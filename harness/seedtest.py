#!/usr/bin/env python3
"""Confirm a seeded change and run the registered checks against it.
usage: seedtest.py <seed-dir> [<property> ...]     (seed-dir contains patch.diff, demo.py, meta.json)
Applies the patch in a scratch worktree of /repo (never in /repo itself), runs the pinned suite and the demo
with and without the change, then the quick check of the named properties (default: the one in meta.json)
against the changed copy; records everything in <seed-dir>/confirm.json."""
import json
import os
import subprocess
import sys
import time

VERIF = os.path.dirname(os.path.dirname(os.path.abspath(__file__)))
WT = os.environ.get("SEED_WT", "/tmp/w/seed-wt")


def sh(cmd, **kw):
    p = subprocess.run(cmd, shell=True, capture_output=True, text=True, **kw)
    return p.returncode, (p.stdout + p.stderr)


def main():
    sd = os.path.abspath(sys.argv[1])
    meta = json.load(open(os.path.join(sd, "meta.json")))
    props = sys.argv[2:] or [meta["property"]]
    if not os.path.isdir(WT):
        rc, out = sh(f"git -C /repo worktree add -q --detach {WT}")
        assert rc == 0, out
    sh(f"git -C {WT} checkout -- . ; git -C {WT} clean -fdq ; git -C {WT} checkout -q --detach $(git -C /repo rev-parse HEAD)")
    res = {"seed": os.path.basename(sd), "property": meta["property"], "repo_head": sh("git -C /repo rev-parse HEAD")[1].strip()}
    rc, out = sh(f"PYTHONPATH=/repo /venv/bin/python {sd}/demo.py", cwd="/tmp")
    res["demo_unmodified"] = {"rc": rc, "tail": out[-300:]}
    rc, out = sh(f"git -C {WT} apply {sd}/patch.diff")
    res["apply"] = {"rc": rc, "out": out[-300:]}
    if rc == 0:
        rc, out = sh(f"cd {WT} && PYTHONPATH={WT} /venv/bin/python -m pytest -q -p no:cacheprovider 2>&1 | tail -3")
        res["suite"] = out.strip().splitlines()[-1] if out.strip() else ""
        rc, out = sh(f"PYTHONPATH={WT} /venv/bin/python {sd}/demo.py", cwd="/tmp")
        res["demo_modified"] = {"rc": rc, "tail": out[-400:]}
        res["checks"] = {}
        for p in props:
            t0 = time.time()
            rc, out = sh(f"VERIF_REPO={WT} ./check {p} --tier quick", cwd=VERIF)
            viol = [l for l in out.splitlines() if l.startswith("VIOLATION")]
            entry = {"rc": rc, "violation_lines": viol, "wall_s": round(time.time() - t0, 1)}
            if viol:
                rp = viol[0].split("replay=")[1].split()[0]
                try:
                    body = json.load(open(os.path.join(VERIF, rp)))
                    entry["replay"] = {k: body.get(k) for k in ("kind", "line", "python", "detail", "impl_output_decoded", "n_failing_inputs", "n_correspondence_differences")}
                    entry["replay"]["broken_obligations"] = list((body.get("broken_obligations") or {}).keys())[:6]
                except Exception as e:  # noqa: BLE001
                    entry["replay_error"] = str(e)
            elif rc != 0:
                entry["tail"] = out[-600:]
            res["checks"][p] = entry
    sh(f"git -C {WT} checkout -- . && git -C {WT} clean -fdq")
    # restore generated tables / evidence for the clean tree
    for p in props:
        sh(f"./check {p} --tier quick", cwd=VERIF)
    json.dump(res, open(os.path.join(sd, "confirm.json"), "w"), indent=1)
    ok = (res["demo_unmodified"]["rc"] == 0 and res.get("demo_modified", {}).get("rc") not in (0, None) and "77 passed" in res.get("suite", ""))
    caught = {p: (c["rc"] == 1 and bool(c["violation_lines"])) for p, c in res.get("checks", {}).items()}
    print(json.dumps({"seed": res["seed"], "confirmed": ok, "suite": res.get("suite"), "caught": caught,
                      "kinds": {p: (c.get("replay") or {}).get("kind") for p, c in res.get("checks", {}).items()}}))


if __name__ == "__main__":
    main()
