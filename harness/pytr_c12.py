"""Translator plug-in for C12 / C11 (DESIGN §14): `HTMLDependency.source_path_map`, `HTMLDependency.as_dict`,
`HTMLDependency.as_html_tags` (htmltools/_core.py).

New syntax (through hooks, for the functions of this area only; primitives in Py/PrimC12.lean):

  * `posixpath.join(a, b)` and `os.path.join(a, b)` -> `pyPosixJoin` (the model's own `posixJoin`; `os.path` is `posixpath`
    on the platform this framework runs on);
  * `urllib.parse.quote(s)` -> `pyQuote` (the model's own `quote`);
  * `os.path.realpath(p)` -> `osRealpath self p`, `package_dir(pkg)` -> `pyPackageDir self pkg`: what the file system / the
    import system answers is a run-time fact; the primitives return the answer *recorded in the receiver* under
    `__realpath__` / `__package_dir__` (as `pyReprHtml` does for `_repr_html_`);
  * `deepcopy(x)` -> `pyDeepcopy` (values of `PVal` are immutable: the copy is the value);
  * the loop

        L = deepcopy(<expr>)
        …
        for s in L:
            …
            s.update(<dict>)

    mutates the *items* of a list in place.  It is made functional explicitly: every pass ends by appending the (updated)
    item to an accumulator, and after the loop `L` is rebound to the container rebuilt from the accumulator.  This is the
    same computation provided that no item of `L` is reachable in any other way and the loop cannot be left early, which
    is checked syntactically (`_item_update_loop`): `L` is a local bound once, by `deepcopy(...)` (so it shares nothing
    with anything), and is not read between that binding and the loop; inside the loop the loop variable occurs only as
    `s[...]` (read) and as the receiver of the statement `s.update(...)`, `L` does not occur, and there is no `break`,
    `continue` or `return`.  The accumulator is declared *first* among the locals, so that it is the first component of
    the loop state whatever other locals the body uses.
  * `Tag("<literal>", **m)` -> `mkTagKw` and `TagList(*a, *b, …, x)` -> `mkTagList` (emitted after the translation of
    `as_dict`, see `AFTER_AS_DICT`): the constructors of a childless tag from a keyword dict — built on the *translated*
    `TagAttrDict.update` — and of a tag list from children that are Tag instances, None or tag lists.

The three functions call one another and the renderer (`self.head.get_html_string()`, a member of the mutual group
`render`), so `as_dict` and `as_html_tags` take a fuel argument (`recursive=True`) that they hand on.
"""
from __future__ import annotations

import ast

#: Lean names of this area's translations
SPM = "HTMLDependency_source_path_map"
ASD = "HTMLDependency_as_dict"
AHT = "HTMLDependency_as_html_tags"
MINE = (SPM, ASD, AHT)

T = None  # the pytranslate module (set by `register`)


def _dotted(e) -> str | None:
    """`a.b.c` as the string "a.b.c" """
    parts = []
    while isinstance(e, ast.Attribute):
        parts.append(e.attr)
        e = e.value
    if isinstance(e, ast.Name):
        parts.append(e.id)
        return ".".join(reversed(parts))
    return None


def _plain_args(e: ast.Call, n: int) -> bool:
    return len(e.args) == n and not e.keywords and not any(isinstance(a, ast.Starred) for a in e.args)


def _carrier(fn) -> str:
    """the receiver, which carries the recorded run-time facts"""
    if fn.cls is None or fn.spec.drop_self or not fn.params:
        raise T.Untranslatable("a run-time fact (file system / import system) outside a method")
    return fn.name(fn.params[0])


def _shadowed(fn, *names) -> bool:
    """a module-level name this hook gives a meaning to is rebound in the function"""
    return any(n in fn.all_params or n in fn.locals for n in names)


def _expr_hook(fn, e):
    if fn.spec.lean not in MINE:
        return None
    if not isinstance(e, ast.Call):
        return None
    d = _dotted(e.func)
    if d in ("posixpath.join", "os.path.join") and _plain_args(e, 2) and not _shadowed(fn, "posixpath", "os"):
        return f"(← pyPosixJoin {fn.V(e.args[0])} {fn.V(e.args[1])})"
    if d == "urllib.parse.quote" and _plain_args(e, 1) and not _shadowed(fn, "urllib"):
        return f"(← pyQuote {fn.V(e.args[0])})"
    if d == "os.path.realpath" and _plain_args(e, 1) and not _shadowed(fn, "os"):
        return f"(← osRealpath {_carrier(fn)} {fn.V(e.args[0])})"
    if d == "package_dir" and _plain_args(e, 1) and not _shadowed(fn, "package_dir"):
        return f"(← pyPackageDir {_carrier(fn)} {fn.V(e.args[0])})"
    if d == "deepcopy" and _plain_args(e, 1) and not _shadowed(fn, "deepcopy"):
        return f"(← pyDeepcopy {fn.V(e.args[0])})"
    # Tag("<literal>", **m)
    if d == "Tag" and not _shadowed(fn, "Tag") and len(e.args) == 1 and isinstance(e.args[0], ast.Constant) \
            and isinstance(e.args[0].value, str) and len(e.keywords) == 1 and e.keywords[0].arg is None:
        if not fn.known.get("TagAttrDict_update") or not fn.known["TagAttrDict_update"].available:
            raise T.Untranslatable("Tag(name, **kw), but TagAttrDict.update is not translated")
        return f"(← mkTagKw G {fn.V(e.args[0])} {fn.V(e.keywords[0].value)})"
    # TagList(*a, *b, …, x)
    if d == "TagList" and not _shadowed(fn, "TagList") and not e.keywords and e.args:
        parts = []
        for a in e.args:
            parts.append(f"(← pyIter {fn.V(a.value)})" if isinstance(a, ast.Starred) else f"[{fn.V(a)}]")
        return "(← mkTagList (" + " ++ ".join(parts) + "))"
    return None


# ---- the item-updating loop

def _names(nodes, ident: str) -> list[ast.Name]:
    return [n for s in nodes for n in ast.walk(s) if isinstance(n, ast.Name) and n.id == ident]


def _is_update_stmt(s: ast.stmt, var: str) -> bool:
    return (isinstance(s, ast.Expr) and isinstance(s.value, ast.Call) and isinstance(s.value.func, ast.Attribute)
            and s.value.func.attr == "update" and isinstance(s.value.func.value, ast.Name) and s.value.func.value.id == var)


def _item_update_loop(fn, s: ast.For) -> tuple[str, str] | None:
    """(container, loop variable) when `s` is a loop that updates the items of a freshly deep-copied list in place and
    the no-aliasing conditions hold; None when it is an ordinary loop; Untranslatable when it mutates items but the
    conditions fail"""
    if not (isinstance(s.target, ast.Name) and any(_is_update_stmt(b, s.target.id) for b in s.body)):
        return None
    var = s.target.id
    if s.orelse or not isinstance(s.iter, ast.Name):
        raise T.Untranslatable("in-place update of the items of something that is not a local list")
    cont = s.iter.id
    if cont == var or cont not in fn.locals:
        raise T.Untranslatable(f"in-place update of the items of {cont}, which is not a local")
    # (1) `cont` is bound exactly once, at the top level of the function, by `deepcopy(<expr>)`, before the loop
    binds = [n for n in ast.walk(fn.node) if isinstance(n, ast.Name) and n.id == cont and isinstance(n.ctx, (ast.Store, ast.Del))]
    top = [b for b in fn.node.body if isinstance(b, ast.Assign) and len(b.targets) == 1 and isinstance(b.targets[0], ast.Name)
           and b.targets[0].id == cont]
    if len(binds) != 1 or len(top) != 1 or s not in fn.node.body:
        raise T.Untranslatable(f"{cont} is not bound exactly once at the top level of the function")
    bind = top[0]
    v = bind.value
    if not (isinstance(v, ast.Call) and isinstance(v.func, ast.Name) and v.func.id == "deepcopy" and _plain_args(v, 1)
            and not _shadowed(fn, "deepcopy")):
        raise T.Untranslatable(f"{cont} is not a fresh deep copy")
    i, j = fn.node.body.index(bind), fn.node.body.index(s)
    if not i < j:
        raise T.Untranslatable(f"{cont} is bound after the loop over it")
    # (2) not read between the binding and the loop (no alias of the list or of an item can exist when the loop starts)
    if _names(fn.node.body[i + 1:j], cont) or _names([bind.value], cont):
        raise T.Untranslatable(f"{cont} is used between its binding and the loop that updates its items")
    # (3) inside the loop: the variable only as `var[...]` (read) or as the receiver of the statement `var.update(...)`;
    #     the container not at all; no early exit
    ok_uses = set()
    for b in s.body:
        if _is_update_stmt(b, var):
            ok_uses.add(id(b.value.func.value))
        for n in ast.walk(b):
            if isinstance(n, ast.Subscript) and isinstance(n.value, ast.Name) and n.value.id == var and isinstance(n.ctx, ast.Load):
                ok_uses.add(id(n.value))
            if isinstance(n, (ast.Break, ast.Continue, ast.Return, ast.FunctionDef, ast.Lambda, ast.Yield, ast.YieldFrom, ast.Await)):
                raise T.Untranslatable("early exit / nested scope in a loop that updates items in place")
    if any(id(n) not in ok_uses for n in _names(s.body, var)):
        raise T.Untranslatable(f"the item {var} is used other than as {var}[…] or {var}.update(…) in the loop that updates it")
    if _names(s.body, cont):
        raise T.Untranslatable(f"{cont} is used inside the loop that updates its items")
    return cont, var


def _stmt_hook(fn, ind, s):
    if fn.spec.lean not in MINE:
        return False
    # `var.update(<expr>)` inside an item-updating loop
    upd = getattr(fn, "c12_update_var", None)
    if upd is not None and _is_update_stmt(s, upd):
        c = s.value
        if len(c.args) != 1 or c.keywords or isinstance(c.args[0], ast.Starred):
            raise T.Untranslatable("dict.update with other than one positional argument")
        nm = fn.name(upd)
        fn.emit(ind, f"{nm} := (← pyDictUpdate {nm} {fn.V(c.args[0])})")
        return True
    if not isinstance(s, ast.For):
        return False
    r = _item_update_loop(fn, s)
    if r is None:
        return False
    if upd is not None:
        raise T.Untranslatable("nested item-updating loops")
    cont, var = r
    # the accumulator: a Lean name no Python identifier can be (`'`), declared before every other local
    k = getattr(fn, "c12_nacc", 0) + 1
    fn.c12_nacc = k
    acc = f"upd{k}'"
    fn.locals.insert(k - 1, acc)
    a, c = acc, fn.name(cont)
    it = fn.fresh("it")
    fn.emit(ind, f"{a} := (PVal.list [])")
    fn.emit(ind, f"for {it} in (← pyIter {c}) do")
    fn.assign_to(ind + 1, s.target, it)
    fn.c12_update_var = var
    try:
        fn.stmts(ind + 1, s.body)
    finally:
        fn.c12_update_var = None
    fn.emit(ind + 1, f"{a} := (← pyListAppendC12 {a} {fn.name(var)})")
    fn.emit(ind, f"{c} := (← pyWithItems {c} {a})")
    return True


AFTER_AS_DICT = '''
/-- `Tag(name, **kw)` — the constructor of a *childless* tag from a keyword dict, built on the translated
    `TagAttrDict.update` (`Tag.__init__`: `self.name = _name`; `_add_ws` defaults to True; `self.attrs =
    TagAttrDict(**kwargs)`, i.e. `update` on an empty dict; `self.children = TagList()`).  A keyword named `self` or
    `_name` collides with a parameter ("got multiple values": TypeError); `_add_ws` is taken by the parameter of that
    name, which must be a bool (else TypeError).  Restricted to a `str` name and a `dict` of keywords; the object
    records the four fields rendering reads (`embNode`). -/
def mkTagKw (G : Globals) (name kw : PVal) : PyM PVal :=
  match name, kw with
  | .str _, .dict kvs =>
    if kvs.any (fun kv => kv.1 = @SELF@ || kv.1 = @NAME@) then throw PyErr.typeError
    else match dictGet? @ADDWS@ kvs with
      | some (.bool b) => do
        let attrs ← TagAttrDict_update G (PVal.dict []) (PVal.tuple []) (PVal.dict (dictDel @ADDWS@ kvs))
        pure (PVal.obj "Tag" [("name", name), ("attrs", attrs),
                              ("children", PVal.obj "TagList" [("data", PVal.list [])]), ("add_ws", PVal.bool b)])
      | some _ => throw PyErr.typeError
      | none => do
        let attrs ← TagAttrDict_update G (PVal.dict []) (PVal.tuple []) kw
        pure (PVal.obj "Tag" [("name", name), ("attrs", attrs),
                              ("children", PVal.obj "TagList" [("data", PVal.list [])]), ("add_ws", PVal.bool true)])
  | _, _ => throw PyErr.unsupported
'''


def register(t):
    global T
    T = t
    t.SPECS += [
        t.FnSpec("htmltools/_core.py", "HTMLDependency.source_path_map", SPM),
        t.FnSpec("htmltools/_core.py", "HTMLDependency.as_dict", ASD, recursive=True),
        t.FnSpec("htmltools/_core.py", "HTMLDependency.as_html_tags", AHT, recursive=True),
    ]
    t.ARITY.update({SPM: 3, ASD: 3, AHT: 3})
    t.AFTER[ASD] = (AFTER_AS_DICT.replace("@SELF@", t.lstr("self")).replace("@NAME@", t.lstr("_name"))
                    .replace("@ADDWS@", t.lstr("_add_ws")))
    if "HtmlVerif.Py.PrimC12" not in t.IMPORTS:
        t.IMPORTS.append("HtmlVerif.Py.PrimC12")
    t.EXPR_HOOKS.append(_expr_hook)
    t.STMT_HOOKS.append(_stmt_hook)
