"""Value generators for the `srcc20b` lines (harness/pytr_c20b.py, the rest of htmltools/_jsx.py): every value shape the
functions can meet — prop dicts under raw names (trailing / inner underscores, names that normalise to the same name), any
prop value (the generators of harness/srctie_c20.py), mappings that are not dicts, tag names with and without a capital
initial (ASCII and not), declared allow-lists (None, empty, lists with and without the keywords), children of every kind
(strings, HTML, numbers, None, nested lists / tuples / TagLists, Tags, JSXTags, metadata nodes, tagifiable objects, `jsx`
strings — on which the Lean side answers `unsupported` —, values that are no tag children).

All lines use the op `srcc20b`, which carries `str.upper()` of the strings the function upper-cases."""
from __future__ import annotations

import srctie_c20 as c20
from wire import es

S, J, H = c20.S, c20.J, c20.H

RAW = ["id", "class_", "className", "data_x", "data-x", "on_click", "on-click", "x_", "x__", "x", "_", "__", "a_b_", "style", "for_",
       "_name", "allowedProps_", "é_"]
NAMES = ["Foo", "foo", "a.B", "a.b", "X.y.Z", "", ".", "a.", "éa", "Éa", "ßx", "ǆx", "1a", "_x", "A_b", "my-tag", "ŉ"]
RESERVED = ("self", "_name", "allowedProps")


def raw_name(rng):
    ex = [v for w in c20.extra() for v in (w, w.replace("-", "_"), w + "_")]
    if ex and rng.random() < 0.3:
        return rng.choice(ex)
    return rng.choice(RAW) if rng.random() < 0.85 else "".join(rng.choice("a_-é") for _ in range(rng.randint(0, 5)))


def kw_dict(rng, n=None, reserved_ok=False):
    n = rng.choice([0, 1, 1, 2, 3, 4]) if n is None else n
    ks = []
    for _ in range(n):
        k = raw_name(rng)
        if k not in ks and (reserved_ok or k not in RESERVED):
            ks.append(k)
    return ks, "M [ " + "".join(es(k) + " " + c20.jval(rng, rng.choice([0, 0, 1, 2])) + " " for k in ks) + "]"


def stored(rng):
    """the items of a JSXTagAttrDict receiver"""
    ks = rng.sample(["id", "class", "data-x", "on-click", "x-", "x", "style", "on_click"], rng.choice([0, 0, 1, 2, 3]))
    return "M [ " + "".join(es(k) + " " + c20.jval(rng, rng.choice([0, 0, 1])) + " " for k in ks) + "]"


def mapping(rng):
    r = rng.random()
    if r < 0.8:
        return kw_dict(rng, reserved_ok=True)[1]
    return rng.choice(["N", "I 3", "L [ ]", "U [ ]", S("ab"), H("a"), "O Other [ ]", "L [ U [ " + S("a") + " I 1 ] ]", "T", "D " + es("1.5")])


def child(rng, d):
    r = rng.random()
    if r < 0.30:
        return rng.choice([S, S, S, H])(c20.text(rng))
    if r < 0.36:
        return "N"
    if r < 0.44:
        return rng.choice(["I 3", "I -7", "D " + es("1.5"), "D " + es("inf"), "D " + es("1e+100"), "T"])
    if r < 0.48:
        return J(c20.text(rng))                           # Lean: unsupported (pyNoJsxArgsC20b)
    if r < 0.56:
        return rng.choice(["O MetadataNode [ id I 1 ]", "O HTMLDependency [ name S " + es("dep") + " ]",
                           "O TagifiableObj [ tagify N ]", "O TagifiableObj [ tagify " + S("t") + " ]"])
    if r < 0.62:
        return rng.choice(["O Other [ ]", "M [ ]", "M [ " + es("k") + " I 1 ]"])
    if d > 0 and r < 0.78:
        k = rng.choice(["L", "U", "T"])
        items = "".join(child(rng, d - 1) + " " for _ in range(rng.choice([0, 1, 2, 3])))
        return f"O TagList [ data L [ {items}] ]" if k == "T" else f"{k} [ {items}]"
    return c20.node(rng, max(d - 1, 0), leaf=False)


def children(rng, n=None):
    n = rng.choice([0, 1, 1, 2, 3]) if n is None else n
    return [child(rng, rng.choice([0, 1, 2])) for _ in range(n)]


def jsxtag(rng):
    """a JSXTag as `__init__` leaves it (stored names, normalised children)"""
    ks = rng.sample(["id", "className", "data-x", "style", "x-"], rng.choice([0, 1, 2]))
    attrs = "M [ " + "".join(es(k) + " " + (c20.style_val(rng, 1) if k == "style" else c20.jval(rng, 1)) + " " for k in ks) + "]"
    if rng.random() < 0.1:
        attrs = "M [ " + es("on_click") + " I 1 ]"        # put there by dict.update: copy.copy renames it (Lean: unsupported)
    return f"O JSXTag [ name {S(rng.choice(['Foo', 'a.B']))} attrs {attrs} children {c20.taglist(rng, rng.choice([0, 1, 2]))} ]"


def upper_table(strings):
    tbl = {}
    for s in strings:
        for t in (s, s.split(".")[-1][:1]):
            tbl[t] = t.upper()
    return list(tbl.items())


def _init_parts(rng):
    name = rng.choice(NAMES + ["Foo", "a.B", "X"] * 6 + c20.extra()) if rng.random() < 0.9 else "".join(rng.choice("aB.é_") for _ in range(rng.randint(0, 5)))
    r = rng.random()
    nm = S(name) if r < 0.9 else (J(name) if r < 0.95 else rng.choice(["N", "I 3", H(name), "L [ ]"]))
    ks, kw = kw_dict(rng)
    r = rng.random()
    if r < 0.4:
        allowed = "N"
    elif r < 0.5:
        allowed = "L [ ]"
    elif r < 0.75:
        allowed = "L [ " + "".join(S(k) + " " for k in ks) + rng.choice(["", S("zzz") + " "]) + "]"
    elif r < 0.9:
        allowed = "L [ " + "".join(S(k) + " " for k in rng.sample(RAW, rng.choice([1, 2, 4]))) + "]"
    else:
        allowed = rng.choice(["U [ " + "".join(S(k) + " " for k in ks) + "]", "I 3", S("id x_"), "M [ " + es("id") + " N ]", "L [ " + H("id") + " ]"])
    kids = children(rng)
    return name, nm, f"U [ {''.join(k + ' ' for k in kids)}]", allowed, kw


def _init_tag(rng):
    name, nm, args, allowed, kw = _init_parts(rng)
    return upper_table([name]), f"[ O JSXTag [ ] {nm} {args} {allowed} {kw} ]"


def _create_tag(rng):
    """the closure `jsx_tag_create(name, allowedProps)` returns, called with `*args, **kwargs`: now and then with a keyword
    called like a parameter of `JSXTag.__init__` (TypeError: multiple values)"""
    name, nm, args, allowed, kw = _init_parts(rng)
    if rng.random() < 0.08:
        kw = "M [ " + es(rng.choice(["_name", "allowedProps", "self"])) + " I 1 ]"
    return upper_table([name]), f"[ {nm} {allowed} {args} {kw} ]"


def _extend(rng):
    r = rng.random()
    if r < 0.7:
        x = rng.choice(["L", "U"]) + " [ " + "".join(k + " " for k in children(rng)) + "]"
    elif r < 0.85:
        x = child(rng, 2)
    else:
        x = rng.choice(["N", "I 3", S("ab"), H("ab"), "M [ " + es("k") + " I 1 ]", "O Other [ ]"])
    return [], f"[ {jsxtag(rng)} {x} ]"


def wnode(rng, d, top=False, clean=False, prop=False):
    """a value the walk / the visitor can meet: any prop value or child, tagifiable objects with recorded expansions.
    `clean`: mostly values the renderer's fragment covers (no object whose `str()` the universe does not have as a prop value,
    no name with `_`), for the lines of `tagify`; `prop`: the value is a prop value"""
    r = rng.random()
    if d <= 0 or (not top and r < 0.25):
        q = rng.random()
        if q < 0.45:
            return c20.strlike(rng)
        if q < 0.7 and not (clean and prop and rng.random() < 0.9):
            return rng.choice(["O MetadataNode [ id I 1 ]", "O MetadataNode [ id I 2 ]", "O HTMLDependency [ name S " + es("dep") + " ]"])
        if q < 0.9 or clean:
            return c20.scalar(rng) if not clean else rng.choice(["N", "T", "I 3", "D " + es("1.5"), S("x y"), J("() => 1"), S('a"b')])
        return rng.choice(["O Other [ ]", "L [ " + S("a") + " ]", "M [ " + es("k") + " I 1 ]", "M [ " + es("on_click") + " I 1 ]",
                           "O TagList [ data L [ " + S("t") + " ] ]", "U [ ]"])
    if r < 0.5:
        ks = rng.sample(["id", "className", "data-x", "style", "x-", "p", "q"], rng.choice([0, 1, 2, 3]))

        def pv(k):
            if clean and k == "style":
                return c20.style_val(rng, 1) if rng.random() < 0.7 else wnode(rng, d - 1, clean=True, prop=True)
            if rng.random() < 0.6:
                return wnode(rng, d - 1, clean=clean, prop=True)
            return c20.jval(rng, 1) if not clean else rng.choice(["N", "F", "I 7", S("v"), "L [ I 1 " + S("a") + " ]", "M [ " + es("k") + " I 1 ]"])
        attrs = "M [ " + "".join(es(k) + " " + pv(k) + " " for k in ks) + "]"
        if rng.random() < 0.05:
            attrs = "M [ " + es("on_click") + " " + wnode(rng, d - 1, clean=clean, prop=True) + " ]"     # Lean: unsupported (copy / setitem rename it)
        kids = "".join(wnode(rng, d - 1, clean=clean) + " " for _ in range(rng.choice([0, 1, 2, 3])))
        return f"O JSXTag [ name {S(rng.choice(['Foo', 'a.B']))} attrs {attrs} children O TagList [ data L [ {kids}] ] ]"
    if r < 0.75:
        kids = "".join(wnode(rng, d - 1, clean=clean) + " " for _ in range(rng.choice([0, 1, 2, 3])))
        return (f"O Tag [ name {S(rng.choice(['div', 'span']))} attrs {c20.tag_attrs(rng)} children O TagList [ data L [ {kids}] ] "
                f"add_ws {rng.choice(['T', 'F'])} ]")
    q = rng.random()
    if q < 0.75 or clean and q < 0.95:
        return f"O TagifiableObj [ tagify {wnode(rng, d - 1, clean=clean, prop=prop)} ]"
    if q < 0.9:
        return "O TagifiableObj [ tagify O TagList [ data L [ " + "".join(wnode(rng, d - 1, clean=clean) + " " for _ in range(rng.choice([0, 1, 2]))) + "] ] ]"
    return "O TagifiableObj [ tagify " + rng.choice(["N", "I 3", "L [ ]"]) + " ]"


def tagify_self(rng):
    for _ in range(50):
        x = wnode(rng, rng.choice([1, 2, 3]), top=True, clean=rng.random() < 0.85)
        if x.startswith("O JSXTag"):
            return x
    return "O JSXTag [ name S " + es("Foo") + " attrs M [ ] children O TagList [ data L [ ] ] ]"


def md_list(rng):
    return "L [ " + "".join(rng.choice(["O MetadataNode [ id I 9 ]", S("x")]) + " " for _ in range(rng.choice([0, 0, 1, 2]))) + "]"


C20B_GENS = {
    "JSXTagAttrDict_setitemC20b": lambda rng: ([], f"[ {stored(rng)} {S(raw_name(rng)) if rng.random() < 0.9 else rng.choice([J('a_'), 'N', 'I 3', H('a_')])} "
                                                   f"{c20.jval(rng, rng.choice([0, 1, 2]))} ]"),
    "JSXTagAttrDict_updateMapC20b": lambda rng: ([], f"[ {stored(rng)} {mapping(rng)} ]"),
    "JSXTagAttrDict_updateC20b": lambda rng: ([], f"[ {stored(rng)} U [ " + "".join(mapping(rng) + " " for _ in range(rng.choice([0, 0, 1, 2, 3])))
                                              + f"] {kw_dict(rng)[1]} ]"),
    "JSXTagAttrDict_initC20b": lambda rng: ([], f"[ {stored(rng) if rng.random() < 0.3 else 'M [ ]'} {kw_dict(rng)[1]} ]"),
    "JSXTag_initC20b": _init_tag,
    "JSXTag_extendC20b": _extend,
    "JSXTag_appendC20b": lambda rng: ([], f"[ {jsxtag(rng)} U [ {''.join(k + ' ' for k in children(rng))}] ]"),
    "JSXTag_copyC20b": lambda rng: ([], f"[ {jsxtag(rng)} ]"),
    "jsx_newC20b": lambda rng: ([], "[ U [ " + "".join(rng.choice([S(c20.text(rng)), S(c20.text(rng)), J(c20.text(rng)), H("h"), "I 1", "N"]
                                                                   if rng.random() < 0.15 else [S(c20.text(rng)), J(c20.text(rng))]) + " "
                                                       for _ in range(rng.choice([0, 1, 1, 2, 3]))) + "] ]"),
    "jsx_addC20b": lambda rng: ([], f"[ {J(c20.text(rng)) if rng.random() < 0.9 else rng.choice([S('a'), 'I 1', H('h')])} "
                                    f"{rng.choice([S(c20.text(rng)), J(c20.text(rng))] * 6 + [H('h'), 'I 1', 'N', 'L [ ]'])} ]"),
    "jsx_tag_createC20b": lambda rng: ([], f"[ {rng.choice([S(rng.choice(NAMES)), S(rng.choice(NAMES)), J('Foo'), 'N', 'I 3', H('Foo')])} "
                                           f"{rng.choice(['N', 'L [ ]', 'L [ ' + S('id') + ' ]', 'I 1'])} ]"),
    "jsx_create_tagC20b": lambda rng: _create_tag(rng),
    "lib_dependencyC20b": lambda rng: ([], f"[ {rng.choice([S('react'), S('react-dom')] * 4 + [S('vue'), S(''), S('react_dom')] + [S(w) for w in c20.extra()[:3]] + ['N', J('react'), H('react')])} "
                                           + rng.choice(["M [ " + es("src") + " " + S(rng.choice(["a.js", "react.production.min.js", ""])) + " ]", "M [ ]", "N",
                                                         "L [ M [ " + es("src") + " " + S("a.js") + " ] ]", "L [ ]", S("a.js"), "L [ I 1 ]", "I 3",
                                                         "M [ " + es("href") + " " + S("a.js") + " ]",
                                                         "M [ " + es("src") + " " + S("a.js") + " " + es("defer") + " " + S("") + " ]"]) + " ]"),
    "JSXTag_tagifyC20b": lambda rng: ([], f"[ {tagify_self(rng)} ]"),
    "JSXTag_tagify_visitorC20b": lambda rng: ([], f"[ {md_list(rng)} {wnode(rng, rng.choice([0, 1, 2]), top=rng.random() < 0.6)} ]"),
    "walk_attrs_and_childrenC20b": lambda rng: ([], f"[ {wnode(rng, rng.choice([1, 2, 3, 4]), top=rng.random() < 0.8)} {md_list(rng)} ]"),
}


def register(GENS):
    # every function of this area runs under `srcc20b` (lines_c20b); the plain `src` op would do for all but JSXTag.__init__
    for f, g in C20B_GENS.items():
        if f != "JSXTag_initC20b":
            GENS[f] = (lambda g: lambda rng: g(rng)[1])(g)


_VERS = None


def versions_table() -> str:
    """what `packaging` answers for the version strings of `_versions.py` (and a few others): `[ (raw str(Version(raw)))… ]`, the
    strings it refuses left out"""
    global _VERS
    if _VERS is None:
        from packaging.version import InvalidVersion, Version
        raws = ["17.0.2", "1.0", "01.0", "x"]
        try:
            from htmltools._versions import versions
            raws = [v for v in versions.values() if isinstance(v, str)] + raws
        except Exception:  # noqa: BLE001
            pass
        rows = []
        for r in dict.fromkeys(raws):
            try:
                rows.append((r, str(Version(r))))
            except InvalidVersion:
                pass
        _VERS = "[ " + "".join(es(a) + " " + es(b) + " " for a, b in rows) + "]"
    return _VERS


def lines_c20b(rng, funcs: list[str], n: int) -> list[str]:
    out = []
    for f in funcs:
        seen = set()
        for _ in range(n):
            tbl, args = C20B_GENS[f](rng)
            l = "srcc20b [ " + "".join(es(a) + " " + es(b) + " " for a, b in tbl) + f"] {versions_table()} {f} {args}"
            if l not in seen:
                seen.add(l)
                out.append(l)
    return out


def add_src_c20b(ck, funcs: list[str], quick: int = 150, thorough: int = 1500):
    """`Check.add_src` for the functions of this area (op `srcc20b`)"""
    import core
    ls = lines_c20b(ck.rng, funcs, thorough if ck.tier == "thorough" else quick)
    ck.src_lines += list(zip(ls, core.impl_many(ls)))


def check_prims() -> int:
    """`python harness/srctie_c20b.py --prims`: the facts about CPython that the primitives of lean/HtmlVerif/Py/PrimC20b.lean
    state and that the `srcc20b` lines cannot reach (the lines cover the rest on every run), checked against the running
    interpreter"""
    import copy
    from htmltools._jsx import JSXTag, JSXTagAttrDict, jsx
    import htmltools
    bad = []

    def raises(exc, f):
        try:
            f()
        except exc:
            return True
        except Exception:  # noqa: BLE001
            return False
        return False

    # pyDictUpdateKwC20b: `**x` of a non-mapping is a TypeError; the items of a dict are set in order, not through __setitem__
    for x in (None, 5, [1], "ab", (1,)):
        if not raises(TypeError, lambda: dict.update({}, **x)):
            bad.append(("update(**x)", x))
    d = JSXTagAttrDict()
    dict.update(d, **{"a_b": 1, "c": 2})
    if list(d.items()) != [("a_b", 1), ("c", 2)]:
        bad.append(("dict.update bypasses __setitem__", dict(d)))
    # pyCopyC20b / pyCopyObjC20b: copy.copy of a dict subclass re-inserts through __setitem__; the identity without `_`
    d = JSXTagAttrDict()
    dict.update(d, {"on_click": 1, "x-y": 2})
    if dict(copy.copy(d)) != {"on-click": 1, "x-y": 2} or dict(copy.copy({"on_click": 1})) != {"on_click": 1}:
        bad.append(("copy.copy(JSXTagAttrDict)", dict(copy.copy(d))))
    t = htmltools.Tag("div")
    dict.update(t.attrs, {"data_x": "1", "k": "v"})
    if dict(copy.copy(t).attrs) != {"data-x": "1", "k": "v"}:
        bad.append(("copy.copy(Tag).attrs", dict(copy.copy(t).attrs)))
    # pyNewLikeC20b / pyDictAttrUpdateC20b
    j = JSXTag("Foo", "a", x=1)
    c = j.__class__.__new__(j.__class__)
    if type(c) is not JSXTag or vars(c) != {}:
        bad.append(("__new__", vars(c)))
    c.__dict__.update(j.__dict__)
    if list(vars(c)) != ["name", "attrs", "children"]:
        bad.append(("__dict__.update", list(vars(c))))
    # pyUpperC20b on non-str receivers
    for x in (None, 5, []):
        if not raises(AttributeError, lambda: x.upper()):
            bad.append(("upper", x))
    if type(htmltools.HTML("a").upper()) is not htmltools.HTML:
        bad.append(("HTML.upper", None))
    # pyStrAddC20b: TypeError for a non-str right operand (raised, not NotImplemented) and for a non-str receiver
    if type(str.__add__(jsx("a"), jsx("b"))) is not str:
        bad.append(("str.__add__", None))
    for a, b in (("a", 5), ("a", None), ("a", []), ("a", htmltools.HTML("b")), (5, "a"), (jsx("a"), htmltools.HTML("b"))):
        if not raises(TypeError, lambda: str.__add__(a, b)):
            bad.append(("str.__add__", (a, b)))
    # pyJsxNewC20b / mkHTMLC20b
    if type(str.__new__(jsx, "a")) is not jsx or type(htmltools.HTML(jsx("a")).data) is not str:
        bad.append(("str.__new__(jsx) / HTML(jsx).data", None))
    # pySetFuncNameC20b

    def f():
        pass
    for x in (None, 5, htmltools.HTML("a")):
        if not raises(TypeError, lambda: setattr(f, "__name__", x)):
            bad.append(("__name__ =", x))
    f.__name__ = jsx("g")
    # pySameKeysC20b: adding a key while iterating a dict raises RuntimeError at the next step only
    d = JSXTagAttrDict()
    dict.update(d, {"a_b": 1, "c": 2})
    if not raises(RuntimeError, lambda: [d.__setitem__(k, v) for k, v in d.items()]):
        bad.append(("dict changed size during iteration", None))
    d = JSXTagAttrDict()
    dict.update(d, {"c": 2, "a_b": 1})
    if not raises(RuntimeError, lambda: [d.__setitem__(k, v) for k, v in d.items()]):      # also when it is the last item
        bad.append(("dict changed size during iteration (last item)", None))
    print(f"prims: {len(bad)} mismatches", bad[:5])
    return 1 if bad else 0


if __name__ == "__main__":
    import sys
    sys.path.insert(0, __import__("os").path.dirname(__import__("os").path.abspath(__file__)))
    sys.exit(check_prims() if "--prims" in sys.argv else 0)
