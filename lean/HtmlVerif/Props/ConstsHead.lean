/- Constants tie, head_content (obligations of C18): name prefix and version. -/
import HtmlVerif.Lemmas.ConstTie
import HtmlVerif.Model.HeadContent

namespace HtmlVerif.ConstsHead
open HtmlVerif HtmlVerif.Generated HtmlVerif.ConstTie

theorem headcontent_literals :
    (strIs headcontentPrefixLit headcontentPrefix && strIs headcontentVersionLit ['0', '.', '0']) = true := by decide +kernel

end HtmlVerif.ConstsHead
