/-
Primitives of the Python fragment used by the translations of `_equals_impl` and of the `__eq__` methods that call it
(harness/pytr_c08.py), and `str.replace` with a key of any length — the neutralisation step of
`HTMLDependency.serialize_to_script_json` (not used by a translation; tied to the model by Props/SrcC08.lean `src_neutralise`,
checked against the interpreter by the `srcc08 replace` op).

`pyEqWith objEq a b` is Python's `a == b` on the value shapes listed below; `objEq x y` is what `x.__eq__(y)` returns for
an instance `x` of one of the library's classes whose `__eq__` is translated (`Tag`, `TagList`, `HTMLDependency`: all
three are `return _equals_impl(self, other)`, which always returns a `bool`, never `NotImplemented`).  The translator
passes the run-time dispatch over the translated `__eq__` methods for it (`eqDispatch` below, applied to the three translations).

Covered (everything else raises `unsupported`; each row was checked against /venv/bin/python, see harness/srctie_c08.py
`_prim_cases`, one pair per row, compared through `TagList.__eq__` on one-element child lists in every run):

* `None`, `bool`, `int`: `None == None`; `bool`/`int` compare as numbers (`True == 1`); any of them against a value of
  another built-in kind is `False` (both `__eq__` return NotImplemented, the objects are distinct).
* `str` / `HTML` (a `UserString`): text equality in all four combinations (`str.__eq__(HTML)` is NotImplemented, the
  reflected `UserString.__eq__` compares `self.data` with the string); `HTML` against anything that is not a string is
  `self.data == other`, i.e. the answer for the plain string.
* `list`/`list`, `tuple`/`tuple`: same length and equal position by position (left to right, stops at the first
  difference); `list` against `tuple` is `False`.
* `dict`/`dict` (`TagAttrDict` is a `dict`): same number of keys, and every key of the left one is in the right one with
  an equal value (in the left one's order, stops at the first difference).
* an instance of `Tag` / `TagList` / `HTMLDependency` on the left: `objEq a b`.  On the right, with a built-in value, a
  `Version` or an `HTML` on the left: the left operand's `__eq__` returns NotImplemented (for `HTML`: after unwrapping
  to its `data`), so the reflected `objEq b a` decides.  (None of these three classes is a subclass of another, so the
  "subclass first" rule of the reflected protocol never applies among them.)
* `packaging.version.Version` (an instance carrying `rank`, its position in packaging's order): equal ranks; against a
  non-`Version` its `__eq__` is NotImplemented, so the other side decides or the answer is `False`.
* the harness's two helper value classes `EqReprObj(s)` and `EqMeta(n)` (harness/adapters.py `ReprObj`, `Meta`), whose
  `__eq__` is `isinstance(other, Cls) and other.<field> == self.<field>` (always a `bool`).
* `float`, and instances of any other class (identity comparison — the fragment has no object identity): `unsupported`.
-/
import HtmlVerif.Py.Prim

namespace HtmlVerif.Py
open HtmlVerif

/-! ### `isinstance(y, type(x))`, `x.__dict__`, `getattr(x, name, default)` -/

/-- `isinstance(y, type(x))`: class names identify classes; the subclass relation is that of `builtinClasses` /
    `classBases` (instances of two differently named classes outside the library are unrelated) -/
def isInstanceTypeOf (y x : PVal) : Bool := isInstance y [pyClassOf x]

/-- fields that stand for *methods* of an instance of some other class (Py/Prim.lean `pyStr`, `pyReprHtml`,
    `isInstance`): such an instance's `__dict__` is not its field list -/
def pseudoField (k : String) : Bool := k == "__str__" || k == "_repr_html_" || k == "tagify"

/-- `x.__dict__` of an instance (as a dict with `str` keys, in attribute-creation order).  `HTML` is a `UserString`
    (`{'data': …}`); the built-in kinds have no `__dict__`; a `.dict` may be a plain `dict` (AttributeError) or a
    `TagAttrDict` (`{}`): not covered. -/
def pyObjDict : PVal → PyM PVal
  | .obj _ fs =>
    if fs.any (fun f => pseudoField f.1) then throw .unsupported
    else pure (.dict (fs.map fun kv => (kv.1.toList, kv.2)))
  | .html s => pure (.dict [("data".toList, .str s)])
  | .dict _ => throw .unsupported
  | .float _ => throw .attributeError
  | _ => throw .attributeError

/-- `getattr(x, name, default)` for a name that is an instance attribute of `x`.  A name that is not in the instance's
    `__dict__` may still be found on the class (a method, a class attribute) — the fragment does not know the classes'
    attributes, so that case is not covered. -/
def pyGetAttrD (x name _dflt : PVal) : PyM PVal :=
  match name with
  | .str k =>
    match x with
    | .obj _ fs =>
      if fs.any (fun f => pseudoField f.1) then throw .unsupported
      else match fieldGet? (String.ofList k) fs with
        | some v => pure v
        | Option.none => throw .unsupported
    | .html s => if k == "data".toList then pure (.str s) else throw .unsupported
    | _ => throw .unsupported
  | .html _ => throw .unsupported
  | _ => throw .typeError          -- "attribute name must be string"

/-! ### `==` -/

/-- classes whose `__eq__` is the translated one -/
def eqLibClass (c : String) : Bool := c == "Tag" || c == "TagList" || c == "HTMLDependency"

/-- the harness's helper value classes: class name ↦ the field their `__eq__` compares -/
def eqHelperField : String → Option String
  | "EqReprObj" => some "s"
  | "EqMeta" => some "n"
  | _ => Option.none

/-- how a value takes part in `==` -/
inductive EqKind
  | lib        -- Tag / TagList / HTMLDependency: `__eq__` is `_equals_impl`
  | helper (f : String)
  | version
  | foreign    -- any other instance, or a float: not covered
  | builtin
  deriving DecidableEq, Repr

def eqKind : PVal → EqKind
  | .obj c _ =>
    if eqLibClass c then .lib
    else match eqHelperField c with
      | some f => .helper f
      | Option.none => if c == "Version" then .version else .foreign
  | .float _ => .foreign
  | _ => .builtin

/-- the result of a translated `__eq__` as a Lean Bool -/
def asBool : PVal → PyM Bool
  | .bool b => pure b
  | _ => throw .unsupported

/-- `==` between two scalars of the same simple kind stored in a helper object's field -/
def eqScalar : PVal → PVal → PyM Bool
  | .str x, .str y => pure (x == y)
  | .int x, .int y => pure (x == y)
  | _, _ => throw .unsupported

/-- a `bool` or `int` as a number -/
def numOf : PVal → Option Int
  | .bool true => some 1
  | .bool false => some 0
  | .int n => some n
  | _ => Option.none

/-- `a.__eq__(b)` for an instance `a` of a helper value class comparing the field `f` -/
def eqHelper (f : String) : PVal → PVal → PyM Bool
  | .obj ca fa, .obj cb fb =>
    if ca == cb then
      match fieldGet? f fa, fieldGet? f fb with
      | some x, some y => eqScalar x y
      | _, _ => throw .unsupported
    else pure false
  | _, _ => pure false

/-- `Version == Version` -/
def eqVersion : PVal → PVal → PyM Bool
  | .obj _ fa, .obj _ fb =>
    match fieldGet? "rank" fa, fieldGet? "rank" fb with
    | some (.int x), some (.int y) => pure (x == y)
    | _, _ => throw .unsupported
  | _, _ => throw .unsupported

/-- `UserString.__eq__(self, other)` with `other` not a string: `self.data == other` -/
def unwrapHtml : PVal → PVal
  | .html s => .str s
  | v => v

/-- `a == b` for two values of the built-in kinds (`HTML` included) that are not two lists, two tuples or two dicts -/
def eqBuiltin : PVal → PVal → PyM Bool
  | .none, .none => pure true
  | .str x, .str y => pure (x == y)
  | .str x, .html y => pure (x == y)
  | .html x, .str y => pure (x == y)
  | .html x, .html y => pure (x == y)
  | .list _, .list _ => throw .unsupported       -- (handled by `pyEqWith`)
  | .tuple _, .tuple _ => throw .unsupported
  | .dict _, .dict _ => throw .unsupported
  | x, y =>
    match numOf x, numOf y with
    | some m, some n => pure (m == n)
    | _, _ => pure false

/-- `a == b` except between two lists, two tuples or two dicts (see the table at the head of this file) -/
def pyEqFlat (objEq : PVal → PVal → PyM PVal) (a b : PVal) : PyM Bool :=
  match eqKind a, eqKind b with
  | .foreign, _ => throw .unsupported
  | _, .foreign => throw .unsupported
  | .lib, _ => objEq a b >>= asBool
  | .helper f, _ => eqHelper f a b
  | .version, .version => eqVersion a b
  | .version, .lib => objEq b a >>= asBool
  | .version, _ => pure false            -- a helper's `__eq__(version)` is False; a built-in's is NotImplemented
  | .builtin, .lib => objEq b (unwrapHtml a) >>= asBool
  | .builtin, .helper _ => pure false
  | .builtin, .version => pure false
  | .builtin, .builtin => eqBuiltin a b

mutual
  /-- `a == b` -/
  def pyEqWith (objEq : PVal → PVal → PyM PVal) : PVal → PVal → PyM Bool
    | .list xs, .list ys => if xs.length == ys.length then pyEqListWith objEq xs ys else pure false
    | .tuple xs, .tuple ys => if xs.length == ys.length then pyEqListWith objEq xs ys else pure false
    | .dict xs, .dict ys => if xs.length == ys.length then pyEqDictWith objEq xs ys else pure false
    | a, b => pyEqFlat objEq a b
  /-- sequences (of the same length: CPython compares the lengths first): equal position by position -/
  def pyEqListWith (objEq : PVal → PVal → PyM PVal) : List PVal → List PVal → PyM Bool
    | [], [] => pure true
    | x :: xs, y :: ys => do
      if (← pyEqWith objEq x y) then pyEqListWith objEq xs ys else pure false
    | _, _ => pure false
  /-- every entry of the left dict is in the right one with an equal value -/
  def pyEqDictWith (objEq : PVal → PVal → PyM PVal) : List (Str × PVal) → List (Str × PVal) → PyM Bool
    | [], _ => pure true
    | (k, v) :: r, ys =>
      match dictGet? k ys with
      | Option.none => pure false
      | some w => do
        if (← pyEqWith objEq v w) then pyEqDictWith objEq r ys else pure false
end

/-- `x.__eq__(y)` decided at run time by the class of `x`, over the (translated) `__eq__` methods of the three library
    classes that define one (the translator passes the translations; like `DISPATCH` for ordinary methods) -/
def eqDispatch (tagEq listEq depEq : PVal → PVal → PyM PVal) (a b : PVal) : PyM PVal :=
  match pyClassOf a with
  | "Tag" => tagEq a b
  | "TagList" => listEq a b
  | "HTMLDependency" => depEq a b
  | _ => throw .unsupported

/-- `a == b` as a Python value -/
def pyEqDeep (objEq : PVal → PVal → PyM PVal) (a b : PVal) : PyM PVal := do
  pure (.bool (← pyEqWith objEq a b))

/-! ### `str.replace(old, new)` for a non-empty `old` of any length -/

/-- one left-to-right pass: `n` characters of an occurrence just replaced are still to be skipped; at a position where
    `old` starts, `new` is written and the scan resumes after the occurrence (leftmost, non-overlapping — what CPython's
    `str.replace` does for a non-empty `old`) -/
def replaceGo (old new : Str) : Nat → Str → Str
  | _, [] => []
  | n + 1, _ :: r => replaceGo old new n r
  | 0, c :: r =>
    if old.isPrefixOf (c :: r) then new ++ replaceGo old new (old.length - 1) r
    else c :: replaceGo old new 0 r

/-- `s.replace(old, new)`.  A `str` receiver takes `str` arguments only (TypeError otherwise); `UserString.replace`
    unwraps `UserString` arguments and returns an instance of the receiver's class.  An empty `old` (insertion between
    all characters) is not covered. -/
def pyReplaceAll (s old new : PVal) : PyM PVal :=
  match s with
  | .str a =>
    match old, new with
    | .str o, .str v => if o.isEmpty then throw .unsupported else pure (.str (replaceGo o v 0 a))
    | _, _ => throw .typeError
  | .html a =>
    match textOf old, textOf new with
    | some o, some v => if o.isEmpty then throw .unsupported else pure (.html (replaceGo o v 0 a))
    | _, _ => throw .typeError
  | _ => throw .unsupported

end HtmlVerif.Py
