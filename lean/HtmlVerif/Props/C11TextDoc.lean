/-
C11 / C13 — what `HTMLTextDocument.render()` inserts at the placeholder is what `HTMLDocument` appends to `<head>`.

`Props/C13.lean` proves `C13_same_as_document_partial` relative to the one fact about the document model it
needs (`hoisted = headNodes asTags`).  Here that fact is proved for the document model of `Model/Document.lean`
(`hoist` appends `listing deps ++ depTagsAll deps` to the head: `Lemmas/Document.lean: hoist_eq`), with
`asTags` instantiated by the `as_html_tags` model of `Model/DepTags.lean`, which gives the full statement.

A dependency recovered from serialised JSON (`SDep`: the record and its head as text) is the dependency node
whose head is `TagList(HTML(head))` (`HTMLDependency.__init__`, _core.py:1645-1651).
-/
import HtmlVerif.Lemmas.DocumentText
import HtmlVerif.Props.C13

namespace HtmlVerif.C11
open HtmlVerif HtmlVerif.Doc

/-- the fact `C13_same_as_document_partial` is relative to, for this document model: the nodes
    `_hoist_head_content` appends to `<head>` for a dependency list are `headNodes` of the same list -/
theorem C11_hoisted_is_headNodes {cfg : Cfg} {lp : Option Str} {iv : Bool} {ds : List SDep} {tags : Nodes}
    (hok : depTagsAll cfg lp iv (ds.map sdepNode) = .ok tags) :
    listing (ds.map sdepNode) ++ tags = headNodes (sdepTags cfg lp iv) ds := by
  rw [headNodes, listing_sdep, depTagsAll_sdep hok]

/-- **`HTMLTextDocument.render()` inserts exactly what `HTMLDocument` hoists** (the full `C13_same_as_document`):
    for an `<html>` tag `x` whose resolved dependencies are the text document's, `_hoist_head_content(x)` completes
    the head with `extra`, and the text document replaces the first placeholder by the rendering of the same `extra` -/
theorem C11_same_as_text_document (cfg : Cfg) (lp : Option Str) (iv : Bool) (html ph : Str) (deps : List SDep)
    (w : Bool) (a : Attrs) (ks : Nodes) (hdeps : resolve ks.collect = deps.map sdepNode) (t : Node)
    (ht : hoist cfg (.tag nHtml w a ks) lp iv = .ok t) :
    ∃ extra, t = .tag nHtml w a (withHead extra ks) ∧
      textDocRender cfg (sdepTags cfg lp iv) html deps (some ph)
        = .ok (replaceFirst ph (renderList cfg extra 0 ['\n'] true true) html) := by
  rw [hoist_eq, hdeps] at ht
  cases hok : depTagsAll cfg lp iv (deps.map sdepNode) with
  | error e => simp [hok] at ht
  | ok tags =>
    simp only [hok] at ht
    cases ht
    refine ⟨_, rfl, ?_⟩
    exact C13.C13_same_as_document_partial cfg (sdepTags cfg lp iv)
      (fun ds => headNodes (sdepTags cfg lp iv) ds) (fun _ => rfl) html ph deps
      |>.trans (by rw [C11_hoisted_is_headNodes hok])

def tdCfg0 : Cfg := { void := [nMeta], noesc := [nScript], textTbl := [], attrTbl := [] }

def tdSdep0 : SDep :=
  { info := { name := ['n'], version := ['1'], vrank := 0, source := .none,
              script := [[(['s', 'r', 'c'], ['s', '.', 'j', 's'])]], stylesheet := [], metas := [], allFiles := false },
    head := some ['<', 'x', '>'] }

/-- non-vacuity: one recovered dependency with a head and a script under an `<html>` tag -/
example :
    (match hoist tdCfg0 (.tag nHtml true [] (.cons (sdepNode tdSdep0) .nil)) none true with
      | .ok _ => true
      | .error _ => false) = true ∧
    resolve (Nodes.cons (sdepNode tdSdep0) .nil).collect = [tdSdep0].map sdepNode :=
  ⟨by decide +kernel, rfl⟩

end HtmlVerif.C11
