/-
Driver op that *runs* the regenerated functions of harness/pytr_c20b.py (the rest of `htmltools/_jsx.py`) with the one
thing the running interpreter contributes taken from the line (DESIGN §14, translator validation):

  srcc20b [ (<str> <str.upper() of it>)… ] [ (<version string> <str(Version(it))>)… ] <function> [ <pval>… ]
                                                                       → ok <pval> | err <kind> | unsupported

The first table: `str.upper()` of the strings the harness expects the function to upper-case (the initial of a JSX tag name).
A string that is upper-cased but is not in the table makes `pyUpperC20b` answer `unsupported` — no verdict, never a guess.
The second table: what `packaging.version.Version` answers for the version strings that reach `HTMLDependency(…)` (those of
`_versions.py`): its `str()`; the Version object is given rank 0 (`versionObjC10b 0 text`).  A string that is not in the table
is refused (`InvalidVersion`, a ValueError) — the harness lists every string `packaging` accepts.
The pval syntax is that of `Ops/Src.lean`.
-/
import HtmlVerif.Ops.Base
import HtmlVerif.Generated.Src

namespace HtmlVerif.Ops
open HtmlVerif HtmlVerif.Wire HtmlVerif.Py

private def c20bG (tbl vers : List (Str × Str)) : Globals :=
  { HTML_ESCAPE_TABLE := embTbl cfg.textTbl, HTML_ATTRS_ESCAPE_TABLE := embTbl cfg.attrTbl,
    VOID_TAG_NAMES := cfg.void, NO_ESCAPE_TAG_NAMES := cfg.noesc, isSpace := fun _ => false, lower := id,
    upperC20b := fun s => alookup s tbl,
    mkVersion := fun s => (alookup s vers).map (versionObjC10b 0) }

private partial def c20bPVal : P PVal := do
  let t ← next
  match t with
  | "N" => pure .none
  | "T" => pure (.bool true)
  | "F" => pure (.bool false)
  | "I" => do
    let s ← next
    match s.toInt? with
    | some n => pure (.int n)
    | none => throw s!"bad int {s}"
  | "D" => .float <$> str
  | "S" => .str <$> str
  | "H" => .html <$> str
  | "L" => .list <$> listOf c20bPVal
  | "U" => .tuple <$> listOf c20bPVal
  | "M" => .dict <$> listOf (do let k ← str; let v ← c20bPVal; pure (k, v))
  | "O" => do
    let c ← next
    let fs ← listOf (do let k ← next; let v ← c20bPVal; pure (k, v))
    pure (.obj c fs)
  | _ => throw s!"bad pval {t}"

private partial def c20bEnc : PVal → String
  | .none => "N"
  | .bool true => "T"
  | .bool false => "F"
  | .int n => s!"I {n}"
  | .float t => "D " ++ encStr t
  | .str s => "S " ++ encStr s
  | .html s => "H " ++ encStr s
  | .list xs => "L " ++ encList (xs.map c20bEnc)
  | .tuple xs => "U " ++ encList (xs.map c20bEnc)
  | .dict kvs => "M " ++ encList (kvs.map fun kv => encStr kv.1 ++ " " ++ c20bEnc kv.2)
  | .obj c fs => "O " ++ c ++ " " ++ encList (fs.map fun kv => kv.1 ++ " " ++ c20bEnc kv.2)

private def c20bErr : PyErr → String
  | .typeError => "err TypeError"
  | .valueError => "err ValueError"
  | .keyError => "err KeyError"
  | .indexError => "err IndexError"
  | .attributeError => "err AttributeError"
  | .runtimeError => "err RuntimeError"
  | .notImplemented => "err NotImplementedError"
  | .exception => "err Exception"
  | .fuel => "unsupported fuel"
  | .unsupported => "unsupported"

def srcC20bOps : OpTable
  | "srcc20b" => some do
    let tbl ← listOf kv
    let vers ← listOf kv
    let f ← next
    let a ← listOf c20bPVal
    match Generated.Src.runByName (c20bG tbl vers) f a with
    | none => pure "unsupported"      -- not translated (left the fragment) or unknown: no verdict
    | some r =>
      match r with
      | .ok v => pure ("ok " ++ c20bEnc v)
      | .error e => pure (c20bErr e)
  | _ => none

end HtmlVerif.Ops
