"""Implementation side of the source tie for `render()`, the string views and `head_content` (harness/pytr_c18.py;
DESIGN §14): the real `Tag/TagList.render`, `_render_tag_or_taglist`, `Tag/TagList.__str__`, `hash_deterministic`,
`head_content`, called as *functions* (unbound, `self` = first value) on the realised values, for the ops `src`
(ops_src.py) and

  srcc18 <pval: html_dependency_render_mode> <function> [ <pval>… ]

which sets the package attribute `htmltools.html_dependency_render_mode` to the given value while the call runs (the Lean
side reads it from `Globals.renderModeC18`; SHA-1 is `hashlib`'s here and `Model/Sha1.lean` there).

Values are realised and encoded back in the shape of the embedding `embC18` (Lemmas/SrcC18.lean): the objects of
harness/ops_src_c10.py, with one addition — a dependency term that carries the field `serialize_to_script_json` (the
`<script>` Tag the real method returns for it, computed by harness/srctie_c18.py with the real method) is realised as the
same real object and encoded back with that field, computed again by the real method.
`head_content` answers a fresh `HTMLDependency`: its `__dict__` in assignment order (encoder of harness/ops_src_c10b.py;
the Version("0.0") the constructor parses is given rank 0).
"""
from __future__ import annotations

import ops_src
import ops_src_c10 as c10
import ops_src_c10b as c10b
from ops import op
from wire import Toks


def _mk_dep(f):
    d = c10._mk_dep({k: v for k, v in f.items() if k in ("name", "version", "meta")} if "version" in f else f)
    if "serialize_to_script_json" in f:
        d._srctie_ser = True
    return d


ops_src.REALIZE["Version"] = c10._mk_version
ops_src.REALIZE["HTMLDependency"] = _mk_dep
ops_src.REALIZE["MetadataNode"] = c10._mk_meta
ops_src.REALIZE["TagifyObj"] = c10._mk_tobj


def _enc(v, enc):
    import htmltools
    if isinstance(v, c10b._Pre):
        return v.term
    if type(v) is htmltools.HTMLDependency and getattr(v, "_srctie_ser", False) and "version" in vars(v):
        return ("O HTMLDependency [ name " + enc(v.name) + " version " + enc(v.version) + " meta " + enc(v.meta)
                + " serialize_to_script_json " + enc(v.serialize_to_script_json()) + " ]")
    return c10._enc(v, enc)


ops_src.ENCODE.append(_enc)


def _core():
    from htmltools import _core
    return _core


def _enc_new_dep(d) -> str:
    """a dependency the function under test has just constructed: its `__dict__` in assignment order; the items of its
    head (objects of the input) are encoded as every other value of this area"""
    import htmltools
    out = []
    for k, x in vars(d).items():
        out.append(k + " " + (ops_src.e_pval(x) if type(x) is htmltools.TagList else c10b._enc(x)) + " ")
    return "O " + type(d).__name__ + " [ " + "".join(out) + "]"


def _head_content(a):
    import htmltools
    c10b._RANKS = {"0.0": 0}
    try:
        r = _core().head_content(*a[0])
        return c10b._Pre(_enc_new_dep(r)) if type(r) is htmltools.HTMLDependency else r
    finally:
        c10b._RANKS = {}


def _hash(a):
    from htmltools import _util
    return _util.hash_deterministic(a[0])


ops_src.CALLS["TagList_render"] = lambda a: _core().TagList.render(a[0])
ops_src.CALLS["Tag_render"] = lambda a: _core().Tag.render(a[0])
ops_src.CALLS["render_tag_or_taglist"] = lambda a: _core()._render_tag_or_taglist(a[0])
ops_src.CALLS["Tag_str"] = lambda a: _core().Tag.__str__(a[0])
ops_src.CALLS["TagList_str"] = lambda a: _core().TagList.__str__(a[0])
ops_src.CALLS["hash_deterministic"] = _hash
ops_src.CALLS["head_content"] = _head_content

_MISSING = object()


@op("srcc18")
def _srcc18(t: Toks) -> str:
    import htmltools
    ops_src._load_plugins()
    mode = ops_src.p_pval(t)
    old = getattr(htmltools, "html_dependency_render_mode", _MISSING)
    htmltools.html_dependency_render_mode = mode
    try:
        return ops_src._src(t)
    finally:
        if old is _MISSING:
            del htmltools.html_dependency_render_mode
        else:
            htmltools.html_dependency_render_mode = old
