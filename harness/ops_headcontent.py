from ops import op
from wire import Toks, p_list, p_node, p_str, es, enode
from adapters import realize, canon, Ranks


@op("head_content")
def _head_content(t: Toks) -> str:
    import htmltools
    ns = p_list(t, p_node)
    rank0 = int(t.next())
    d = htmltools.head_content(*[realize(n) for n in ns])
    term = canon(d, None)
    term[1]["vrank"] = rank0
    return "ok " + enode(term)


@op("sha1")
def _sha1(t: Toks) -> str:
    from htmltools._util import hash_deterministic
    return es(hash_deterministic(p_str(t)))
