/-
Primitives of the Python fragment used by the translations of `TagAttrDict.__init__`, `Tag.__init__`,
`Tag.insert / extend / append` and `consolidate_attrs` (harness/pytr_c15b.py) that Py/Prim.lean lacks.  Same contract as
Py/Prim.lean: what CPython does on that argument shape, the exception kind CPython raises, or `unsupported`.  Each was
compared with CPython (/venv/bin/python; the cases are listed with each primitive and replayed by harness/srctie_c15b.py
`PRIM_CASES` on every run of the `src` op through `consolidate_attrsC15b` / `TagAttrDict_initC15b`).

Argument binding at a call `f(a, *b, k=v, **c)` of a translated function (`def f(self, p, *args, q=d, **kwargs)`):
the positional values are `a` followed by the items of `b`; they fill the positional parameters from the left, the rest
goes to `*args`; a key of `c` that names a parameter binds that parameter (TypeError "multiple values" if it is already
bound), the other keys go to `**kwargs`.
-/
import HtmlVerif.Py.Prim

namespace HtmlVerif.Py
open HtmlVerif

/-- `dict.__init__(self)` with no argument, on an instance of a `dict` subclass: nothing changes
    (`d = {"a": 1}; dict.__init__(d)` leaves `d` as it is) -/
def pyDictInit0C15b : PVal → PyM PVal
  | .dict kvs => pure (.dict kvs)
  | _ => throw .unsupported

/-- `dict(x)`: for a dict (or an instance of a dict subclass, which this universe carries as a dict) a new plain dict
    with the same items in the same order; `dict(None)`, `dict(5)`, `dict(1.5)`, `dict(True)` raise TypeError
    ("object is not iterable"); sequences of pairs, strings and other objects are outside the fragment -/
def pyDictCopyC15b : PVal → PyM PVal
  | .dict kvs => pure (.dict kvs)
  | .none => throw .typeError
  | .bool _ => throw .typeError
  | .int _ => throw .typeError
  | .float _ => throw .typeError
  | _ => throw .unsupported

/-- the `i`-th positional value at a call whose positional arguments are only known at run time (`f(*args)`), for a
    parameter without default: TypeError ("missing 1 required positional argument") when there are too few -/
def pyPosArgC15b (pos : List PVal) (i : Nat) : PyM PVal :=
  match pos[i]? with
  | some v => pure v
  | Option.none => throw .typeError

/-- `f(**e)`: the value a parameter `name` (with default `dflt`, not bound otherwise) gets: `e[name]` if `e` has that
    key, else the default.  `e` must be a mapping: `f(**None)`, `f(**5)`, `f(**[1])`, `f(**"ab")`, `f(**(1,))` raise
    TypeError ("argument after ** must be a mapping"); mapping objects other than dicts are outside the fragment -/
def pyKwTakeC15b (e : PVal) (name : Str) (dflt : PVal) : PyM PVal :=
  match e with
  | .dict kvs => pure ((dictGet? name kvs).getD dflt)
  | .obj _ _ => throw .unsupported
  | _ => throw .typeError

/-- `f(**e)`: what reaches the callee's `**kwargs`: TypeError ("got multiple values for argument") if a key of `e` names
    a parameter that is already bound (`bound`); the keys that bind parameters (`taken`) are removed; the rest keeps its
    order.  Not a mapping: TypeError, as for `pyKwTakeC15b`. -/
def pyKwRestC15b (e : PVal) (bound taken : List Str) : PyM PVal :=
  match e with
  | .dict kvs =>
    if kvs.any (fun kv => bound.contains kv.1) then throw .typeError
    else pure (.dict (kvs.filter fun kv => !taken.contains kv.1))
  | .obj _ _ => throw .unsupported
  | _ => throw .typeError

end HtmlVerif.Py
