/-
Driver operations of C13: JSON string escaping, the serialised element, extraction, HTMLTextDocument,
JSON render mode.  Wire forms:   indent := N | I <nat>      sdep := <depinfo> <optstr head>
-/
import HtmlVerif.Ops.Base
import HtmlVerif.Model.TextDoc

namespace HtmlVerif.Ops
open HtmlVerif HtmlVerif.Wire

def indentP : P (Option Nat) := do
  let t ← next
  if t == "N" then pure none
  else if t == "I" then some <$> nat
  else throw s!"bad indent {t}"

def sdepP : P SDep := do
  let info ← depInfo
  let head ← optStr
  pure { info, head }

def encSDep (d : SDep) : String := encDepInfo d.info ++ " " ++ encOptStr d.head

def encExtract (r : Str × List SDep) : String :=
  encStr r.1 ++ " " ++ encList (r.2.map encSDep)

/-- one serialised copy inside a text: indent, dependency, the text chunk after it -/
def itemP : P (Option Nat × SDep × Str) := do
  let i ← indentP; let d ← sdepP; let t ← str
  pure (i, d, t)

/-- the record of a dependency node -/
def sdepOfDepNode : Node → Option SDep
  | .dep d hh hd => some (sdepOfNode cfg d hh hd)
  | _ => none

mutual
  /-- `get_dependencies(dedup=False)`: dependencies that are children of tags, document order (used only on
      inputs whose dependency names are pairwise distinct, where `_resolve_dependencies` is the identity) -/
  def collectSDeps : Node → List SDep
    | .tag _ _ _ kids => collectSDepsKids kids
    | _ => []
  def collectSDepsKids : Nodes → List SDep
    | .nil => []
    | .cons h t =>
      (match h with
        | .dep d hh hd => [sdepOfNode cfg d hh hd]
        | .tag .. => collectSDeps h
        | _ => []) ++ collectSDepsKids t
end

/-- table lookup for the run-time parameter `as_html_tags` -/
def tagsOf (tbl : List (SDep × Nodes)) (d : SDep) : Nodes :=
  match tbl.find? (fun e => e.1 == d) with
  | some e => e.2
  | none => .nil

def tagsEntryP : P (SDep × Nodes) := do
  let d ← sdepP; let ns ← nodes
  pure (d, ns)

def optDepsP : P (Option (List SDep)) := do
  let t ← next
  if t == "N" then pure none
  else if t == "D" then some <$> listOf sdepP
  else throw s!"bad optdeps {t}"

/-- `HTMLTextDocument(html, deps, ph).render()`: html and the dependency list -/
def textDocRun (html : Str) (deps : Option (List SDep)) (ph : Option Str) (tbl : List (SDep × Nodes)) :
    Except Err (Str × List SDep) :=
  match textDocInit html deps ph with
  | .error e => .error e
  | .ok (h, ds) =>
    match textDocRender cfg (tagsOf tbl) h ds ph with
    | .error e => .error e
    | .ok out => .ok (out, ds)

def jsonOps : OpTable
  | "jstr" => some do
    let s ← str
    pure (encStr (jsonStr s))
  | "ser" => some do
    let i ← indentP; let d ← sdepP
    pure ("ok " ++ encStr (tdSerialize i d))
  | "sern" => some do
    let i ← indentP; let n ← node
    match sdepOfDepNode n with
    | some d => pure ("ok " ++ encStr (tdSerialize i d))
    | none => throw "sern: not a dependency node"
  | "scan_raw" => some do
    let h ← str
    let r := scan h.length h
    pure (encStr r.1 ++ " " ++ encList (r.2.map encStr))
  | "extract" => some do
    let t0 ← str; let items ← listOf itemP
    pure (encExcept encExtract (extract (interleave t0 items)))
  | "extract_html" => some do
    let h ← str
    pure (encExcept encExtract (extract h))
  | "textdoc" => some do
    let h ← str; let ph ← optStr; let deps ← optDepsP; let tbl ← listOf tagsEntryP
    pure (encExcept encExtract (textDocRun h deps ph tbl))
  | "jmrt" => some do
    let n ← node
    match renderTagChecked cfg n 0 ['\n'] with
    | .error e => pure ("err " ++ encErr e)
    | .ok h => pure (encExcept encExtract (extract (jsonModeStr h (collectSDeps n))))
  | "jsonmode" => some do
    let n ← node
    match renderTagChecked cfg n 0 ['\n'] with
    | .error e => pure ("err " ++ encErr e)
    | .ok h => pure ("ok " ++ encStr (jsonModeStr h (collectSDeps n)))
  | _ => none

end HtmlVerif.Ops
