/-
The OPEN marker cannot occur inside dumped JSON (C13 `no_open_inside`): OPEN contains `="a`
(`type="application…`); in JSON text a quote that follows `=` is a closing quote (a quote inside a string
body always follows a backslash), and what follows a closing quote is never `a`.
The argument is carried by a three-state matcher for the window `="a` run over the printed text.
-/
import HtmlVerif.Lemmas.Neutralise
import HtmlVerif.Model.TextDoc

namespace HtmlVerif

/-- matcher states for the window `="a`: nothing / `=` / `="` / seen -/
inductive WS
  | s0 | s1 | s2 | hit
  deriving DecidableEq, Repr

def winStep (q : WS) (c : Char) : WS :=
  match q with
  | .hit => .hit
  | .s2 => if c = 'a' then .hit else if c = '=' then .s1 else .s0
  | .s1 => if c = '"' then .s2 else if c = '=' then .s1 else .s0
  | .s0 => if c = '=' then .s1 else .s0

def winRun (q : WS) (s : Str) : WS := s.foldl winStep q

theorem winRun_append (q : WS) (a b : Str) : winRun q (a ++ b) = winRun (winRun q a) b := by
  simp [winRun, List.foldl_append]

theorem winRun_cons (q : WS) (c : Char) (s : Str) : winRun q (c :: s) = winRun (winStep q c) s := rfl

theorem winRun_hit (s : Str) : winRun .hit s = .hit := by
  induction s with
  | nil => rfl
  | cons c r ih => rw [winRun_cons]; exact ih

/-- the window `="a` -/
def win : Str := ['=', '"', 'a']

/-- the matcher is complete: if the window occurs, the run ends in `hit` -/
theorem winRun_of_infix (s : Str) (h : win <:+: s) (q : WS) : winRun q s = .hit := by
  obtain ⟨pre, post, rfl⟩ := h
  rw [List.append_assoc, winRun_append]
  generalize winRun q pre = q'
  cases q' <;> simp [win, winRun_cons, winStep, winRun_hit]

theorem win_infix_open : win <:+: openMarker :=
  ⟨['<', 's', 'c', 'r', 'i', 'p', 't', ' ', 't', 'y', 'p', 'e'],
   ['p', 'p', 'l', 'i', 'c', 'a', 't', 'i', 'o', 'n', '/', 'j', 's', 'o', 'n', '"', ' ', 'd', 'a', 't', 'a', '-',
    'h', 't', 'm', 'l', '-', 'd', 'e', 'p', 'e', 'n', 'd', 'e', 'n', 'c', 'y', '=', '"', '"', '>'], by decide⟩

/-- inside a string body: nothing matched, or just an `=` -/
def Low (q : WS) : Prop := q = .s0 ∨ q = .s1

/-- between tokens: nothing matched, or `="` (a closing quote after `=`) -/
def Safe (q : WS) : Prop := q = .s0 ∨ q = .s2

theorem low_step (q : WS) (x : Char) (hq : Low q) (hx : x ≠ '"') : Low (winStep q x) := by
  rcases hq with rfl | rfl <;> simp only [winStep, hx, if_false] <;> split <;> simp [Low]

theorem low_run (L : Str) (h : ∀ x ∈ L, x ≠ '"') (q : WS) (hq : Low q) : Low (winRun q L) := by
  induction L generalizing q with
  | nil => exact hq
  | cons c r ih =>
    rw [winRun_cons]
    exact ih (fun x hx => h x (by simp [hx])) _ (low_step q c hq (h c (by simp)))

theorem escChar_noQuote (c x : Char) (hc : c ≠ '"') (h : x ∈ escChar c) : x ≠ '"' := by
  unfold escChar at h
  simp only [hc, if_false] at h
  by_cases h2 : c = '\\'
  · subst h2; simp at h; subst h; decide
  by_cases h3 : c = '\n'
  · subst h3; simp at h; rcases h with rfl | rfl <;> decide
  by_cases h4 : c = '\r'
  · subst h4; simp at h; rcases h with rfl | rfl <;> decide
  by_cases h5 : c = '\t'
  · subst h5; simp at h; rcases h with rfl | rfl <;> decide
  by_cases h6 : c = Char.ofNat 8
  · subst h6; simp at h; rcases h with rfl | rfl <;> decide
  by_cases h7 : c = Char.ofNat 12
  · subst h7; simp at h; rcases h with rfl | rfl <;> decide
  simp only [h2, h3, h4, h5, h6, h7, if_false] at h
  by_cases hp : 0x20 ≤ c.toNat ∧ c.toNat ≤ 0x7E
  · simp only [hp] at h
    simp at h; rw [h]; exact hc
  simp only [hp, if_false] at h
  by_cases hb : c.toNat < 0x10000
  · simp only [hb, if_true] at h
    exact (uEsc_mem _ x h).2.2.2
  · simp only [hb, if_false, List.mem_append] at h
    rcases h with h | h <;> exact (uEsc_mem _ x h).2.2.2

theorem low_escChar (c : Char) (q : WS) (hq : Low q) : Low (winRun q (escChar c)) := by
  by_cases hc : c = '"'
  · subst hc
    have : escChar '"' = ['\\', '"'] := by decide
    rw [this]
    rcases hq with rfl | rfl <;> simp [winRun_cons, winStep, winRun, Low]
  · exact low_run _ (fun x hx => escChar_noQuote c x hc hx) q hq

theorem low_escBody (s : Str) (q : WS) (hq : Low q) : Low (winRun q (escBody s)) := by
  induction s generalizing q with
  | nil => exact hq
  | cons c cs ih =>
    have : escBody (c :: cs) = escChar c ++ escBody cs := by simp [escBody]
    rw [this, winRun_append]
    exact ih _ (low_escChar c q hq)

/-- a whole string literal, started between tokens, ends between tokens -/
theorem safe_strLit (s : Str) (q : WS) (hq : Safe q) : Safe (winRun q (strLit escBody s)) := by
  have e : strLit escBody s = '"' :: (escBody s ++ ['"']) := rfl
  rw [e, winRun_cons, winRun_append]
  have h0 : winStep q '"' = .s0 := by rcases hq with rfl | rfl <;> simp [winStep]
  rw [h0]
  rcases low_escBody s .s0 (Or.inl rfl) with h | h <;> rw [h] <;> simp [winRun, winStep, Safe]

/-- punctuation: none of `=`, `"`, `a` -/
def Punct (L : Str) : Prop := ∀ c ∈ L, c ≠ '=' ∧ c ≠ '"' ∧ c ≠ 'a'

theorem punct_step (q : WS) (c : Char) (hq : Safe q) (hc : c ≠ '=' ∧ c ≠ '"' ∧ c ≠ 'a') : winStep q c = .s0 := by
  rcases hq with rfl | rfl <;> simp [winStep, hc.1, hc.2.2]

theorem safe_punct (L : Str) (hL : Punct L) (q : WS) (hq : Safe q) : Safe (winRun q L) := by
  induction L generalizing q with
  | nil => exact hq
  | cons c r ih =>
    rw [winRun_cons, punct_step q c hq (hL c (by simp))]
    exact ih (fun x hx => hL x (by simp [hx])) _ (Or.inl rfl)

theorem punct_nonempty (L : Str) (hL : Punct L) (hne : L ≠ []) (q : WS) (hq : Safe q) : winRun q L = .s0 := by
  cases L with
  | nil => exact absurd rfl hne
  | cons c r =>
    rw [winRun_cons, punct_step q c hq (hL c (by simp))]
    clear hne
    induction r with
    | nil => rfl
    | cons d r' ih =>
      rw [winRun_cons, punct_step .s0 d (Or.inl rfl) (hL d (by simp))]
      exact ih (fun x hx => hL x (by
        simp only [List.mem_cons] at hx ⊢
        rcases hx with rfl | hx
        · exact Or.inl rfl
        · exact Or.inr (Or.inr hx)))

theorem nlInd_punct (ind : Option Nat) (lvl : Nat) : Punct (nlInd ind lvl) := by
  intro c hc
  cases ind with
  | none => simp [nlInd] at hc
  | some n =>
    simp only [nlInd, List.mem_cons, List.mem_replicate] at hc
    rcases hc with rfl | ⟨_, rfl⟩ <;> decide

theorem itemSep_punct (ind : Option Nat) (lvl : Nat) : Punct (itemSep ind lvl) := by
  intro c hc
  cases ind with
  | none => simp [itemSep] at hc; rcases hc with rfl | rfl <;> decide
  | some n =>
    simp only [itemSep, List.mem_cons] at hc
    rcases hc with rfl | hc
    · decide
    · exact nlInd_punct (some n) lvl c hc

theorem lead_punct (ind : Option Nat) (lvl : Nat) (first : Bool) :
    Punct (if first then nlInd ind lvl else itemSep ind lvl) := by
  cases first
  · exact itemSep_punct ind lvl
  · exact nlInd_punct ind lvl

mutual
  theorem safe_printVal (ind : Option Nat) :
      ∀ (v : Json) (lvl : Nat) (q : WS), Safe q → Safe (winRun q (printVal escBody ind lvl v))
    | .null, _, q, hq => by
      rcases hq with rfl | rfl <;> simp [printVal, winRun, winStep, Safe]
    | .bool true, _, q, hq => by
      rcases hq with rfl | rfl <;> simp [printVal, winRun, winStep, Safe]
    | .bool false, _, q, hq => by
      rcases hq with rfl | rfl <;> simp [printVal, winRun, winStep, Safe]
    | .str s, _, q, hq => by
      simpa [printVal] using safe_strLit s q hq
    | .arr xs, lvl, q, hq => by
      have e : printVal escBody ind lvl (.arr xs) = '[' :: (printElems escBody ind lvl true xs ++ [']']) := by
        simp [printVal]
      rw [e, winRun_cons, punct_step q '[' hq (by decide), closed_printElems ind xs lvl true .s0 (Or.inl rfl)]
      exact Or.inl rfl
    | .obj ms, lvl, q, hq => by
      have e : printVal escBody ind lvl (.obj ms) = '{' :: (printMems escBody ind lvl true ms ++ ['}']) := by
        simp [printVal]
      rw [e, winRun_cons, punct_step q '{' hq (by decide), closed_printMems ind ms lvl true .s0 (Or.inl rfl)]
      exact Or.inl rfl
  theorem closed_printElems (ind : Option Nat) :
      ∀ (xs : JList) (lvl : Nat) (first : Bool) (q : WS), Safe q →
        winRun q (printElems escBody ind lvl first xs ++ [']']) = .s0
    | .nil, lvl, first, q, hq => by
      refine punct_nonempty _ ?_ (by simp) q hq
      intro c hc
      simp only [printElems, List.mem_append, List.mem_singleton] at hc
      rcases hc with hc | rfl
      · cases first
        · exact nlInd_punct ind lvl c (by simpa using hc)
        · simp at hc
      · decide
    | .cons h t, lvl, first, q, hq => by
      have e : printElems escBody ind lvl first (.cons h t) ++ [']']
          = (if first then nlInd ind (lvl + 1) else itemSep ind (lvl + 1))
              ++ (printVal escBody ind (lvl + 1) h ++ (printElems escBody ind lvl false t ++ [']'])) := by
        simp [printElems]
      rw [e, winRun_append, winRun_append]
      exact closed_printElems ind t lvl false _
        (safe_printVal ind h (lvl + 1) _ (safe_punct _ (lead_punct ind (lvl + 1) first) q hq))
  theorem closed_printMems (ind : Option Nat) :
      ∀ (ms : JMems) (lvl : Nat) (first : Bool) (q : WS), Safe q →
        winRun q (printMems escBody ind lvl first ms ++ ['}']) = .s0
    | .nil, lvl, first, q, hq => by
      refine punct_nonempty _ ?_ (by simp) q hq
      intro c hc
      simp only [printMems, List.mem_append, List.mem_singleton] at hc
      rcases hc with hc | rfl
      · cases first
        · exact nlInd_punct ind lvl c (by simpa using hc)
        · simp at hc
      · decide
    | .cons k v t, lvl, first, q, hq => by
      have e : printMems escBody ind lvl first (.cons k v t) ++ ['}']
          = (if first then nlInd ind (lvl + 1) else itemSep ind (lvl + 1))
              ++ (strLit escBody k ++ ([':', ' '] ++ (printVal escBody ind (lvl + 1) v
                ++ (printMems escBody ind lvl false t ++ ['}'])))) := by
        simp [printMems]
      rw [e, winRun_append, winRun_append, winRun_append, winRun_append]
      have h1 := safe_strLit k _ (safe_punct _ (lead_punct ind (lvl + 1) first) q hq)
      have h2 := punct_nonempty [':', ' '] (by intro c hc; simp at hc; rcases hc with rfl | rfl <;> decide) (by simp) _ h1
      rw [h2]
      exact closed_printMems ind t lvl false _ (safe_printVal ind v (lvl + 1) _ (Or.inl rfl))
end

/-- the neutralisation pass is invisible to the matcher -/
theorem winRun_neutG (p : Bool) (s : Str) (q : WS) : winRun q (neutG p s) = winRun q s := by
  induction s generalizing p q with
  | nil => rfl
  | cons c r ih =>
    by_cases hpc : (p && c == '/') = true
    · have hc : c = '/' := by simp at hpc; exact hpc.2
      subst hc
      simp only [neutG, hpc, if_true, List.cons_append, List.nil_append, winRun_cons]
      rw [ih]
      cases q <;> simp [winStep]
    · have hpc' : (p && c == '/') = false := by simpa using hpc
      simp only [neutG, hpc', Bool.false_eq_true, if_false, List.cons_append, List.nil_append, winRun_cons]
      exact ih _ _

/-- the window `="a` occurs neither in dumped JSON nor in its neutralised form -/
theorem no_win_jsonPrint (ind : Option Nat) (v : Json) : ¬ win <:+: jsonPrint ind v := by
  intro h
  have h1 := winRun_of_infix _ h .s0
  rcases safe_printVal ind v 0 .s0 (Or.inl rfl) with h2 | h2 <;>
    (rw [jsonPrint] at h1; rw [h1] at h2; exact WS.noConfusion h2)

theorem no_win_neutralised (ind : Option Nat) (v : Json) : ¬ win <:+: neutralise (jsonPrint ind v) := by
  intro h
  have h1 := winRun_of_infix _ h .s0
  rw [neutralise, winRun_neutG] at h1
  rcases safe_printVal ind v 0 .s0 (Or.inl rfl) with h2 | h2 <;>
    (rw [jsonPrint] at h1; rw [h1] at h2; exact WS.noConfusion h2)

end HtmlVerif
