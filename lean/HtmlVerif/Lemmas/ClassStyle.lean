/-
Closed forms of add_class / remove_class / add_style (they all funnel through `TagAttrDict.update`) and of the
css() loop.  Helper lemmas for Props/C16.
-/
import HtmlVerif.Lemmas.Tokens
import HtmlVerif.Lemmas.Consolidate

namespace HtmlVerif

theorem normAttrName_classKey : normAttrName classKey = classKey := by decide
theorem normAttrName_styleKey : normAttrName styleKey = styleKey := by decide

theorem nav_none : normAttrValue .none = .ok none := rfl
theorem nav_str (s : Str) : normAttrValue (.str s) = .ok (some (.plain s)) := rfl
theorem nav_html (s : Str) : normAttrValue (.html s) = .ok (some (.html s)) := rfl

theorem dictUpdate_single (cur : Attrs) (k : Str) (v : AttrVal) : dictUpdate cur [(k, v)] = dictSet k v cur := by
  simp [dictUpdate]

set_option linter.unusedSimpArgs false in
/-- `update({k: self.get(k)}, {k: new})`: the new value goes after the old one -/
theorem update_append_form (cfg : Cfg) (a : Attrs) (k : Str) (hk : normAttrName k = k)
    (new : AttrArg) (nv : AttrVal) (hn : normAttrValue new = .ok (some nv)) :
    attrsUpdate cfg a [[(k, getArg k a)], [(k, new)]]
      = .ok (dictSet k (match alookup k a with
          | none => nv
          | some old => mergeVal cfg old nv) a) := by
  cases h : alookup k a with
  | none => simp [attrsUpdate, accumDicts, accumPairs, getArg, h, nav_none, nav_str, nav_html, hn, hk, alookup, dictSet,
      dictUpdate_single]
  | some old =>
    cases old <;> simp [attrsUpdate, accumDicts, accumPairs, getArg, h, nav_none, nav_str, nav_html, hn, hk, alookup, dictSet,
      dictUpdate_single]

set_option linter.unusedSimpArgs false in
/-- `update({k: new}, {k: self.get(k)})`: the new value goes before the old one -/
theorem update_prepend_form (cfg : Cfg) (a : Attrs) (k : Str) (hk : normAttrName k = k)
    (new : AttrArg) (nv : AttrVal) (hn : normAttrValue new = .ok (some nv)) :
    attrsUpdate cfg a [[(k, new)], [(k, getArg k a)]]
      = .ok (dictSet k (match alookup k a with
          | none => nv
          | some old => mergeVal cfg nv old) a) := by
  cases h : alookup k a with
  | none => simp [attrsUpdate, accumDicts, accumPairs, getArg, h, nav_none, nav_str, nav_html, hn, hk, alookup, dictSet,
      dictUpdate_single]
  | some old =>
    cases old <;> simp [attrsUpdate, accumDicts, accumPairs, getArg, h, nav_none, nav_str, nav_html, hn, hk, alookup, dictSet,
      dictUpdate_single]

theorem addClass_eq (cfg : Cfg) (a : Attrs) (cls : Str) (p : Bool) :
    addClass cfg a cls p = .ok (dictSet classKey (addedVal cfg (alookup classKey a) (.plain cls) p) a) := by
  cases p
  · simp only [addClass, Bool.false_eq_true, if_false]
    rw [update_append_form cfg a classKey normAttrName_classKey (.str cls) (.plain cls) rfl]
    cases alookup classKey a <;> simp [addedVal]
  · simp only [addClass, if_true]
    rw [update_prepend_form cfg a classKey normAttrName_classKey (.str cls) (.plain cls) rfl]
    cases alookup classKey a <;> simp [addedVal]

theorem addStyle_eq (cfg : Cfg) (a : Attrs) (style : AttrArg) (nv : AttrVal) (p : Bool)
    (hn : normAttrValue style = .ok (some nv)) (hacc : styleRejected style = false) :
    addStyle cfg a style p = .ok (dictSet styleKey (addedVal cfg (alookup styleKey a) nv p) a) := by
  cases p
  · simp only [addStyle, hacc, Bool.false_eq_true, if_false]
    rw [update_append_form cfg a styleKey normAttrName_styleKey style nv hn]
    cases alookup styleKey a <;> simp [addedVal]
  · simp only [addStyle, hacc, Bool.false_eq_true, if_false, if_true]
    rw [update_prepend_form cfg a styleKey normAttrName_styleKey style nv hn]
    cases alookup styleKey a <;> simp [addedVal]

theorem textOf_dictSet (k : Str) (v : AttrVal) (a : Attrs) : textOf k (dictSet k v a) = v.str := by
  simp [textOf, alookup_dictSet_self]

theorem textOf_eq_nil_of_none (k : Str) (a : Attrs) (h : alookup k a = none) : textOf k a = [] := by
  simp [textOf, h]

/-! ### dict.pop -/

theorem dictPop_ok_of_mem (k : Str) (a : Attrs) (h : k ∈ keysOf a) : ∃ a', dictPop k a = .ok a' := by
  induction a with
  | nil => simp [keysOf] at h
  | cons hd t ih =>
    obtain ⟨k', v⟩ := hd
    by_cases hk : k' = k
    · exact ⟨t, by simp [dictPop, hk]⟩
    · have : k ∈ keysOf t := by
        simp only [keysOf, List.map_cons, List.mem_cons] at h
        rcases h with h | h
        · exact absurd h.symm hk
        · exact h
      obtain ⟨t', ht'⟩ := ih this
      exact ⟨(k', v) :: t', by simp [dictPop, hk, ht']⟩

theorem alookup_dictPop_self (k : Str) (a a' : Attrs) (hnd : (keysOf a).Nodup) (h : dictPop k a = .ok a') :
    alookup k a' = none := by
  induction a generalizing a' with
  | nil => simp [dictPop] at h
  | cons hd t ih =>
    obtain ⟨k', v⟩ := hd
    simp only [keysOf, List.map_cons, List.nodup_cons] at hnd
    by_cases hk : k' = k
    · subst hk
      simp only [dictPop, if_true, Except.ok.injEq] at h
      subst h
      exact (alookup_eq_none_iff k' t).mpr hnd.1
    · simp only [dictPop, hk, if_false] at h
      cases hp : dictPop k t with
      | error e => rw [hp] at h; cases h
      | ok t' =>
        rw [hp] at h
        cases h
        simp [alookup, hk, ih t' (by simpa [keysOf] using hnd.2) hp]

theorem alookup_dictPop_ne (q k : Str) (a a' : Attrs) (hq : q ≠ k) (h : dictPop k a = .ok a') :
    alookup q a' = alookup q a := by
  induction a generalizing a' with
  | nil => simp [dictPop] at h
  | cons hd t ih =>
    obtain ⟨k', v⟩ := hd
    by_cases hk : k' = k
    · subst hk
      simp only [dictPop, if_true, Except.ok.injEq] at h
      subst h
      simp [alookup, Ne.symm hq]
    · simp only [dictPop, hk, if_false] at h
      cases hp : dictPop k t with
      | error e => rw [hp] at h; cases h
      | ok t' =>
        rw [hp] at h
        cases h
        by_cases hkq : k' = q <;> simp [alookup, hkq, ih t' hp]

theorem keysOf_dictPop_sublist (k : Str) (a a' : Attrs) (h : dictPop k a = .ok a') :
    (keysOf a').Sublist (keysOf a) := by
  induction a generalizing a' with
  | nil => simp [dictPop] at h
  | cons hd t ih =>
    obtain ⟨k', v⟩ := hd
    by_cases hk : k' = k
    · simp only [dictPop, hk, if_true, Except.ok.injEq] at h
      subst h
      simp [keysOf]
    · simp only [dictPop, hk, if_false] at h
      cases hp : dictPop k t with
      | error e => rw [hp] at h; cases h
      | ok t' =>
        rw [hp] at h
        cases h
        simpa [keysOf] using ih t' hp

theorem nodup_dictPop (k : Str) (a a' : Attrs) (hnd : (keysOf a).Nodup) (h : dictPop k a = .ok a') :
    (keysOf a').Nodup :=
  (keysOf_dictPop_sublist k a a' h).nodup hnd

/-! ### remove_class -/

/-- the tokens `remove_class` keeps -/
def keptTokens (sp : Char → Bool) (a : Attrs) (cls : Str) : List Str :=
  (tokens sp (textOf classKey a)).filter fun v => v != strip sp cls

theorem removeClass_eq (cfg : Cfg) (sp : Char → Bool) (a : Attrs) (cls : Str) :
    removeClass cfg sp a cls =
      if cls = [] ∨ textOf classKey a = [] then .ok a
      else if keptTokens sp a cls ≠ [] then
        .ok (dictSet classKey (rejoinVal a (joinStr [' '] (keptTokens sp a cls))) a)
      else dictPop classKey a := by
  unfold removeClass keptTokens
  by_cases h1 : cls = []
  · simp [h1]
  · by_cases h2 : textOf classKey a = []
    · simp [h1, h2]
    · simp only [List.isEmpty_iff, h1, h2, if_false, false_or]
      split
      · rename_i hne
        rw [attrsUpdate_single, attrsSetItem]
        have hn : ∀ s, normAttrValue (rejoinArg a s) = .ok (some (rejoinVal a s)) := by
          intro s
          unfold rejoinArg rejoinVal
          cases alookup classKey a with
          | none => rfl
          | some v => cases v <;> rfl
        simp only [hn, normAttrName_classKey]
        rw [if_pos (by simpa using hne)]
      · rename_i hne
        rw [if_neg (by simpa using hne)]

theorem rejoinVal_str (a : Attrs) (s : Str) : (rejoinVal a s).str = s := by
  unfold rejoinVal
  cases alookup classKey a with
  | none => rfl
  | some v => cases v <;> rfl

theorem rejoinVal_isHtml (a : Attrs) (s : Str) :
    (rejoinVal a s).isHtml = match alookup classKey a with | some v => v.isHtml | none => false := by
  unfold rejoinVal
  cases alookup classKey a with
  | none => rfl
  | some v => cases v <;> rfl

/-! ### css -/

theorem isBad_none : CssVal.none.isBad = false := rfl
theorem isBad_text (s : Str) : (CssVal.text s).isBad = false := rfl
theorem isBad_list (xs : List Str) : (CssVal.list xs).isBad = false := rfl
theorem isBad_badList : CssVal.badList.isBad = true := rfl

theorem getLast?_cons_snoc {α} (a : α) (s : List α) (b : α) : (a :: (s ++ [b])).getLast? = some b := by
  have : a :: (s ++ [b]) = (a :: s) ++ [b] := rfl
  rw [this, List.getLast?_append]; simp

theorem cssLoop_eq (lower : Str → Str) (c : Str) (kw : List (Str × CssVal)) (res : Str) :
    cssLoop lower c kw res =
      if kw.any (fun kv => kv.2.isBad) then .error .typeError
      else .ok (res ++ (kw.filterMap (cssDecl lower c)).flatten) := by
  induction kw generalizing res with
  | nil => simp [cssLoop]
  | cons hd t ih =>
    obtain ⟨k, v⟩ := hd
    cases v with
    | none =>
      rw [cssLoop, ih, List.any_cons, List.filterMap_cons]
      simp only [isBad_none, Bool.false_or, cssDecl]
    | badList => simp [cssLoop, isBad_badList]
    | text s =>
      rw [cssLoop, ih, List.any_cons, List.filterMap_cons]
      simp only [isBad_text, Bool.false_or, cssDecl, List.flatten_cons, List.append_assoc]
    | list xs =>
      rw [cssLoop, ih, List.any_cons, List.filterMap_cons]
      simp only [isBad_list, Bool.false_or, cssDecl, List.flatten_cons, List.append_assoc]
theorem cssDecl_endsSemi (lower : Str → Str) (kv : Str × CssVal) (d : Str) (h : cssDecl lower [] kv = some d) :
    endsSemi d = true := by
  obtain ⟨k, v⟩ := kv
  cases v <;> simp [cssDecl] at h <;> subst h <;> simp [endsSemi, List.getLast?_append, getLast?_cons_snoc]

theorem flatten_endsSemi (ds : List Str) (h : ∀ d ∈ ds, endsSemi d = true) (hne : ds.flatten ≠ []) :
    endsSemi ds.flatten = true := by
  induction ds with
  | nil => simp at hne
  | cons d r ih =>
    have hd : endsSemi d = true := h d (by simp)
    simp only [List.flatten_cons]
    by_cases hr : r.flatten = []
    · simpa [hr] using hd
    · have := ih (fun x hx => h x (by simp [hx])) hr
      simp only [endsSemi, List.getLast?_append, beq_iff_eq] at this ⊢
      simp [this]

end HtmlVerif
