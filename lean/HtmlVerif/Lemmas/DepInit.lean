/-
Helper lemmas for C10: the constructor's checks against the declarative list of violations.
-/
import HtmlVerif.Spec.Deps

namespace HtmlVerif

theorem checkKeys_ok_iff (d : List (Str × Str)) (req : List Str) :
    checkKeys d req = .ok () ↔ req.filter (fun k => !hasKey k d) = [] := by
  induction req with
  | nil => simp [checkKeys]
  | cons a r ih =>
    by_cases h : hasKey a d = true
    · simp [checkKeys, h, ih]
    · simp [checkKeys, h]

theorem checkKeys_err (d : List (Str × Str)) (req : List Str) (e : Err) :
    checkKeys d req = .error e → e = .keyError ∧ req.filter (fun k => !hasKey k d) ≠ [] := by
  induction req with
  | nil => simp [checkKeys]
  | cons a r ih =>
    by_cases h : hasKey a d = true
    · simp only [checkKeys, h, if_true, List.filter_cons, Bool.not_true, Bool.false_eq_true, if_false]
      exact ih
    · simp only [checkKeys, h, List.filter_cons]
      intro he; cases he; simp

theorem validateDict_spec (req : List Str) (x : PyItem) :
    (validateDict req x = match (itemViolations req x).head? with
      | some e => .error e
      | none => match x with
        | .dict d => .ok d
        | .other => .error .typeError) := by
  cases x with
  | other => simp [validateDict, itemViolations]
  | dict d =>
    simp only [validateDict, itemViolations]
    cases hc : checkKeys d req with
    | ok u =>
      cases u
      have := (checkKeys_ok_iff d req).mp hc
      simp [this]
    | error e =>
      obtain ⟨rfl, hne⟩ := checkKeys_err d req e hc
      cases hf : req.filter (fun k => !hasKey k d) with
      | nil => exact absurd hf hne
      | cons _ _ => simp

theorem validateDicts_spec (req : List Str) (l : List PyItem) :
    (validateDicts req l = match (l.flatMap (itemViolations req)).head? with
      | some e => .error e
      | none => .ok (l.filterMap PyItem.dict?)) := by
  induction l with
  | nil => simp [validateDicts]
  | cons x r ih =>
    rw [validateDicts, validateDict_spec, ih]
    cases x with
    | other => simp [itemViolations]
    | dict d =>
      cases hv : itemViolations req (.dict d) with
      | nil => simp [hv]; cases (List.flatMap (itemViolations req) r).head? <;> simp [PyItem.dict?]
      | cons e es => simp [hv]

theorem normItems_spec (req : List Str) (x : ItemsArg) :
    (normItems req x = match (itemsViolations req x).head? with
      | some e => .error e
      | none => .ok x.dicts) := by
  cases x with
  | none => simp [normItems, itemsViolations, ItemsArg.items, ItemsArg.dicts]
  | one d => simp only [normItems, itemsViolations, ItemsArg.items, ItemsArg.dicts, validateDicts_spec]
  | many l => simp only [normItems, itemsViolations, ItemsArg.items, ItemsArg.dicts, validateDicts_spec]
  | scalar => simp [normItems, itemsViolations, ItemsArg.items, itemViolations]

theorem checkSource_spec (s : SourceArg) :
    (∀ e, checkSource s = .error e ↔ (sourceViolations s).head? = some e)
    ∧ ((∃ r, checkSource s = .ok r) ↔ sourceViolations s = []) := by
  cases s with
  | none => simp [checkSource, sourceViolations]
  | other => simp [checkSource, sourceViolations]
  | dict d =>
    by_cases h1 : hasKey ['h','r','e','f'] d = true
    · simp [checkSource, sourceViolations, h1]
    · by_cases h2 : hasKey ['s','u','b','d','i','r'] d = true
      · simp [checkSource, sourceViolations, h1, h2]
      · simp [checkSource, sourceViolations, h1, h2]

theorem itemsViolations_nil_iff (req : List Str) (x : ItemsArg) :
    itemsViolations req x = [] ↔ (x.hasNonDict = false ∧ x.lacksKey req = false) := by
  simp only [itemsViolations, ItemsArg.hasNonDict, ItemsArg.lacksKey, List.flatMap_eq_nil_iff,
    List.any_eq_false]
  constructor
  · intro h
    refine ⟨?_, ?_⟩
    · intro i hi
      have := h i hi
      cases i with
      | other => simp [itemViolations] at this
      | dict d => simp
    · intro i hi
      have := h i hi
      cases i with
      | other => simp
      | dict d =>
        simp only [itemViolations, List.map_eq_nil_iff, List.filter_eq_nil_iff] at this
        simp only [List.any_eq_true, not_exists, not_and]
        intro k hk
        exact this k hk
  · rintro ⟨h1, h2⟩ i hi
    cases i with
    | other => have := h1 _ hi; simp at this
    | dict d =>
      have := h2 _ hi
      simp only [List.any_eq_true, not_exists, not_and] at this
      simp only [itemViolations, List.map_eq_nil_iff, List.filter_eq_nil_iff]
      intro k hk
      exact this k hk


end HtmlVerif
