/-
Embeddings and helper lemmas for the source tie of C13 (Props/SrcC13.lean): the extraction of serialised dependencies
from HTML text (`HTMLTextDocument._static_extract_serialized_html_deps`, `_extract_serialized_html_deps`, `__init__`)
against `scan` / `tdDedupKeepFirst` / `recover` / `extract` / `textDocInit` (Model/TextDoc.lean).
-/
import HtmlVerif.Generated.Src
import HtmlVerif.Lemmas.PyLoop
import HtmlVerif.Lemmas.SrcTie
import HtmlVerif.Lemmas.SrcC10b
import HtmlVerif.Lemmas.Extract
import HtmlVerif.Model.TextDoc

set_option linter.unusedVariables false

namespace HtmlVerif.SrcTie
open HtmlVerif HtmlVerif.Py HtmlVerif.Generated.Src

/-! ### the primitives on the shapes that occur -/

theorem reFindallC13_str (pat x : Str) (h : pat = extractPatternC13) :
    reFindallC13 (.str pat) (.str x) = .ok (.list ((scan x.length x).2.map .str)) := by
  simp [reFindallC13, h]

theorem reSubC13_str (pat x : Str) (h : pat = extractPatternC13) :
    reSubC13 (.str pat) (.str []) (.str x) = .ok (.str (scan x.length x).1) := by
  simp [reSubC13, h]

/-- a set of strings as the Python value (latest first) -/
def setOfC13 (seen : List Str) : PVal := setObjC13 (seen.map .str)

theorem pySetNewC13_eq : pySetNewC13 = setOfC13 [] := rfl

theorem all_str_mapC13 (seen : List Str) :
    (seen.map PVal.str).all isStrKindC13 = true := by
  induction seen with
  | nil => rfl
  | cons a t ih => simpa [isStrKindC13] using ih

theorem any_isStrValC13 (b : Str) (seen : List Str) : (seen.map PVal.str).any (isStrValC13 b) = seen.contains b := by
  induction seen with
  | nil => rfl
  | cons a t ih =>
    simp only [List.map_cons, List.any_cons, ih, isStrValC13, List.contains_cons]
    rw [Bool.beq_comm]

theorem pyInC13_set (b : Str) (seen : List Str) : pyInC13 (.str b) (setOfC13 seen) = .ok (.bool (seen.contains b)) := by
  simp only [pyInC13, setOfC13, setObjC13, all_str_mapC13, if_true, any_isStrValC13, pure_eq_ok]

theorem pySetAddC13_set (b : Str) (seen : List Str) (h : seen.contains b = false) :
    pySetAddC13 (setOfC13 seen) (.str b) = .ok (setOfC13 (b :: seen)) := by
  simp only [pySetAddC13, setOfC13, setObjC13, all_str_mapC13, if_true, any_isStrValC13, h, Bool.false_eq_true, if_false,
    pure_eq_ok, List.map_cons]

theorem pyListAppendC13_list (l : List PVal) (v : PVal) : pyListAppendC13 (.list l) v = .ok (.list (l ++ [v])) := rfl

theorem pyListExtendC13_list (l m : List PVal) : pyListExtendC13 (.list l) (.list m) = .ok (.list (l ++ m)) := rfl

/-! ### what the source does with one body -/

/-- `HTMLDependency.__init__` on a new instance, arguments in the order the keyword call binds them -/
def newDepC13 (G : Globals) (a : List PVal) : PyM PVal :=
  match a with
  | [a1, a2, a3, a4, a5, a6, a7, a8] => HTMLDependency_init G (PVal.obj "HTMLDependency" []) a1 a2 a3 a4 a5 a6 a7 a8
  | _ => throw PyErr.unsupported

/-- the keyword parameters of `HTMLDependency.__init__` without / with a default -/
def depReqC13 : List Str := [['n', 'a', 'm', 'e'], ['v', 'e', 'r', 's', 'i', 'o', 'n']]
def depOptC13 : List (Str × PVal) :=
  [(['s', 'o', 'u', 'r', 'c', 'e'], PVal.none), (['s', 'c', 'r', 'i', 'p', 't'], PVal.none),
   (['s', 't', 'y', 'l', 'e', 's', 'h', 'e', 'e', 't'], PVal.none), (['a', 'l', 'l', '_', 'f', 'i', 'l', 'e', 's'], PVal.bool false),
   (['m', 'e', 't', 'a'], PVal.none), (['h', 'e', 'a', 'd'], PVal.none)]

/-- `HTMLDependency(**json.loads(body))` -/
def rebuildC13 (G : Globals) (b : Str) : PyM PVal :=
  pyJsonLoadsC13 (.str b) >>= pyCallKwC13 (newDepC13 G) depReqC13 depOptC13

/-- one after the other, the first failure decides (the shape of `recoverAll`) -/
def rebuildAllC13 (R : Str → PyM PVal) : List Str → PyM (List PVal)
  | [] => .ok []
  | b :: r =>
    match R b with
    | .error e => .error e
    | .ok d =>
      match rebuildAllC13 R r with
      | .error e => .error e
      | .ok ds => .ok (d :: ds)

/-! ### the `seen_deps` loop -/

/-- the loop of `_static_extract_serialized_html_deps`, whatever its body and whatever other locals its state carries
    (`getSeen` / `getDeps` read the set and the list out of the state): if a pass over a body already seen changes
    neither, and a pass over a new body does `R` with it, appends the result and records the body — or raises what `R`
    raises —, then the loop rebuilds exactly the bodies `dedupGo` keeps, in order; `k` is the code after the loop -/
theorem extract_loop_kC13 {σ β : Type} (getSeen getDeps : σ → PVal) (R : Str → PyM PVal) (bodies : List Str)
    (f : PVal → σ → PyM (ForInStep σ))
    (hstep : ∀ (b : Str) (s : σ) (seen : List Str) (acc : List PVal), getSeen s = setOfC13 seen → getDeps s = .list acc →
      (seen.contains b = true → ∃ s', f (.str b) s = .ok (.yield s') ∧ getSeen s' = setOfC13 seen ∧ getDeps s' = .list acc)
      ∧ (seen.contains b = false →
            (∀ e, R b = .error e → f (.str b) s = .error e)
            ∧ (∀ d, R b = .ok d → ∃ s', f (.str b) s = .ok (.yield s')
                ∧ getSeen s' = setOfC13 (b :: seen) ∧ getDeps s' = .list (acc ++ [d]))))
    (k : σ → PyM β) (r : List PVal → PyM β) (hk : ∀ s ds, getDeps s = .list ds → k s = r ds)
    (init : σ) (seen : List Str) (acc : List PVal) (h1 : getSeen init = setOfC13 seen) (h2 : getDeps init = .list acc) :
    (forIn (bodies.map PVal.str) init f >>= k)
      = (rebuildAllC13 R (dedupGo seen bodies) >>= fun ds => r (acc ++ ds)) := by
  induction bodies generalizing init seen acc with
  | nil =>
    simp only [List.map_nil, List.forIn_nil, pure_eq_ok, ok_bind, dedupGo, rebuildAllC13, List.append_nil]
    exact hk init acc h2
  | cons b t ih =>
    simp only [List.map_cons, List.forIn_cons, dedupGo]
    have hs := hstep b init seen acc h1 h2
    cases hc : seen.contains b with
    | true =>
      obtain ⟨s', e1, e2, e3⟩ := hs.1 hc
      simp only [e1, ok_bind, if_true]
      exact ih s' seen acc e2 e3
    | false =>
      obtain ⟨e1, e2⟩ := hs.2 hc
      simp only [Bool.false_eq_true, if_false, rebuildAllC13]
      cases hR : R b with
      | error e => simp only [e1 e hR, error_bind]
      | ok d =>
        obtain ⟨s', e3, e4, e5⟩ := e2 d hR
        simp only [e3, ok_bind]
        rw [ih s' (b :: seen) (acc ++ [d]) e4 e5]
        cases rebuildAllC13 R (dedupGo (b :: seen) t) with
        | error e => simp only [error_bind]
        | ok ds => simp only [ok_bind, List.append_assoc, List.cons_append, List.nil_append]

/-- two steps in a row against their composition: the failure case … -/
theorem bind2_errorC13 {α β γ : Type} {x : PyM α} {g : α → PyM β} {k : α → β → PyM γ} {e : PyErr}
    (h : (x >>= g) = .error e) : (x >>= fun a => g a >>= fun d => k a d) = .error e := by
  cases x with
  | error e' => simp at h; subst h; rfl
  | ok a =>
    simp only [ok_bind] at h ⊢
    rw [h]; rfl

/-- … and the success case: if, for every intermediate value, the rest of the pass yields a state with property `Q`, so
    does the pass -/
theorem bind2_okC13 {α β σ : Type} {x : PyM α} {g : α → PyM β} {k : α → β → PyM (ForInStep σ)} {d : β} {Q : σ → Prop}
    (h : (x >>= g) = .ok d) (hp : ∀ a, ∃ s', k a d = .ok (.yield s') ∧ Q s') :
    ∃ s', (x >>= fun a => g a >>= fun d => k a d) = .ok (.yield s') ∧ Q s' := by
  cases x with
  | error e' => simp at h
  | ok a =>
    simp only [ok_bind] at h ⊢
    rw [h]; exact hp a


/-! ### one serialised body through `json.loads` and the keyword call -/

/-- the keys of a dict are pairwise distinct (what every Python dict satisfies) -/
def kvNodupC13 (d : List (Str × Str)) : Prop := (d.map Prod.fst).Nodup

/-- every dict of the record has pairwise distinct keys -/
def SDepNodupC13 (d : SDep) : Prop :=
  (∀ x ∈ d.info.script, kvNodupC13 x) ∧ (∀ x ∈ d.info.stylesheet, kvNodupC13 x) ∧ (∀ x ∈ d.info.metas, kvNodupC13 x)

theorem dictSet_newC13 (k : Str) (v : PVal) (acc : List (Str × PVal)) (h : ∀ a ∈ acc, a.1 ≠ k) :
    Py.dictSet k v acc = acc ++ [(k, v)] := by
  induction acc with
  | nil => rfl
  | cons x t ih =>
    obtain ⟨k', v'⟩ := x
    have h1 : k' ≠ k := h (k', v') (by simp)
    simp only [Py.dictSet, h1, if_false, List.cons_append]
    rw [ih (fun a ha => h a (by simp [ha]))]

theorem embJMems_kvObjC13 (d : List (Str × Str)) (acc : List (Str × PVal)) (hnd : kvNodupC13 d)
    (hdis : ∀ kv ∈ d, ∀ a ∈ acc, a.1 ≠ kv.1) :
    embJMemsC13 (kvObj d) acc = acc ++ d.map (fun kv => (kv.1, PVal.str kv.2)) := by
  induction d generalizing acc with
  | nil => simp [kvObj, embJMemsC13]
  | cons x t ih =>
    obtain ⟨k, v⟩ := x
    simp only [kvNodupC13, List.map_cons, List.nodup_cons] at hnd
    simp only [kvObj, embJMemsC13, embJsonC13]
    rw [dictSet_newC13 k (.str v) acc (fun a ha => hdis (k, v) (by simp) a ha)]
    rw [ih _ hnd.2]
    · simp
    · intro kv hkv a ha
      simp only [List.mem_append, List.mem_singleton] at ha
      rcases ha with ha | rfl
      · exact hdis kv (by simp [hkv]) a ha
      · intro heq
        exact hnd.1 (by simp only [List.mem_map]; exact ⟨kv, hkv, heq.symm⟩)

theorem embJson_kvObjC13 (d : List (Str × Str)) (hnd : kvNodupC13 d) :
    embJsonC13 (.obj (kvObj d)) = embKvsC10b d := by
  simp only [embJsonC13, embKvsC10b]
  rw [embJMems_kvObjC13 d [] hnd (by simp)]
  simp

theorem embJList_kvArrC13 (l : List (List (Str × Str))) (hnd : ∀ x ∈ l, kvNodupC13 x) :
    embJListC13 (kvArr l) = l.map embKvsC10b := by
  induction l with
  | nil => simp [kvArr, embJListC13]
  | cons x t ih =>
    simp only [kvArr, embJListC13, List.map_cons]
    rw [embJson_kvObjC13 x (hnd x (by simp)), ih (fun y hy => hnd y (by simp [hy]))]

theorem embJson_kvArrC13 (l : List (List (Str × Str))) (hnd : ∀ x ∈ l, kvNodupC13 x) :
    embJsonC13 (.arr (kvArr l)) = (ItemsV.many (l.map ItemV.dict)).emb := by
  simp only [embJsonC13, embJList_kvArrC13 l hnd, ItemsV.emb, List.map_map]
  rfl

/-- the `source` of a record as the `source=` argument -/
def sourceVC13 : DepSource → SourceV
  | .none => .none
  | .href h => .dict [(kHref, h)]
  | .subdir Option.none d _ => .dict [(kSubdir, d)]
  | .subdir (some p) d _ => .dict [(kSubdir, d), (kPackage, p)]

theorem embJson_srcJsonC13 (s : DepSource) : embJsonC13 (srcJson s) = (sourceVC13 s).emb := by
  cases s with
  | none => rfl
  | href h => rfl
  | subdir p d a =>
    cases p with
    | none => rfl
    | some p =>
      simp only [srcJson, embJsonC13, embJMemsC13, sourceVC13, SourceV.emb, embKvsC10b, Py.dictSet, List.map_cons, List.map_nil]
      have : kSubdir ≠ kPackage := by decide
      simp [this]

/-- the `head` of a record as the `head=` argument -/
def headVC13 : Option Str → HeadV
  | Option.none => .none
  | some s => .text s

theorem embJson_optStrC13 (h : Option Str) : embJsonC13 (optStrJson h) = (headVC13 h).emb := by
  cases h <;> rfl

/-- the keyword call on a dict that has exactly the eight keys of the record, in the record's order -/
theorem callKw_recordC13 (F : List PVal → PyM PVal) (v1 v2 v3 v4 v5 v6 v7 v8 : PVal) :
    pyCallKwC13 F depReqC13 depOptC13
        (.dict [(kName, v1), (kVersion, v2), (kSource, v3), (kScript, v4), (kStylesheet, v5), (kMeta, v6), (kAllFiles, v7), (kHead, v8)])
      = F [v1, v2, v3, v4, v5, v7, v6, v8] := by
  rfl

theorem embJson_depToJsonC13 (d : SDep) (hnd : SDepNodupC13 d) :
    embJsonC13 (depToJson d)
      = .dict [(kName, .str d.info.name), (kVersion, .str d.info.version), (kSource, (sourceVC13 d.info.source).emb),
          (kScript, (ItemsV.many (d.info.script.map ItemV.dict)).emb), (kStylesheet, (ItemsV.many (d.info.stylesheet.map ItemV.dict)).emb),
          (kMeta, (ItemsV.many (d.info.metas.map ItemV.dict)).emb), (kAllFiles, .bool d.info.allFiles), (kHead, (headVC13 d.head).emb)] := by
  have e : ∀ (v1 v2 v3 v4 v5 v6 v7 v8 : Json),
      embJsonC13 (.obj (.cons kName v1 (.cons kVersion v2 (.cons kSource v3 (.cons kScript v4 (.cons kStylesheet v5
        (.cons kMeta v6 (.cons kAllFiles v7 (.cons kHead v8 .nil)))))))))
      = .dict [(kName, embJsonC13 v1), (kVersion, embJsonC13 v2), (kSource, embJsonC13 v3), (kScript, embJsonC13 v4),
          (kStylesheet, embJsonC13 v5), (kMeta, embJsonC13 v6), (kAllFiles, embJsonC13 v7), (kHead, embJsonC13 v8)] := by
    intro v1 v2 v3 v4 v5 v6 v7 v8
    rfl
  rw [depToJson, e, embJson_srcJsonC13, embJson_kvArrC13 _ hnd.1, embJson_kvArrC13 _ hnd.2.1, embJson_kvArrC13 _ hnd.2.2,
    embJson_optStrC13]
  rfl


/-! ### the constructor on the record of a well-formed dependency -/

/-- the arguments `HTMLDependency(**record)` passes for the record of `d`, `packaging` accepting the version with rank `rk` -/
def depArgVC13 (rk : Nat) (d : SDep) : DepArgV :=
  { name := d.info.name, version := d.info.version, verOk := true, vrank := rk, source := sourceVC13 d.info.source,
    script := .many (d.info.script.map ItemV.dict), stylesheet := .many (d.info.stylesheet.map ItemV.dict),
    metas := .many (d.info.metas.map ItemV.dict), allFiles := d.info.allFiles }

theorem validateDicts_allC13 (req : List Str) (l : List (List (Str × Str)))
    (h : ∀ x ∈ l, ∀ k ∈ req, hasKey k x = true) : validateDicts req (l.map PyItem.dict) = .ok l := by
  have hck : ∀ (x : List (Str × Str)) (r : List Str), (∀ k ∈ r, hasKey k x = true) → checkKeys x r = .ok () := by
    intro x r
    induction r with
    | nil => intro _; rfl
    | cons k t ih =>
      intro hk
      simp only [checkKeys, hk k (by simp), if_true]
      exact ih (fun k' hk' => hk k' (by simp [hk']))
  induction l with
  | nil => rfl
  | cons x t ih =>
    simp only [List.map_cons, validateDicts, validateDict, hck x req (h x (by simp)), ih (fun y hy => h y (by simp [hy]))]

theorem checkSource_sourceVC13 (s : DepSource) : checkSource (sourceVC13 s).toArg = .ok s.forgetAbs := by
  cases s with
  | none => rfl
  | href h => rfl
  | subdir p d a => cases p <;> rfl

theorem map_addRel_presentC13 (l : List (List (Str × Str))) (h : ∀ x ∈ l, hasKey ['r','e','l'] x = true) : l.map addRel = l := by
  induction l with
  | nil => rfl
  | cons x t ih =>
    simp only [List.map_cons, addRel_presentC10b x (h x (by simp)), ih (fun y hy => h y (by simp [hy]))]

theorem depInit_recordC13 (rk : Nat) (d : SDep) (hw : d.wellFormed = true) :
    depInit (depArgVC13 rk d).toArg
      = .ok { d.info with vrank := rk, source := d.info.source.forgetAbs } := by
  simp only [SDep.wellFormed, Bool.and_eq_true, List.all_eq_true] at hw
  obtain ⟨⟨hsc, hst⟩, hme⟩ := hw
  have e1 : validateDicts reqScript (d.info.script.map PyItem.dict) = .ok d.info.script :=
    validateDicts_allC13 _ _ (fun x hx k hk => by
      simp only [reqScript, List.mem_singleton] at hk; subst hk; exact hsc x hx)
  have e2 : validateDicts reqStylesheet (d.info.stylesheet.map PyItem.dict) = .ok d.info.stylesheet :=
    validateDicts_allC13 _ _ (fun x hx k hk => by
      simp only [reqStylesheet, List.mem_singleton] at hk; subst hk; exact (hst x hx).1)
  have e3 : validateDicts reqMeta (d.info.metas.map PyItem.dict) = .ok d.info.metas :=
    validateDicts_allC13 _ _ (fun x hx k hk => by
      simp only [reqMeta, List.mem_cons, List.not_mem_nil, or_false] at hk
      rcases hk with rfl | rfl
      · exact (hme x hx).1
      · exact (hme x hx).2)
  have e4 : d.info.stylesheet.map addRel = d.info.stylesheet := map_addRel_presentC13 _ (fun x hx => (hst x hx).2)
  simp only [depInit, depArgVC13, DepArgV.toArg, ItemsV.toArg, List.map_map, Bool.not_true, Bool.false_eq_true, if_false,
    checkSource_sourceVC13, normItems]
  have m : ∀ l : List (List (Str × Str)), List.map (ItemV.toItem ∘ ItemV.dict) l = l.map PyItem.dict := fun l => rfl
  simp only [m, e1, e2, e3, e4]

/-- a dependency rebuilt from its record, as the Python object (attributes in the order of the model's description):
    `source` is the dict the record holds, the version carries the rank `packaging` gives it, `head` is
    `TagList(HTML(markup))` -/
def embSDepC13 (rk : Nat) (d : SDep) : PVal :=
  embDepObjC10b "HTMLDependency" (sourceVC13 d.info.source).emb { d.info with vrank := rk }
    (match d.head with
     | Option.none => PVal.none
     | some s => tagListObjC10b [.html s])

theorem embSDep_normC13 (rk : Nat) (d : SDep) : embSDepC13 rk d.norm = embSDepC13 rk d := by
  have : sourceVC13 d.info.source.forgetAbs = sourceVC13 d.info.source := by
    cases hs : d.info.source with
    | none => rfl
    | href h => rfl
    | subdir p dd a => cases p <;> rfl
  simp only [embSDepC13, SDep.norm, this, embDepObjC10b]


theorem norm_versionC13 (d : SDep) : d.norm.info.version = d.info.version := rfl

/-! ### all bodies; the answer of the extraction -/

/-- the answer `(text, deps)` with every dependency restricted to the attributes the model describes (`projDepC10b`: the
    order in which `__init__` assigns them is not part of what is stated) -/
def projExtractC13 : PVal → PVal
  | .tuple [t, .list ds] => .tuple [t, .list (ds.map projDepC10b)]
  | v => v

/-- the model's answer as the Python value -/
def embExtractC13 (e : SDep → PVal) (p : Str × List SDep) : PVal := .tuple [.str p.1, .list (p.2.map e)]

theorem rebuildAll_recoverAllC13 (R : Str → PyM PVal) (e : SDep → PVal) (l : List Str)
    (hrec : ∀ b ∈ l, projDepC10b <$> R b = embRes e (recover b)) :
    (List.map projDepC10b) <$> rebuildAllC13 R l
      = match recoverAll l with | .ok ds => .ok (ds.map e) | .error er => .error (embErr er) := by
  induction l with
  | nil => rfl
  | cons b t ih =>
    have hb := hrec b (by simp)
    have ht := ih (fun x hx => hrec x (by simp [hx]))
    simp only [rebuildAllC13, recoverAll]
    cases hr : recover b with
    | error er =>
      rw [hr] at hb
      cases hR : R b with
      | error e' => rw [hR] at hb; simp only [embRes, map_error, Except.error.injEq] at hb; simp [hb]
      | ok v => rw [hR] at hb; simp [embRes] at hb
    | ok d =>
      rw [hr] at hb
      cases hR : R b with
      | error e' => rw [hR] at hb; simp [embRes] at hb
      | ok v =>
        rw [hR] at hb
        simp only [embRes, map_ok, Except.ok.injEq] at hb
        cases hA : rebuildAllC13 R t with
        | error e' =>
          rw [hA] at ht
          cases hra : recoverAll t with
          | error er => rw [hra] at ht; simp only [map_error, Except.error.injEq] at ht; simp [ht]
          | ok ds => rw [hra] at ht; simp at ht
        | ok vs =>
          rw [hA] at ht
          cases hra : recoverAll t with
          | error er => rw [hra] at ht; simp at ht
          | ok ds =>
            rw [hra] at ht
            simp only [map_ok, Except.ok.injEq] at ht
            simp [hb, ht]

theorem mem_dedupGoC13 (seen l : List Str) (b : Str) (h : b ∈ dedupGo seen l) : b ∈ l := by
  induction l generalizing seen with
  | nil => simp [dedupGo] at h
  | cons a r ih =>
    simp only [dedupGo] at h
    split at h
    · exact List.mem_cons_of_mem _ (ih seen h)
    · rcases List.mem_cons.mp h with rfl | h
      · simp
      · exact List.mem_cons_of_mem _ (ih _ h)


/-! ### the text document object -/

theorem fieldGet?_fieldSet_otherC13 (k k' : String) (v : PVal) (fs : List (String × PVal)) (h : k' ≠ k) :
    fieldGet? k (fieldSet k' v fs) = fieldGet? k fs := by
  induction fs with
  | nil => simp [fieldSet, fieldGet?, h]
  | cons x t ih =>
    obtain ⟨k0, v0⟩ := x
    by_cases h0 : k0 = k' <;> by_cases h1 : k0 = k <;> simp_all [fieldSet, fieldGet?]

/-- an `HTMLTextDocument` (or subclass `cls`) instance with the three attributes the constructor sets -/
def textDocObjC13 (cls : String) (html : Str) (deps : List PVal) (ph : PVal) : PVal :=
  .obj cls [("_html", .str html), ("_deps", .list deps), ("_deps_replace_pattern", ph)]

/-- the `deps=` argument: None or a list -/
def optListC13 : Option (List PVal) → PVal
  | Option.none => PVal.none
  | some l => .list l

/-- the `deps_replace_pattern=` argument: None or a `str` -/
def optStrC13 : Option Str → PVal
  | Option.none => PVal.none
  | some p => .str p

/-- the attributes of an `HTMLTextDocument` -/
def docFieldNamesC13 : List String := ["_html", "_deps", "_deps_replace_pattern"]

/-- an instance restricted to these attributes, in this order: the order in which `__init__` makes its assignments (the
    order of `__dict__`) is not part of what the tie states -/
def normDocC13 : PVal → PVal
  | .obj c fs => .obj c (docFieldNamesC13.filterMap fun k => (fieldGet? k fs).map fun v => (k, v))
  | v => v

def projDocCoreC13 : PVal → PVal
  | .obj cls [("_html", t), ("_deps", .list ds), ("_deps_replace_pattern", ph)] =>
    .obj cls [("_html", t), ("_deps", .list (ds.map projDepC10b)), ("_deps_replace_pattern", ph)]
  | w => w

/-- … and every dependency restricted to the attributes the model describes -/
def projDocC13 (v : PVal) : PVal := projDocCoreC13 (normDocC13 v)

theorem projDoc_mapC13 (x : PyM PVal) : projDocC13 <$> x = projDocCoreC13 <$> (normDocC13 <$> x) := by
  cases x <;> rfl

theorem normDoc_textDocObjC13 (cls : String) (html : Str) (deps : List PVal) (ph : PVal) :
    normDocC13 (textDocObjC13 cls html deps ph) = textDocObjC13 cls html deps ph := by
  rfl

theorem projDep_embSDepC13 (rk : Nat) (d : SDep) : projDepC10b (embSDepC13 rk d) = embSDepC13 rk d := by
  simp [projDepC10b, embSDepC13, embDepObjC10b, depFieldNamesC10b, fieldGet?]


/-! ### `json.dumps` of the record -/

theorem jsonOfKvs_kvsC13 (d : List (Str × Str)) :
    jsonOfKvsC13 (d.map fun kv => (kv.1, PVal.str kv.2)) = .ok (kvObj d) := by
  induction d with
  | nil => rfl
  | cons x t ih =>
    obtain ⟨k, v⟩ := x
    simp only [List.map_cons, jsonOfKvsC13, jsonOfPValC13, pure_eq_ok, ok_bind, ih, kvObj]

theorem jsonOfPVal_kvsC13 (d : List (Str × Str)) : jsonOfPValC13 (embKvsC10b d) = .ok (.obj (kvObj d)) := by
  simp only [embKvsC10b, jsonOfPValC13, jsonOfKvs_kvsC13, ok_bind, pure_eq_ok]

theorem jsonOfList_dictsC13 (l : List (List (Str × Str))) : jsonOfListC13 (l.map embKvsC10b) = .ok (kvArr l) := by
  induction l with
  | nil => rfl
  | cons x t ih => simp only [List.map_cons, jsonOfListC13, jsonOfPVal_kvsC13, ih, ok_bind, pure_eq_ok, kvArr]

theorem jsonOfPVal_dictsC13 (l : List (List (Str × Str))) : jsonOfPValC13 (embDictsC10b l) = .ok (.arr (kvArr l)) := by
  simp only [embDictsC10b, jsonOfPValC13, jsonOfList_dictsC13, ok_bind, pure_eq_ok]

theorem jsonOfPVal_sourceC13 (s : DepSource) : jsonOfPValC13 (sourceVC13 s).emb = .ok (srcJson s) := by
  cases s with
  | none => rfl
  | href h => rfl
  | subdir p d a => cases p <;> rfl

/-- the `indent=` argument -/
def optNatC13 : Option Nat → PVal
  | Option.none => PVal.none
  | some n => .int n

theorem jsonIndent_optNatC13 (i : Option Nat) : jsonIndentC13 (optNatC13 i) = .ok i := by
  cases i with
  | none => rfl
  | some n => simp [optNatC13, jsonIndentC13]

/-- `json.dumps(res, indent=indent)` for the `res` dict of `serialize_to_script_json` is the model's print of the record -/
theorem jsonDumps_recordC13 (info : DepInfo) (head : Option Str) (ind : Option Nat) :
    pyJsonDumpsC13
        (.dict [(kName, .str info.name), (kVersion, .str info.version), (kSource, (sourceVC13 info.source).emb),
          (kScript, embDictsC10b info.script), (kStylesheet, embDictsC10b info.stylesheet), (kMeta, embDictsC10b info.metas),
          (kAllFiles, .bool info.allFiles), (kHead, optStrC13 head)])
        (optNatC13 ind)
      = .ok (.str (jsonPrint ind (depToJson { info := info, head := head }))) := by
  have hh : jsonOfPValC13 (optStrC13 head) = .ok (optStrJson head) := by
    cases head <;> rfl
  simp only [pyJsonDumpsC13, jsonOfPValC13, jsonOfKvsC13, jsonOfPVal_sourceC13, jsonOfPVal_dictsC13, hh, jsonIndent_optNatC13,
    ok_bind, pure_eq_ok, depToJson]


/-! ### the keys of a parsed object -/

theorem mem_keys_dictSetC13 (k : Str) (v : PVal) (acc : List (Str × PVal)) (x : Str) :
    x ∈ (Py.dictSet k v acc).map Prod.fst ↔ x = k ∨ x ∈ acc.map Prod.fst := by
  induction acc with
  | nil => simp [Py.dictSet]
  | cons a t ih =>
    obtain ⟨k', v'⟩ := a
    by_cases h : k' = k
    · subst h; simp [Py.dictSet]
    · simp only [Py.dictSet, h, if_false, List.map_cons, List.mem_cons, ih]
      constructor
      · rintro (h1 | h1 | h1) <;> simp [h1]
      · rintro (h1 | h1 | h1) <;> simp [h1]

theorem mem_keys_embJMemsC13 : (ms : JMems) → (acc : List (Str × PVal)) → (x : Str) →
    (x ∈ (embJMemsC13 ms acc).map Prod.fst ↔ x ∈ acc.map Prod.fst ∨ x ∈ ms.keys)
  | .nil, acc, x => by simp [embJMemsC13, JMems.keys]
  | .cons k v t, acc, x => by
    have ih := mem_keys_embJMemsC13 t (Py.dictSet k (embJsonC13 v) acc) x
    simp only [embJMemsC13, JMems.keys, List.mem_cons, ih, mem_keys_dictSetC13]
    constructor
    · rintro ((h1 | h1) | h1) <;> simp [h1]
    · rintro (h1 | h1 | h1) <;> simp [h1]

theorem dictGet?_isSome_memC13 (k : Str) (kvs : List (Str × PVal)) : (Py.dictGet? k kvs).isSome = true ↔ k ∈ kvs.map Prod.fst := by
  induction kvs with
  | nil => simp [Py.dictGet?]
  | cons a t ih =>
    obtain ⟨k', v'⟩ := a
    by_cases h : k' = k
    · simp [Py.dictGet?, h]
    · simp only [Py.dictGet?, h, if_false, ih, List.map_cons, List.mem_cons]
      constructor
      · intro h1; exact .inr h1
      · rintro (h1 | h1)
        · exact absurd h1.symm h
        · exact h1

theorem get?_none_iffC13 : (ms : JMems) → (k : Str) → (ms.get? k = none ↔ k ∉ ms.keys)
  | .nil, k => by simp [JMems.get?, JMems.keys]
  | .cons k' v t, k => by
    have ih := get?_none_iffC13 t k
    simp only [JMems.get?, JMems.keys, List.mem_cons, not_or]
    cases ht : t.get? k with
    | some x =>
      have : ¬ (k ∉ t.keys) := fun hh => by rw [ih.mpr hh] at ht; cases ht
      simp [this]
    | none =>
      have hk := ih.mp ht
      by_cases h : k' = k
      · simp [h]
      · simp only [h, if_false, hk, not_false_eq_true, and_true, true_iff]
        exact fun hh => h hh.symm

/-- the parameter names, both ways of writing them -/
theorem okKey_depKeysC13 (k : Str) :
    (depReqC13.contains k || depOptC13.any (fun p => p.1 == k)) = depKeys.contains k := by
  simp only [depReqC13, depOptC13, depKeys, kName, kVersion, kSource, kScript, kStylesheet, kAllFiles, kMeta, kHead,
    List.contains_cons, List.contains_nil, List.any_cons, List.any_nil, Bool.or_false]
  simp only [Bool.beq_comm (a := k)]
  cases (['n', 'a', 'm', 'e'] == k) <;> cases (['v', 'e', 'r', 's', 'i', 'o', 'n'] == k) <;> cases (['s', 'o', 'u', 'r', 'c', 'e'] == k)
    <;> cases (['s', 'c', 'r', 'i', 'p', 't'] == k) <;> cases (['s', 't', 'y', 'l', 'e', 's', 'h', 'e', 'e', 't'] == k)
    <;> cases (['a', 'l', 'l', '_', 'f', 'i', 'l', 'e', 's'] == k) <;> cases (['m', 'e', 't', 'a'] == k) <;> cases (['h', 'e', 'a', 'd'] == k) <;> rfl

end HtmlVerif.SrcTie
