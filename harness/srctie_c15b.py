"""Translator validation lines for the translations of harness/pytr_c15b.py (`TagAttrDict.__init__`, `Tag.__init__`,
`Tag.insert / extend / append`, `consolidate_attrs`): every value shape the functions can meet — attribute dicts under raw
names with values of every kind (valid and invalid), children of every kind of the child-list model (srctie_c14.py),
`_add_ws` of every kind, keyword dicts that carry the names of the callee's own parameters (`_add_ws`, `_name`, `self`),
receivers with and without the fields the methods read, indices of every kind — plus the fixed cases that exercise each
primitive of Py/PrimC15b.lean (`PRIM_CASES`)."""
from __future__ import annotations

import srctie
import srctie_c14 as c14
from srctie import S, H, rstr, attr_dict, scalar, stored_dict
from wire import es


def _extra():
    import gen
    return list(gen.EXTRA)


def _items(d: str) -> list[tuple[str, str]]:
    """the (encoded key, value term) pairs of a flat `M [ k v … ]` term whose values are single scalars"""
    toks = d.split()[2:-1]
    out, i = [], 0
    while i < len(toks):
        k = toks[i]
        j = i + 2 if toks[i + 1] in ("N", "T", "F") else i + 3
        if toks[i + 1] in ("L", "U", "M", "O"):           # `L [ ]`, `M [ ]`, `U [ S a ]`, `O Other [ … ]`: up to the closing bracket
            j = i + 1
            while toks[j] != "]":
                j += 1
            j += 1
        out.append((k, " ".join(toks[i + 1:j])))
        i = j
    return out


def kw_dict(rng, special=0.0) -> str:
    """a keyword dict (distinct keys); with probability `special` it also carries a name that is a parameter of
    `Tag.__init__`"""
    items = _items(attr_dict(rng, rng.choice([0, 0, 1, 2])))
    ex = _extra()
    if ex and rng.random() < 0.3:         # change-directed: literals the source has gained (harness/literals.py)
        w = rng.choice(ex)
        items.append((es(rng.choice([w, w.replace("-", "_"), w + "_"])), scalar(rng)))
    if rng.random() < special:
        k, v = rng.choice([("_add_ws", "T"), ("_add_ws", "F"), ("_add_ws", "I 3"), ("_add_ws", "N"), ("_name", S("x")), ("self", "I 1")])
        items.insert(rng.choice([0, len(items)]), (es(k), v))
    seen, out = set(), []
    for k, v in items:
        if k not in seen:
            seen.add(k)
            out.append((k, v))
    return "M [ " + "".join(k + " " + v + " " for k, v in out) + "]"


def tag_args(rng) -> str:
    """positional arguments of `Tag(...)`: attribute dicts and children"""
    out = []
    for _ in range(rng.choice([0, 1, 2, 2, 3, 4, 5])):
        r = rng.random()
        if r < 0.4:
            out.append(attr_dict(rng))
        else:
            out.append(c14.arg(rng, rng.choice([0, 1, 2, 3])))
    return "U [ " + "".join(x + " " for x in out) + "]"


def ws(rng) -> str:
    r = rng.random()
    if r < 0.8:
        return rng.choice(["T", "F"])
    return rng.choice(["N", "I 1", "I 0", S("True"), S(""), "D " + es("1.0"), "L [ ]", "O Other [ ]"])


def tag_obj(rng) -> str:
    """a Tag receiver: the five fields `__init__` sets, rarely fewer"""
    name = S(rng.choice(["div", "span", "p", rstr(rng)]))
    fields = [("name", name), ("add_ws", rng.choice(["T", "F"])), ("attrs", stored_dict(rng)), ("children", c14.taglist(rng)),
              ("prev_displayhook", "N")]
    r = rng.random()
    if r < 0.06:
        fields = [f for f in fields if f[0] != "children"]          # AttributeError
    elif r < 0.12:
        fields = [f for f in fields if f[0] != "prev_displayhook"]
    elif r < 0.2:
        rng.shuffle(fields)
    return "O Tag [ " + "".join(f"{k} {v} " for k, v in fields) + "]"


#: fixed cases for the primitives of Py/PrimC15b.lean (each agrees with CPython on every run)
PRIM_CASES = {
    "TagAttrDict_initC15b": [
        "[ M [ ] U [ ] M [ ] ]",
        "[ M [ " + es("a") + " S " + es("1") + " ] U [ ] M [ ] ]",                          # pyDictInit0C15b keeps the items
        "[ M [ ] U [ ] M [ " + es("self") + " I 1 ] ]",                                      # pyKwRestC15b: bound name
        "[ M [ ] U [ M [ " + es("x") + " I 1 ] ] M [ " + es("x_") + " T ] ]",
        "[ M [ ] U [ I 5 ] M [ ] ]",                                                          # AttributeError: no .items()
        "[ M [ ] N M [ ] ]",                                                                  # *None
    ],
    "consolidate_attrsC15b": [
        "[ U [ ] M [ ] ]",
        "[ U [ ] M [ " + es("_add_ws") + " F ] ]",                                           # pyKwTakeC15b
        "[ U [ ] M [ " + es("_add_ws") + " I 3 ] ]",
        "[ U [ ] M [ " + es("_add_ws") + " N " + es("a") + " S " + es("1") + " ] ]",
        "[ U [ ] M [ " + es("a") + " S " + es("1") + " " + es("_add_ws") + " T " + es("b") + " T ] ]",   # pyKwRestC15b: taken name removed
        "[ U [ ] M [ " + es("_name") + " S " + es("x") + " ] ]",                             # bound name
        "[ U [ ] M [ " + es("self") + " I 1 ] ]",
        "[ U [ M [ " + es("class_") + " S " + es("a") + " ] S " + es("k") + " M [ " + es("class") + " H " + es("b") + " ] ] M [ ] ]",   # pyDictCopyC15b
        "[ N M [ ] ]",
    ],
    "Tag_appendC15b": [
        "[ O Tag [ children O TagList [ data L [ ] ] ] U [ ] ]",                              # pyPosArgC15b: TypeError
        "[ O Tag [ children O TagList [ data L [ ] ] ] U [ S " + es("a") + " ] ]",
        "[ O Tag [ children O TagList [ data L [ S " + es("z") + " ] ] ] U [ S " + es("a") + " I 2 N L [ S " + es("b") + " ] ] ]",
        "[ O Tag [ ] U [ S " + es("a") + " ] ]",                                              # AttributeError
    ],
}


def _with_fixed(f, g):
    def gen(rng):
        if f in PRIM_CASES and rng.random() < 0.08:
            return rng.choice(PRIM_CASES[f])
        return g(rng)
    return gen


def register(GENS):
    def attr_init(rng):
        r = rng.random()
        me = "M [ ]" if r < 0.8 else stored_dict(rng)
        n = rng.choice([0, 1, 2, 3])
        args = [attr_dict(rng) if rng.random() < 0.93 else scalar(rng) for _ in range(n)]
        return f"[ {me} U [ " + "".join(a + " " for a in args) + f"] {kw_dict(rng)} ]"

    def tag_init(rng):
        name = S(rng.choice(["div", "span", "", rstr(rng)]))
        return f"[ O Tag [ ] {name} {tag_args(rng)} {ws(rng)} {kw_dict(rng)} ]"

    GENS["TagAttrDict_initC15b"] = _with_fixed("TagAttrDict_initC15b", attr_init)
    GENS["Tag_initC15b"] = tag_init
    GENS["Tag_insertC15b"] = lambda rng: f"[ {tag_obj(rng)} {c14.index(rng)} {c14.arg(rng)} ]"
    GENS["Tag_extendC15b"] = lambda rng: f"[ {tag_obj(rng)} {c14.container(rng)} ]"
    GENS["Tag_appendC15b"] = _with_fixed("Tag_appendC15b", lambda rng: (
        f"[ {tag_obj(rng)} U [ " + "".join(c14.arg(rng, 2) + " " for _ in range(rng.choice([0, 1, 1, 2, 3]))) + "] ]"))
    GENS["consolidate_attrsC15b"] = _with_fixed("consolidate_attrsC15b", lambda rng: f"[ {tag_args(rng)} {kw_dict(rng, special=0.15)} ]")
