/-
Primitives of the Python fragment used by the translations of `Tag/TagList.render`, `_render_tag_or_taglist`,
`Tag/TagList.__str__`, `hash_deterministic` and `head_content` (harness/pytr_c18.py) that the other `Py/Prim*.lean` lack.
Same rules as Py/Prim.lean: what CPython does on that argument shape, the exception kind CPython raises, or `unsupported`.
Each was compared with CPython (/venv/bin/python) on every value kind (harness/srctie_c18.py generates them all; the
`src` / `srcc18` ops compare on every run).

Convention for instances (as for `pyReprHtml`, `pyTagifyObj`, `pyStr`): what a method of a class outside the fragment
returns is recorded in the instance under the method's name; an instance without the field has no such attribute.
-/
import HtmlVerif.Py.Prim

namespace HtmlVerif.Py
open HtmlVerif

/-- `x.render()` for a receiver that is neither a `Tag` nor a `TagList` (those go to the translated methods): the value
    kinds of the fragment have no attribute `render` (AttributeError); an instance that brings its own `render` is
    outside the fragment -/
def pyRenderOtherC18 (x : PVal) : PyM PVal :=
  match x with
  | .obj _ fs => if (fieldGet? "render" fs).isSome then throw .unsupported else throw .attributeError
  | _ => throw .attributeError

/-- `dep.serialize_to_script_json()` (no arguments).  `HTMLDependency.serialize_to_script_json` is NOT translated
    (`json.dumps` is outside the fragment): the `<script type="application/json" data-html-dependency>` Tag the real
    method returns for this object is recorded in the instance under `serialize_to_script_json`; a receiver without it
    has no such attribute -/
def pySerializeToScriptJsonC18 (x : PVal) : PyM PVal :=
  match x with
  | .obj _ fs => match fieldGet? "serialize_to_script_json" fs with
    | some v => pure v
    | Option.none => throw .attributeError
  | _ => throw .attributeError

/-- `hashlib.sha1(s.encode("utf-8")).hexdigest()`.  SHA-1 is not translated: the digest text of a string is what
    `G.sha1HexC18` says (`none` = not supplied: no claim).  `HTML.encode` is `UserString.encode`, the bytes of the text.
    Any other value kind of the fragment has no `encode` (AttributeError); an instance that brings its own `encode` is
    outside the fragment. -/
def pySha1HexC18 (G : Globals) (x : PVal) : PyM PVal :=
  match x with
  | .str s => match G.sha1HexC18 s with
    | some h => pure (.str h)
    | Option.none => throw .unsupported
  | .html s => match G.sha1HexC18 s with
    | some h => pure (.str h)
    | Option.none => throw .unsupported
  | .obj _ fs => if (fieldGet? "encode" fs).isSome then throw .unsupported else throw .attributeError
  | _ => throw .attributeError

end HtmlVerif.Py
