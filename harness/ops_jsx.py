"""Implementation side of the JSX ops (C20): wire codec of the component tree, realisation with real
`JSXTag` / `jsx_tag_create` / `jsx` / `Tag` / dependency objects and small tagifiable helper classes,
canonical deep snapshot and `id()` graph of a component.

  jnode := ('comp', name, [(key, jval)...], [jnode...]) | ('tag', name, [(key, ('p'|'h', val))...], [jnode...])
         | ('str', 'p'|'j'|'h', s) | ('meta', n) | ('dep', depinfo) | ('tobj', jnode) | ('tobjL', [jnode...])
  jval  := ('null',) | ('bool', b) | ('num', txt) | ('list', is_tuple, [jval...]) | ('dict', [(key, jval)...])
         | ('node', jnode)

Only the API the property names is used (JSXTag, jsx, jsx_tag_create, str()/tagify()); the private serialisers are
reached through it (see "public routes" below).
"""
from __future__ import annotations

import os
import zlib

from adapters import Meta, canon, canon_dep, realize_dep, htmltools
from htmltools import HTML, HTMLDependency, MetadataNode, Tag, TagList
from htmltools import _jsx
from htmltools._jsx import JSXTag, jsx, jsx_tag_create
from ops import op
from wire import (Toks, eattrs, eb, edepinfo, elist, enode, err_of, es, p_attr, p_bool, p_depinfo, p_list, p_str)

import re

_ZUNSAFE = re.compile(r"[^A-Za-z0-9_\-.,;:!?(){}\[\]<>=+*/'\"&#@^|$`]")


def zs(s: str) -> str:
    """compact string token: `~` then the characters, unsafe ones as `%<hex>.`"""
    return "~" + _ZUNSAFE.sub(lambda m: "%%%x." % ord(m.group()), s)


BODY_MARK = "\ufffc"


def elide_body(s: str, term):
    """the script body is sent once, inside str(tag): replace it in the tag term when str(tag) = <open tag> + body + </script>"""
    if term[0] == "tag" and term[4] and term[4][0][0] == "html" and ">" in s:
        after = s[s.index(">") + 1:]
        if after.endswith("</script>") and after[: len(after) - len("</script>")] == term[4][0][1]:
            return term[:4] + ([("html", BODY_MARK)] + list(term[4][1:]),)
    return term


ALIEN = "⟪alien:%s⟫"   # marks an object of an unexpected type inside a snapshot


# ------------------------------------------------------------------ helper classes
class JTObj:
    """Tagifiable object (neither Tag nor JSXTag); tagify() returns its stored expansion."""

    def __init__(self, exp):
        self.exp = exp

    def tagify(self):
        return self.exp


class JTObjL:
    """Tagifiable object whose tagify() returns a (stored) TagList."""

    def __init__(self, items):
        self.exp = TagList(*items)

    def tagify(self):
        return self.exp


# ------------------------------------------------------------------ wire
def ejnode(n) -> str:
    k = n[0]
    if k == "comp":
        return "comp " + es(n[1]) + " " + ejprops(n[2]) + " " + ejnodes(n[3])
    if k == "tag":
        return "tag " + es(n[1]) + " " + eattrs(n[2]) + " " + ejnodes(n[3])
    if k == "str":
        return "str " + n[1] + " " + es(n[2])
    if k == "meta":
        return "meta " + str(n[1])
    if k == "dep":
        return "dep " + edepinfo(n[1])
    if k == "tobj":
        return "tobj " + ejnode(n[1])
    if k == "tobjL":
        return "tobjL " + ejnodes(n[1])
    raise ValueError(f"bad jnode {n!r}")


def ejnodes(ns) -> str:
    return elist([ejnode(n) for n in ns])


def ejval(v) -> str:
    k = v[0]
    if k == "null":
        return "vn"
    if k == "bool":
        return "vt" if v[1] else "vf"
    if k == "num":
        return "vm " + es(v[1])
    if k == "list":
        return "vl " + eb(v[1]) + " " + elist([ejval(x) for x in v[2]])
    if k == "dict":
        return "vd " + ejprops(v[1])
    if k == "node":
        return "vx " + ejnode(v[1])
    raise ValueError(f"bad jval {v!r}")


def ejprops(ps) -> str:
    return elist([es(k) + " " + ejval(v) for k, v in ps])


def eallowed(a) -> str:
    return "N" if a is None else "L " + elist([es(x) for x in a])


def p_jnode(t: Toks):
    k = t.next()
    if k == "comp":
        return ("comp", p_str(t), p_jprops(t), p_list(t, p_jnode))
    if k == "tag":
        return ("tag", p_str(t), p_list(t, p_attr), p_list(t, p_jnode))
    if k == "str":
        return ("str", t.next(), p_str(t))
    if k == "meta":
        return ("meta", int(t.next()))
    if k == "dep":
        return ("dep", p_depinfo(t))
    if k == "tobj":
        return ("tobj", p_jnode(t))
    if k == "tobjL":
        return ("tobjL", p_list(t, p_jnode))
    raise ValueError(k)


def p_jval(t: Toks):
    k = t.next()
    if k == "vn":
        return ("null",)
    if k == "vt":
        return ("bool", True)
    if k == "vf":
        return ("bool", False)
    if k == "vm":
        return ("num", p_str(t))
    if k == "vl":
        return ("list", p_bool(t), p_list(t, p_jval))
    if k == "vd":
        return ("dict", p_jprops(t))
    if k == "vx":
        return ("node", p_jnode(t))
    raise ValueError(k)


def p_jprops(t: Toks):
    return p_list(t, lambda t: (p_str(t), p_jval(t)))


def p_allowed(t: Toks):
    k = t.next()
    return None if k == "N" else p_list(t, p_str)


# ------------------------------------------------------------------ realise
def _h(term) -> int:
    return zlib.crc32(repr(term).encode())


def parse_num(txt: str):
    try:
        return int(txt)
    except ValueError:
        return float(txt)


def make_component(name, props, kids, route: int, allowed=None):
    """build a JSXTag, adding the children by one of several routes ("however it was added")"""
    r = route % 6
    if r == 0:
        return JSXTag(name, *kids, allowedProps=allowed, **props)
    if r == 1:
        return jsx_tag_create(name, allowed)(*kids, **props)
    if r == 2:   # nested list / TagList arguments are flattened
        mid = len(kids) // 2
        return JSXTag(name, kids[:mid], TagList(*kids[mid:]), allowedProps=allowed, **props)
    if r == 3:
        x = JSXTag(name, allowedProps=allowed, **props)
        for c in kids:
            x.append(c)
        return x
    if r == 4:
        x = JSXTag(name, *kids[:1], allowedProps=allowed, **props)
        x.extend(kids[1:])
        return x
    x = JSXTag(name, allowedProps=allowed, **props)
    for c in kids:   # JSXTag.append(*args) forwards to TagList.append(item): exactly one item per call
        x.append(*[c])
    return x


def realize_j(n):
    k = n[0]
    if k == "comp":
        props = {key: realize_val(v) for key, v in n[2]}
        kids = [realize_j(c) for c in n[3]]
        return make_component(n[1], props, kids, _h(n))
    if k == "tag":
        t = Tag(n[1], *[realize_j(c) for c in n[3]])
        for key, v in n[2]:   # stored (normalised) form: install without renormalising
            dict.__setitem__(t.attrs, key, HTML(v[1]) if v[0] == "h" else v[1])
        return t
    if k == "str":
        return {"p": str, "j": jsx, "h": HTML}[n[1]](n[2])
    if k == "meta":
        return Meta(n[1])
    if k == "dep":
        return realize_dep(n[1], False, [])
    if k == "tobj":
        return JTObj(realize_j(n[1]))
    if k == "tobjL":
        return JTObjL([realize_j(c) for c in n[1]])
    raise ValueError(n)


def realize_val(v):
    k = v[0]
    if k == "null":
        return None
    if k == "bool":
        return v[1]
    if k == "num":
        return parse_num(v[1])
    if k == "list":
        xs = [realize_val(x) for x in v[2]]
        return tuple(xs) if v[1] else xs
    if k == "dict":
        return {key: realize_val(x) for key, x in v[1]}
    if k == "node":
        return realize_j(v[1])
    raise ValueError(v)


# ------------------------------------------------------------------ canonical snapshot and id() graph
def canon_j(x):
    if isinstance(x, JSXTag):
        return ("comp", x.name, [(str(k), canon_val(v)) for k, v in x.attrs.items()], [canon_j(c) for c in x.children])
    if isinstance(x, Tag):
        return ("tag", x.name, [(k, ("h" if isinstance(v, HTML) else "p", str(v))) for k, v in x.attrs.items()],
                [canon_j(c) for c in x.children])
    if isinstance(x, jsx):
        return ("str", "j", str.__str__(x))
    if isinstance(x, str):
        return ("str", "p", x)
    if isinstance(x, HTML):
        return ("str", "h", x.as_string())
    if isinstance(x, Meta):
        return ("meta", x.n)
    if isinstance(x, HTMLDependency):
        return ("dep", canon_dep(x, None)[1])
    if isinstance(x, JTObj):
        return ("tobj", canon_j(x.exp))
    if isinstance(x, JTObjL):
        return ("tobjL", [canon_j(c) for c in x.exp])
    return ("str", "p", ALIEN % type(x).__name__)


def canon_val(v):
    if v is None:
        return ("null",)
    if isinstance(v, bool):
        return ("bool", v)
    if isinstance(v, (int, float)):
        return ("num", str(v))
    if isinstance(v, (list, tuple)):
        return ("list", isinstance(v, tuple), [canon_val(x) for x in v])
    if isinstance(v, dict):
        return ("dict", [(str(k), canon_val(x)) for k, x in v.items()])
    return ("node", canon_j(v))


def idgraph(x, keep: list, out=None):
    """(role, id) of every mutable object reachable from the component, in traversal order; `keep` holds the
    objects alive so that no id can be reused while snapshots are compared"""
    out = [] if out is None else out

    def note(role, o):
        keep.append(o)
        out.append((role, id(o)))

    if isinstance(x, JSXTag):
        note("jsx", x)
        note("jsx.attrs", x.attrs)
        note("jsx.children", x.children)
        note("jsx.children.data", x.children.data)
        for v in x.attrs.values():
            idgraph(v, keep, out)
        for c in x.children:
            idgraph(c, keep, out)
    elif isinstance(x, Tag):
        note("tag", x)
        note("tag.attrs", x.attrs)
        note("tag.children", x.children)
        note("tag.children.data", x.children.data)
        for c in x.children:
            idgraph(c, keep, out)
    elif isinstance(x, (JTObj, JTObjL)):
        note("tobj", x)
        if isinstance(x, JTObjL):
            note("taglist", x.exp)
            note("taglist.data", x.exp.data)
            for c in x.exp:
                idgraph(c, keep, out)
        else:
            idgraph(x.exp, keep, out)
    elif isinstance(x, MetadataNode):
        note("meta", x)
    elif isinstance(x, (list, tuple)):
        note("seq", x)
        for v in x:
            idgraph(v, keep, out)
    elif isinstance(x, dict):
        note("dict", x)
        for v in x.values():
            idgraph(v, keep, out)
    elif isinstance(x, HTML):
        note("html", x)
    return out


# ------------------------------------------------------------------ ops
def _realized(f):
    """a failure while *building* the input is the harness's, not the library's answer"""
    try:
        return f()
    except Exception as e:
        raise HarnessError(f"{type(e).__name__}: {e}")


class HarnessError(BaseException):
    pass


@op("jsx_tagify")
def _jsx_tagify(t: Toks) -> str:
    """four conversions of one component: tagify(), str(), tagify(), tagify(); snapshots before, after the first, after the last"""
    term = p_jnode(t)
    x = _realized(lambda: realize_j(term))
    return tagify_protocol(x, term)


@op("jsx_init")
def _jsx_init(t: Toks) -> str:
    name = p_str(t)
    _up = p_str(t)   # what str.upper() gives for the initial: information for the model only
    allowed = p_allowed(t)
    kw_terms = p_jprops(t)
    kwargs = _realized(lambda: [(k, realize_val(v)) for k, v in kw_terms])
    kid_terms = p_list(t, p_jnode)
    kids = _realized(lambda: [realize_j(c) for c in kid_terms])
    x = make_component(name, dict(kwargs), kids, _h((name, kid_terms)), allowed)
    try:
        s = "ok " + zs(str(x))
    except Exception as e:
        s = err_of(e)
    return "ok " + ejnode(canon_j(x)) + " " + s


# ------------------------------------------------------------------ public routes to the serialisers
# `_render_react_js`, `_serialize_attr` and `_serialize_style_attr` are private helpers: what C20 is about is the script
# text `str(component)` emits.  A prop value is therefore serialised through the PUBLIC API — `str(JSXTag("X", p=value))`
# — and the part of the script that is the value is cut out; the envelope around it is learned from the real output for
# a sentinel value (a jsx() expression is written verbatim), so no layout is assumed here.  A private helper is only
# used where no public route exists (un-tagified trees; arbitrary indent / eol), and only when it is present under its
# old name, accepts the old arguments and still agrees with the public route on a calibration set; otherwise the line
# is answered `skip route-unavailable`, which the runner drops and counts — never a failing input.
SENT = "\uf8f0\uf8f1"   # private-use characters: never generated, written verbatim inside a jsx() expression
SKIP = "skip route-unavailable"
_ENV: dict = {}


class EnvelopeDiffers(Exception):
    def __init__(self, s):
        super().__init__("envelope")
        self.s = s


def _envelope(kind: str):
    if kind not in _ENV:
        if kind == "p":
            s = str(JSXTag("X", p=jsx(SENT)))
            ok = s.count(SENT) == 1
            env = (s[: s.find(SENT)], s[s.find(SENT) + len(SENT):]) if ok else None
        else:
            s = str(JSXTag("X", style={SENT: jsx(SENT)}))
            i, j = s.find('{"' + SENT), s.rfind(SENT)
            ok = s.count(SENT) == 2 and 0 <= i < j and s[j + len(SENT): j + len(SENT) + 1] == "}"
            env = (s[:i], s[j + len(SENT) + 1:]) if ok else None
        _ENV[kind] = env
    return _ENV[kind]


def _public_value(x, kind: str) -> str:
    """the text written for prop value `x` (under key `p`, or under `style`) by str(component)"""
    s = str(JSXTag("X", **{"p" if kind == "p" else "style": x}))
    env = _envelope(kind)
    if env is None or len(s) < len(env[0]) + len(env[1]) or not s.startswith(env[0]) or not s.endswith(env[1]):
        raise EnvelopeDiffers(s)
    return s[len(env[0]): len(s) - len(env[1])]


def has_tobj(n) -> bool:
    """an un-tagified tree: str(component) expands it first, so only a direct call of the helper sees it as it is"""
    k = n[0]
    if k in ("tobj", "tobjL"):
        return True
    if k == "comp":
        return any(val_has_tobj(v) for _, v in n[2]) or any(has_tobj(c) for c in n[3])
    if k == "tag":
        return any(has_tobj(c) for c in n[3])
    return False


def val_has_tobj(v) -> bool:
    if v[0] == "list":
        return any(val_has_tobj(x) for x in v[2])
    if v[0] == "dict":
        return any(val_has_tobj(x) for _, x in v[1])
    return v[0] == "node" and has_tobj(v[1])


_PRIV: dict = {}


def _calibration_values():
    return [None, True, 7, 'a"b', jsx("x"), [1, "a"], {"k": 2}, Tag("div", "c", id="i"), JSXTag("Y", "c", Tag("br"), q=1)]


def _private(name: str):
    """the private helper `htmltools._jsx.<name>` if it is still there, takes the old arguments and means what it
    meant (agrees with the public route on the calibration set); else None"""
    if name in _PRIV:
        return _PRIV[name]
    fn = None
    try:
        import inspect
        cand = getattr(_jsx, name)
        if name == "_serialize_attr":
            inspect.signature(cand).bind(None)
            good = all(cand(v) == _public_value(v, "p") for v in _calibration_values())
        elif name == "_serialize_style_attr":
            inspect.signature(cand).bind(None)
            good = all(cand(v) == _public_value(v, "s") for v in (None, "a:b;c: d", {"k": 1, "m": "n"}, {}))
        else:
            inspect.signature(cand).bind(None, 0, "\n")
            xs = [v for v in _calibration_values() if isinstance(v, (Tag, JSXTag))]
            good = all(cand(v, 0, "\n") == _public_value(v, "p") for v in xs)
            top = JSXTag("Y", "c", Tag("br"), q=1)
            good = good and ("\n" + cand(top, 2, "\n") + "\n  , container);") in str(top)
        if good:
            fn = cand
    except Exception:  # noqa: BLE001  (AttributeError: renamed or moved; TypeError: other signature; …)
        fn = None
    _PRIV[name] = fn
    return fn


def _answer(f) -> str:
    try:
        return "ok " + zs(f())
    except EnvelopeDiffers as e:
        # the script around the value is not what it is around the sentinel value: an answer of another shape
        return "envelope-differs " + zs(e.s)


@op("jsx_render")
def _jsx_render(t: Toks) -> str:
    term = p_jnode(t)
    indent = int(t.next())
    eol = p_str(t)
    fn = _private("_render_react_js")   # no public route to an arbitrary indent / eol
    if fn is None:
        return SKIP
    x = _realized(lambda: realize_j(term))
    return "ok " + zs(fn(x, indent, eol))


def _value_op(t: Toks, kind: str, helper: str) -> str:
    v = p_jval(t)
    if val_has_tobj(v):
        fn = _private(helper)
        if fn is None:
            return SKIP
        x = _realized(lambda: realize_val(v))
        return "ok " + zs(fn(x))
    x = _realized(lambda: realize_val(v))
    return _answer(lambda: _public_value(x, kind))


@op("jsx_attr")
def _jsx_attr(t: Toks) -> str:
    return _value_op(t, "p", "_serialize_attr")


@op("jsx_style")
def _jsx_style(t: Toks) -> str:
    return _value_op(t, "s", "_serialize_style_attr")


# ------------------------------------------------------------------ numbers, exactly
def pynum_of(x):
    """the Python number, exactly: ('i', n) | ('f', neg, mant, exp) with |x| = mant * 2**exp in canonical form (53-bit
    significand, normalised unless subnormal) | ('inf', neg) | ('nan',)"""
    import math
    if isinstance(x, bool) or not isinstance(x, (int, float)):
        raise ValueError(x)
    if isinstance(x, int):
        return ("i", x)
    if x != x:
        return ("nan",)
    if math.isinf(x):
        return ("inf", x < 0)
    neg = math.copysign(1.0, x) < 0
    if x == 0:
        return ("f", neg, 0, -1074)
    num, den = abs(x).as_integer_ratio()      # exact; den is a power of two
    exp = -(den.bit_length() - 1)
    mant = num
    while mant >= 1 << 53:                    # (num can carry trailing zero bits when den == 1)
        assert mant % 2 == 0
        mant //= 2
        exp += 1
    while mant < 1 << 52 and exp > -1074:
        mant *= 2
        exp -= 1
    assert mant < 1 << 53 and exp >= -1074 and math.ldexp(mant, exp) == abs(x)
    return ("f", neg, mant, exp)


def epynum(v) -> str:
    k = v[0]
    if k == "i":
        return "i " + str(v[1])
    if k == "f":
        return "f " + eb(v[1]) + " " + str(v[2]) + " " + str(v[3])
    if k == "inf":
        return "inf " + eb(v[1])
    return "nan"


def p_pynum(t: Toks):
    k = t.next()
    if k == "i":
        return ("i", int(t.next()))
    if k == "f":
        return ("f", p_bool(t), int(t.next()), int(t.next()))
    if k == "inf":
        return ("inf", p_bool(t))
    return ("nan",)


def num_line(txt: str) -> str:
    return "jsx_num " + es(txt) + " " + epynum(pynum_of(parse_num(txt)))


@op("jsx_num")
def _jsx_num(t: Toks) -> str:
    txt = p_str(t)
    want = p_pynum(t)
    x = _realized(lambda: parse_num(txt))
    if str(x) != txt or pynum_of(x) != want:
        raise HarnessError(f"number term {txt!r} / {want!r} does not describe {x!r}")
    return _answer(lambda: _public_value(x, "p"))


# ------------------------------------------------------------------ aliasing: one object at several positions
def realize_shared(n, memo: dict):
    """like realize_j, but structurally equal mutable sub-terms (tags, components, dependencies, metadata nodes,
    tagifiable objects, HTML strings, list / dict prop values) are ONE object, placed at every position the term occurs"""
    k = n[0]
    key = ("n", repr(n))
    if key in memo:
        return memo[key]
    if k == "comp":
        props = {pk: realize_val_shared(v, memo) for pk, v in n[2]}
        kids = [realize_shared(c, memo) for c in n[3]]
        x = make_component(n[1], props, kids, _h(n))
    elif k == "tag":
        x = Tag(n[1], *[realize_shared(c, memo) for c in n[3]])
        for pk, v in n[2]:
            dict.__setitem__(x.attrs, pk, HTML(v[1]) if v[0] == "h" else v[1])
    elif k == "tobj":
        x = JTObj(realize_shared(n[1], memo))
    elif k == "tobjL":
        x = JTObjL([realize_shared(c, memo) for c in n[1]])
    else:
        x = realize_j(n)
    memo[key] = x
    return x


def realize_val_shared(v, memo: dict):
    k = v[0]
    if k in ("list", "dict"):
        key = ("v", repr(v))
        if key in memo:
            return memo[key]
        if k == "list":
            xs = [realize_val_shared(x, memo) for x in v[2]]
            r = tuple(xs) if v[1] else xs
        else:
            r = {pk: realize_val_shared(x, memo) for pk, x in v[1]}
        memo[key] = r
        return r
    if k == "node":
        return realize_shared(v[1], memo)
    return realize_val(v)


def mutable_ids(x, keep: list, out: set, depth=0):
    """ids of every mutable object reachable from `x` (component tree or tagify() result), dependencies included with
    their item lists / dicts and head"""
    if depth > 200 or isinstance(x, (str, bytes, int, float, bool, type(None))):
        return out
    if id(x) in out:
        return out
    keep.append(x)
    if isinstance(x, (JSXTag, Tag)):
        out.add(id(x))
        for o in (x.attrs, x.children, x.children.data):
            keep.append(o)
            out.add(id(o))
        if isinstance(x, JSXTag):
            for v in x.attrs.values():
                mutable_ids(v, keep, out, depth + 1)
        for c in x.children:
            mutable_ids(c, keep, out, depth + 1)
    elif isinstance(x, TagList):
        out.add(id(x))
        keep.append(x.data)
        out.add(id(x.data))
        for c in x:
            mutable_ids(c, keep, out, depth + 1)
    elif isinstance(x, (JTObj, JTObjL)):
        out.add(id(x))
        mutable_ids(x.exp, keep, out, depth + 1)
    elif isinstance(x, HTMLDependency):
        out.add(id(x))
        for a in ("script", "stylesheet", "meta"):
            items = getattr(x, a, None)
            if isinstance(items, list):
                keep.append(items)
                out.add(id(items))
                for d in items:
                    if isinstance(d, dict):
                        keep.append(d)
                        out.add(id(d))
        for a in ("source", "head"):
            o = getattr(x, a, None)
            if isinstance(o, dict):
                keep.append(o)
                out.add(id(o))
            elif o is not None:
                mutable_ids(o, keep, out, depth + 1)
    elif isinstance(x, MetadataNode):
        out.add(id(x))
    elif isinstance(x, (list, tuple)):
        if isinstance(x, list):
            out.add(id(x))
        for v in x:
            mutable_ids(v, keep, out, depth + 1)
    elif isinstance(x, dict):
        out.add(id(x))
        for v in x.values():
            mutable_ids(v, keep, out, depth + 1)
    elif isinstance(x, HTML):
        out.add(id(x))
    return out


def tagify_protocol(x, term, extra=None) -> str:
    """four conversions of one component: tagify(), str(), tagify(), tagify(); snapshots before, after the first, after
    the last; `extra(results)` may append further flags"""
    if canon_j(x) != term:
        raise HarnessError(f"term does not describe the object built from it: {term!r} vs {canon_j(x)!r}")
    keep: list = []
    ids0 = idgraph(x, keep)

    def attempt(f):
        try:
            return f()
        except Exception as e:
            return e

    r1 = attempt(x.tagify)
    a1 = canon_j(x)
    ids1 = idgraph(x, keep)
    s2 = attempt(lambda: str(x))
    r3 = attempt(x.tagify)
    r4 = attempt(x.tagify)
    a4 = canon_j(x)
    ids4 = idgraph(x, keep)
    if isinstance(r1, Tag) and isinstance(s2, str):
        c1 = canon(r1)
        res = "ok " + zs(s2) + " " + enode(elide_body(s2, c1))
        again = isinstance(r4, Tag) and canon(r4) == c1 and r4.get_html_string() == s2
    elif isinstance(r1, Exception):
        res = err_of(r1)
        again = isinstance(s2, Exception) and isinstance(r4, Exception) and err_of(s2) == res == err_of(r4)
    else:
        res = "inconsistent tagify-returned-but-str-raised"
        again = False
    out = res + " after " + ejnode(a1) + " " + ejnode(a4) + " " + eb(ids0 == ids1 == ids4) + " " + eb(again)
    if extra is not None:
        out += " " + extra([r1, r3, r4], keep)
    return out


@op("jsx_alias")
def _jsx_alias(t: Toks) -> str:
    """the component is built with ONE object for structurally equal mutable sub-terms (the same child / dependency /
    attribute value object at several positions, as children, in props, in lists and dicts, as expansions); afterwards
    every original object must be what it was (snapshot and id() graph, position by position) and no result may share
    a mutable object with the component"""
    term = p_jnode(t)
    x = _realized(lambda: realize_shared(term, {}))

    def fresh(results, keep):
        mine = mutable_ids(x, keep, set())
        for r in results:
            if isinstance(r, Exception):
                continue
            if mutable_ids(r, keep, set()) & mine:
                return eb(False)
        return eb(True)
    return tagify_protocol(x, term, fresh)


@op("jsx_libfiles")
def _jsx_libfiles(t: Toks) -> str:
    r = JSXTag("X").tagify()
    rows = []
    for d in list(r.children)[1:3]:
        if not isinstance(d, HTMLDependency) or len(d.script) != 1:
            rows.append("bad-dependency")
            continue
        src = d.script[0]["src"]
        base = d.source_path_map()["source"]
        inside = os.path.realpath(base).startswith(os.path.realpath(os.path.dirname(htmltools.__file__)) + os.sep)
        rows.append(" ".join([es(d.name), es(str(d.version)), es(src), eb(inside and os.path.isfile(os.path.join(base, src)))]))
    return " ".join(rows)
