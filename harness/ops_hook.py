"""Implementation side of the display-hook ops (C17): the same program term is interpreted with REAL `with tag:`
statements and `sys.displayhook(v)` calls against the htmltools working tree.

  hook_run [ [ item* ]* ] [ stmt* ]  ->  <outcome> <recorder current again: T/F> [ flag* ] [ val* ] [ [ item* ]* ]
  hook_append <val>                  ->  ok [ item* ] | err <kind>
  hook_wrap <val>                    ->  N | S <val>

sys.displayhook is process-global: every op saves it first and restores it in `finally`.
"""
from __future__ import annotations

import sys

from adapters import ReprObj
from ops import op
from wire import Toks, p_list, p_hval, p_hitem, p_hprog, es, eb, elist, err_of

import htmltools
from htmltools import HTML, Tag


class Boom(Exception):
    """what an explicit `raise` statement of a program raises"""


class RStr(ReprObj, str):
    """self-rendering object that also happens to be a str (unusual but legal)"""
    def __new__(cls, s):
        return str.__new__(cls, "plain<" + s + ">")


class RTuple(ReprObj, tuple):
    def __new__(cls, s):
        return tuple.__new__(cls, (1, 2))


class RList(ReprObj, list):
    def __init__(self, s):
        ReprObj.__init__(self, s)
        list.__init__(self, ["a", "b"])
    __hash__ = None


class RFloat(ReprObj, float):
    def __new__(cls, s):
        return float.__new__(cls, 2.5)


REPR_CLASSES = [ReprObj, RStr, ReprObj, RTuple, ReprObj, RList, RFloat]


class Opaque:
    def __init__(self, n):
        self.n = n


# objects that are no TagChild: not str/number/None, not a list/tuple/TagList, no tagify(), no _repr_html_()
def _invalids():
    return [object(), {"a": 1}, b"x", {1}, 3 + 2j, Opaque(0), range(2), bytearray(b"y")]


def _number(txt: str):
    """the number whose str() is `txt` (the model is handed str(number); here we need the number back)"""
    cands = []
    if txt in ("True", "False"):
        cands.append(txt == "True")
    try:
        cands.append(int(txt))
    except ValueError:
        pass
    try:
        cands.append(float(txt))
    except ValueError:
        pass
    for c in cands:
        if str(c) == txt:
            return c
    raise ValueError(f"no number prints as {txt!r}")


class RecTag(Tag):
    """a Tag subclass (users do subclass Tag) whose append() notes that it was called: displayed values have to be
    appended to the block's TAG, through its own append()"""

    def append(self, *args):
        super().append(*args)
        self.__dict__.setdefault("_n_appended", 0)
        self.__dict__["_n_appended"] += len(args)


class Recorder:
    """the outermost display hook: a callable OBJECT that is falsy while it has recorded nothing (`__len__`), as a
    list-like recorder would be; a hook must be restored and called whatever its truth value"""

    def __init__(self):
        self.log = []

    def __call__(self, value):
        self.log.append(value)

    def __len__(self):
        return len(self.log)


class Env:
    def __init__(self, ntags: int):
        self.tags = [RecTag("div") for _ in range(ntags)]
        self.ids = {id(t): i for i, t in enumerate(self.tags)}
        self.invalid = _invalids()
        self.invalid_ids = {id(x) for x in self.invalid}
        self.n_invalid = 0

    # ---- realise
    def val(self, v, direct=False):
        k = v[0]
        if k == "none":
            return None
        if k == "ellipsis":
            return ...
        if k == "text":
            return v[1]
        if k == "num":
            return _number(v[1])
        if k == "html":
            return HTML(v[1])
        if k == "reprHtml":
            self.n_repr = getattr(self, "n_repr", 0) + 1
            # handed straight to Tag.append (no display-hook wrapper) a list/tuple/number subclass is, correctly,
            # treated as a list/tuple/number; only there keep to classes that are nothing but self-rendering
            classes = [ReprObj, RStr] if direct else REPR_CLASSES
            return classes[(self.n_repr + len(v[1])) % len(classes)](v[1])
        if k == "tagRef":
            return self.tags[v[1]]
        if k == "invalid":
            x = self.invalid[self.n_invalid % len(self.invalid)]
            self.n_invalid += 1
            return x
        raise ValueError(v)

    def item(self, i):
        k = i[0]
        if k == "text":
            return i[1]
        if k == "html":
            return HTML(i[1])
        if k == "robj":
            return ReprObj(i[1])
        return self.tags[i[1]]

    # ---- canonicalise (by identity for tags; never by repr)
    def c_item(self, c) -> str:
        if isinstance(c, Tag):
            i = self.ids.get(id(c))
            return "ix foreign-tag" if i is None else f"ig {i}"
        if isinstance(c, ReprObj):
            return "ir " + es(c.s)
        if isinstance(c, HTML):
            return "ih " + es(c.as_string())
        if isinstance(c, str):
            return "it " + es(str.__str__(c))
        return "ix " + type(c).__name__

    def c_val(self, v) -> str:
        if v is None:
            return "vn"
        if v is ...:
            return "ve"
        if isinstance(v, Tag):
            i = self.ids.get(id(v))
            return "vx foreign-tag" if i is None else f"vg {i}"
        if isinstance(v, ReprObj):
            return "vr " + es(v.s)
        if isinstance(v, HTML):
            return "vh " + es(v.as_string())
        if isinstance(v, str):
            return "vt " + es(str.__str__(v))
        if isinstance(v, (bool, int, float)):
            return "vm " + es(str(v))
        if id(v) in self.invalid_ids:
            return "vi"
        return "vx " + type(v).__name__


def _prepare(env: Env, progs):
    """realise every displayed value up front, so that a harness error cannot pass for an exception of the code"""
    return [("d", env.val(p[1])) if p[0] == "d" else ("b", p[1], _prepare(env, p[2])) if p[0] == "b" else p
            for p in progs]


def _interpret(env: Env, progs, flags: list):
    """run a (prepared) statement list; exceptions propagate exactly as Python propagates them"""
    for p in progs:
        k = p[0]
        if k == "d":
            sys.displayhook(p[1])
        elif k == "r":
            raise Boom()
        else:
            tag = env.tags[p[1]]
            before = sys.displayhook
            slot = len(flags)
            flags.append("?")
            try:
                with tag:
                    _interpret(env, p[2], flags)
            finally:
                # sampled on every exit path, also when __enter__ itself raised
                flags[slot] = eb(sys.displayhook is before)


@op("hook_run")
def _hook_run(t: Toks) -> str:
    init = p_list(t, lambda t: p_list(t, p_hitem))
    progs = p_list(t, p_hprog)
    env = Env(len(init))
    for tag, items in zip(env.tags, init):
        # initial children installed below the normalising API
        tag.children.data.extend(env.item(i) for i in items)
    progs = _prepare(env, progs)
    recorder = Recorder()
    log = recorder.log
    n_init = [len(t.children) for t in env.tags]
    flags: list = []
    saved = sys.displayhook
    try:
        sys.displayhook = recorder
        try:
            _interpret(env, progs, flags)
            outcome = "done"
        except BaseException as e:  # noqa: BLE001 - the kind is the observable
            if isinstance(e, (KeyboardInterrupt, SystemExit)):
                raise
            outcome = "raised exception" if isinstance(e, Boom) else "raised " + err_of(e)[4:]
        back = sys.displayhook is recorder
    finally:
        sys.displayhook = saved
    for t_, n0 in zip(env.tags, n_init):
        if len(t_.children) - n0 != t_.__dict__.get("_n_appended", 0):
            outcome = "children-not-added-through-the-tags-append"
    return " ".join([
        outcome, eb(back), elist(flags), elist([env.c_val(v) for v in log]),
        elist([elist([env.c_item(c) for c in tag.children]) for tag in env.tags]),
    ])


@op("hook_append")
def _hook_append(t: Toks) -> str:
    v = p_hval(t)
    env = Env(max(2, (v[1] + 1) if v[0] == "tagRef" else 0))
    fresh = Tag("span")
    saved = sys.displayhook
    try:
        fresh.append(env.val(v, direct=True))
    finally:
        sys.displayhook = saved
    return "ok " + elist([env.c_item(c) for c in fresh.children])


@op("hook_wrap")
def _hook_wrap(t: Toks) -> str:
    v = p_hval(t)
    env = Env(max(2, (v[1] + 1) if v[0] == "tagRef" else 0))
    got: list = []
    saved = sys.displayhook
    try:
        htmltools._core.wrap_displayhook_handler(got.append)(env.val(v))
    finally:
        sys.displayhook = saved
    if not got:
        return "N"
    if len(got) > 1:
        return "many"
    return "S " + env.c_val(got[0])
