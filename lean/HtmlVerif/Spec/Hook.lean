/-
Spec-side definitions used in the statements of C17 (no hooks, no mutable state):
what a program *should* do, read off its text.  The only state is the set `E` of tags that have already been entered
(a tag can be entered once: the pinned code never clears `prev_displayhook`).
-/
import HtmlVerif.Model.Hook

namespace HtmlVerif.Hook
open HtmlVerif

/-! ### the normal child rules, read off the value (no `flatten`, no loop) -/

mutual
  /-- as an element handed to `append` — on its own or anywhere inside a list/tuple: is it, or does it contain, something
      that is no TagChild?  (`...` is one: only the display-hook wrapper ignores it, and only at top level) -/
  def Val.badChild : Val → Bool
    | .ellipsis => true
    | .invalid => true
    | .list vs => vs.anyBadChild
    | .tuple vs => vs.anyBadChild
    | _ => false
  def Vals.anyBadChild : Vals → Bool
    | .nil => false
    | .cons v vs => v.badChild || vs.anyBadChild
end

/-- as a displayed value: rejected with TypeError -/
def Val.rejected : Val → Bool
  | .ellipsis => false
  | v => v.badChild

/-- a sequence value (opened by the child rules) -/
def Val.isSeq : Val → Bool
  | .list _ => true
  | .tuple _ => true
  | .tagList _ => true
  | _ => false

/-- `a` then `b`, the first failure wins -/
def appendE (a b : Except Err (List Item)) : Except Err (List Item) :=
  match a with
  | .error e => .error e
  | .ok x =>
    match b with
    | .error e => .error e
    | .ok y => .ok (x ++ y)

/-- what one statement (list) contributes *directly* to the sink it runs under, up to the first raise -/
structure Direct (α : Type) where
  items   : List α          -- appended to the enclosing block's tag (or handed to the outermost hook), in order
  entered : List TagId      -- tags entered so far
  outcome : Outcome         -- `raised e` = the first raise, which ends the list
  deriving Repr

mutual
  /-- a statement running directly inside some tag's block -/
  def Prog.spec : Prog → List TagId → Direct Item
    | .display v, E =>
      match normDisplayed v with
      | .ok its => ⟨its, E, .done⟩                  -- None / Ellipsis: nothing; `_repr_html_` object: HTML; number: its str
      | .error e => ⟨[], E, .raised e⟩              -- invalid value: TypeError, nothing appended
    | .raise, E => ⟨[], E, .raised .exception⟩
    | .rebind _, E => ⟨[], E, .done⟩                -- a new child-list object with the same nodes: nothing to see
    | .block t b, E =>
      if t ∈ E then ⟨[], E, .raised .runtimeError⟩   -- already entered: raises, nothing happens
      else
        let r := b.spec (t :: E)                    -- the body's items go to `t`, not to us
        ⟨[.tagRef t], r.entered, r.outcome⟩          -- the tag itself arrives when its block exits, on every exit path
  def Progs.spec : Progs → List TagId → Direct Item
    | .nil, E => ⟨[], E, .done⟩
    | .cons p ps, E =>
      let r := p.spec E
      match r.outcome with
      | .done => let r' := ps.spec r.entered; ⟨r.items ++ r'.items, r'.entered, r'.outcome⟩
      | .raised e => ⟨r.items, r.entered, .raised e⟩
end

/-- a statement at top level, under the outermost hook: that hook receives every displayed value raw -/
def Prog.specTop : Prog → List TagId → Direct Val
  | .display v, E => ⟨[v], E, .done⟩
  | .raise, E => ⟨[], E, .raised .exception⟩
  | .rebind _, E => ⟨[], E, .done⟩
  | .block t b, E =>
    if t ∈ E then ⟨[], E, .raised .runtimeError⟩
    else
      let r := b.spec (t :: E)
      ⟨[.tagRef t], r.entered, r.outcome⟩

def Progs.specTop : Progs → List TagId → Direct Val
  | .nil, E => ⟨[], E, .done⟩
  | .cons p ps, E =>
    let r := p.specTop E
    match r.outcome with
    | .done => let r' := ps.specTop r.entered; ⟨r.items ++ r'.items, r'.entered, r'.outcome⟩
    | .raised e => ⟨r.items, r.entered, .raised e⟩

mutual
  /-- every block that is entered, in order of entry, with the items its body contributes to it -/
  def Prog.blocks : Prog → List TagId → List (TagId × List Item)
    | .display _, _ => []
    | .raise, _ => []
    | .rebind _, _ => []
    | .block t b, E => if t ∈ E then [] else (t, (b.spec (t :: E)).items) :: b.blocks (t :: E)
  def Progs.blocks : Progs → List TagId → List (TagId × List Item)
    | .nil, _ => []
    | .cons p ps, E =>
      p.blocks E ++ (match (p.spec E).outcome with
        | .done => ps.blocks (p.spec E).entered
        | .raised _ => [])
end

def Progs.blocksTop : Progs → List TagId → List (TagId × List Item)
  | .nil, _ => []
  | .cons p ps, E =>
    p.blocks E ++ (match (p.specTop E).outcome with
      | .done => ps.blocksTop (p.specTop E).entered
      | .raised _ => [])

mutual
  /-- for every `with` statement that is reached, in order: is `sys.displayhook` after it what it was before it?
      (computed from the model's execution) -/
  def Prog.flags : Prog → St → List Bool
    | .display _, _ => []
    | .raise, _ => []
    | .rebind _, _ => []
    | .block t b, s =>
      decide (((Prog.block t b).exec s).1.hook = s.hook) ::
        (match enterTag t s with
         | .ok s1 => b.flags s1
         | .error _ => [])
  def Progs.flags : Progs → St → List Bool
    | .nil, _ => []
    | .cons p ps, s =>
      p.flags s ++ (match (p.exec s).2 with
        | .done => ps.flags (p.exec s).1
        | .raised _ => [])
end

/-- `E` lists exactly the tags whose `prev_displayhook` is set -/
def Agree (s : St) (E : List TagId) : Prop := ∀ u, u ∈ E ↔ (s.tags u).prev ≠ none

/-- the current hook, if it is a tag's wrapper, belongs to a tag that has been entered; and it is callable -/
def HookOk (s : St) : Prop := s.hook ≠ .unset ∧ ∀ x, s.hook = .wrap x → (s.tags x).prev ≠ none

/-- the states a run passes through after `s`: after any completed statement (which may be a whole nested block, and
    may have raised), and just inside any block that has been entered on the way -/
inductive Reach (s : St) : St → Prop
  | refl : Reach s s
  | stmt {s' : St} (p : Prog) : Reach s s' → Reach s (p.exec s').1
  | enter {s' : St} (t : TagId) : Reach s s' → (s'.tags t).prev = none → Reach s (s'.entered t)

end HtmlVerif.Hook
