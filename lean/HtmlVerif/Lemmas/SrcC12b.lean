/-
Helper definitions and lemmas of the source tie for the file-system half of C12 (Props/SrcC12b.lean): facts about the state
monad `PyFSC12b` of Py/PrimC12b.lean, loop rules for it (a loop whose passes only *read* the state; a loop whose passes fold
a model-level step over the file system), the model's `copyTo` / `copyAll` / `saveHtml` as sequences of the steps the source
takes, facts about the file system (`removeTree` of something that is not there), the embedding of a rendering and of a
document, and the primitives on the embedded shapes.  Nothing here mentions a regenerated function.
-/
import HtmlVerif.Py.PrimC12b
import HtmlVerif.Lemmas.SrcC12
import HtmlVerif.Lemmas.CopyTo
import HtmlVerif.Model.SaveDoc

set_option linter.unusedSimpArgs false
set_option linter.unusedVariables false

namespace HtmlVerif.Py
open HtmlVerif

/-! ### the monad `PyFSC12b`, without unfolding `bind` under binders -/

instance : LawfulMonad PyFSC12b := LawfulMonad.mk' PyFSC12b
  (id_map := by
    intro α x; funext S
    show PyFSC12b.bind x (fun a => PyFSC12b.pure a) S = x S
    unfold PyFSC12b.bind PyFSC12b.pure
    rcases h : x S with ⟨r, S'⟩
    cases r <;> rfl)
  (pure_bind := by intro α β a f; rfl)
  (bind_assoc := by
    intro α β γ x f g; funext S
    show PyFSC12b.bind (PyFSC12b.bind x f) g S = PyFSC12b.bind x (fun a => PyFSC12b.bind (f a) g) S
    unfold PyFSC12b.bind
    rcases h : x S with ⟨r, S'⟩
    cases r <;> rfl)

theorem PyFSC12b.run_pure {α} (a : α) (S : SysC12b) : (pure a : PyFSC12b α) S = (.ok a, S) := rfl

theorem PyFSC12b.run_bind {α β} (x : PyFSC12b α) (f : α → PyFSC12b β) (S : SysC12b) :
    (x >>= f) S = match x S with
      | (.ok a, S') => f a S'
      | (.error e, S') => (.error e, S') := rfl

theorem PyFSC12b.run_bind_ok {α β} {x : PyFSC12b α} {f : α → PyFSC12b β} {S S' : SysC12b} {a : α}
    (h : x S = (.ok a, S')) : (x >>= f) S = f a S' := by
  rw [PyFSC12b.run_bind, h]

theorem PyFSC12b.run_bind_error {α β} {x : PyFSC12b α} {f : α → PyFSC12b β} {S S' : SysC12b} {e : PyErr}
    (h : x S = (.error e, S')) : (x >>= f) S = (.error e, S') := by
  rw [PyFSC12b.run_bind, h]

theorem PyFSC12b.run_throw {α} (e : PyErr) (S : SysC12b) : (throw e : PyFSC12b α) S = (.error e, S) := rfl

theorem PyFSC12b.run_lift {α} (x : PyM α) (S : SysC12b) : (liftM x : PyFSC12b α) S = (x, S) := rfl

@[simp] theorem PyFSC12b.lift_ok {α} (a : α) : (liftM (Except.ok a : PyM α) : PyFSC12b α) = pure a := rfl

@[simp] theorem PyFSC12b.lift_pure {α} (a : α) : (liftM (pure a : PyM α) : PyFSC12b α) = pure a := rfl

@[simp] theorem PyFSC12b.lift_error {α} (e : PyErr) : (liftM (Except.error e : PyM α) : PyFSC12b α) = throw e := rfl

@[simp] theorem PyFSC12b.throw_bind {α β} (e : PyErr) (f : α → PyFSC12b β) :
    ((throw e : PyFSC12b α) >>= f) = throw e := rfl

/-! ### loop rules -/

/-- a list comprehension `[g(x) for x in items]` in the state monad whose passes leave the state alone, whatever its body:
    if each pass appends the embedded result of `step` to the accumulated list — or raises the corresponding exception —
    the loop computes `mapE step`, followed by what comes after it -/
theorem comp_loop_kC12b {α β γ : Type} (ea : α → PVal) (eb : β → PVal) (step : α → Except Err β) (items : List α)
    (f : PVal → List PVal → PyFSC12b (ForInStep (List PVal))) (S : SysC12b)
    (k : List PVal → PyFSC12b γ) (R : Except PyErr γ × SysC12b)
    (hstep : ∀ a ∈ items, ∀ (acc : List β),
      f (ea a) (acc.map eb) S = match SrcTie.accStep step a acc with
        | .ok acc' => (.ok (.yield (acc'.map eb)), S)
        | .error e => (.error (SrcTie.embErr e), S))
    (hk : match SrcTie.mapE step items with
      | .ok bs => k (bs.map eb) S = R
      | .error e => R = (.error (SrcTie.embErr e), S)) :
    (forIn (items.map ea) ([] : List PVal) f >>= k) S = R := by
  have gen : ∀ (items : List α) (acc : List β), (∀ a ∈ items, ∀ (acc : List β),
      f (ea a) (acc.map eb) S = match SrcTie.accStep step a acc with
        | .ok acc' => (.ok (.yield (acc'.map eb)), S)
        | .error e => (.error (SrcTie.embErr e), S)) →
      forIn (items.map ea) (acc.map eb) f S = match SrcTie.mapE step items with
        | .ok bs => (.ok ((acc ++ bs).map eb), S)
        | .error e => (.error (SrcTie.embErr e), S) := by
    intro items
    induction items with
    | nil => intro acc _; simp [SrcTie.mapE, PyFSC12b.run_pure]
    | cons a t ih =>
      intro acc hs
      have h1 := hs a (by simp) acc
      simp only [List.map_cons, List.forIn_cons, SrcTie.mapE]
      simp only [SrcTie.accStep] at h1
      cases hsa : step a with
      | error e =>
        rw [hsa] at h1
        rw [PyFSC12b.run_bind_error h1]
      | ok b =>
        rw [hsa] at h1
        rw [PyFSC12b.run_bind_ok h1]
        have := ih (acc ++ [b]) (fun c hc acc' => hs c (by simp [hc]) acc')
        simp only [this]
        cases SrcTie.mapE step t <;> simp
  have g0 := gen items [] hstep
  simp only [List.map_nil, List.nil_append] at g0
  cases hm : SrcTie.mapE step items with
  | error e =>
    rw [hm] at g0 hk
    rw [PyFSC12b.run_bind_error g0, hk]
  | ok bs =>
    rw [hm] at g0 hk
    rw [PyFSC12b.run_bind_ok g0, hk]

/-- a loop whose passes only *look* at the state: a pass on an item that passes the test `P` goes on (whatever it does to
    the local variables), a pass on an item that fails it raises `e`; in both cases the state is untouched.  Then the loop
    goes through iff every item passes, and the first failing item raises `e` with the state untouched. -/
theorem check_loop_kC12b {σ γ : Type} (items : List PVal) (P : PVal → Bool) (e : PyErr) (S : SysC12b)
    (f : PVal → σ → PyFSC12b (ForInStep σ)) (s0 : σ) (k : σ → PyFSC12b γ) (R : Except PyErr γ × SysC12b)
    (hstep : ∀ a ∈ items, ∀ s,
      if P a = true then ∃ s', f a s S = (.ok (.yield s'), S) else f a s S = (.error e, S))
    (hk : items.all P = true → ∀ s', k s' S = R)
    (he : items.all P = false → R = (.error e, S)) :
    (forIn items s0 f >>= k) S = R := by
  have gen : ∀ (items : List PVal) (s0 : σ), (∀ a ∈ items, ∀ s,
        if P a = true then ∃ s', f a s S = (.ok (.yield s'), S) else f a s S = (.error e, S)) →
      if items.all P = true then ∃ s', forIn items s0 f S = (.ok s', S) else forIn items s0 f S = (.error e, S) := by
    intro items
    induction items with
    | nil => intro s0 _; exact ⟨s0, rfl⟩
    | cons a t ih =>
      intro s0 hs
      have h1 := hs a (by simp) s0
      simp only [List.forIn_cons, List.all_cons]
      by_cases hp : P a = true
      · simp only [hp, if_true] at h1
        obtain ⟨s', h1⟩ := h1
        rw [PyFSC12b.run_bind_ok h1]
        simpa [hp] using ih s' (fun c hc s => hs c (by simp [hc]) s)
      · simp only [hp] at h1
        rw [PyFSC12b.run_bind_error h1]
        simp [hp]
  have g0 := gen items s0 hstep
  by_cases ha : items.all P = true
  · simp only [ha, if_true] at g0
    obtain ⟨s', g0⟩ := g0
    rw [PyFSC12b.run_bind_ok g0]
    exact hk ha s'
  · have ha' : items.all P = false := by simpa using ha
    simp only [ha] at g0
    rw [PyFSC12b.run_bind_error g0, he ha']

/-- a model-level step over the file system, folded over a list: the first failure stops the fold; the state reached is
    returned on every path -/
def foldFSC12b {γ : Type} (step : γ → FS → FS × Except Err Unit) : List γ → FS → FS × Except Err Unit
  | [], fs => (fs, .ok ())
  | a :: r, fs =>
    match step a fs with
    | (fs', .ok _) => foldFSC12b step r fs'
    | (fs', .error e) => (fs', .error e)

/-- what a state-passing computation does when it does what a model-level step does: the new file system, and success (with
    some value) or the corresponding exception -/
def DoesC12b {σ : Type} (r : Except PyErr σ × SysC12b) (S : SysC12b) (m : FS × Except Err Unit) : Prop :=
  r.2 = { S with fs := m.1 } ∧
    match m.2 with
    | .ok _ => ∃ s', r.1 = .ok s'
    | .error e => r.1 = .error (SrcTie.embErr e)

/-- a loop whose every pass does, on the file system, what `step` does for the item (and goes on, or raises the
    corresponding exception), whatever its body and its local variables: the loop does what the fold of `step` does -/
theorem fold_loop_kC12b {σ γ δ : Type} (emb : δ → PVal) (items : List δ) (step : δ → FS → FS × Except Err Unit)
    (f : PVal → σ → PyFSC12b (ForInStep σ)) (s0 : σ) (S : SysC12b) (k : σ → PyFSC12b γ) (R : Except PyErr γ × SysC12b)
    (hstep : ∀ a ∈ items, ∀ s (S' : SysC12b), S'.resolve = S.resolve → S'.fsdecode = S.fsdecode →
      (f (emb a) s S').2 = { S' with fs := (step a S'.fs).1 } ∧
        match (step a S'.fs).2 with
        | .ok _ => ∃ s', (f (emb a) s S').1 = .ok (.yield s')
        | .error e => (f (emb a) s S').1 = .error (SrcTie.embErr e))
    (hk : match (foldFSC12b step items S.fs).2 with
      | .ok _ => ∀ s', k s' { S with fs := (foldFSC12b step items S.fs).1 } = R
      | .error e => R = (.error (SrcTie.embErr e), { S with fs := (foldFSC12b step items S.fs).1 })) :
    (forIn (items.map emb) s0 f >>= k) S = R := by
  have gen : ∀ (items : List δ) (s0 : σ) (S' : SysC12b), S'.resolve = S.resolve → S'.fsdecode = S.fsdecode →
      (∀ a ∈ items, ∀ s (S' : SysC12b), S'.resolve = S.resolve → S'.fsdecode = S.fsdecode →
        (f (emb a) s S').2 = { S' with fs := (step a S'.fs).1 } ∧
          match (step a S'.fs).2 with
          | .ok _ => ∃ s', (f (emb a) s S').1 = .ok (.yield s')
          | .error e => (f (emb a) s S').1 = .error (SrcTie.embErr e)) →
      (forIn (items.map emb) s0 f S').2 = { S' with fs := (foldFSC12b step items S'.fs).1 } ∧
        match (foldFSC12b step items S'.fs).2 with
        | .ok _ => ∃ s', (forIn (items.map emb) s0 f S').1 = .ok s'
        | .error e => (forIn (items.map emb) s0 f S').1 = .error (SrcTie.embErr e) := by
    intro items
    induction items with
    | nil => intro s0 S' _ _ _; exact ⟨rfl, s0, rfl⟩
    | cons a t ih =>
      intro s0 S' hr hd hs
      obtain ⟨h2, h1⟩ := hs a (by simp) s0 S' hr hd
      simp only [List.map_cons, List.forIn_cons, foldFSC12b]
      rcases hsa : step a S'.fs with ⟨fs1, r1⟩
      rw [hsa] at h1 h2
      rcases hf : f (emb a) s0 S' with ⟨o, S1⟩
      rw [hf] at h1 h2
      simp only at h1 h2
      cases r1 with
      | error e =>
        simp only at h1
        subst h1; subst h2
        rw [PyFSC12b.run_bind_error hf]
        exact ⟨rfl, rfl⟩
      | ok u =>
        simp only at h1
        obtain ⟨s', h1⟩ := h1
        subst h1; subst h2
        rw [PyFSC12b.run_bind_ok hf]
        have := ih s' { S' with fs := fs1 } hr hd (fun c hc s S'' => hs c (by simp [hc]) s S'')
        simpa using this
  obtain ⟨g2, g1⟩ := gen items s0 S rfl rfl hstep
  rcases hfo : forIn (items.map emb) s0 f S with ⟨o, S1⟩
  rw [hfo] at g1 g2
  simp only at g1 g2
  cases hm : (foldFSC12b step items S.fs).2 with
  | error e =>
    rw [hm] at g1 hk
    simp only at g1 hk
    subst g1; subst g2
    rw [PyFSC12b.run_bind_error hfo, hk]
  | ok u =>
    rw [hm] at g1 hk
    simp only at g1 hk
    obtain ⟨s', g1⟩ := g1
    subst g1; subst g2
    rw [PyFSC12b.run_bind_ok hfo]
    exact hk s'

/-! ### the primitives on the shapes that occur -/

@[simp] theorem fspath_strC12b (s : Str) : fspathC12b (.str s) = .ok s := rfl
@[simp] theorem fspath_pathC12b (s : Str) : fspathC12b (pathObjC12b s) = .ok s := rfl
@[simp] theorem fdOrPath_strC12b (s : Str) : fdOrPathC12b (.str s) = .ok s := rfl
@[simp] theorem fdOrPath_pathC12b (s : Str) : fdOrPathC12b (pathObjC12b s) = .ok s := rfl
@[simp] theorem mkPath_strC12b (s : Str) : mkPathC12b (.str s) = .ok (pathObjC12b s) := rfl

theorem osPathJoin_okC12b {a b : PVal} {x y : Str} (ha : fspathC12b a = .ok x) (hb : fspathC12b b = .ok y) :
    osPathJoinC12b a b = .ok (.str (posixJoin x y)) := by
  simp [osPathJoinC12b, ha, hb, bind, Except.bind, pure, Except.pure]

@[simp] theorem osPathJoin_ssC12b (x y : Str) : osPathJoinC12b (.str x) (.str y) = .ok (.str (posixJoin x y)) := rfl
@[simp] theorem osPathJoin_psC12b (x y : Str) : osPathJoinC12b (pathObjC12b x) (.str y) = .ok (.str (posixJoin x y)) := rfl
@[simp] theorem osPathDirname_strC12b (x : Str) : osPathDirnameC12b (.str x) = .ok (.str (dirname x)) := rfl
@[simp] theorem pyStr_pathC12b (s : Str) : pyStr (pathObjC12b s) = .ok (.str s) := rfl

/-- the state-touching primitives in "bind, run" form: what the rest of the program is run on -/
theorem exists_bind_strC12b {γ} (s : Str) (k : PVal → PyFSC12b γ) (S : SysC12b) :
    (osPathExistsC12b (.str s) >>= k) S = k (.bool (S.fs.exists (pathResolve s))) S := rfl
theorem exists_bind_pathC12b {γ} (s : Str) (k : PVal → PyFSC12b γ) (S : SysC12b) :
    (osPathExistsC12b (pathObjC12b s) >>= k) S = k (.bool (S.fs.exists (pathResolve s))) S := rfl
theorem isfile_bind_strC12b {γ} (s : Str) (k : PVal → PyFSC12b γ) (S : SysC12b) :
    (osPathIsfileC12b (.str s) >>= k) S = k (.bool (S.fs.isFile (pathResolve s))) S := rfl
theorem isdir_bind_strC12b {γ} (s : Str) (k : PVal → PyFSC12b γ) (S : SysC12b) :
    (osPathIsdirC12b (.str s) >>= k) S = k (.bool (S.fs.isDir (pathResolve s))) S := rfl
theorem resolve_bind_pathC12b {γ} (s : Str) (k : PVal → PyFSC12b γ) (S : SysC12b) :
    (pathResolveMethC12b (pathObjC12b s) >>= k) S = k (pathObjC12b (S.resolve s)) S := rfl
theorem makedirs_bind_strC12b {γ} (s : Str) (k : PVal → PyFSC12b γ) (S : SysC12b) :
    (osMakedirsC12b (.str s) >>= k) S = k .none S := rfl
theorem mkdir_bind_pathC12b {γ} (s : Str) (k : PVal → PyFSC12b γ) (S : SysC12b) :
    (pathMkdirPC12b (pathObjC12b s) >>= k) S
      = if S.fs.fileOnPath (pathResolve s) = true then (.error .exception, S) else k .none S := by
  show PyFSC12b.bind _ _ _ = _
  unfold PyFSC12b.bind pathMkdirPC12b pathObjC12b
  by_cases h : S.fs.fileOnPath (pathResolve s) = true <;> simp [h]
theorem rmtree_bind_pathC12b {γ} (s : Str) (k : PVal → PyFSC12b γ) (S : SysC12b) :
    (shutilRmtreeC12b (pathObjC12b s) >>= k) S
      = if (!S.fs.exists (pathResolve s) || S.fs.fileOnPath (pathResolve s)) = true then (.error .exception, S)
        else k .none { S with fs := S.fs.removeTree (pathResolve s) } := by
  show PyFSC12b.bind _ _ _ = _
  unfold PyFSC12b.bind shutilRmtreeC12b
  simp only [fspath_pathC12b]
  by_cases h : (!S.fs.exists (pathResolve s) || S.fs.fileOnPath (pathResolve s)) = true <;> simp [h]
theorem copy2_bind_strC12b {γ} (x y : Str) (k : PVal → PyFSC12b γ) (S : SysC12b) :
    (shutilCopy2C12b (.str x) (.str y) >>= k) S
      = match S.fs.read (pathResolve x) with
        | some c => k (.str y) { S with fs := S.fs.write (pathResolve y) c }
        | none => (.error .exception, S) := by
  show PyFSC12b.bind _ _ _ = _
  unfold PyFSC12b.bind shutilCopy2C12b
  simp only [fdOrPath_strC12b]
  cases S.fs.read (pathResolve x) <;> rfl
theorem copytree_bind_strC12b {γ} (x y : Str) (k : PVal → PyFSC12b γ) (S : SysC12b) :
    (shutilCopytreeC12b (.str x) (.str y) >>= k) S
      = if S.fs.isDir (pathResolve x) = true then
          if S.fs.exists (pathResolve y) = true then (.error .exception, S)
          else k (.str y) { S with fs := S.fs.copyTree (pathResolve x) (pathResolve y) }
        else (.error .exception, S) := by
  show PyFSC12b.bind _ _ _ = _
  unfold PyFSC12b.bind shutilCopytreeC12b
  simp only [fdOrPath_strC12b]
  by_cases h1 : S.fs.isDir (pathResolve x) = true <;> by_cases h2 : S.fs.exists (pathResolve y) = true <;> simp [h1, h2]

end HtmlVerif.Py

namespace HtmlVerif.SrcTie
open HtmlVerif HtmlVerif.Py

/-! ### the file system: removing what is not there -/

theorem removeTree_not_existsC12b (fs : FS) (t : Path) (h : fs.exists t = false) : fs.removeTree t = fs := by
  have hf : fs.isFile t = false := by
    cases hq : fs.isFile t
    · rfl
    · simp [FS.exists, hq] at h
  have hd : fs.isDir t = false := by
    cases hq : fs.isDir t
    · rfl
    · simp [FS.exists, hq] at h
  have key : ∀ e ∈ fs.files, (!t.isPrefixOf e.1) = true := by
    intro e he
    cases hp : t.isPrefixOf e.1 with
    | false => rfl
    | true =>
      exfalso
      have hpre := isPrefixOf_iff.mp hp
      have hsome : (fs.read (t ++ e.1.drop t.length)).isSome = true := by
        rw [prefix_append_drop hpre]
        exact (FS.lookupP_isSome_iff e.1 fs.files).mpr ⟨e, he, rfl⟩
      by_cases hr : e.1.drop t.length = []
      · rw [hr, List.append_nil] at hsome
        simp [FS.isFile, hsome] at hf
      · have : fs.isDir t = true := (FS.isDir_iff fs t).mpr (.inr ⟨_, hr, hsome⟩)
        rw [hd] at this; cases this
  cases fs with
  | mk files =>
    simp only [FS.removeTree]
    congr 1
    exact List.filter_eq_self.mpr key

theorem fileOnPath_removeTreeC12b (fs : FS) (t : Path) (h : fs.fileOnPath t = false) :
    (fs.removeTree t).fileOnPath t = false := by
  rw [FS.fileOnPath_false_iff] at h ⊢
  intro k hk
  rw [FS.read_removeTree]
  split
  · rfl
  · exact h k hk

/-! ### the model as the sequence of steps the source takes -/

theorem copyLoop_foldC12b (items : List (Path × Path)) (fs : FS) : copyLoop items fs = foldFSC12b copyOne items fs := by
  induction items generalizing fs with
  | nil => rfl
  | cons a t ih =>
    simp only [copyLoop, foldFSC12b]
    rcases copyOne a fs with ⟨fs', r⟩
    cases r with
    | ok u => exact ih fs'
    | error e => rfl

theorem copyAll_foldC12b (ds : List DepInfo) (dest : Str) (iv : Bool) (fs : FS) :
    copyAll ds dest iv fs = foldFSC12b (fun d => copyTo d dest iv) ds fs := by
  induction ds generalizing fs with
  | nil => rfl
  | cons a t ih =>
    simp only [copyAll, foldFSC12b]
    rcases copyTo a dest iv fs with ⟨fs', r⟩
    cases r with
    | ok u => exact ih fs'
    | error e => rfl

/-- where a file named `f` comes from and where it goes (`os.path.join(paths["source"], f)`, `os.path.join(target_dir, f)`) -/
def itemOfC12b (source targetDir : Str) (f : Str) : Path × Path :=
  (pathResolve (posixJoin source f), pathResolve (posixJoin targetDir f))

/-- what `copy_to` does once the names of the files are known: verify that all exist (else `Exception`, nothing touched),
    set up the target directory, copy -/
def copyTailC12b (source targetDir : Str) (fl : List Str) (fs : FS) : FS × Except Err Unit :=
  if fl.all (fun f => fs.exists (pathResolve (posixJoin source f))) then
    if fs.fileOnPath (pathResolve targetDir) then (fs, .error .exception)
    else foldFSC12b copyOne (fl.map (itemOfC12b source targetDir)) (fs.removeTree (pathResolve targetDir))
  else (fs, .error .exception)

theorem copyTo_tailC12b (d : DepInfo) (path : Str) (iv : Bool) (fs : FS) (fl : List Str)
    (hne : (sourcePathMap d none iv).source.isEmpty = false)
    (hitems : copyItems d (sourcePathMap d none iv).source (posixJoin path (sourcePathMap d none iv).href) fs
      = .ok (fl.map (itemOfC12b (sourcePathMap d none iv).source (posixJoin path (sourcePathMap d none iv).href)))) :
    copyTo d path iv fs
      = copyTailC12b (sourcePathMap d none iv).source (posixJoin path (sourcePathMap d none iv).href) fl fs := by
  simp only [copyTo, hne, hitems, copyTailC12b, copyLoop_foldC12b, List.all_map, Bool.false_eq_true, if_false]
  have : (fun f => fs.exists (pathResolve (posixJoin (sourcePathMap d none iv).source f)))
      = ((fun it : Path × Path => fs.exists it.1) ∘
          itemOfC12b (sourcePathMap d none iv).source (posixJoin path (sourcePathMap d none iv).href)) := rfl
  rw [this]
  cases (fl.all ((fun it : Path × Path => fs.exists it.1) ∘
    itemOfC12b (sourcePathMap d none iv).source (posixJoin path (sourcePathMap d none iv).href))) <;> simp

theorem copyTo_errC12b (d : DepInfo) (path : Str) (iv : Bool) (fs : FS) (e : Err)
    (hne : (sourcePathMap d none iv).source.isEmpty = false)
    (hitems : copyItems d (sourcePathMap d none iv).source (posixJoin path (sourcePathMap d none iv).href) fs = .error e) :
    copyTo d path iv fs = (fs, .error e) := by
  simp only [copyTo, hne, hitems, Bool.false_eq_true, if_false]

/-- the location of a target file does not depend on which string names the target directory -/
theorem itemOf_resolveC12b (source t t' f : Str) (h : pathResolve t' = pathResolve t) :
    itemOfC12b source t' f = itemOfC12b source t f := by
  unfold itemOfC12b
  by_cases hf : f.head? = some '/'
  · simp [posixJoin, hf]
  · rw [resolve_posixJoin t' f hf, resolve_posixJoin t f hf, h]

/-! ### embeddings, the remaining primitives on embedded shapes, the loops of `copy_to` -/

/-- outcome and state of a state-passing translation that returns `None`, from the model's pair -/
def embOutC12b (S : SysC12b) (m : FS × Except Err Unit) : Except PyErr PVal × SysC12b :=
  (embRes (fun _ => PVal.none) m.2, { S with fs := m.1 })

theorem getattr_allfilesC12b (d : DepInfo) (hh : Bool) (head : Nodes) (pdir : Str) :
    pyGetAttr (embDep d hh head pdir) "all_files" = .ok (.bool d.allFiles) := by
  simp [embDep, pyGetAttr, fieldGet?]

theorem ite_condC12b {α} (b : Bool) (x y : α) : (if b = true then x else y) = bif b then x else y := by
  cases b <;> rfl

theorem cond_applyC12b {γ} (c : Bool) (a b : PyFSC12b γ) (S : SysC12b) :
    (bif c then a else b) S = bif c then a S else b S := by
  cases c <;> rfl

theorem truthy_strC12b (s : Str) : truthy (.str s) = !s.isEmpty := rfl

theorem pyEq_str_strC12b (a b : Str) : pyEq (.str a) (.str b) = .ok (.bool (a == b)) := rfl

/-- the test of the "verify they all exist" loop, on the values the loop runs over -/
def existsUnderC12b (fs : FS) (src : Str) : PVal → Bool
  | .str f => fs.exists (pathResolve (posixJoin src f))
  | _ => false

theorem target_resolveC12b (t t' f : Str) (h : pathResolve t' = pathResolve t) :
    pathResolve (posixJoin t' f) = pathResolve (posixJoin t f) :=
  congrArg Prod.snd (itemOf_resolveC12b [] t t' f h)

theorem foldFS_mapC12b {γ δ : Type} (g : δ → γ) (step : γ → FS → FS × Except Err Unit) (l : List δ) (fs : FS) :
    foldFSC12b step (l.map g) fs = foldFSC12b (fun a => step (g a)) l fs := by
  induction l generalizing fs with
  | nil => rfl
  | cons a t ih =>
    simp only [List.map_cons, foldFSC12b]
    rcases step (g a) fs with ⟨fs', r⟩
    cases r with
    | ok u => exact ih fs'
    | error e => rfl

/-- `s[k]` for an item dict: KeyError when the key is missing -/
def keyStepC12b (k : Str) (s : KVs) : Except Err Str :=
  match alookup k s with
  | none => .error .keyError
  | some p => .ok p

theorem listKey_mapEC12b (k : Str) (l : List KVs) : listKey k l = mapE (keyStepC12b k) l := by
  induction l with
  | nil => rfl
  | cons s r ih =>
    simp only [listKey, mapE, keyStepC12b, ih]
    cases alookup k s with
    | none => rfl
    | some p => simp only []; cases mapE (keyStepC12b k) r <;> rfl

theorem starList2C12b (a b : List Str) :
    pyStarListC12b [a.map PVal.str, b.map PVal.str] = .list ((a ++ b).map PVal.str) := by
  simp [pyStarListC12b]

theorem copyItems_listedC12b (d : DepInfo) (src tgt : Str) (fs : FS) (haf : d.allFiles = false) (a b : List Str)
    (ha : mapE (keyStepC12b dtKSrc) d.script = .ok a) (hb : mapE (keyStepC12b dtKHref) d.stylesheet = .ok b) :
    copyItems d src tgt fs = .ok ((a ++ b).map (itemOfC12b src tgt)) := by
  simp only [copyItems, haf, listedFiles, listKey_mapEC12b, ha, hb, Bool.false_eq_true, if_false]
  rfl

/-- what the run time must supply for `all_files`: every entry directly below the source directory decodes (`os.fsdecode`)
    to a `str` that names exactly that entry — one component, not starting with a slash -/
def NamesOkC12b (S : SysC12b) (src : Str) : Prop :=
  ∀ n ∈ S.fs.topLevel (pathResolve src), ∃ nm, S.fsdecode n = some nm ∧ nm.head? ≠ some '/' ∧ segs (utf8 nm) = [n]

/-- the decoded name of an entry (`""` where the run time supplies none) -/
def decNameC12b (S : SysC12b) (n : Bytes) : Str := (S.fsdecode n).getD []

theorem globEntries_okC12b (S : SysC12b) (s : Str) (names : List Bytes)
    (h : ∀ n ∈ names, ∃ nm, S.fsdecode n = some nm) :
    globEntriesC12b S.fsdecode s names = .ok (names.map fun n => pathObjC12b (posixJoin s (decNameC12b S n))) := by
  induction names with
  | nil => rfl
  | cons n r ih =>
    obtain ⟨nm, hn⟩ := h n (by simp)
    simp only [globEntriesC12b, hn, ih (fun m hm => h m (by simp [hm])), List.map_cons, decNameC12b, Option.getD_some]
    rfl

theorem glob_bind_pathC12b {γ} (s : Str) (k : PVal → PyFSC12b γ) (S : SysC12b) :
    (pathGlobStarC12b (pathObjC12b s) >>= k) S
      = match globEntriesC12b S.fsdecode s (S.fs.topLevel (pathResolve s)) with
        | .ok l => k (.list l) S
        | .error e => (.error e, S) := by
  show PyFSC12b.bind _ _ _ = _
  unfold PyFSC12b.bind pathGlobStarC12b pathObjC12b
  simp only []
  cases globEntriesC12b S.fsdecode s (S.fs.topLevel (pathResolve s)) <;> rfl

theorem relStr_joinC12b (s nm : Str) (h : nm.head? ≠ some '/') : relStrC12b (posixJoin s nm) s = some nm := by
  unfold relStrC12b posixJoin
  by_cases hs : (s.isEmpty || s.getLast? == some '/') = true
  · have hs' : (s.isEmpty || decide (s.getLast? = some '/')) = true := by simpa using hs
    simp [h, hs, hs']
  · have hs' : (s.isEmpty || decide (s.getLast? = some '/')) = false := by simpa using hs
    have hs2 : (s.isEmpty || s.getLast? == some '/') = false := by simpa using hs
    simp only [h, hs2, hs', Bool.false_eq_true, if_false]
    have : (s ++ ['/']).isPrefixOf (s ++ '/' :: nm) = true := by
      rw [List.isPrefixOf_iff_prefix]
      exact ⟨nm, by simp⟩
    simp [this]

theorem relativeTo_joinC12b (s nm : Str) (h : nm.head? ≠ some '/') (hne : nm ≠ []) :
    pathRelativeToC12b (pathObjC12b (posixJoin s nm)) (pathObjC12b s) = .ok (pathObjC12b nm) := by
  have he : nm.isEmpty = false := by cases nm <;> simp_all
  have hh : (nm.head? == some '/') = false := by simpa using h
  simp [pathRelativeToC12b, pathObjC12b, fspathC12b, relStr_joinC12b s nm h, he, hh, bind, Except.bind, pure, Except.pure]

theorem mapE_okC12b {α β : Type} (g : α → β) (l : List α) : mapE (fun a => (.ok (g a) : Except Err β)) l = .ok (l.map g) := by
  induction l with
  | nil => rfl
  | cons a t ih => simp [mapE, ih]

theorem copyItems_allC12b (d : DepInfo) (src tgt : Str) (S : SysC12b) (haf : d.allFiles = true) (hn : NamesOkC12b S src) :
    copyItems d src tgt S.fs
      = .ok (((S.fs.topLevel (pathResolve src)).map (decNameC12b S)).map (itemOfC12b src tgt)) := by
  simp only [copyItems, haf, if_true, List.map_map]
  congr 1
  apply List.map_congr_left
  intro n hmem
  obtain ⟨nm, h1, h2, h3⟩ := hn n hmem
  simp only [Function.comp, decNameC12b, h1, Option.getD_some, itemOfC12b, resolve_posixJoin _ nm h2, h3]

/-- the "copy all the files" loop, whatever its body: if each pass does on the file system what `copyOne` does for the
    file's source and target, the loop — and the `return None` after it — does what the model's copy loop does -/
theorem copy_loop_kC12b {σ : Type} (src tgt : Str) (fl : List Str) (f : PVal → σ → PyFSC12b (ForInStep σ)) (s0 : σ)
    (S S1 : SysC12b) (hr : S1.resolve = S.resolve) (hd : S1.fsdecode = S.fsdecode)
    (hpass : ∀ g ∈ fl, ∀ s (S' : SysC12b), S'.resolve = S1.resolve → S'.fsdecode = S1.fsdecode →
      (f (.str g) s S').2 = { S' with fs := (copyOne (itemOfC12b src tgt g) S'.fs).1 } ∧
        match (copyOne (itemOfC12b src tgt g) S'.fs).2 with
        | .ok _ => ∃ s', (f (.str g) s S').1 = .ok (.yield s')
        | .error e => (f (.str g) s S').1 = .error (embErr e)) :
    (forIn (fl.map PVal.str) s0 f >>= fun _ => pure PVal.none) S1
      = embOutC12b S (foldFSC12b copyOne (fl.map (itemOfC12b src tgt)) S1.fs) := by
  rw [foldFS_mapC12b]
  refine fold_loop_kC12b PVal.str fl (fun g => copyOne (itemOfC12b src tgt g)) f s0 S1 _ _ hpass ?_
  rcases hm : foldFSC12b (fun g => copyOne (itemOfC12b src tgt g)) fl S1.fs with ⟨fs', r⟩
  cases r with
  | ok u => simp only [embOutC12b, embRes, hr, hd]; intro _; rfl
  | error e => simp only [embOutC12b, embRes, hr, hd]

/-! ### renderings and documents -/

def kDepsC12b : Str := ['d', 'e', 'p', 'e', 'n', 'd', 'e', 'n', 'c', 'i', 'e', 's']
def kHtmlC12b : Str := ['h', 't', 'm', 'l']

/-- the dependencies among the nodes of `rendered["dependencies"]`, with what `embDep` needs -/
def depTriplesC12b : List Node → List (DepInfo × Bool × Nodes)
  | [] => []
  | .dep i hh head :: r => (i, hh, head) :: depTriplesC12b r
  | _ :: r => depTriplesC12b r

/-- a dependency of a rendering as the object `copy_to` is called on (`pd`: the package directory of each dependency) -/
def embTripleC12b (pd : DepInfo → Str) (t : DepInfo × Bool × Nodes) : PVal := embDep t.1 t.2.1 t.2.2 (pd t.1)

theorem depInfos_triplesC12b (l : List Node) : depInfos l = (depTriplesC12b l).map (·.1) := by
  induction l with
  | nil => rfl
  | cons n r ih =>
    cases n <;> simp_all [depInfos, depInfoOf, depTriplesC12b, List.filterMap_cons]

/-- the `RenderedHTML` dict -/
def embRenderedC12b (pd : DepInfo → Str) (r : Doc.DocRendered) : PVal :=
  .dict [(kDepsC12b, .list ((depTriplesC12b r.deps).map (embTripleC12b pd))), (kHtmlC12b, .str r.html)]

def errNameC12b : Err → Str
  | .typeError => "TypeError".toList
  | .valueError => "ValueError".toList
  | .keyError => "KeyError".toList
  | .runtimeError => "RuntimeError".toList
  | .notImplemented => "NotImplementedError".toList
  | .exception => "Exception".toList

theorem errOfName_nameC12b (e : Err) : errOfNameC12b (errNameC12b e) = embErr e := by
  cases e <;> decide

/-- what `render(lib_prefix=lp, include_version=iv)` answers, as the record the document object carries -/
def embOutcomeC12b (pd : DepInfo → Str) : Except Err Doc.DocRendered → PVal
  | .ok r => embRenderedC12b pd r
  | .error e => .obj "Raises" [("kind", .str (errNameC12b e))]

def embRecordC12b (cfg : Cfg) (pd : DepInfo → Str) (content : Nodes) (kw : List (Str × AttrArg)) (lp : Option Str)
    (iv : Bool) : PVal :=
  .obj "RenderRecord" [("lib_prefix", embOptStr lp), ("include_version", .bool iv),
    ("outcome", embOutcomeC12b pd (Doc.docRender cfg content kw lp iv))]

/-- `HTMLDocument(*content, **kw)` as `save_html` sees it: its two fields, and the record of what its `render` answers for
    `lib_prefix = lp`, `include_version = iv` — the model's `docRender` (`HTMLDocument.render` is not translated here) -/
def embDocC12b (cfg : Cfg) (pd : DepInfo → Str) (content : Nodes) (kw : List (Str × AttrArg)) (lp : Option Str)
    (iv : Bool) : PVal :=
  .obj "HTMLDocument" [("_content", embTagList content), ("_html_attr_args", embArgDict kw),
    ("__render__", embRecordC12b cfg pd content kw lp iv)]

theorem sameArg_optC12b (lp : Option Str) : sameArgC12b (embOptStr lp) (embOptStr lp) = true := by
  cases lp <;> simp [embOptStr, sameArgC12b]

theorem sameArg_boolC12b (b : Bool) : sameArgC12b (.bool b) (.bool b) = true := by
  cases b <;> rfl

theorem docRenderRec_embC12b (cfg : Cfg) (pd : DepInfo → Str) (content : Nodes) (kw : List (Str × AttrArg))
    (lp : Option Str) (iv : Bool) :
    docRenderRecC12b (embDocC12b cfg pd content kw lp iv) (embOptStr lp) (.bool iv)
      = embRes (embRenderedC12b pd) (Doc.docRender cfg content kw lp iv) := by
  simp only [docRenderRecC12b, embDocC12b, fieldGet?, embRecordC12b, sameArg_optC12b, sameArg_boolC12b]
  cases Doc.docRender cfg content kw lp iv with
  | ok r => simp [embOutcomeC12b, embRenderedC12b, embRes, sameArg_optC12b, sameArg_boolC12b]
  | error e => simp [embOutcomeC12b, embRes, errOfName_nameC12b, sameArg_optC12b, sameArg_boolC12b]

/-- outcome and state of a state-passing translation that returns a `str`, from the model's pair -/
def embOutStrC12b (S : SysC12b) (m : FS × Except Err Str) : Except PyErr PVal × SysC12b :=
  (embRes PVal.str m.2, { S with fs := m.1 })

theorem write_writeC12b (fs : FS) (p : Path) (a b : Bytes) : (fs.write p a).write p b = fs.write p b := by
  simp [FS.write, List.filter_filter]

theorem openWrite_bind_strC12b {γ} (s : Str) (k : PVal → PyFSC12b γ) (S : SysC12b) :
    (openWriteC12b (.str s) >>= k) S
      = if (S.fs.isDir (pathResolve (S.resolve s)) || S.fs.fileOnPath (pathResolve (S.resolve s)).dropLast) = true then
          (.error .exception, S)
        else k (.obj "TextIOWrapper" [("name", .str (S.resolve s))])
          { S with fs := S.fs.write (pathResolve (S.resolve s)) [] } := by
  show PyFSC12b.bind _ _ _ = _
  unfold PyFSC12b.bind openWriteC12b
  simp only [fdOrPath_strC12b]
  by_cases h : (S.fs.isDir (pathResolve (S.resolve s)) || S.fs.fileOnPath (pathResolve (S.resolve s)).dropLast) = true <;>
    simp [h]

theorem fileWrite_bind_strC12b {γ} (nm t : Str) (k : PVal → PyFSC12b γ) (S : SysC12b) :
    (fileWriteC12b (.obj "TextIOWrapper" [("name", .str nm)]) (.str t) >>= k) S
      = k (.int t.length) { S with fs := S.fs.write (pathResolve nm) (utf8 t) } := rfl

theorem pathParent_normC12b (s : Str) (h : normalAbsC12b s = true) :
    pathParentC12b (pathObjC12b s) = .ok (pathObjC12b (dirname s)) := by
  simp [pathParentC12b, pathObjC12b, h]

/-! ### absolute paths stay absolute -/

theorem posixJoin_absC12b (a b : Str) (h : a.head? = some '/') : (posixJoin a b).head? = some '/' := by
  unfold posixJoin
  split
  · assumption
  · split
    · cases a with
      | nil => simp at h
      | cons c r => simpa using h
    · cases a with
      | nil => simp at h
      | cons c r => simpa using h

theorem headUpToSlash_absC12b (r : Str) : (headUpToSlash ('/' :: r)).head? = some '/' := by
  simp only [headUpToSlash]
  split <;> simp

theorem dirname_absC12b (s : Str) (h : s.head? = some '/') : (dirname s).head? = some '/' := by
  cases s with
  | nil => simp at h
  | cons c r =>
    have hc : c = '/' := by simpa using h
    subst hc
    have hh := headUpToSlash_absC12b r
    unfold dirname
    simp only []
    split
    · exact hh
    · rename_i hcond
      -- the head is not all slashes: stripping trailing slashes leaves a non-empty prefix
      generalize headUpToSlash ('/' :: r) = hd at hh hcond
      cases hd with
      | nil => simp at hh
      | cons x t =>
        have hx : x = '/' := by simpa using hh
        subst hx
        have hall : (('/' :: t).all (· = '/')) = false := by
          simp only [Bool.or_eq_true, not_or] at hcond
          simpa using hcond.2
        have : ∃ y ∈ t, y ≠ '/' := by
          simp only [List.all_cons, decide_true, Bool.true_and] at hall
          rw [List.all_eq_false] at hall
          obtain ⟨y, hy, hne⟩ := hall
          exact ⟨y, hy, by simpa using hne⟩
        obtain ⟨y, hy, hne⟩ := this
        unfold rstripSlash
        simp only [List.reverse_cons]
        -- reverse = t.reverse ++ ['/']; dropWhile stops inside t.reverse
        have hd1 : ∃ u, (t.reverse ++ ['/']).dropWhile (· = '/') = u ++ ['/'] := by
          have hy' : y ∈ t.reverse := by simpa using hy
          generalize t.reverse = tr at hy'
          induction tr with
          | nil => cases hy'
          | cons z zs ih =>
            by_cases hz : z = '/'
            · subst hz
              rcases List.mem_cons.mp hy' with e | e
              · exact absurd e hne
              · simpa [List.dropWhile] using ih e
            · exact ⟨z :: zs, by simp [List.dropWhile, hz]⟩
        obtain ⟨u, hu⟩ := hd1
        rw [hu]
        simp

/-! ### `save_html`: the destination, the receivers -/

theorem destDir_eqC12b (fa : Str) (libdir : Option Str) :
    destDir fa libdir = match libdir with
      | none => dirname fa
      | some l => if l.isEmpty then dirname fa else posixJoin (dirname fa) l := by
  cases libdir <;> rfl

/-- a `Tag` / `TagList` receiver of `save_html`: the object, carrying the record of what the `render` of the document made
    from it answers (`__doc_render__`, Py/PrimC12b.lean `mkDocC12b`) -/
def withDocRecordC12b (rec : PVal) : PVal → PVal
  | .obj c fs => .obj c (fs ++ [("__doc_render__", rec)])
  | v => v

/-- the receiver of `saveOn` as the Python object: a `Tag`, or a `TagList` of the items -/
def embRecvC12b (cfg : Cfg) (pd : DepInfo → Str) (lp : Option Str) (iv : Bool) : Receiver → PVal
  | .document content kw => embDocC12b cfg pd content kw lp iv
  | .tag t => withDocRecordC12b (embRecordC12b cfg pd (.cons t .nil) [] lp iv) (embNode t)
  | .tagList items => withDocRecordC12b (embRecordC12b cfg pd items [] lp iv) (embTagList items)

theorem docRenderRec_recordC12b (cfg : Cfg) (pd : DepInfo → Str) (content : Nodes) (kw : List (Str × AttrArg))
    (lp : Option Str) (iv : Bool) (c a : PVal) :
    docRenderRecC12b (.obj "HTMLDocument" [("_content", c), ("_html_attr_args", a),
        ("__render__", embRecordC12b cfg pd content kw lp iv)]) (embOptStr lp) (.bool iv)
      = embRes (embRenderedC12b pd) (Doc.docRender cfg content kw lp iv) := by
  simp only [docRenderRecC12b, fieldGet?, embRecordC12b, sameArg_optC12b, sameArg_boolC12b]
  cases Doc.docRender cfg content kw lp iv with
  | ok r => simp [embOutcomeC12b, embRenderedC12b, embRes, sameArg_optC12b, sameArg_boolC12b]
  | error e => simp [embOutcomeC12b, embRes, errOfName_nameC12b, sameArg_optC12b, sameArg_boolC12b]

/-- `HTMLDocument(tag)` on an embedded tag that carries a record: a document object with that record -/
theorem mkDoc_tagC12b (rec : PVal) (name : Str) (ws : Bool) (attrs : Attrs) (kids : Nodes) :
    ∃ c, mkDocC12b (withDocRecordC12b rec (embNode (.tag name ws attrs kids)))
      = .ok (.obj "HTMLDocument" [("_content", c), ("_html_attr_args", .dict []), ("__render__", rec)]) := by
  refine ⟨.obj "TagList" [("data", .list [withDocRecordC12b rec (embNode (.tag name ws attrs kids))])], ?_⟩
  simp [mkDocC12b, withDocRecordC12b, embNode, fieldGet?, mkTagList, tagListItems, isPlainTagNodeC12, isInstance,
    builtinClasses, classBases, pyClassOf, bind, Except.bind, pure, Except.pure]

theorem mkDoc_listC12b (rec : PVal) (items : Nodes) :
    ∃ c, mkDocC12b (withDocRecordC12b rec (embTagList items))
      = .ok (.obj "HTMLDocument" [("_content", c), ("_html_attr_args", .dict []), ("__render__", rec)]) := by
  refine ⟨.obj "TagList" [("data", .list (embNodes items))], ?_⟩
  have hall : (embNodes items).all isPlainTagNodeC12 = true := by
    rw [embNodes_toList, List.all_map]
    simp [Function.comp_def, isPlainTagNode_emb]
  simp [mkDocC12b, withDocRecordC12b, embTagList, fieldGet?, mkTagList, tagListItems, hall, bind, Except.bind, pure,
    Except.pure]

theorem normalAbs_headC12b (s : Str) (h : normalAbsC12b s = true) : s.head? = some '/' := by
  simp only [normalAbsC12b, Bool.and_eq_true] at h
  simpa using h.1.1

theorem destDir_absC12b (fa : Str) (libdir : Option Str) (h : fa.head? = some '/') :
    (destDir fa libdir).head? = some '/' := by
  rw [destDir_eqC12b]
  cases libdir with
  | none => exact dirname_absC12b fa h
  | some l =>
    simp only []
    split
    · exact dirname_absC12b fa h
    · exact posixJoin_absC12b _ _ (dirname_absC12b fa h)

end HtmlVerif.SrcTie
