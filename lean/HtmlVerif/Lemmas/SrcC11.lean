/-
Helper lemmas for the source tie of C11 (Props/SrcC11.lean): `HTMLDocument._gen_html_tag_tree`, `_hoist_head_content`,
`Tag.insert / extend / append`, `TagAttrDict.__init__`.

Part 1 is stated at the level of Python values (no embedding): on children that are **already normalised** — plain tag
nodes (`plainC11`) or a TagList of such (`kidItemsC11`, Py/PrimC11.lean) — the regenerated `_flatten_recurse`, `flatten`,
`_tagchilds_to_tagnodes` and the TagList mutators of area C14 are "unnest one level"; this is what the calls made by the
C11 functions meet (`Tag("head")`, `head.insert(0, Tag(…))`, `head.extend([TagList, …])`), whatever embedding the nodes come
from (`embT` of Lemmas/SrcC10.lean here).  Loop lemmas are generic in the tail of the loop state and never mention a body.
-/
import HtmlVerif.Generated.Src
import HtmlVerif.Lemmas.SrcC09
import HtmlVerif.Lemmas.SrcC14
import HtmlVerif.Model.Document

set_option linter.unusedVariables false
set_option linter.unusedSimpArgs false

namespace HtmlVerif.SrcTie
open HtmlVerif HtmlVerif.Py HtmlVerif.Generated.Src

/-! ## Part 1: normalisation of already-normalised children, at the level of Python values -/

/-- a loop whose every pass appends `g item` to the list in the first component of the state (the rest `τ` is whatever
    other locals the loop assigns); `k` is the code after the loop -/
theorem app_loop_kC11 {β τ : Type} (L : List PVal) (g : PVal → List PVal) (acc : List PVal) (t0 : τ)
    (f : PVal → PVal × τ → PyM (ForInStep (PVal × τ)))
    (hstep : ∀ c ∈ L, ∀ (s : PVal × τ) (b : List PVal), s.1 = .list b →
      ∃ s', f c s = .ok (.yield s') ∧ s'.1 = .list (b ++ g c))
    (k : PVal × τ → PyM β) (r : PyM β) (hk : ∀ s, s.1 = .list (acc ++ L.flatMap g) → k s = r) :
    (forIn L (PVal.list acc, t0) f >>= k) = r := by
  have key : ∀ (L : List PVal) (s : PVal × τ) (b : List PVal), s.1 = .list b →
      (∀ c ∈ L, ∀ (s : PVal × τ) (b : List PVal), s.1 = .list b → ∃ s', f c s = .ok (.yield s') ∧ s'.1 = .list (b ++ g c)) →
      ∃ s', forIn L s f = .ok s' ∧ s'.1 = .list (b ++ L.flatMap g) := by
    intro L
    induction L with
    | nil => intro s b hs _; exact ⟨s, rfl, by simpa using hs⟩
    | cons a t ih =>
      intro s b hs hst
      obtain ⟨s1, h1, h2⟩ := hst a (by simp) s b hs
      obtain ⟨s2, h3, h4⟩ := ih s1 _ h2 (fun c hc => hst c (by simp [hc]))
      refine ⟨s2, ?_, by simpa [List.append_assoc] using h4⟩
      simp only [List.forIn_cons, h1, ok_bind, h3]
  obtain ⟨s', h1, h2⟩ := key L (PVal.list acc, t0) acc rfl hstep
  rw [h1, ok_bind]
  exact hk s' h2


structure PlainFactsC11 (v : PVal) : Prop where
  notList : isInstance v ["list"] = false
  notTuple : isInstance v ["tuple"] = false
  notTL : isInstance v ["TagList"] = false
  notNone : isNone v = false
  notInt : isInstance v ["int"] = false
  notFloat : isInstance v ["float"] = false
  node : (isInstance v ["Tagifiable"] || isInstance v ["MetadataNode"] || isInstance v ["ReprHtml"]
        || isInstance v ["str"] || isInstance v ["HTML"]) = true

theorem plainC11_facts {v : PVal} (h : plainC11 v = true) : PlainFactsC11 v := by
  simp only [plainC11, Bool.and_eq_true, Bool.not_eq_true'] at h
  obtain ⟨⟨⟨⟨⟨⟨h1, h2⟩, h3⟩, h4⟩, h5⟩, h6⟩, h7⟩ := h
  exact ⟨h1, h2, h3, h4, h5, h6, h7⟩

theorem find_of_fieldGet (k : String) (fs : List (String × PVal)) (v : PVal) (h : fieldGet? k fs = some v) :
    fs.find? (fun f => f.1 == k) = some (k, v) := by
  induction fs with
  | nil => simp [fieldGet?] at h
  | cons x t ih =>
    obtain ⟨k', v'⟩ := x
    simp only [fieldGet?] at h
    by_cases hk : k' = k
    · subst hk; simp at h; subst h; simp
    · simp only [hk, if_false] at h
      have : (k' == k) = false := by simpa using hk
      simp [List.find?, this, ih h]

theorem kidItems_casesC11 {v : PVal} {items : List PVal} (h : kidItemsC11 v = some items) :
    (plainC11 v = true ∧ items = [v])
    ∨ (plainC11 v = false ∧ ∃ fs, v = .obj "TagList" fs ∧ fieldGet? "data" fs = some (.list items)
        ∧ ∀ x ∈ items, plainC11 x = true) := by
  unfold kidItemsC11 at h
  by_cases hp : plainC11 v = true
  · simp [hp] at h; exact Or.inl ⟨hp, h.symm⟩
  · simp only [hp, Bool.false_eq_true, if_false] at h
    right
    refine ⟨by simpa using hp, ?_⟩
    split at h
    · rename_i fs
      split at h
      · rename_i xs hd
        split at h
        · rename_i hall
          simp at h; subst h
          exact ⟨fs, rfl, hd, by simpa using hall⟩
        · simp at h
      · simp at h
    · simp at h

def kidFlatC11 (v : PVal) : List PVal := (kidItemsC11 v).getD [v]

theorem keep_loop_kC11 {α β τ : Type} (L : List α) (v : PVal) (t0 : τ)
    (f : α → PVal × τ → PyM (ForInStep (PVal × τ)))
    (hstep : ∀ c ∈ L, ∀ (s : PVal × τ), s.1 = v → ∃ s', f c s = .ok (.yield s') ∧ s'.1 = v)
    (k : PVal × τ → PyM β) (r : PyM β) (hk : ∀ s, s.1 = v → k s = r) :
    (forIn L (v, t0) f >>= k) = r := by
  have key : ∀ (L : List α) (s : PVal × τ), s.1 = v →
      (∀ c ∈ L, ∀ (s : PVal × τ), s.1 = v → ∃ s', f c s = .ok (.yield s') ∧ s'.1 = v) →
      ∃ s', forIn L s f = .ok s' ∧ s'.1 = v := by
    intro L
    induction L with
    | nil => intro s hs _; exact ⟨s, rfl, hs⟩
    | cons a t ih =>
      intro s hs hst
      obtain ⟨s1, h1, h2⟩ := hst a (by simp) s hs
      obtain ⟨s2, h3, h4⟩ := ih s1 h2 (fun c hc => hst c (by simp [hc]))
      exact ⟨s2, by simp only [List.forIn_cons, h1, ok_bind, h3], h4⟩
  obtain ⟨s', h1, h2⟩ := key L (v, t0) rfl hstep
  rw [h1, ok_bind]
  exact hk s' h2

theorem pyEnumerate_listC11 (L : List PVal) :
    ∃ E, pyEnumerate (.list L) = .ok (.list E) ∧ ∀ c ∈ E, ∃ (i : Int) (x : PVal), c = .tuple [.int i, x] ∧ x ∈ L := by
  refine ⟨_, rfl, ?_⟩
  intro c hc
  simp only [List.mem_map] at hc
  obtain ⟨p, hp, rfl⟩ := hc
  exact ⟨_, _, rfl, (List.of_mem_zip hp).2⟩

theorem kidFlat_plainC11 (xs : List PVal) (hp : ∀ x ∈ xs, (kidItemsC11 x).isSome = true) :
    ∀ y ∈ xs.flatMap kidFlatC11, plainC11 y = true := by
  intro y hy
  simp only [List.mem_flatMap] at hy
  obtain ⟨x, hx, hyx⟩ := hy
  obtain ⟨items, hi⟩ := Option.isSome_iff_exists.mp (hp x hx)
  have hkf : kidFlatC11 x = items := by simp [kidFlatC11, hi]
  rw [hkf] at hyx
  rcases kidItems_casesC11 hi with ⟨hpl, rfl⟩ | ⟨_, fs, rfl, hd, hall⟩
  · simp at hyx; subst hyx; exact hpl
  · exact hall y hyx

/-- a `Tag` instance with the four fields of the embedding, at the level of Python values -/
def tagObjC11 (name attrs : PVal) (kids : List PVal) (ws : PVal) : PVal :=
  .obj "Tag" [("name", name), ("attrs", attrs), ("children", tagListOf kids), ("add_ws", ws)]

theorem embT_tagC11 (tv : Node → PVal) (nm : Str) (ws : Bool) (a : Attrs) (ks : Nodes) :
    embT tv (.tag nm ws a ks) = tagObjC11 (.str nm) (embAttrs a) (embTs tv ks) (.bool ws) := rfl

theorem getattr_childrenC11 (n a : PVal) (ks : List PVal) (w : PVal) :
    pyGetAttr (tagObjC11 n a ks w) "children" = .ok (tagListOf ks) := by
  simp [tagObjC11, pyGetAttr, fieldGet?]

theorem setattr_childrenC11 (n a : PVal) (ks ks' : List PVal) (w : PVal) :
    pySetAttr (tagObjC11 n a ks w) "children" (tagListOf ks') = .ok (tagObjC11 n a ks' w) := by
  simp [tagObjC11, pySetAttr, fieldSet]

theorem recv_taglistC11 (ks : List PVal) : pyRecvOfClassC11 (tagListOf ks) "TagList" = .ok (tagListOf ks) := by
  simp [pyRecvOfClassC11, tagListOf, pyClassOf]


/-! ## Part 2: the embedded values (`embT`, Lemmas/SrcC10.lean) and the primitives of Py/PrimC11.lean on them -/

/-- the tie for `TagAttrDict.update` (`src_update`, Props/SrcAttrs.lean), as a hypothesis on the globals in use -/
def UpdateTieC11 (G : Globals) (cfg : Cfg) : Prop :=
  ∀ (cur : Attrs) (args : List (List (Str × AttrArg))) (kw : List (Str × AttrArg)),
    TagAttrDict_update G (embAttrs cur) (.tuple (args.map embArgDict)) (embArgDict kw)
      = embRes embAttrs (attrsUpdate cfg cur (if kw.isEmpty then args else args ++ [kw]))

/-- no key of the keyword dict is one of `names` -/
def kwAvoidsC11 (names : List Str) (kw : List (Str × AttrArg)) : Bool := !kw.any fun kv => names.contains kv.1

theorem pyKwSplat_embC11 (kw : List (Str × AttrArg)) (reserved : List Str) :
    pyKwSplatC11 (embArgDict kw) reserved []
      = if kwAvoidsC11 reserved kw then .ok (embArgDict kw) else .error .typeError := by
  have e1 : ((kw.map fun kv => (kv.1, embArg kv.2)).any fun kv => reserved.contains kv.1)
      = kw.any fun kv => reserved.contains kv.1 := by simp [List.any_map, Function.comp_def]
  have e2 : ((kw.map fun kv => (kv.1, embArg kv.2)).any fun kv => ([] : List Str).contains kv.1) = false := by simp
  simp only [pyKwSplatC11, embArgDict, e1, e2]
  by_cases hb : (kw.any fun kv => reserved.contains kv.1) = true
  · have hav : kwAvoidsC11 reserved kw = false := by simp only [kwAvoidsC11, hb]; rfl
    simp only [hav, hb, if_true, Bool.false_eq_true, if_false]; rfl
  · have hb' : (kw.any fun kv => reserved.contains kv.1) = false := by simpa using hb
    have hav : kwAvoidsC11 reserved kw = true := by simp only [kwAvoidsC11, hb']; rfl
    simp only [hav, hb', if_true, Bool.false_eq_true, if_false]; rfl

/-- `self` -/
def kSelfC11 : Str := ['s', 'e', 'l', 'f']

theorem plainC11_embT (tv : Node → PVal) (c : Node) : plainC11 (embT tv c) = true := by
  cases c <;> simp [embT, plainC11, isInstance, builtinClasses, classBases, isNone, embDepFields]
  all_goals (rename_i rh _; cases rh <;> simp [reprField])

theorem kidItems_embTC11 (tv : Node → PVal) (c : Node) : kidItemsC11 (embT tv c) = some [embT tv c] := by
  simp [kidItemsC11, plainC11_embT]

theorem kidItems_tagListC11 (xs : List PVal) (hp : ∀ x ∈ xs, plainC11 x = true) :
    kidItemsC11 (tagListOf xs) = some xs := by
  have h1 : plainC11 (tagListOf xs) = false := by simp [plainC11, tagListOf, isInstance]
  have h2 : xs.all plainC11 = true := by simpa using hp
  unfold kidItemsC11
  simp only [h1, Bool.false_eq_true, if_false]
  simp [tagListOf, fieldGet?, h2]

theorem kidsItems_someC11 (kids : List PVal) (hp : ∀ x ∈ kids, (kidItemsC11 x).isSome = true) :
    kidsItemsC11 kids = some (kids.flatMap kidFlatC11) := by
  induction kids with
  | nil => rfl
  | cons a t ih =>
    obtain ⟨items, hi⟩ := Option.isSome_iff_exists.mp (hp a (by simp))
    have := ih (fun x hx => hp x (by simp [hx]))
    simp [kidsItemsC11, hi, this, kidFlatC11]

theorem mkTag_okC11 (n a : PVal) (kids : List PVal) (w : Bool) (hp : ∀ x ∈ kids, (kidItemsC11 x).isSome = true) :
    mkTagC11 n kids (.bool w) a = .ok (tagObjC11 n a (kids.flatMap kidFlatC11) (.bool w)) := by
  simp [mkTagC11, kidsItems_someC11 kids hp, tagObjC11, tagListOf]

theorem plain_tagObjC11 (n a : PVal) (ks : List PVal) (w : PVal) : plainC11 (tagObjC11 n a ks w) = true := by
  simp [plainC11, tagObjC11, isInstance, classBases, isNone]

theorem mkTag_nilC11 (n a : PVal) (w : Bool) : mkTagC11 n [] (.bool w) a = .ok (tagObjC11 n a [] (.bool w)) := rfl

theorem mkTag_pairC11 (n a x y : PVal) (w : Bool) (hx : plainC11 x = true) (hy : plainC11 y = true) :
    mkTagC11 n [x, y] (.bool w) a = .ok (tagObjC11 n a [x, y] (.bool w)) := by
  simp [mkTagC11, kidsItemsC11, kidItemsC11, hx, hy, tagObjC11, tagListOf]

/-- an `HTMLDocument` instance -/
def docObjC11 (content : List PVal) (kw : PVal) : PVal :=
  .obj "HTMLDocument" [("_content", tagListOf content), ("_html_attr_args", kw)]

theorem pyEq_intC11 (a b : Int) : pyEq (.int a) (.int b) = .ok (.bool (a == b)) := rfl
theorem pyEq_strC11 (a b : Str) : pyEq (.str a) (.str b) = .ok (.bool (a == b)) := rfl
theorem pyAnd_okC11 (v : PVal) (y : PyM PVal) : pyAnd (.ok v) y = if truthy v then y else .ok v := rfl
theorem pyGetItemU_headC11 (x : PVal) (r : List PVal) : pyGetItemU (tagListOf (x :: r)) (.int 0) = .ok x := by
  simp [pyGetItemU, userListData?, tagListOf, fieldGet?, pyGetItem]
theorem getattr_nameC11 (n a : PVal) (ks : List PVal) (w : PVal) : pyGetAttr (tagObjC11 n a ks w) "name" = .ok n := by
  simp [tagObjC11, pyGetAttr, fieldGet?]
theorem getattr_attrsC11 (n a : PVal) (ks : List PVal) (w : PVal) : pyGetAttr (tagObjC11 n a ks w) "attrs" = .ok a := by
  simp [tagObjC11, pyGetAttr, fieldGet?]
theorem setattr_attrsC11 (n a a' : PVal) (ks : List PVal) (w : PVal) :
    pySetAttr (tagObjC11 n a ks w) "attrs" a' = .ok (tagObjC11 n a' ks w) := by
  simp [tagObjC11, pySetAttr, fieldSet]
theorem classOf_tagC11 (n a : PVal) (ks : List PVal) (w : PVal) : pyClassOf (tagObjC11 n a ks w) = "Tag" := rfl
theorem recv_dictC11 (a : Attrs) : pyRecvOfClassC11 (embAttrs a) "dict" = .ok (embAttrs a) := by
  simp [pyRecvOfClassC11, embAttrs, pyClassOf]

theorem kwAvoids_monoC11 (big small : List Str) (kw : List (Str × AttrArg)) (hs : ∀ k ∈ small, k ∈ big)
    (h : kwAvoidsC11 big kw = true) : kwAvoidsC11 small kw = true := by
  simp only [kwAvoidsC11, Bool.not_eq_true', List.any_eq_false, List.contains_iff_mem] at h ⊢
  intro kv hkv hmem
  exact h kv hkv (hs _ hmem)

theorem classOf_embT_tagC11 (tv : Node → PVal) (t : Node) (h : t.isTag = true) : pyClassOf (embT tv t) = "Tag" := by
  cases t <;> simp [Node.isTag] at h; rfl

theorem mkTag_bodyC11 (tv : Node → PVal) (content : Nodes) :
    mkTagC11 (.str ['b', 'o', 'd', 'y']) [tagListOf (embTs tv content)] (.bool true) (.dict [])
      = .ok (embT tv (.tag Doc.nBody true [] content)) := by
  have hp : ∀ x ∈ embTs tv content, plainC11 x = true := by
    intro x hx; rw [embTs_toList] at hx; simp only [List.mem_map] at hx
    obtain ⟨c, _, rfl⟩ := hx; exact plainC11_embT tv c
  have hk := kidItems_tagListC11 _ hp
  rw [mkTag_okC11 _ _ _ _ (by intro x hx; simp at hx; subst hx; rw [hk]; rfl)]
  simp [kidFlatC11, hk, embT_tagC11, Doc.nBody, embAttrs]

theorem len_embTsC11 (tv : Node → PVal) (ks : Nodes) : (embTs tv ks).length = ks.length := by
  induction ks using Nodes.rec (motive_1 := fun _ => True) with
  | nil => rfl
  | cons h t _ ih => simp [embTs, Nodes.length, ih]
  | _ => trivial


/-! ## Part 3: `_hoist_head_content` — the first `<head>` child, comprehensions, the model in terms of `mapM`

On the large goals of Props/SrcC11.lean `simp` must not be given `rfl`-lemmas (it then runs a definitional pass over the
whole term, which times out): `ok_bindC11`, `pure_eq_okC11`, … are the usual equations with a proof *term*. -/

/-- the translated functions of area C14 that the `Tag` mutators reach are available -/
structure CalleesC11 : Prop where
  insert : TagList_insert_available = true
  extend : TagList_extend_available = true
  append : TagList_append_available = true
  tagchilds : tagchilds_to_tagnodes_available = true
  flatten : util_flatten_available = true
  recurse : util_flatten_recurse_available = true
  isnode : is_tag_node_available = true

/-! ### model side: the first `<head>` child -/

theorem headIndex_someC11 (ks : Nodes) (i : Nat) (h : Doc.headIndex ks = some i) :
    ∃ pre hd post, ks.toList = pre ++ hd :: post ∧ pre.length = i ∧ Doc.isTagNamed Doc.nHead hd = true
      ∧ ∀ c ∈ pre, Doc.isTagNamed Doc.nHead c = false := by
  induction ks using Nodes.rec (motive_1 := fun _ => True) generalizing i with
  | nil => simp [Doc.headIndex] at h
  | cons c t _ ih =>
    simp only [Doc.headIndex] at h
    by_cases hc : Doc.isTagNamed Doc.nHead c = true
    · simp only [hc, if_true, Option.some.injEq] at h
      subst h
      exact ⟨[], c, t.toList, by simp [Nodes.toList], rfl, hc, by simp⟩
    · simp only [hc, Bool.false_eq_true, if_false, Option.map_eq_some_iff] at h
      obtain ⟨j, hj, rfl⟩ := h
      obtain ⟨pre, hd, post, h1, h2, h3, h4⟩ := ih j hj
      refine ⟨c :: pre, hd, post, by simp [Nodes.toList, h1], by simp [h2], h3, ?_⟩
      intro x hx
      simp only [List.mem_cons] at hx
      rcases hx with rfl | hx
      · simpa using hc
      · exact h4 x hx
  | _ => trivial

theorem headIndex_noneC11 (ks : Nodes) (h : Doc.headIndex ks = none) :
    ∀ c ∈ ks.toList, Doc.isTagNamed Doc.nHead c = false := by
  induction ks using Nodes.rec (motive_1 := fun _ => True) with
  | nil => simp [Nodes.toList]
  | cons c t _ ih =>
    simp only [Doc.headIndex] at h
    by_cases hc : Doc.isTagNamed Doc.nHead c = true
    · simp [hc] at h
    · simp only [hc, Bool.false_eq_true, if_false, Option.map_eq_none_iff] at h
      intro x hx
      simp only [Nodes.toList, List.mem_cons] at hx
      rcases hx with rfl | hx
      · simpa using hc
      · exact ih h x hx
  | _ => trivial

theorem modifyAt_splitC11 (f : Node → Node) (ks : Nodes) (pre : List Node) (c : Node) (post : List Node)
    (h : ks.toList = pre ++ c :: post) : (Doc.modifyAt f ks pre.length).toList = pre ++ f c :: post := by
  induction pre generalizing ks with
  | nil =>
    cases ks with
    | nil => simp [Nodes.toList] at h
    | cons x t =>
      simp only [Nodes.toList, List.nil_append, List.cons.injEq] at h
      simp [Doc.modifyAt, Nodes.toList, h.1, h.2]
  | cons p pre ih =>
    cases ks with
    | nil => simp [Nodes.toList] at h
    | cons x t =>
      simp only [Nodes.toList, List.cons_append, List.cons.injEq] at h
      simp [Doc.modifyAt, Nodes.toList, h.1, ih t h.2]

/-! ### `enumerate` on a TagList, and the loop that looks for the first `<head>` child -/

/-- `enumerate(xs)` from `k`, as the list of pairs the loop visits -/
def enumC11 : Nat → List PVal → List PVal
  | _, [] => []
  | k, x :: r => .tuple [.int (k : Nat), x] :: enumC11 (k + 1) r

theorem zip_rangeC11 (xs : List PVal) (k : Nat) :
    ((List.range' k xs.length).zip xs).map (fun p => PVal.tuple [PVal.int (p.1 : Nat), p.2]) = enumC11 k xs := by
  induction xs generalizing k with
  | nil => rfl
  | cons a r ih =>
    simp only [List.length_cons, List.range'_succ, List.zip_cons_cons, List.map_cons, enumC11]
    rw [ih (k + 1)]

theorem pyEnumerate_tlC11 (xs : List PVal) : pyEnumerate (tagListOf xs) = .ok (.list (enumC11 0 xs)) := by
  simp only [pyEnumerate, tagListOf, pyIter_taglist, ok_bind, pure_eq_ok, List.range_eq_range']
  rw [zip_rangeC11]

/-- whatever the body of `for i, child in enumerate(res.children)` is, and whatever else the loop state carries besides
    `head_index` (its first component): if a pass on a child that is not a `<head>` tag leaves `head_index` None and
    goes on, and a pass on a `<head>` tag sets it to the index and leaves the loop, then after the loop `head_index` is
    the index of the first `<head>` child, or None -/
theorem head_loop_kC11 {β τ : Type} (tv : Node → PVal) (L : List Node) (k0 : Nat) (t0 : τ)
    (f : PVal → PVal × τ → PyM (ForInStep (PVal × τ)))
    (hstep : ∀ (i : Nat) (c : Node), c ∈ L → ∀ (s : PVal × τ), s.1 = .none →
      if Doc.isTagNamed Doc.nHead c then ∃ s', f (.tuple [.int (i : Nat), embT tv c]) s = .ok (.done s') ∧ s'.1 = .int (i : Nat)
      else ∃ s', f (.tuple [.int (i : Nat), embT tv c]) s = .ok (.yield s') ∧ s'.1 = .none)
    (k : PVal × τ → PyM β) (r : PyM β)
    (hk : ∀ s, s.1 = (match L.findIdx? (fun c => Doc.isTagNamed Doc.nHead c) with
                      | some i => PVal.int ((k0 + i : Nat) : Nat) | none => PVal.none) → k s = r) :
    (forIn (enumC11 k0 (L.map (embT tv))) (PVal.none, t0) f >>= k) = r := by
  have key : ∀ (L : List Node) (k0 : Nat) (s : PVal × τ), s.1 = .none →
      (∀ (i : Nat) (c : Node), c ∈ L → ∀ (s : PVal × τ), s.1 = .none →
        if Doc.isTagNamed Doc.nHead c then ∃ s', f (.tuple [.int (i : Nat), embT tv c]) s = .ok (.done s') ∧ s'.1 = .int (i : Nat)
        else ∃ s', f (.tuple [.int (i : Nat), embT tv c]) s = .ok (.yield s') ∧ s'.1 = .none) →
      ∃ s', forIn (enumC11 k0 (L.map (embT tv))) s f = .ok s' ∧
        s'.1 = (match L.findIdx? (fun c => Doc.isTagNamed Doc.nHead c) with
                | some i => PVal.int ((k0 + i : Nat) : Nat) | none => PVal.none) := by
    intro L
    induction L with
    | nil => intro k0 s hs _; exact ⟨s, rfl, by simpa using hs⟩
    | cons c t ih =>
      intro k0 s hs hst
      have h1 := hst k0 c (by simp) s hs
      by_cases hc : Doc.isTagNamed Doc.nHead c = true
      · simp only [hc, if_true] at h1
        obtain ⟨s1, e1, e2⟩ := h1
        refine ⟨s1, ?_, by simp [List.findIdx?_cons, hc, e2]⟩
        simp only [List.map_cons, enumC11, List.forIn_cons, e1, ok_bind, pure_eq_ok]
      · simp only [hc, Bool.false_eq_true, if_false] at h1
        obtain ⟨s1, e1, e2⟩ := h1
        obtain ⟨s2, e3, e4⟩ := ih (k0 + 1) s1 e2 (fun i c' hc' => hst i c' (by simp [hc']))
        refine ⟨s2, ?_, ?_⟩
        · simp only [List.map_cons, enumC11, List.forIn_cons, e1, ok_bind, e3]
        · have hc' : Doc.isTagNamed Doc.nHead c = false := by simpa using hc
          rw [e4, List.findIdx?_cons]
          simp only [hc', Bool.false_eq_true, if_false]
          cases List.findIdx? (fun c => Doc.isTagNamed Doc.nHead c) t with
          | none => rfl
          | some j => simp; omega
  obtain ⟨s', h1, h2⟩ := key L k0 (PVal.none, t0) rfl hstep
  rw [h1, ok_bind]
  exact hk s' h2

theorem headIndex_findIdxC11 (ks : Nodes) :
    Doc.headIndex ks = ks.toList.findIdx? (fun c => Doc.isTagNamed Doc.nHead c) := by
  induction ks using Nodes.rec (motive_1 := fun _ => True) with
  | nil => rfl
  | cons c t _ ih =>
    simp only [Doc.headIndex, Nodes.toList, List.findIdx?_cons, ih]
  | _ => trivial

theorem pyCopy_tagObjC11 (n a : PVal) (ks : List PVal) (w : PVal) : pyCopy (tagObjC11 n a ks w) = .ok (tagObjC11 n a ks w) := by
  simp [tagObjC11, pyCopy, fieldGet?]

theorem clampIdx_zeroC11 (n : Nat) : HtmlVerif.clampIdx n 0 = 0 := by simp [HtmlVerif.clampIdx]

theorem pyLenU_listC11 (xs : List PVal) : pyLenU (.list xs) = .ok (.int xs.length) := rfl

theorem pyGt_intC11 (a b : Int) : pyGt (.int a) (.int b) = .ok (.bool (decide (a > b))) := rfl

/-- a comprehension `[g(c) for c in L]` (emitted as a loop that appends to an accumulator), whatever its body -/
theorem comp_loop_kC11 {α β : Type} (L : List α) (e g : α → PVal)
    (f : PVal → List PVal → PyM (ForInStep (List PVal)))
    (hstep : ∀ c ∈ L, ∀ s, f (e c) s = .ok (.yield (s ++ [g c])))
    (k : List PVal → PyM β) (r : PyM β) (hk : k (L.map g) = r) :
    (forIn (L.map e) ([] : List PVal) f >>= k) = r := by
  have key : ∀ (L : List α) (s : List PVal), (∀ c ∈ L, ∀ s, f (e c) s = .ok (.yield (s ++ [g c]))) →
      forIn (L.map e) s f = .ok (s ++ L.map g) := by
    intro L
    induction L with
    | nil => intro s _; simp
    | cons a t ih =>
      intro s hst
      simp only [List.map_cons, List.forIn_cons, hst a (by simp), ok_bind]
      rw [ih _ (fun c hc => hst c (by simp [hc]))]
      simp
  rw [key L [] hstep, ok_bind]
  simpa using hk

/-- `[d.as_html_tags(…) for d in deps]` at the model level: the tags of each dependency, the first failure propagates -/
def depTagsListC11 (cfg : Cfg) (lp : Option Str) (iv : Bool) : List Node → Except Err (List Nodes)
  | [] => .ok []
  | d :: r =>
    match Doc.depTags cfg lp iv d with
    | .error e => .error e
    | .ok ts =>
      match depTagsListC11 cfg lp iv r with
      | .error e => .error e
      | .ok rs => .ok (ts :: rs)

def concatNodesC11 : List Nodes → Nodes
  | [] => .nil
  | a :: r => a ++ concatNodesC11 r

theorem depTagsAll_listC11 (cfg : Cfg) (lp : Option Str) (iv : Bool) (ds : List Node) :
    Doc.depTagsAll cfg lp iv ds = (depTagsListC11 cfg lp iv ds).map concatNodesC11 := by
  induction ds with
  | nil => rfl
  | cons d r ih =>
    simp only [Doc.depTagsAll, depTagsListC11, ih]
    cases Doc.depTags cfg lp iv d with
    | error e => rfl
    | ok ts =>
      cases depTagsListC11 cfg lp iv r with
      | error e => rfl
      | ok rs => rfl

/-- a comprehension whose element expression may raise: the loop is the model-level `mapM` -/
theorem comp_loop_simC11 {α γ β : Type} (L : List α) (e : α → PVal) (m : α → Except Err γ) (g : γ → PVal)
    (f : PVal → List PVal → PyM (ForInStep (List PVal)))
    (hstep : ∀ c ∈ L, ∀ s, f (e c) s = match m c with
                                      | .ok v => .ok (.yield (s ++ [g v]))
                                      | .error er => .error (embErr er))
    (k : List PVal → PyM β) :
    (forIn (L.map e) ([] : List PVal) f >>= k)
      = match L.mapM m with
        | .ok vs => k (vs.map g)
        | .error er => .error (embErr er) := by
  have key : ∀ (L : List α) (s : List PVal), (∀ c ∈ L, ∀ s, f (e c) s = match m c with
        | .ok v => .ok (.yield (s ++ [g v])) | .error er => .error (embErr er)) →
      forIn (L.map e) s f = match L.mapM m with
        | .ok vs => .ok (s ++ vs.map g)
        | .error er => .error (embErr er) := by
    intro L
    induction L with
    | nil => intro s _; simp [pure, Except.pure]
    | cons a t ih =>
      intro s hst
      simp only [List.map_cons, List.forIn_cons, hst a (by simp), List.mapM_cons]
      cases m a with
      | error er => rfl
      | ok v =>
        simp only [ok_bind]
        rw [ih _ (fun c hc => hst c (by simp [hc]))]
        cases List.mapM m t with
        | error er => rfl
        | ok vs => simp [bind, Except.bind, pure, Except.pure]
  rw [key L [] hstep]
  cases List.mapM m L with
  | error er => rfl
  | ok vs => simp

theorem depTagsList_mapMC11 (cfg : Cfg) (lp : Option Str) (iv : Bool) (ds : List Node) :
    depTagsListC11 cfg lp iv ds = ds.mapM (Doc.depTags cfg lp iv) := by
  induction ds with
  | nil => rfl
  | cons d r ih =>
    simp only [depTagsListC11, List.mapM_cons, ih]
    cases Doc.depTags cfg lp iv d with
    | error e => rfl
    | ok ts =>
      cases List.mapM (Doc.depTags cfg lp iv) r with
      | error e => rfl
      | ok rs => rfl

theorem resolve_allC11 (P : Node → Prop) (ds : List Node) (h : ∀ d ∈ ds, P d) : ∀ d ∈ resolve ds, P d := by
  have key : ∀ (ds : List Node) (m : List (Str × Node)), (∀ d ∈ ds, P d) → (∀ kv ∈ m, P kv.2) →
      ∀ kv ∈ ds.foldl (resolveStep depGt Node.depName) m, P kv.2 := by
    intro ds
    induction ds with
    | nil => intro m _ hm; simpa using hm
    | cons d r ih =>
      intro m hd hm
      simp only [List.foldl_cons]
      exact ih _ (fun x hx => hd x (by simp [hx])) (resolveStep_vals Node.depName depGt P m d hm (hd d (by simp)))
  intro d hd
  simp only [resolve, resolveBy, resolveMap, List.mem_map] at hd
  obtain ⟨kv, hkv, rfl⟩ := hd
  exact key ds [] h (by simp) kv hkv

theorem getDeps_isDepC11 (n : Str) (w : Bool) (a : Attrs) (kids : Nodes) :
    ∀ d ∈ (Node.tag n w a kids).getDeps true, d.isDep = true := by
  simp only [Node.getDeps, Nodes.getDeps, if_true]
  exact resolve_allC11 (fun d => d.isDep = true) _ (collect_isDep kids)

theorem kidFlat_of_plainC11 (v : PVal) (h : plainC11 v = true) : kidFlatC11 v = [v] := by
  simp [kidFlatC11, kidItemsC11, h]

theorem kidItems_of_plainC11 (v : PVal) (h : plainC11 v = true) : (kidItemsC11 v).isSome = true := by
  simp [kidItemsC11, h]

theorem plain_strC11 (s : Str) : plainC11 (.str s) = true := by
  simp [plainC11, isInstance, builtinClasses, isNone]

theorem mkTag_oneC11 (n a x : PVal) (w : Bool) (hx : plainC11 x = true) :
    mkTagC11 n [x] (.bool w) a = .ok (tagObjC11 n a [x] (.bool w)) := by
  simp [mkTagC11, kidsItemsC11, kidItemsC11, hx, tagObjC11, tagListOf]

def kCharsetC11 : Str := ['c', 'h', 'a', 'r', 's', 'e', 't']
def vUtf8C11 : Str := ['u', 't', 'f', '-', '8']
def kTypeC11 : Str := ['t', 'y', 'p', 'e']
def vDepsTypeC11 : Str := ['a', 'p', 'p', 'l', 'i', 'c', 'a', 't', 'i', 'o', 'n', '/', 'h', 't', 'm', 'l', '-',
      'd', 'e', 'p', 'e', 'n', 'd', 'e', 'n', 'c', 'i', 'e', 's']

/-- the `str()` text of a dependency's version -/
def depVersionC11 : Node → Str
  | .dep i _ _ => i.version
  | _ => []

/-- `d.name + "[" + str(d.version) + "]"` -/
def depListingC11 (d : Node) : Str := d.depName ++ ['['] ++ depVersionC11 d ++ [']']

theorem embT_dep_verstrC11 (tv : Node → PVal) (d : Node) (h : d.isDep = true) :
    (pyGetAttr (embT tv d) "version" >>= pyStrC11) = .ok (.str (depVersionC11 d)) := by
  cases d <;> simp [Node.isDep] at h
  simp [embT, embDepFields, pyGetAttr, fieldGet?, pyStrC11, depVersionC11]

theorem listingText_eqC11 (ds : List Node) (h : ∀ d ∈ ds, d.isDep = true) :
    Doc.listingText ds = joinStr [';'] (ds.map depListingC11) := by
  unfold Doc.listingText
  congr 1
  apply List.map_congr_left
  intro d hd
  have := h d hd
  cases d <;> simp [Node.isDep] at this
  simp [depListingC11, Node.depName, depVersionC11]

theorem pyJoin_strsC11 (sep : Str) (l : List Str) :
    pyJoin (.str sep) (.list (l.map PVal.str)) = .ok (.str (joinStr sep l)) := by
  simp [pyJoin, pyIter, strsOf_map_str]

theorem pyAsHtmlTags_depC11 (G : Globals) (tv : Node → PVal) (d : Node) (h : d.isDep = true) (l i : PVal) :
    pyAsHtmlTagsC11 G (embT tv d) l i = G.asHtmlTagsC11 (embT tv d) l i := by
  cases d <;> simp [Node.isDep] at h
  simp [embT, pyAsHtmlTagsC11]

theorem embTs_appendC11 (tv : Node → PVal) (a b : Nodes) : embTs tv (a ++ b) = embTs tv a ++ embTs tv b := by
  simp [embTs_toList]

theorem flat_taglistsC11 (tv : Node → PVal) (vs : List Nodes) :
    (vs.map fun ns => tagListOf (embTs tv ns)).flatMap kidFlatC11 = embTs tv (concatNodesC11 vs) := by
  induction vs with
  | nil => rfl
  | cons a r ih =>
    have hp : ∀ x ∈ embTs tv a, plainC11 x = true := by
      intro x hx; rw [embTs_toList] at hx; simp only [List.mem_map] at hx
      obtain ⟨c, _, rfl⟩ := hx; exact plainC11_embT tv c
    simp only [List.map_cons, List.flatMap_cons, concatNodesC11, embTs_appendC11, ih, kidFlatC11, kidItems_tagListC11 _ hp,
      Option.getD_some]

theorem kidItems_taglistsC11 (tv : Node → PVal) (vs : List Nodes) :
    ∀ x ∈ vs.map (fun ns => tagListOf (embTs tv ns)), (kidItemsC11 x).isSome = true := by
  intro x hx
  simp only [List.mem_map] at hx
  obtain ⟨ns, _, rfl⟩ := hx
  have hp : ∀ x ∈ embTs tv ns, plainC11 x = true := by
    intro x hx; rw [embTs_toList] at hx; simp only [List.mem_map] at hx
    obtain ⟨c, _, rfl⟩ := hx; exact plainC11_embT tv c
  rw [kidItems_tagListC11 _ hp]; rfl

theorem len_posC11 (l : List Node) (h : l ≠ []) : decide (((l.length : Nat) : Int) > 0) = true := by
  cases l with
  | nil => exact absurd rfl h
  | cons a t => simp


theorem pyIter_listC11 (xs : List PVal) : pyIter (.list xs) = .ok xs := by
  simp only [pyIter, pure_eq_ok]

/-- `ok_bind` as a rewrite rule with a proof term (not `rfl`): on the large goals of this file `simp` must not treat it as a
    definitional (`dsimp`) step -/
theorem ok_bindC11 {α β} (a : α) (f : α → PyM β) : ((Except.ok a : PyM α) >>= f) = f a := id rfl

theorem truthy_list_nilC11 : truthy (.list []) = false := id rfl
theorem pure_eq_okC11 {α} (a : α) : (pure a : PyM α) = Except.ok a := id rfl
theorem error_bindC11 {α β} (e : PyErr) (f : α → PyM β) : ((Except.error e : PyM α) >>= f) = Except.error e := id rfl
theorem truthy_boolC11 (b : Bool) : truthy (.bool b) = b := id rfl
theorem mkTag_nil'C11 (n a : PVal) (w : Bool) : mkTagC11 n [] (.bool w) a = .ok (tagObjC11 n a [] (.bool w)) := id rfl
theorem pyLenU_list'C11 (xs : List PVal) : pyLenU (.list xs) = .ok (.int xs.length) := id rfl
theorem pyGt_int'C11 (a b : Int) : pyGt (.int a) (.int b) = .ok (.bool (decide (a > b))) := id rfl
theorem recv_tagC11 (n a : PVal) (ks : List PVal) (w : PVal) :
    pyRecvOfClassC11 (tagObjC11 n a ks w) "Tag" = .ok (tagObjC11 n a ks w) := by
  simp [pyRecvOfClassC11, tagObjC11, pyClassOf]
theorem kidItems_tagObj_someC11 (n a : PVal) (ks : List PVal) (w : PVal) :
    (kidItemsC11 (tagObjC11 n a ks w)).isSome = true := kidItems_of_plainC11 _ (plain_tagObjC11 _ _ _ _)
theorem kidFlat_tagObjC11 (n a : PVal) (ks : List PVal) (w : PVal) :
    kidFlatC11 (tagObjC11 n a ks w) = [tagObjC11 n a ks w] := kidFlat_of_plainC11 _ (plain_tagObjC11 _ _ _ _)
theorem pyAdd_strC11 (G : Globals) (a b : Str) : pyAdd G (.str a) (.str b) = .ok (.str (a ++ b)) := id rfl

theorem hoist_modelC11 (cfg : Cfg) (w : Bool) (a : Attrs) (kids : Nodes) (lp : Option Str) (iv : Bool) :
    Doc.hoist cfg (.tag Doc.nHtml w a kids) lp iv
      = match ((Node.tag Doc.nHtml w a kids).getDeps true).mapM (Doc.depTags cfg lp iv) with
        | .error e => .error e
        | .ok vs => .ok (.tag Doc.nHtml w a (Doc.modifyAt
            (Doc.hoistHead (Doc.listing ((Node.tag Doc.nHtml w a kids).getDeps true) ++ concatNodesC11 vs))
            (match Doc.headIndex kids with | some _ => kids | none => Nodes.cons Doc.emptyHead kids)
            ((Doc.headIndex kids).getD 0))) := by
  simp only [Doc.hoist, ne_eq, not_true_eq_false, if_false, depTagsAll_listC11, depTagsList_mapMC11]
  cases List.mapM (Doc.depTags cfg lp iv) ((Node.tag Doc.nHtml w a kids).getDeps true) <;> rfl

theorem embT_metaCharsetC11 (tv : Node → PVal) :
    embT tv Doc.metaCharset = tagObjC11 (.str ['m', 'e', 't', 'a'])
      (.dict [(['c', 'h', 'a', 'r', 's', 'e', 't'], .str ['u', 't', 'f', '-', '8'])]) [] (.bool true) := rfl

theorem embT_listingNodeC11 (tv : Node → PVal) (ds : List Node) :
    embT tv (Doc.listingNode ds) = tagObjC11 (.str ['s', 'c', 'r', 'i', 'p', 't'])
      (.dict [(['t', 'y', 'p', 'e'], .str ['a', 'p', 'p', 'l', 'i', 'c', 'a', 't', 'i', 'o', 'n', '/', 'h', 't', 'm', 'l', '-',
        'd', 'e', 'p', 'e', 'n', 'd', 'e', 'n', 'c', 'i', 'e', 's'])]) [.str (Doc.listingText ds)] (.bool true) := rfl

/-- the globals of the C11 tie: the tables of `cfg`, and `HTMLDependency.as_html_tags` (not translated) answering `f` -/
def globalsC11 (cfg : Cfg) (f : PVal → PVal → PVal → PyM PVal) : Globals := { globalsOf cfg with asHtmlTagsC11 := f }

/-- `lib_prefix`: None or a string -/
def embLpC11 : Option Str → PVal
  | none => .none
  | some s => .str s

end HtmlVerif.SrcTie
