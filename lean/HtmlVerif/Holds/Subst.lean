/-
Executable statement shared by C02 / C03 / C04: the contribution every content leaf and every attribute
value must make to the output, in the traversal order used by the harness's marking
(pre-order; per tag: attribute values in stored order, then children in order).
The harness renders the tree with each content replaced by a unique inert marker, substitutes these
expected contributions for the markers and compares with the real rendering of the original tree.
Emissions use the *specification* per-character maps, not the tables.
-/
import HtmlVerif.Spec.Refs
import HtmlVerif.Model.Render

namespace HtmlVerif.Holds
open HtmlVerif

/-- kind of slot: `t` escaped text, `r` verbatim child content, `a` plain attribute value, `h` HTML attribute value -/
structure Contrib where
  id : Nat
  kind : Char
  orig : Str
  emit : Str

def attrContribs : Attrs → Nat → List Contrib × Nat
  | [], n => ([], n)
  | (_, .plain s) :: r, n =>
    let (cs, n') := attrContribs r (n + 1)
    (⟨n, 'a', s, s.flatMap escAttrChar⟩ :: cs, n')
  | (_, .html s) :: r, n =>
    let (cs, n') := attrContribs r (n + 1)
    (⟨n, 'h', s, s⟩ :: cs, n')

mutual
  def contribs (cfg : Cfg) : Node → Nat → List Contrib × Nat
    | .tag name _ attrs kids, n =>
      let (ca, n1) := attrContribs attrs n
      let (ck, n2) := contribsKids cfg kids (!cfg.noesc.contains name) n1
      (ca ++ ck, n2)
    | _, n => ([], n)
  def contribsKids (cfg : Cfg) : Nodes → Bool → Nat → List Contrib × Nat
    | .nil, _, n => ([], n)
    | .cons h t, esc, n =>
      let (ch, n1) : List Contrib × Nat := match h with
        | .tag .. => contribs cfg h n
        | .text s => ([⟨n, if esc then 't' else 'r', s, if esc then s.flatMap escTextChar else s⟩], n + 1)
        | .html s => ([⟨n, 'r', s, s⟩], n + 1)
        | .robj s => ([⟨n, 'r', s, s⟩], n + 1)
        | .tobjL (some s) _ => ([⟨n, 'r', s, s⟩], n + 1)
        | .tobj1 (some s) _ => ([⟨n, 'r', s, s⟩], n + 1)
        | _ => ([], n)
      let (ct, n2) := contribsKids cfg t esc n1
      (ch ++ ct, n2)
end

end HtmlVerif.Holds
