/-
Source tie (DESIGN §14) for the class / style helpers and `css()`: the Lean functions regenerated from the text of
`Tag.has_class`, `Tag.add_class`, `Tag.add_style`, `Tag.remove_class` (htmltools/_core.py) and `css`
(htmltools/_util.py) compute, for every input, what the model (Model/ClassStyle.lean) computes.  Obligations of C16.

The receiver is any instance `.obj c fs` whose `attrs` field holds the embedded attributes (`embNode (.tag …)` of
Lemmas/SrcRender.lean is one: `src_*_node`); the mutating methods return the receiver with that field replaced
(`withAttrs`).  The whitespace predicate and the lower-casing map are those of the `Globals` (`globalsOf cfg sp lw`),
i.e. arbitrary.  No loop body is spelled out: the comprehension of `remove_class` and the keyword loop of `css` are
taken from the regenerated definitions by unification.
-/
import HtmlVerif.Generated.Src
import HtmlVerif.Lemmas.PyLoop
import HtmlVerif.Lemmas.SrcTie
import HtmlVerif.Lemmas.SrcC16
import HtmlVerif.Lemmas.SrcRender
import HtmlVerif.Props.SrcAttrs
import HtmlVerif.Model.ClassStyle

set_option linter.unusedSimpArgs false   -- the simp sets cover equivalent spellings of the source, not only the current one

namespace HtmlVerif.SrcTie
open HtmlVerif HtmlVerif.Py HtmlVerif.Generated.Src

/-- `TagAttrDict.update` reads neither `str.isspace` nor `str.lower`: the tie `src_update` (stated for the default
    globals) holds for every whitespace predicate and lower-casing map -/
theorem src_update_anyG (h : TagAttrDict_update_available = true) (h1 : normalize_attr_value_available = true)
    (h2 : normalize_attr_name_available = true) (h3 : html_escape_available = true)
    (h4 : HTML_add_available = true) (h5 : HTML_radd_available = true) (h6 : HTML_as_string_available = true)
    (cfg : Cfg) (sp : Char → Bool) (lw : Str → Str) (hsp : escText cfg [' '] = [' '])
    (ht : keysPlain cfg.textTbl = true) (ha : keysPlain cfg.attrTbl = true)
    (cur : Attrs) (args : List (List (Str × AttrArg))) :
    TagAttrDict_update (globalsOf cfg sp lw) (embAttrs cur) (.tuple (args.map embArgDict)) (.dict [])
      = embRes embAttrs (attrsUpdate cfg cur args) := by
  have e : TagAttrDict_update (globalsOf cfg sp lw) = TagAttrDict_update (globalsOf cfg) := rfl
  rw [e]
  exact src_update h h1 h2 h3 h4 h5 h6 cfg hsp ht ha cur args []

/-- `Tag.has_class` as the source has it = `hasClass` for the interpreter's whitespace predicate -/
theorem src_has_class (h : Tag_has_class_available = true) (G : Globals) (c : String) (fs : List (String × PVal))
    (a : Attrs) (hf : fieldGet? "attrs" fs = some (embAttrs a)) (cls : Str) :
    Tag_has_class G (.obj c fs) (.str cls) = .ok (.bool (hasClass G.isSpace a cls)) := by
  first
  | exact absurd h (by decide)
  | skip
  all_goals
    unfold Tag_has_class hasClass
    simp only [getAttr_obj c fs "attrs" _ hf, ok_bind, pure_eq_ok, show (['c', 'l', 'a', 's', 's'] : Str) = classKey from rfl,
      pyDictGet_emb]
    cases alookup classKey a with
    | none => rfl
    | some v =>
      simp only [truthy_embVal, pySplit_embVal, ok_bind, pyInC16_strs]
      cases v.str.isEmpty <;> rfl

/-- the same for an `HTML` argument (a `UserString` equals a `str` with the same text) -/
theorem src_has_class_html (h : Tag_has_class_available = true) (G : Globals) (c : String) (fs : List (String × PVal))
    (a : Attrs) (hf : fieldGet? "attrs" fs = some (embAttrs a)) (cls : Str) :
    Tag_has_class G (.obj c fs) (.html cls) = .ok (.bool (hasClass G.isSpace a cls)) := by
  first
  | exact absurd h (by decide)
  | skip
  all_goals
    unfold Tag_has_class hasClass
    simp only [getAttr_obj c fs "attrs" _ hf, ok_bind, pure_eq_ok, show (['c', 'l', 'a', 's', 's'] : Str) = classKey from rfl,
      pyDictGet_emb]
    cases alookup classKey a with
    | none => rfl
    | some v =>
      simp only [truthy_embVal, pySplit_embVal, ok_bind, pyInC16_strs_html]
      cases v.str.isEmpty <;> rfl

/-- `Tag.add_class` as the source has it = `addClass`; the receiver is returned with its attributes replaced -/
theorem src_add_class (h : Tag_add_class_available = true)
    (h0 : TagAttrDict_update_available = true) (h1 : normalize_attr_value_available = true)
    (h2 : normalize_attr_name_available = true) (h3 : html_escape_available = true)
    (h4 : HTML_add_available = true) (h5 : HTML_radd_available = true) (h6 : HTML_as_string_available = true)
    (cfg : Cfg) (sp : Char → Bool) (lw : Str → Str) (hsp : escText cfg [' '] = [' '])
    (ht : keysPlain cfg.textTbl = true) (ha : keysPlain cfg.attrTbl = true)
    (c : String) (fs : List (String × PVal)) (a : Attrs) (hf : fieldGet? "attrs" fs = some (embAttrs a))
    (cls : Str) (prepend : Bool) :
    Tag_add_class (globalsOf cfg sp lw) (.obj c fs) (.str cls) (.bool prepend)
      = embRes (withAttrs c fs) (addClass cfg a cls prepend) := by
  first
  | exact absurd h (by decide)
  | skip
  all_goals
    have hu := fun args => src_update_anyG h0 h1 h2 h3 h4 h5 h6 cfg sp lw hsp ht ha a args
    have e1 : PVal.tuple [PVal.dict [(classKey, PVal.str cls)], PVal.dict [(classKey, embArg (getArg classKey a))]]
        = .tuple ([[(classKey, AttrArg.str cls)], [(classKey, getArg classKey a)]].map embArgDict) := rfl
    have e2 : PVal.tuple [PVal.dict [(classKey, embArg (getArg classKey a))], PVal.dict [(classKey, PVal.str cls)]]
        = .tuple ([[(classKey, getArg classKey a)], [(classKey, AttrArg.str cls)]].map embArgDict) := rfl
    unfold Tag_add_class addClass
    simp only [getAttr_obj c fs "attrs" _ hf, ok_bind, pure_eq_ok, truthy_bool,
      show (['c', 'l', 'a', 's', 's'] : Str) = classKey from rfl, pyDictGet_emb, ← embArg_getArg]
    cases prepend
    · simp only [Bool.false_eq_true, if_false, e2, hu]
      cases attrsUpdate cfg a [[(classKey, getArg classKey a)], [(classKey, AttrArg.str cls)]] <;> rfl
    · simp only [if_true, e1, hu]
      cases attrsUpdate cfg a [[(classKey, AttrArg.str cls)], [(classKey, getArg classKey a)]] <;> rfl

/-- `Tag.add_style` as the source has it = `addStyle` (ValueError for a `str` / `HTML` without a final semicolon,
    TypeError from `update` for a value of another type) -/
theorem src_add_style (h : Tag_add_style_available = true)
    (h0 : TagAttrDict_update_available = true) (h1 : normalize_attr_value_available = true)
    (h2 : normalize_attr_name_available = true) (h3 : html_escape_available = true)
    (h4 : HTML_add_available = true) (h5 : HTML_radd_available = true) (h6 : HTML_as_string_available = true)
    (cfg : Cfg) (sp : Char → Bool) (lw : Str → Str) (hsp : escText cfg [' '] = [' '])
    (ht : keysPlain cfg.textTbl = true) (ha : keysPlain cfg.attrTbl = true)
    (c : String) (fs : List (String × PVal)) (a : Attrs) (hf : fieldGet? "attrs" fs = some (embAttrs a))
    (style : AttrArg) (prepend : Bool) :
    Tag_add_style (globalsOf cfg sp lw) (.obj c fs) (embArg style) (.bool prepend)
      = embRes (withAttrs c fs) (addStyle cfg a style prepend) := by
  first
  | exact absurd h (by decide)
  | skip
  all_goals
    have hu := fun args => src_update_anyG h0 h1 h2 h3 h4 h5 h6 cfg sp lw hsp ht ha a args
    have e1 : PVal.tuple [PVal.dict [(styleKey, embArg style)], PVal.dict [(styleKey, embArg (getArg styleKey a))]]
        = .tuple ([[(styleKey, style)], [(styleKey, getArg styleKey a)]].map embArgDict) := rfl
    have e2 : PVal.tuple [PVal.dict [(styleKey, embArg (getArg styleKey a))], PVal.dict [(styleKey, embArg style)]]
        = .tuple ([[(styleKey, getArg styleKey a)], [(styleKey, style)]].map embArgDict) := rfl
    unfold Tag_add_style addStyle
    -- by cases on the two tests the code makes (is it a str / HTML?  does it end with a semicolon?) and on `prepend`
    cases hL : strLike style <;> cases hS : semiArg style <;> cases prepend <;>
      simp only [styleRejected_eq, pyAnd, isInstance_embArg_strLike, endswith_embArg style, hL, hS,
        getAttr_obj c fs "attrs" _ hf, ok_bind, pure_eq_ok, truthy_bool, throw_eq_error, error_bind,
        show (['s', 't', 'y', 'l', 'e'] : Str) = styleKey from rfl, pyDictGet_emb, ← embArg_getArg,
        Bool.false_eq_true, if_false, if_true, Bool.not_false, Bool.not_true, Bool.and_true, Bool.and_false, Bool.true_and,
        Bool.false_and, e1, e2, hu, bind_embRes_setAttr] <;> rfl

/-- `Tag.remove_class` as the source has it = `removeClass` for the interpreter's whitespace predicate: nothing to do for
    an empty argument or an absent / empty class value; otherwise the tokens (`split()`) different from the stripped
    argument are rejoined by one space and stored with the mark (`HTML` or plain) of the old value, or the attribute is
    popped when none remains.  The comprehension's loop body is taken from the regenerated definition (`filter_loop`). -/
theorem src_remove_class (h : Tag_remove_class_available = true)
    (h0 : TagAttrDict_update_available = true) (h1 : normalize_attr_value_available = true)
    (h2 : normalize_attr_name_available = true) (h3 : html_escape_available = true)
    (h4 : HTML_add_available = true) (h5 : HTML_radd_available = true) (h6 : HTML_as_string_available = true)
    (cfg : Cfg) (sp : Char → Bool) (lw : Str → Str) (hsp : escText cfg [' '] = [' '])
    (ht : keysPlain cfg.textTbl = true) (ha : keysPlain cfg.attrTbl = true)
    (c : String) (fs : List (String × PVal)) (a : Attrs) (hf : fieldGet? "attrs" fs = some (embAttrs a))
    (cls : Str) :
    Tag_remove_class (globalsOf cfg sp lw) (.obj c fs) (.str cls)
      = embRes (withAttrs c fs) (removeClass cfg sp a cls) := by
  first
  | exact absurd h (by decide)
  | skip
  all_goals
    have hu := fun args => src_update_anyG h0 h1 h2 h3 h4 h5 h6 cfg sp lw hsp ht ha a args
    have hsame := withAttrs_same c fs a hf
    have hts : truthy (PVal.str cls) = !cls.isEmpty := rfl
    unfold Tag_remove_class removeClass
    simp only [getAttr_obj c fs "attrs" _ hf, ok_bind, pure_eq_ok, truthy_bool,
      show (['c', 'l', 'a', 's', 's'] : Str) = classKey from rfl, pyDictGet_emb, hts]
    cases hce : cls.isEmpty with
    | true => simp only [Bool.not_true, Bool.not_false, if_true, embRes, hsame]
    | false =>
    simp only [Bool.not_false, Bool.not_true, Bool.false_eq_true, if_false]
    cases hl : alookup classKey a with
    | none =>
      simp only [pyOr, truthy, ok_bind, Bool.false_eq_true, if_false, HtmlVerif.textOf, hl, List.isEmpty_nil, Bool.not_true,
        Bool.not_false, if_true, embRes, hsame]
    | some v =>
      have htx : HtmlVerif.textOf classKey a = v.str := by simp only [HtmlVerif.textOf, hl]
      have hor : pyOr (Except.ok (embVal v)) (Except.ok (PVal.str [])) = .ok (if v.str.isEmpty then PVal.str [] else embVal v) := by
        simp only [pyOr, ok_bind, truthy_embVal]
        cases v.str.isEmpty <;> rfl
      simp only [hor, ok_bind, htx]
      cases hve : v.str.isEmpty with
      | true => simp only [if_true, truthy, List.isEmpty_nil, Bool.not_true, Bool.not_false, embRes, hsame]
      | false =>
      simp only [Bool.false_eq_true, if_false, truthy_embVal, hve, Bool.not_false, Bool.not_true,
        pyStr_str, ok_bind, pyStrip_str, pySplit_embVal, pyIter_list, globalsOf_isSpace]
      rw [filter_loop (strip sp cls) _ _ (by
        intro x acc
        simp only [pyEq, pure_eq_ok, ok_bind, truthy_bool]
        cases hx : x == strip sp cls <;> simp [bne, hx])]
      -- `if len(new_classes) > 0: … else: pop` and `if not new_classes: pop; return` read alike from here on
      simp only [pyLen, pure_eq_ok, ok_bind, len_gt_zero, truthy_bool, truthy_list_strs]
      generalize List.filter (fun x => x != strip sp cls) (tokens sp v.str) = new
      cases hne : new.isEmpty with
      | false =>
        simp only [Bool.not_false, Bool.not_true, Bool.false_eq_true, if_true, if_false, pyJoinStrict_strs, ok_bind]
        cases v with
        | plain s =>
          have hi : isInstance (embVal (AttrVal.plain s)) ["HTML"] = false := by simp [isInstance, builtinClasses]
          have e1 : PVal.tuple [PVal.dict [(classKey, PVal.str (joinStr [' '] new))]]
              = .tuple ([[(classKey, AttrArg.str (joinStr [' '] new))]].map embArgDict) := rfl
          simp only [hi, Bool.false_eq_true, if_false, e1, hu, rejoinArg, hl]
          cases attrsUpdate cfg a [[(classKey, AttrArg.str (joinStr [' '] new))]] <;> rfl
        | html s =>
          have hi : isInstance (embVal (AttrVal.html s)) ["HTML"] = true := by simp [isInstance, builtinClasses]
          have e1 : PVal.tuple [PVal.dict [(classKey, PVal.html (joinStr [' '] new))]]
              = .tuple ([[(classKey, AttrArg.html (joinStr [' '] new))]].map embArgDict) := rfl
          simp only [hi, if_true, mkHTML_str, ok_bind, e1, hu, rejoinArg, hl]
          cases attrsUpdate cfg a [[(classKey, AttrArg.html (joinStr [' '] new))]] <;> rfl
      | true =>
        simp only [Bool.not_true, Bool.not_false, Bool.false_eq_true, if_false, if_true, pyDictPop_emb, ok_bind, pure_eq_ok]
        cases dictPop classKey a <;> rfl

/-- `css(collapse_, **kwargs)` as the source has it = `css` for the interpreter's lower-casing map: for every keyword
    dict whose values are described by `CssRel` (None / a list of `str` / a list `str.join` rejects / any other value
    with its `str()` text) and every `collapse_` (`c = none`: not a `str` → TypeError) -/
theorem src_css (h : util_css_available = true)
    (G : Globals) (col : PVal) (c : Option Str)
    (hcol : match c with | some s => col = .str s | none => isInstance col ["str"] = false)
    (kws : List (Str × PVal × CssVal)) (hk : ∀ x ∈ kws, CssRel x.2.1 x.2.2) :
    util_css G col (.dict (kws.map fun x => (x.1, x.2.1)))
      = embRes (fun o => match o with | some s => PVal.str s | none => PVal.none)
          (HtmlVerif.css G.lower c (kws.map fun x => (x.1, x.2.2))) := by
  first
  | exact absurd h (by decide)
  | skip
  all_goals
    unfold util_css HtmlVerif.css
    cases c with
    | none =>
      simp only at hcol
      simp only [hcol, pure_eq_ok, truthy_bool, ok_bind, Bool.not_false, if_true, throw_eq_error, error_bind]
      rfl
    | some cs =>
      simp only at hcol
      subst hcol
      have hi : isInstance (PVal.str cs) ["str"] = true := by simp [isInstance, builtinClasses]
      have key : ∀ (ob : PVal → PVal × PVal × PVal → PyM (ForInStep (PVal × PVal × PVal))),
          (∀ x ∈ kws, ∀ (s : PVal × PVal × PVal) (b : Str), s.1 = .str b →
            Sim (fun (r : ForInStep (PVal × PVal × PVal)) (b' : Str) => ∃ s', r = .yield s' ∧ s'.1 = .str b') embErr
              (ob (PVal.tuple [.str x.1, x.2.1]) s) (cssStep G.lower cs (x.1, x.2.2) b)) →
          (do
            let s ← forIn (kws.map ((fun kv : Str × PVal => PVal.tuple [PVal.str kv.1, kv.2]) ∘ fun x => (x.1, x.2.1)))
              (PVal.str [], PVal.none, PVal.none) ob
            let t ← pyEq s.1 (PVal.str [])
            if truthy t = true then Except.ok PVal.none else Except.ok s.1 : PyM PVal)
          = embRes (fun o => match o with | some s => PVal.str s | none => PVal.none)
              (match cssLoop G.lower cs (kws.map fun x => (x.1, x.2.2)) [] with
                | .error e => .error e
                | .ok res => .ok (if res.isEmpty then none else some res)) := by
        intro ob hob
        have hl := forIn_sim (fun (s : PVal × PVal × PVal) (b : Str) => s.1 = .str b) embErr
          ((fun kv : Str × PVal => PVal.tuple [PVal.str kv.1, kv.2]) ∘ fun x : Str × PVal × CssVal => (x.1, x.2.1)) kws ob
          (fun x res => cssStep G.lower cs (x.1, x.2.2) res) (PVal.str [], PVal.none, PVal.none) [] rfl
          (fun x hx s b hR => hob x hx s b hR)
        have hb := Sim.bind (R' := fun (t : PVal) (b : Str) => t = if b.isEmpty then PVal.none else PVal.str b) hl
          (k := fun s => do
            let t ← pyEq s.1 (PVal.str [])
            if truthy t = true then Except.ok PVal.none else Except.ok s.1)
          (by
            intro s b hR
            refine ⟨_, ?_, rfl⟩
            simp only [hR, pyEq, pure_eq_ok, ok_bind, truthy_bool]
            cases b <;> simp)
        rw [cssLoop_fold, List.foldlM_map]
        generalize List.foldlM (m := Except Err) (fun b (c : Str × PVal × CssVal) => cssStep G.lower cs (c.1, c.2.2) b) [] kws = y at hb ⊢
        cases y with
        | error e => exact hb
        | ok b =>
          obtain ⟨t, ht, rfl⟩ := hb
          rw [ht]
          cases b <;> rfl
      simp only [hi, pure_eq_ok, truthy_bool, ok_bind, pyItems_dict, pyIter_list, List.map_map, Bool.not_true, Bool.false_eq_true, if_false]
      refine key _ ?_
      intro x hx s b hs
      obtain ⟨k, v, cv⟩ := x
      obtain ⟨s1, s2, s3⟩ := s
      simp only at hs; subst hs
      have hr := hk _ hx
      simp only at hr
      simp only [pyUnpack2_tuple, ok_bind, cssStep]
      cases hr with
      | none => simp [Sim, isNone]
      | text v s h1 h2 h3 =>
        simp only [h1, h2, h3, Bool.false_eq_true, if_false, ok_bind, reSub_caps, pyLower, pure_eq_ok, reSub_underscore, Sim]
        simp [pyAdd, pyAddBase, cssKey]
      | list xs =>
        have h2 : isInstance (PVal.list (xs.map .str)) ["list"] = true := by simp [isInstance, builtinClasses]
        simp only [isNone, h2, if_true, Bool.false_eq_true, if_false, ok_bind, reSub_caps, pyLower, pure_eq_ok, reSub_underscore, Sim, pyJoinStrict_strs]
        simp [pyAdd, pyAddBase, cssKey]
      | bad vs hb =>
        have h2 : isInstance (PVal.list vs) ["list"] = true := by simp [isInstance, builtinClasses]
        simp only [isNone, h2, if_true, Bool.false_eq_true, if_false, Sim, pyJoinStrict, pyIter_list, ok_bind, hb, error_bind]
        rfl

/-! ### the receiver as the tree model embeds it (Lemmas/SrcRender.lean), and the tables of the source as it is now -/

theorem embNode_tag_attrs (name : Str) (ws : Bool) (a : Attrs) (kids : Nodes) :
    ∃ fs, embNode (.tag name ws a kids) = .obj "Tag" fs ∧ fieldGet? "attrs" fs = some (embAttrs a) ∧
      ∀ a', withAttrs "Tag" fs a' = embNode (.tag name ws a' kids) :=
  ⟨[("name", .str name), ("attrs", embAttrs a), ("children", .obj "TagList" [("data", .list (embNodes kids))]),
    ("add_ws", .bool ws)], by simp only [embNode], rfl, fun _ => by simp [embNode, withAttrs, fieldSet]⟩

/-- `has_class` on a tag of the tree model -/
theorem src_has_class_node (h : Tag_has_class_available = true) (G : Globals) (name : Str) (ws : Bool) (a : Attrs)
    (kids : Nodes) (cls : Str) :
    Tag_has_class G (embNode (.tag name ws a kids)) (.str cls) = .ok (.bool (hasClass G.isSpace a cls)) := by
  obtain ⟨fs, e, hf, _⟩ := embNode_tag_attrs name ws a kids
  rw [e]; exact src_has_class h G "Tag" fs a hf cls

/-- `add_class` / `add_style` / `remove_class` on a tag of the tree model, for the tables regenerated from the source:
    the same tag with the model's new attributes -/
theorem src_add_class_now (h : Tag_add_class_available = true)
    (h0 : TagAttrDict_update_available = true) (h1 : normalize_attr_value_available = true)
    (h2 : normalize_attr_name_available = true) (h3 : html_escape_available = true)
    (h4 : HTML_add_available = true) (h5 : HTML_radd_available = true) (h6 : HTML_as_string_available = true)
    (sp : Char → Bool) (lw : Str → Str) (name : Str) (ws : Bool) (a : Attrs) (kids : Nodes) (cls : Str) (prepend : Bool) :
    Tag_add_class (globalsOf cfgNow sp lw) (embNode (.tag name ws a kids)) (.str cls) (.bool prepend)
      = embRes (fun a' => embNode (.tag name ws a' kids)) (addClass cfgNow a cls prepend) := by
  obtain ⟨fs, e, hf, hw⟩ := embNode_tag_attrs name ws a kids
  rw [e, src_add_class h h0 h1 h2 h3 h4 h5 h6 cfgNow sp lw src_tables_ok.2.2 src_tables_ok.1 src_tables_ok.2.1 "Tag" fs a hf]
  cases addClass cfgNow a cls prepend <;> simp only [embRes, hw]

theorem src_add_style_now (h : Tag_add_style_available = true)
    (h0 : TagAttrDict_update_available = true) (h1 : normalize_attr_value_available = true)
    (h2 : normalize_attr_name_available = true) (h3 : html_escape_available = true)
    (h4 : HTML_add_available = true) (h5 : HTML_radd_available = true) (h6 : HTML_as_string_available = true)
    (sp : Char → Bool) (lw : Str → Str) (name : Str) (ws : Bool) (a : Attrs) (kids : Nodes) (style : AttrArg) (prepend : Bool) :
    Tag_add_style (globalsOf cfgNow sp lw) (embNode (.tag name ws a kids)) (embArg style) (.bool prepend)
      = embRes (fun a' => embNode (.tag name ws a' kids)) (addStyle cfgNow a style prepend) := by
  obtain ⟨fs, e, hf, hw⟩ := embNode_tag_attrs name ws a kids
  rw [e, src_add_style h h0 h1 h2 h3 h4 h5 h6 cfgNow sp lw src_tables_ok.2.2 src_tables_ok.1 src_tables_ok.2.1 "Tag" fs a hf]
  cases addStyle cfgNow a style prepend <;> simp only [embRes, hw]

theorem src_remove_class_now (h : Tag_remove_class_available = true)
    (h0 : TagAttrDict_update_available = true) (h1 : normalize_attr_value_available = true)
    (h2 : normalize_attr_name_available = true) (h3 : html_escape_available = true)
    (h4 : HTML_add_available = true) (h5 : HTML_radd_available = true) (h6 : HTML_as_string_available = true)
    (sp : Char → Bool) (lw : Str → Str) (name : Str) (ws : Bool) (a : Attrs) (kids : Nodes) (cls : Str) :
    Tag_remove_class (globalsOf cfgNow sp lw) (embNode (.tag name ws a kids)) (.str cls)
      = embRes (fun a' => embNode (.tag name ws a' kids)) (removeClass cfgNow sp a cls) := by
  obtain ⟨fs, e, hf, hw⟩ := embNode_tag_attrs name ws a kids
  rw [e, src_remove_class h h0 h1 h2 h3 h4 h5 h6 cfgNow sp lw src_tables_ok.2.2 src_tables_ok.1 src_tables_ok.2.1 "Tag" fs a hf]
  cases removeClass cfgNow sp a cls <;> simp only [embRes, hw]

/-- the keys `css()` writes, as the source computes them -/
theorem src_css_text (h : util_css_available = true) (G : Globals) (cs k s : Str) :
    util_css G (.str cs) (.dict [(k, .str s)]) = .ok (.str (cssKey G.lower k ++ ':' :: s ++ ';' :: cs)) := by
  have := src_css h G (.str cs) (some cs) rfl [(k, .str s, .text s)]
    (by intro x hx; simp only [List.mem_singleton] at hx; subst hx; exact CssRel.text _ _ rfl rfl rfl)
  rw [show (PVal.dict [(k, PVal.str s)]) = .dict ([(k, PVal.str s, CssVal.text s)].map fun x => (x.1, x.2.1)) from rfl, this]
  simp [HtmlVerif.css, cssLoop, embRes]

end HtmlVerif.SrcTie
