import HtmlVerif.Ops.Base
import HtmlVerif.Model.Html

namespace HtmlVerif.Ops
open HtmlVerif HtmlVerif.Wire

def hval : P HVal := do
  let t ← next
  match t with
  | "p" => .plain <$> str
  | "h" => .html <$> str
  | "o" => .ob <$> str
  | _ => throw s!"bad hval {t}"

partial def hexpr : P HExpr := do
  let t ← next
  match t with
  | "L" => .lit <$> hval
  | "A" => do let a ← hexpr; let b ← hexpr; pure (.add a b)
  | _ => throw s!"bad hexpr {t}"

def encHVal : HVal → String
  | .plain s => "p " ++ encStr s
  | .html s => "h " ++ encStr s
  | .ob s => "o " ++ encStr s

def htmlExprOps : OpTable
  | "hexpr" => some do
    let _mode ← next
    let e ← hexpr
    pure (encExcept encHVal (e.eval cfg))
  | _ => none

end HtmlVerif.Ops
