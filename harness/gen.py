"""Generators of tree terms: exhaustive small scopes and random large (DESIGN §4.2)."""
from __future__ import annotations

import itertools
import random

from translate import generate as _translate  # noqa: F401

# string pools -------------------------------------------------------------
META = "&<>\"'\r\n;#/ ="
TEXT_POOL = [
    "a", "", "<&>", "x\ny", " x ", "&amp;", "</script>", "<!--", "]]>", "a\"b'c", "\r\n", "é", "😀", "á",
    "  ", "&#38;", "&lt", ";",
]
HTML_POOL = ["<i>", "", "<b>x</b>", "&amp;", "a\nb", "</div>", "<!-- c -->"]
BLOCK = ["div", "p", "ul", "section"]
INLINE = ["span", "a", "b", "em"]
VOID_INLINE = ["br", "img", "input", "wbr"]
VOID_BLOCK = ["hr", "meta", "link", "base"]
RAW = ["script", "style"]
CUSTOM = ["my-elem", "x:y", "A1", "foo.bar", "h_1"]
ATTR_NAMES = ["id", "class", "data-x", "title", "href", "aria-label", "x:y", "A"]


def rand_text(rng: random.Random, maxlen: int = 12) -> str:
    r = rng.random()
    if r < 0.25:
        return rng.choice(TEXT_POOL)
    n = rng.randint(0, maxlen)
    out = []
    for _ in range(n):
        q = rng.random()
        if q < 0.35:
            out.append(rng.choice(META))
        elif q < 0.8:
            out.append(chr(rng.randint(0x20, 0x7E)))
        elif q < 0.9:
            out.append(chr(rng.randint(0xA0, 0x2FF)))
        elif q < 0.95:
            out.append(rng.choice("\t\n\r\x0b\x0c\x1c\x85 　"))
        else:
            c = rng.randint(0x10000, 0x10FFFF)
            out.append(chr(c))
    return "".join(out)


def rand_attrs(rng: random.Random, maxn: int = 3, html_ok: bool = True):
    n = rng.choice([0, 0, 1, 1, 2, maxn])
    names = rng.sample(ATTR_NAMES, min(n, len(ATTR_NAMES)))
    out = []
    for k in names:
        kind = "h" if (html_ok and rng.random() < 0.2) else "p"
        out.append((k, (kind, rand_text(rng, 8))))
    return out


def rand_name(rng: random.Random, all_names=None) -> tuple[str, bool]:
    """(name, default add_ws)"""
    r = rng.random()
    if r < 0.3:
        return rng.choice(BLOCK), True
    if r < 0.55:
        return rng.choice(INLINE), False
    if r < 0.65:
        return rng.choice(VOID_INLINE), False
    if r < 0.72:
        return rng.choice(VOID_BLOCK), True
    if r < 0.78:
        return rng.choice(RAW), True
    if r < 0.85:
        return rng.choice(CUSTOM), rng.random() < 0.5
    if all_names:
        return rng.choice(all_names)
    return rng.choice(BLOCK + INLINE), rng.random() < 0.5


def rand_node(rng: random.Random, depth: int, *, leaves=("text", "html", "robj", "meta"), fan: int = 4,
              all_names=None, flip_ws: float = 0.15, attrs: bool = True, html_attrs: bool = True):
    if depth <= 0 or rng.random() < 0.3:
        k = rng.choice(leaves)
        if k == "text":
            return ("text", rand_text(rng))
        if k == "html":
            return ("html", rng.choice(HTML_POOL) if rng.random() < 0.5 else rand_text(rng))
        if k == "robj":
            return ("robj", rng.choice(HTML_POOL) if rng.random() < 0.5 else rand_text(rng))
        if k == "meta":
            return ("meta", rng.randint(0, 9))
        raise ValueError(k)
    name, ws = rand_name(rng, all_names)
    if rng.random() < flip_ws:
        ws = not ws
    n = rng.choice([0, 1, 1, 2, 2, 3, fan])
    kids = [rand_node(rng, depth - 1, leaves=leaves, fan=fan, all_names=all_names, flip_ws=flip_ws,
                      attrs=attrs, html_attrs=html_attrs) for _ in range(n)]
    return ("tag", name, ws, rand_attrs(rng, html_ok=html_attrs) if attrs else [], kids)


def rand_tag(rng, depth, **kw):
    while True:
        n = rand_node(rng, depth, **kw)
        if n[0] == "tag":
            return n


# exhaustive small scope ---------------------------------------------------
def small_leaves():
    return [("text", "a"), ("text", "<&>"), ("text", ""), ("text", "x\ny"), ("html", "<i>"), ("robj", "<u>r</u>"),
            ("meta", 0)]


def small_tags():
    # (name, ws): block, inline, void-inline, void-block, raw-text, block-p
    return [("div", True), ("span", False), ("br", False), ("hr", True), ("script", True), ("p", True)]


def trees_upto(n_nodes: int, leaves=None, tags=None):
    """all trees (single root node of any kind) with at most n_nodes nodes"""
    leaves = leaves if leaves is not None else small_leaves()
    tags = tags if tags is not None else small_tags()
    memo_t = {}
    memo_f = {}

    def trees(n):  # exactly n nodes
        if n in memo_t:
            return memo_t[n]
        out = []
        if n == 1:
            out.extend(leaves)
        if n >= 1:
            for f in forests(n - 1):
                for (nm, ws) in tags:
                    out.append(("tag", nm, ws, [], list(f)))
        memo_t[n] = out
        return out

    def forests(n):  # ordered forests with exactly n nodes in total
        if n in memo_f:
            return memo_f[n]
        out = []
        if n == 0:
            out.append(())
        else:
            for k in range(1, n + 1):
                for t in trees(k):
                    for rest in forests(n - k):
                        out.append((t,) + rest)
        memo_f[n] = out
        return out

    for n in range(1, n_nodes + 1):
        yield from trees(n)


def forests_upto(n_nodes: int, leaves=None, tags=None):
    leaves = leaves if leaves is not None else small_leaves()
    tags = tags if tags is not None else small_tags()
    # reuse trees_upto's machinery through a synthetic root
    for t in trees_upto(n_nodes + 1, leaves, [("__root__", True)] + list(tags)):
        if t[0] == "tag" and t[1] == "__root__":
            if not _has_root(t[4]):
                yield list(t[4])


def _has_root(kids) -> bool:
    for k in kids:
        if k[0] == "tag" and (k[1] == "__root__" or _has_root(k[4])):
            return True
    return False


def count_nodes(n) -> int:
    if n[0] == "tag":
        return 1 + sum(count_nodes(c) for c in n[4])
    if n[0] == "tobjL":
        return 1 + sum(count_nodes(c) for c in n[2])
    if n[0] == "tobj1":
        return 1 + count_nodes(n[2])
    if n[0] == "dep":
        return 1 + sum(count_nodes(c) for c in n[3])
    return 1


def depth_of(n) -> int:
    if n[0] == "tag":
        return 1 + max([depth_of(c) for c in n[4]] + [0])
    return 1
