/-
Primitives of the Python fragment used by the C16 functions (`Tag.remove_class`, `css`) that Py/Prim.lean lacks.
Each was compared with CPython (/venv/bin/python): `re.sub` for the two pattern/replacement pairs on every Unicode
scalar value; `str.join` on lists with `str`, `HTML` and other items.
-/
import HtmlVerif.Py.Prim

namespace HtmlVerif.Py
open HtmlVerif

/-- `re.sub("([A-Z])", "-\\1", s)`: a hyphen before every character in the range `A`–`Z`
    (a `str` pattern without flags: the class `[A-Z]` is the 26 ASCII capitals and nothing else) -/
def subHyphenCaps (s : Str) : Str :=
  s.flatMap fun c => if 'A' ≤ c ∧ c ≤ 'Z' then ['-', c] else [c]

/-- `re.sub("_", "-", s)` -/
def subUnderscore (s : Str) : Str :=
  s.map fun c => if c = '_' then '-' else c

/-- `re.sub(pattern, replacement, s)` for exactly the two pattern / replacement pairs of `css()`;
    any other pair is outside the fragment -/
def reSub (pat repl s : PVal) : PyM PVal :=
  match pat, repl, s with
  | .str p, .str r, .str x =>
    if p = ['(', '[', 'A', '-', 'Z', ']', ')'] ∧ r = ['-', '\\', '1'] then pure (.str (subHyphenCaps x))
    else if p = ['_'] ∧ r = ['-'] then pure (.str (subUnderscore x))
    else throw .unsupported
  | .str p, .str r, _ =>
    -- a non-`str` subject (`HTML` is a `UserString`, not a `str`): "expected string or bytes-like object"
    if (p = ['(', '[', 'A', '-', 'Z', ']', ')'] ∧ r = ['-', '\\', '1']) ∨ (p = ['_'] ∧ r = ['-']) then throw .typeError
    else throw .unsupported
  | _, _, _ => throw .unsupported

/-- the items of `sep.join(items)` for a `str` separator: every item must be a real `str`
    (`" ".join([HTML("a")])` raises TypeError: a `UserString` is not a `str`) -/
def strictStrs : List PVal → PyM (List Str)
  | [] => pure []
  | .str s :: r => do pure (s :: (← strictStrs r))
  | _ => throw .typeError

/-- `sep.join(iterable)` for a `str` separator -/
def pyJoinStrict (sep it : PVal) : PyM PVal :=
  match sep with
  | .str sp => do pure (.str (joinStr sp (← strictStrs (← pyIter it))))
  | _ => throw .unsupported

/-- a real `str` -/
def isStrVal : PVal → Bool
  | .str _ => true
  | _ => false

/-- `x in c` where `c` is a list of `str` (what `str.split()` returns): `list.__contains__` compares with `==`;
    a `str` item equals a `str` or `HTML` (`UserString.__eq__`, reflected) with the same text and no value of another
    built-in kind; for instances of other classes the answer depends on their `__eq__` (outside the fragment).
    Every other container goes to `pyIn`. -/
def pyInC16 (x c : PVal) : PyM PVal :=
  match c with
  | .list xs =>
    if xs.all isStrVal then
      match x with
      | .str n => pyIn (.str n) c
      | .html n => pyIn (.str n) c
      | .obj _ _ => throw .unsupported
      | _ => pure (.bool false)
    else pyIn x c
  | _ => pyIn x c

end HtmlVerif.Py
