"""Translator validation (DESIGN §14): lines for the `src` op — the Lean function regenerated from a function's source
text and the real function are run on the same Python values and must give the same answer."""
from __future__ import annotations

from wire import es

META = ['&', '<', '>', '"', "'", '\r', '\n', ';', '#', ' ', '_', '-', 'a', 'B', 'é', ' ', '😀', '|', '\\', '.']
WORDS = ["", "a", "a b", "x_y", "_", "__", "a_", "a__", "_a", "class_", "data_x_y", "&amp;", "<b>", 'a"b', "a'b", "a\r\nb",
         "fontSize", " ", "a;", "x&y<z>", "é ", "|", "a|b", "\\1"]


def rstr(rng) -> str:
    r = rng.random()
    if r < 0.35:
        return rng.choice(WORDS)
    return "".join(rng.choice(META) for _ in range(rng.choice([0, 1, 1, 2, 3, 5, 9])))


def S(s: str) -> str:
    return "S " + es(s)


def H(s: str) -> str:
    return "H " + es(s)


def other(rng) -> str:
    return rng.choice(["O Other [ ]", "O Other [ __str__ S " + es(rstr(rng)) + " ]"])


def scalar(rng) -> str:
    """any value a caller may hand to the attribute / text functions"""
    r = rng.random()
    if r < 0.30:
        return S(rstr(rng))
    if r < 0.50:
        return H(rstr(rng))
    if r < 0.58:
        return "N"
    if r < 0.66:
        return rng.choice(["T", "F"])
    if r < 0.76:
        return "I " + str(rng.choice([0, 1, -1, 7, 10, 255, -300, 10 ** 12]))
    if r < 0.84:
        return "D " + es(rng.choice(["1.5", "0.0", "-0.0", "2.0", "1e+100", "0.1", "-3.25", "inf", "nan"]))
    if r < 0.92:
        return other(rng)
    return rng.choice(["L [ ]", "U [ " + S("a") + " ]", "M [ ]"])


def attr_dict(rng, n=None) -> str:
    n = rng.choice([0, 1, 1, 2, 3]) if n is None else n
    keys = ["class", "class_", "style", "id", "data_x", "data-x", "x_", "x__", "_", "title"]
    ks = []
    for _ in range(n):
        k = rng.choice(keys)
        if k not in ks:
            ks.append(k)
    return "M [ " + "".join(es(k) + " " + scalar(rng) + " " for k in ks) + "]"


def stored_dict(rng) -> str:
    ks = rng.sample(["class", "style", "id", "data-x", "x-", "title"], rng.choice([0, 1, 2, 3]))
    return "M [ " + "".join(es(k) + " " + (S(rstr(rng)) if rng.random() < 0.6 else H(rstr(rng))) + " " for k in ks) + "]"


def pv_node(n) -> str:
    """a node term (wire.py) as the Python object the renderer sees"""
    k = n[0]
    if k == "tag":
        attrs = "M [ " + "".join(es(a) + " " + ("H " if v[0] == "h" else "S ") + es(v[1]) + " " for a, v in n[3]) + "]"
        kids = "L [ " + "".join(pv_node(c) + " " for c in n[4]) + "]"
        return f"O Tag [ name {S(n[1])} attrs {attrs} children O TagList [ data {kids} ] add_ws {'T' if n[2] else 'F'} ]"
    if k == "text":
        return S(n[1])
    if k == "html":
        return H(n[1])
    if k == "robj":
        return f"O ReprObj [ _repr_html_ {S(n[1])} ]"
    if k == "meta":
        return f"O MetadataNode [ id I {n[1]} ]"
    if k == "dep":
        return f"O HTMLDependency [ name {S(n[1]['name'])} ]"
    if k in ("tobjL", "tobj1"):
        return "O TagifiableObj [ tagify N " + (f"_repr_html_ {S(n[1])} " if n[1] is not None else "") + "]"
    raise ValueError(k)


def _tag_line(rng):
    import gen
    t = gen.rand_tag(rng, rng.randint(1, 4), leaves=("text", "html", "robj", "meta"))
    if rng.random() < 0.15:     # an un-expanded tagifiable object somewhere
        t = (t[0], t[1], t[2], t[3], list(t[4]) + [rng.choice([("tobjL", None, []), ("tobjL", "<r>", []), ("tobj1", None, ("text", "x"))])])
    return f"[ {pv_node(t)} I {rng.choice([0, 0, 1, 3])} {S(rng.choice([chr(10), '', chr(13) + chr(10), '<!>']))} ]"


def _list_line(rng):
    import gen
    ks = [gen.rand_node(rng, rng.randint(0, 3), leaves=("text", "html", "robj", "meta")) for _ in range(rng.randint(0, 5))]
    data = "L [ " + "".join(pv_node(c) + " " for c in ks) + "]"
    return (f"[ O TagList [ data {data} ] I {rng.choice([0, 1, 2])} {S(rng.choice([chr(10), '', '<!>']))} "
            f"{rng.choice(['T', 'F'])} {rng.choice(['T', 'T', 'F'])} ]")


GENS = {
    "Tag_get_html_string": _tag_line,
    "TagList_get_html_string": _list_line,
    "html_escape": lambda rng: f"[ {S(rstr(rng)) if rng.random() < 0.93 else scalar(rng)} {rng.choice(['T', 'F'])} ]",
    "HTML_as_string": lambda rng: f"[ {H(rstr(rng))} ]",
    "HTML_add": lambda rng: f"[ {H(rstr(rng))} {scalar(rng)} ]",
    "HTML_radd": lambda rng: f"[ {H(rstr(rng))} {scalar(rng)} ]",
    "add": lambda rng: f"[ {rng.choice([S, H])(rstr(rng)) if rng.random() < 0.8 else scalar(rng)} {scalar(rng)} ]",
    "normalize_text": lambda rng: f"[ {rng.choice([S, H])(rstr(rng))} ]",
    "normalize_attr_name": lambda rng: f"[ {S(rstr(rng))} ]",
    "normalize_attr_value": lambda rng: f"[ {scalar(rng)} ]",
    "TagAttrDict_setitem": lambda rng: f"[ {stored_dict(rng)} {S(rng.choice(['class', 'class_', 'x_y', 'id', rstr(rng)]))} {scalar(rng)} ]",
    "TagAttrDict_update": lambda rng: f"[ {stored_dict(rng)} U [ " + "".join(attr_dict(rng) + " " for _ in range(rng.choice([0, 1, 2, 3]))) + f"] {attr_dict(rng, rng.choice([0, 0, 1, 2]))} ]",
}


def _load_plugins():
    """area plug-ins `harness/srctie_<area>.py` add their generators to GENS"""
    import importlib
    import os
    if getattr(_load_plugins, "done", False):
        return
    _load_plugins.done = True
    here = os.path.dirname(os.path.abspath(__file__))
    for fn in sorted(os.listdir(here)):
        if fn.startswith("srctie_") and fn.endswith(".py"):
            importlib.import_module(fn[:-3]).register(GENS)


def lines(rng, funcs: list[str], n: int) -> list[str]:
    _load_plugins()
    out = []
    for f in funcs:
        g = GENS[f]
        seen = set()
        for _ in range(n):
            l = f"src {f} {g(rng)}"
            if l not in seen:
                seen.add(l)
                out.append(l)
    return out
