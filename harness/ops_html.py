"""Implementation side of the C01 ops, and the independent Python oracle (html.parser).

`render_tag_n` is `render_tag` with every all-digit text leaf passed to the real constructor as a *number*
(the library stores str(number); the wire term keeps the text)."""
from __future__ import annotations

import re
from html.parser import HTMLParser

from adapters import realize, HTML, Tag
from ops import op
from wire import Toks, p_node, p_str, ok_str

HTML_WS = " \t\n\x0c\r"
# the 16 void names of the element catalogue (deliberately NOT read from the source under test)
VOID_CATALOGUE = frozenset(
    "area base br col command embed hr img input keygen link meta param source track wbr".split())
NOESC = frozenset(["script", "style"])
_NUM = re.compile(r"^(0|[1-9][0-9]{0,8})$")


def realize_num(n):
    """like adapters.realize, but all-digit text leaves become ints (numeric leaves of the property)"""
    if n[0] == "tag":
        kids = [realize_num(c) for c in n[4]]
        t = Tag(n[1], *kids, _add_ws=n[2])
        for key, v in n[3]:
            dict.__setitem__(t.attrs, key, HTML(v[1]) if v[0] == "h" else v[1])
        return t
    if n[0] == "text" and _NUM.match(n[1]):
        return int(n[1])
    return realize(n)


@op("render_tag_n")
def _render_tag_n(t: Toks) -> str:
    n = p_node(t)
    indent = int(t.next())
    eol = p_str(t)
    return ok_str(realize_num(n).get_html_string(indent, eol))


# ------------------------------------------------------------------ guard and expected image, Python side
_NAME = re.compile(r"^[A-Za-z][A-Za-z0-9:_.\-]*$")
_BAD_ATTR = set(HTML_WS) | set("\"'>/=<")


def attr_name_ok(k: str) -> bool:
    return k != "" and not (set(k) & _BAD_ATTR)


def ordinary(n) -> bool:
    k = n[0]
    if k == "tag":
        names = [a for a, _ in n[3]]
        return (bool(_NAME.match(n[1])) and n[1] not in NOESC and len(set(names)) == len(names)
                and all(attr_name_ok(a) and v[0] == "p" for a, v in n[3]) and all(ordinary(c) for c in n[4]))
    return k in ("text", "meta", "dep")


def ws_only(s: str) -> bool:
    return all(c in HTML_WS for c in s)


def fold(s: str) -> str:
    """ASCII lower-casing, as an HTML tokenizer does to tag and attribute names"""
    return "".join(chr(ord(c) + 32) if "A" <= c <= "Z" else c for c in s)


def _text(acc: str):
    t = acc.strip(HTML_WS)
    return [("tx", t)] if t else []


def expected_tag(n):
    vis = [c for c in n[4] if c[0] not in ("meta", "dep")]
    return ("el", fold(n[1]), [(fold(a), v[1]) for a, v in n[3]], (n[1] in VOID_CATALOGUE and not vis),
            expected_kids(n[4]))


def expected_kids(kids):
    out, acc = [], ""
    for c in kids:
        if c[0] == "tag":
            out += _text(acc)
            acc = ""
            out.append(expected_tag(c))
        elif c[0] == "text":
            acc += c[1]
    return out + _text(acc)


# ------------------------------------------------------------------ html.parser oracle
class _Builder(HTMLParser):
    def __init__(self):
        super().__init__(convert_charrefs=True)
        self.ok = True
        self.cur = []
        self.stack = []
        self.pend = ""

    def _flush(self):
        self.cur += _text(self.pend)
        self.pend = ""

    def handle_starttag(self, tag, attrs):
        self._flush()
        self.stack.append((tag, [(k, "" if v is None else v) for k, v in attrs], self.cur))
        self.cur = []

    def handle_startendtag(self, tag, attrs):
        self._flush()
        self.cur.append(("el", tag, [(k, "" if v is None else v) for k, v in attrs], True, []))

    def handle_endtag(self, tag):
        self._flush()
        if not self.stack or self.stack[-1][0] != tag:
            self.ok = False
            return
        name, attrs, sibs = self.stack.pop()
        sibs.append(("el", name, attrs, False, self.cur))
        self.cur = sibs

    def handle_data(self, data):
        self.pend += data

    def handle_comment(self, data):
        self.ok = False

    def handle_decl(self, decl):
        self.ok = False

    def handle_pi(self, data):
        self.ok = False

    def unknown_decl(self, data):
        self.ok = False


def py_parse(markup: str):
    """normalised forest according to html.parser with a strict stack, or None"""
    b = _Builder()
    try:
        b.feed(markup)
        b.close()
    except Exception:
        return None
    b._flush()
    if not b.ok or b.stack:
        return None
    return b.cur


def _probe_opaque(names) -> set:
    """element names whose content this Python's html.parser does not tokenize as markup"""
    out = set()
    for nm in names:
        f = py_parse(f"<{nm}><b>x</b></{nm}>")
        if f != [("el", fold(nm), [], False, [("el", "b", [], False, [("tx", "x")])])]:
            out.add(fold(nm))
    return out


_OPAQUE_CACHE: dict = {}


def oracle_in_scope(n, names) -> bool:
    """html.parser applies content models (script/style CDATA; RCDATA in newer Pythons); trees that put
    element children under such a name are outside what this oracle can say anything about"""
    key = tuple(sorted(names))
    if key not in _OPAQUE_CACHE:
        _OPAQUE_CACHE[key] = _probe_opaque(names)
    opaque = _OPAQUE_CACHE[key]

    def go(x):
        if x[0] != "tag":
            return True
        if fold(x[1]) in opaque and any(c[0] == "tag" for c in x[4]):
            return False
        return all(go(c) for c in x[4])
    return go(n)


# ------------------------------------------------------------------ decoding the driver's forest answer
def p_ptree(t: Toks):
    k = t.next()
    if k == "tx":
        return ("tx", p_str(t))
    assert k == "el", k
    name = p_str(t)
    assert t.next() == "["
    attrs = []
    while t.peek() != "]":
        a = p_str(t)
        attrs.append((a, p_str(t)))
    t.next()
    sc = t.next() == "T"
    return ("el", name, attrs, sc, p_ptrees(t))


def p_ptrees(t: Toks):
    assert t.next() == "["
    out = []
    while t.peek() != "]":
        out.append(p_ptree(t))
    t.next()
    return out


def fold_forest(f):
    return [x if x[0] == "tx" else ("el", fold(x[1]), [(fold(a), v) for a, v in x[2]], x[3], fold_forest(x[4]))
            for x in f]


def parse_answer(ans: str):
    """driver answer of parse_html -> forest | None"""
    if ans == "fail":
        return None
    t = Toks(ans)
    assert t.next() == "ok"
    return p_ptrees(t)
