"""Implementation side of the `src` op for the translations of harness/pytr_c15b.py: the real `TagAttrDict.__init__`,
`Tag.__init__`, `Tag.insert / extend / append` (called as *functions*, `self` = first value) and `consolidate_attrs` on the
realised values.

Value conventions (shared with lean/HtmlVerif/Lemmas/SrcC15b.lean and, for the children, with ops_src_c14.py):
`O Tag [ ]` is a Tag instance whose `__dict__` is empty (what `object.__new__(Tag)` gives, before `__init__`); a Tag with
fields is realised by setting exactly those attributes in that order; a Tag is reported as its `__dict__` in assignment
order (`attrs` as the plain dict of its items).  A `TagAttrDict` instance is carried as a dict (`M [ … ]`)."""
from __future__ import annotations

import ops_src
import ops_src_c14 as c14


def _tag(fields):
    import htmltools
    from htmltools._core import TagAttrDict
    t = htmltools.Tag.__new__(htmltools.Tag)
    for k, v in fields.items():
        if k == "attrs" and type(v) is dict:
            d = TagAttrDict()
            dict.update(d, v)
            v = d
        setattr(t, k, v)
    return t


def _encode(v, enc):
    import htmltools
    if type(v) is htmltools.Tag:
        return "O Tag [ " + "".join(f"{k} {enc(x)} " for k, x in v.__dict__.items()) + "]"
    return c14._encode(v, enc)


R = ops_src.REALIZE
R["Tag"] = _tag
R["Opaque"] = lambda f: c14._Opaque(f.get("id", 0))
R["TagList"] = c14._taglist
R["MetadataNode"] = c14._meta
R["bytes"] = lambda f: bytes(f["data"])
R["range"] = c14._range
R["set"] = lambda f: set(f["data"])
ops_src.ENCODE.append(_encode)


def _attr_init(a):
    from htmltools._core import TagAttrDict
    d = TagAttrDict.__new__(TagAttrDict)
    dict.update(d, a[0])
    TagAttrDict.__init__(d, *a[1], **a[2])
    return dict(d)


def _tag_init(a):
    import htmltools
    htmltools.Tag.__init__(a[0], a[1], *a[2], _add_ws=a[3], **a[4])
    return a[0]


def _tag_method(name, star_last=False):
    def call(a):
        import htmltools
        m = getattr(htmltools.Tag, name)
        if star_last:
            m(*a[:-1], *a[-1])
        else:
            m(*a)
        return a[0]          # the translation returns the receiver as the method leaves it
    return call


def _consolidate(a):
    import htmltools
    return htmltools.consolidate_attrs(*a[0], **a[1])


C = ops_src.CALLS
C["TagAttrDict_initC15b"] = _attr_init
C["Tag_initC15b"] = _tag_init
C["Tag_insertC15b"] = _tag_method("insert")
C["Tag_extendC15b"] = _tag_method("extend")
C["Tag_appendC15b"] = _tag_method("append", star_last=True)
C["consolidate_attrsC15b"] = _consolidate
