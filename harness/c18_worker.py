#!/usr/bin/env python3
"""Subprocess worker for C18: reads JSON {"lines": [...], "order": [...], "noise": [...], "want": {index: digest}} on
stdin, evaluates the constructions with the real library in the given order (with unrelated 'noise' renderings
interleaved) and reports one JSON object per line of output: {"i": index, "d": sha1(answer)[, "a": answer]} after every
construction ("a" = the full answer when the digest is not the wanted one, so that a report can show what this very
process produced — a random hash seed cannot be re-created), and {"done": true, …} at the end.  PYTHONHASHSEED is set by
the parent.

Whatever the library under test does must not break the protocol (a check that cannot read its worker is blind):
  * the report goes to a private duplicate of stdout; file descriptor 1 and sys.stdout point to /dev/null while the
    library runs (a display hook that prints, a stray print()), stderr likewise is not parsed by the parent;
  * every construction runs under a CPU-time alarm: a loop becomes the answer `err crashed-or-hung` (the same answer
    the in-process evaluation gives) and the rest of the battery still runs;
  * results are flushed one by one, so if the interpreter dies the parent knows on which construction and resumes after it."""
import hashlib
import json
import os
import signal
import sys

HERE = os.path.dirname(os.path.abspath(__file__))
sys.path.insert(0, HERE)
REPO = os.environ.get("VERIF_REPO", "/repo")
sys.path.insert(0, REPO)

MAX_ANSWERS = 40
LINE_CPU_SECONDS = 20.0


class _TO(BaseException):
    pass


def _alarm(signum, frame):
    raise _TO()


def main():
    report = os.fdopen(os.dup(1), "w", encoding="utf-8")
    devnull = os.open(os.devnull, os.O_WRONLY)
    os.dup2(devnull, 1)
    sys.stdout = open(os.devnull, "w")
    job = json.load(sys.stdin)
    try:
        import ops
    except BaseException as e:  # noqa: BLE001  (the library cannot even be imported in this process)
        report.write(json.dumps({"import_failed": f"{type(e).__name__}: {e}"[:500]}) + "\n")
        report.flush()
        return
    lines, order, noise, want = job["lines"], job["order"], job.get("noise", []), job.get("want", {})
    signal.signal(signal.SIGVTALRM, _alarm)
    n_answers = 0
    timeouts = 0
    for k, idx in enumerate(order):
        ans = None
        try:
            signal.setitimer(signal.ITIMER_VIRTUAL, LINE_CPU_SECONDS if timeouts < 3 else 2.0)
            if noise:
                ops.run_line(noise[k % len(noise)])
            ans = ops.run_line(lines[idx])
        except _TO:
            timeouts += 1
            ans = "err crashed-or-hung"
        except RecursionError:
            ans = "err crashed-or-hung"
        except BaseException as e:  # noqa: BLE001  (an exception in one process only is a difference, not a harness failure)
            if isinstance(e, (KeyboardInterrupt, SystemExit)):
                raise
            ans = f"err worker-exception {type(e).__name__}"
        finally:
            signal.setitimer(signal.ITIMER_VIRTUAL, 0)
        if not isinstance(ans, str):
            ans = "err non-string-answer"
        dg = hashlib.sha1(ans.encode("utf-8", "surrogatepass")).hexdigest()
        row = {"i": idx, "d": dg}
        if want and want.get(str(idx)) != dg and n_answers < MAX_ANSWERS:
            row["a"] = ans
            n_answers += 1
        report.write(json.dumps(row) + "\n")
        report.flush()
    report.write(json.dumps({"done": True, "hashseed": os.environ.get("PYTHONHASHSEED"), "hash_of_a": hash("a")}) + "\n")
    report.flush()


if __name__ == "__main__":
    main()
