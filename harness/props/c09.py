"""C09 — Tagifiable objects render as their expansion, spliced in place."""
from __future__ import annotations

import itertools

import core
import gen
import ops  # noqa: F401  (registers the implementation side, incl. ops_tagify)
from ops_tagify import rank_terms
from wire import enode, enodes, es

PID = "C09"
MANIFEST = dict(
    text="Lean: TagList.tagify is modelled literally (working copy, index counting down, slice assignment cp[i:i+1]=… / item "
         "assignment; nested tagify() calls by fuel) and proved equal to the forward specification expandAll (a returned TagList "
         "is spliced in order, possibly empty; any other result takes the object's place; tags recurse; metadata kept) via the loop "
         "invariant cp = take i orig ++ expansion(drop i orig), for every child behaviour (C09_loop_invariant, C09_tagify_is_spec, "
         "C09_tagify_tag). On the specification: spliced-in-place corollaries, the expansion is fully tagified (C09_no_tobj, and "
         "C09_no_tobj_protocol with the protocol guard explicit + its negative twin), idempotence/fixed point, render() never "
         "raises and returns the markup and the (resolved, document-order) dependencies of the expanded tree (C09_render, "
         "C09_render_tag, C09_deps_of_expansion), get_html_string raises RuntimeError iff an un-expanded non-self-rendering "
         "object is reachable (C09_error, C09_error_tag). Tie to /repo: exact equality of the canonicalised tagified tree, of "
         "render()['html'], of render()['dependencies'] and of get_dependencies(dedup=False) on the tagified tree, and of the "
         "error/no-error outcome of get_html_string without tagify; exhaustive over all lists of <= 5 elements over 10 child "
         "kinds (all adjacency patterns, first/last, empty next to non-empty) bare and as children of a tag, plus random deep "
         "nestings; the executable statement compares the real output with the *specification* (expandAll), not with the loop model. "
         "Clause HTMLDocument.render(): evaluated on the real code on both sides, HTMLDocument(*content).render() == "
         "HTMLDocument(root with every child list replaced by its Lean-computed expansion).render() (html and dependency list), "
         "root chosen on the un-expanded content as the code does (sole <html>/<body> tag, else a <body> wrapper); its Lean "
         "corollary belongs to C11's document model.",
    design="DESIGN.md §6 C09",
    note="Modelled, not verified: isinstance(child, Tagifiable) / hasattr dispatch as a node-kind test; _tagchilds_to_tagnodes "
         "on a tagified TagList as the identity; copy(child) of a metadata node as the same value (object identity is C08's "
         "subject); Python recursion depth as fuel. HTMLDocument.render() with tagifiable content: no Lean theorem here (it is "
         "root.tagify() followed by the document construction C11 models) — checked by the Python-side oracle only. Outside the "
         "property's tree: an object placed in the head= of an HTMLDependency is not expanded by tagify() (nor reached by "
         "get_html_string of the tree); HTMLDocument.render() hoists that head verbatim and raises RuntimeError for it — accepted "
         "by the oracle exactly for that input class and counted in the evidence (runtime_error_object_in_dependency_head).",
    technique="Lean 4 proof (loop invariant over the literal algorithm, mutual structural induction on the tree) + "
              "differential correspondence check on the tagified tree, render() html, dependency lists and the error case",
)
PROP_FILES = ["HtmlVerif/Props/C09.lean", "HtmlVerif/Props/SrcC09.lean", "HtmlVerif/Props/SrcC18.lean"]


# ------------------------------------------------------------------ terms
def dep(name: str, version: str, head=None, script=None, source=("href", "https://x/y")):
    info = dict(name=name, version=version, vrank=0, source=source,
                script=[[("src", s)] for s in (script or [])], stylesheet=[], metas=[], all_files=False)
    return ("dep", info, head is not None, list(head or []))


def kinds_at(p: int):
    """the 10 child kinds of the exhaustive scope, labelled by position so that misplaced, duplicated or dropped
    pieces are visible in the result"""
    a, b = ("text", f"a{p}"), ("html", f"<b{p}>")
    return [
        ("text", f"t{p}<"),                                                     # text
        ("tag", "span", False, [], [("text", f"s{p}"), ("tobjL", None, [a])]),  # tag (itself holding an object)
        ("tobjL", None, []),                                                    # object -> []
        ("tobjL", None, [a]),                                                   # object -> [a]
        ("tobjL", None, [a, b]),                                                # object -> [a, b]
        ("tobj1", None, ("tag", "div", True, [], [("text", f"d{p}")])),         # object -> Tag
        ("tobj1", None, ("text", f"x{p}")),                                     # object -> str
        ("tobj1", None, dep(f"n{p % 2}", f"1.{p}")),                            # object -> dependency
        ("tobjL", None, [("tobjL", None, [a, ("tobj1", None, ("text", f"y{p}"))]), ("tobjL", None, [])]),  # object in object
        ("tobjL", f"<rh{p}>", [("text", f"r{p}")]),                             # self-rendering object
    ]


KIND_NAMES = ["text", "tag", "obj->[]", "obj->[a]", "obj->[a,b]", "obj->Tag", "obj->str", "obj->dep", "obj(obj)", "selfrender-obj"]


def has_obj(n) -> bool:
    k = n[0]
    if k in ("tobjL", "tobj1"):
        return True
    if k == "tag":
        return any(has_obj(c) for c in n[4])
    return False


SRC = [None, ("href", "https://x/y"), ("href", "/z")]
VERSIONS = ["1.0", "1.0.0", "1.2", "0.9", "2.0", "1.10", "1.2.post1", "1.0rc1"]
DEPNAMES = ["a", "b", "jq", "a"]


def rand_dep(rng, depth):
    head = None
    if rng.random() < 0.3:
        head = [rand_t(rng, min(depth, 1)) for _ in range(rng.randint(0, 2))]   # heads are never expanded nor rendered here
    return dep(rng.choice(DEPNAMES), rng.choice(VERSIONS), head=head,
               script=["s.js"] if rng.random() < 0.3 else None, source=rng.choice(SRC))


def rand_leaf(rng, depth):
    r = rng.random()
    if r < 0.4:
        return ("text", gen.rand_text(rng, 6))
    if r < 0.55:
        return ("html", rng.choice(gen.HTML_POOL))
    if r < 0.7:
        return ("robj", rng.choice(gen.HTML_POOL))
    if r < 0.8:
        return ("meta", rng.randint(0, 9))
    return rand_dep(rng, depth)


def rand_t(rng, depth: int, p_obj: float = 0.45):
    """random node of any kind: tags, leaves, metadata, dependencies, and objects nested in objects / tags / objects"""
    if depth <= 0 or rng.random() < 0.2:
        return rand_leaf(rng, depth)
    r = rng.random()
    rh = None if rng.random() < 0.75 else rng.choice(["<rh>", "", "x\ny"])
    if r < p_obj * 0.6:
        n = rng.choice([0, 0, 1, 1, 2, 3, 4])
        return ("tobjL", rh, [rand_t(rng, depth - 1, p_obj) for _ in range(n)])
    if r < p_obj:
        return ("tobj1", rh, rand_t(rng, depth - 1, p_obj))
    name, ws = gen.rand_name(rng)
    if rng.random() < 0.15:
        ws = not ws
    n = rng.choice([0, 1, 1, 2, 2, 3, 4])
    return ("tag", name, ws, gen.rand_attrs(rng, 2), [rand_t(rng, depth - 1, p_obj) for _ in range(n)])


CORPUS = [
    # the suite's two samples (test_taglist_tagifiable, test_tagify_first) in this vocabulary
    [("text", "a"), ("tobjL", None, [("text", "b"), ("text", "c")]), ("text", "d")],
    [("tobj1", None, ("tag", "div", True, [], [("text", "x")]))],
    # expansion to nothing as the only child / next to a lone text child (changes which early exit the parent takes)
    [("tag", "div", True, [], [("tobjL", None, [])])],
    [("tag", "div", True, [], [("tobjL", None, []), ("text", "only")])],
    [("tag", "span", False, [], [("tobj1", None, ("html", "<i>"))])],
    [("tag", "script", True, [], [("tobjL", None, [("text", "a<b"), ("text", "c&d")])])],
    # same dependency name carried by several expansions, versions out of order, equal versions spelled differently
    [("tobj1", None, dep("a", "1.2")), ("tobjL", None, [dep("a", "1.10"), dep("b", "1.0")]),
     ("tag", "div", True, [], [("tobj1", None, dep("b", "1.0.0")), dep("a", "1.2.post1")])],
    # self-rendering objects: expanded by tagify()/render(), rendered through _repr_html_ otherwise
    [("tobjL", "<rh>", [("text", "inner")]), ("tobj1", "<rh1>", ("tag", "p", True, [], [("tobjL", "<q>", [])]))],
    # an object hidden in a dependency head is neither expanded nor an error
    [dep("h", "1.0", head=[("tobjL", None, [("text", "x")])]), ("text", "t")],
    # results that are falsy in Python still take the object's place
    [("text", "a"), ("tobj1", None, ("text", "")), ("tobj1", None, ("html", "")), ("tag", "div", True, [], [("tobj1", None, ("text", ""))])],
    # deep chain of single-result objects ending in a list
    [("tobj1", None, ("tobj1", None, ("tobj1", "<z>", ("tobjL", None, [("text", "1"), ("tobjL", None, []), ("text", "2")]))))],
]


def lines_for_list(ks, with_tag: bool, with_render: bool = True):
    ks = rank_terms(list(ks))
    e = enodes(ks)
    out = [f"tagify_list {e}"]
    if with_render:
        out += [f"render_full_list {e}", f"render_list {e} 0 {es(chr(10))} T T"]
    if with_tag:
        root = enode(("tag", "div", True, [], ks))
        out += [f"tagify_tag {root}", f"render_full_tag {root}", f"render_tag {root} 0 {es(chr(10))}"]
    return out


# ------------------------------------------------------------------ replay support: shrinking, Python snippet
def _variants(n):
    """strictly smaller variants of one node term"""
    k = n[0]
    if k == "tag":
        kids = n[4]
        for i in range(len(kids)):
            yield ("tag", n[1], n[2], n[3], kids[:i] + kids[i + 1:])
        for c in kids:
            yield c
        if n[3]:
            yield ("tag", n[1], n[2], [], kids)
        for i, c in enumerate(kids):
            for v in _variants(c):
                yield ("tag", n[1], n[2], n[3], kids[:i] + [v] + kids[i + 1:])
    elif k == "tobjL":
        kids = n[2]
        for i in range(len(kids)):
            yield ("tobjL", n[1], kids[:i] + kids[i + 1:])
        if n[1] is not None:
            yield ("tobjL", None, kids)
        for i, c in enumerate(kids):
            for v in _variants(c):
                yield ("tobjL", n[1], kids[:i] + [v] + kids[i + 1:])
    elif k == "tobj1":
        yield n[2]
        if n[1] is not None:
            yield ("tobj1", None, n[2])
        for v in _variants(n[2]):
            yield ("tobj1", n[1], v)
    elif k == "dep":
        if n[2] or n[1]["script"]:
            yield dep(n[1]["name"], n[1]["version"], source=n[1]["source"])
    elif k in ("text", "html", "robj") and len(n[1]) > 1:
        yield (k, n[1][:1])


def _list_variants(ks):
    for i in range(len(ks)):
        yield ks[:i] + ks[i + 1:]
    for i, c in enumerate(ks):
        for v in _variants(c):
            yield ks[:i] + [v] + ks[i + 1:]


def _split(line):
    from wire import Toks, p_list, p_node
    opn, rest = line.split(" ", 1)
    toks = rest.split(" ")
    t = Toks(rest)
    term = p_list(t, p_node) if toks[0] == "[" else p_node(t)
    return opn, term, " ".join(toks[t.i:])


def _join(opn, term, tail):
    e = enodes(rank_terms(term)) if isinstance(term, list) else enode(rank_terms([term])[0])
    return f"{opn} {e}" + (f" {tail}" if tail else "")


def _fails(drv, line):
    im = ops.run_line(line)
    return drv.run([f"holds {PID} {line} | {im}"])[0] != "T", im


def py_of(n) -> str:
    k = n[0]
    if k == "tag":
        attrs = "".join(f", {{{key!r}: {('HTML(%r)' % v[1]) if v[0] == 'h' else repr(v[1])}}}" for key, v in n[3])
        return f"Tag({n[1]!r}" + "".join(", " + py_of(c) for c in n[4]) + attrs + f", _add_ws={n[2]})"
    if k == "text":
        return repr(n[1])
    if k == "html":
        return f"HTML({n[1]!r})"
    if k == "robj":
        return f"ReprObj({n[1]!r})"
    if k == "meta":
        return f"Meta({n[1]})"
    if k == "dep":
        i = n[1]
        src = None if i["source"] is None else {"href": i["source"][1]}
        extra = f", script={[dict(x) for x in i['script']]!r}" if i["script"] else ""
        head = f", head=TagList({', '.join(py_of(c) for c in n[3])})" if n[2] else ""
        return f"HTMLDependency({i['name']!r}, {i['version']!r}, source={src!r}{extra}{head})"
    if k == "tobjL":
        c = "[" + ", ".join(py_of(x) for x in n[2]) + "]"
        return f"TObjL({c})" if n[1] is None else f"TObjLR({c}, {n[1]!r})"
    if k == "tobj1":
        return f"TObj1({py_of(n[2])})" if n[1] is None else f"TObj1R({py_of(n[2])}, {n[1]!r})"
    return repr(n)


def snippet(line) -> str:
    opn, term, tail = _split(line)
    obj = f"TagList({', '.join(py_of(c) for c in term)})" if isinstance(term, list) else py_of(term)
    call = {"tagify_list": "print(canon_list(x.tagify()))", "tagify_tag": "print(canon(x.tagify()))",
            "render_full_list": "print(x.render())", "render_full_tag": "print(x.render())",
            "render_list": "print(repr(x.get_html_string()))", "render_tag": "print(repr(x.get_html_string()))",
            "doc_render": "from htmltools import HTMLDocument\nprint(HTMLDocument(*x).render())"}.get(opn, "")
    return ("# cd harness && VERIF_REPO=<repo> /venv/bin/python   (TObjL/TObj1[R], ReprObj, Meta are the helper classes of adapters.py:\n"
            "#  TObjL(c).tagify() = TagList(*c).tagify(); TObj1(c).tagify() = c.tagify() or c; the R variants also have _repr_html_)\n"
            f"from adapters import *\nx = {obj}\n{call}")


def make_shrinker(ck):
    def shrink(f):
        if ck.driver is None or not f.line:
            return f
        opn, term, tail = _split(f.line)
        if opn == "doc_render":
            cur, improved, steps = term, True, 0
            while improved and steps < 300:
                improved = False
                for v in _list_variants(cur):
                    steps += 1
                    if doc_fails(ck.driver, v)[0]:
                        cur, improved = v, True
                        break
            v, la, x, lb = doc_fails(ck.driver, cur)
            if not v:
                return f
            return core.Failure("property", line=la, impl=x, detail=v, py=snippet(la) + f"\n# expanded case: {lb[:1500]}")
        cur, steps = term, 0
        improved = True
        while improved and steps < 400:
            improved = False
            for v in (_list_variants(cur) if isinstance(cur, list) else _variants(cur)):
                if not isinstance(cur, list) and v[0] != "tag":
                    continue
                steps += 1
                bad, _ = _fails(ck.driver, _join(opn, v, tail))
                if bad:
                    cur, improved = v, True
                    break
        line = _join(opn, cur, tail)
        bad, im = _fails(ck.driver, line)
        if not bad:
            line, im = f.line, f.impl
        model = ck.driver.run([line])[0]
        return core.Failure("property", line=line, impl=im, model=model,
                            detail="the implementation's answer differs from what the specification (expandAll) prescribes "
                                   "for this input; model_output is the modelled algorithm's answer", py=snippet(line))
    return shrink


def doc_root(ks):
    """the tag `_gen_html_tag_tree` calls tagify() on: the sole <html> / <body> Tag, else Tag("body", content) —
    chosen on the *un-expanded* content (_core.py:1146-1168)"""
    if len(ks) == 1 and ks[0][0] == "tag" and ks[0][1] in ("html", "body"):
        return ks[0]
    return ("tag", "body", True, [], list(ks))


def head_has_obj(n) -> bool:
    """a tagifiable object sits in the `head=` of some dependency (neither tagify() nor C09's "tree" reaches there;
    HTMLDocument hoists the head verbatim, so an un-expanded object there raises RuntimeError — reported, see note)"""
    k = n[0]
    if k == "dep":
        return any(has_obj(c) or head_has_obj(c) for c in n[3])
    if k == "tag":
        return any(head_has_obj(c) for c in n[4])
    if k == "tobjL":
        return any(head_has_obj(c) for c in n[2])
    if k == "tobj1":
        return head_has_obj(n[2])
    return False


def doc_verdict(ks, x: str, y: str) -> str | None:
    """None = the document clause holds on this case"""
    if x != y:
        return f"HTMLDocument.render() of the tree differs from that of the expanded tree: {y[:400]}"
    if not x.startswith("ok ") and not (x == "err runtimeError" and any(head_has_obj(k) for k in ks)):
        return f"HTMLDocument.render() raises ({x}) although no un-expanded object is left anywhere"
    return None


def doc_oracle(ck, doc_cases):
    """clause "and HTMLDocument.render()": evaluated on the real code on both sides —
    HTMLDocument(*content).render() == HTMLDocument(root').render(), root' being the document's root tag with every child
    list replaced by its expansion, computed by the Lean definition (`tagify_tag`, proved equal to `expandAll`)."""
    if ck.driver is None or not doc_cases:
        return
    roots = [doc_root(ks) for ks in doc_cases]
    expanded = ck.driver.run([f"tagify_tag {enode(r)}" for r in roots])
    a_lines = [f"doc_render {enodes(ks)}" for ks in doc_cases]
    b_lines = [f"doc_render [ {e} ]" for e in expanded]
    a = core.impl_many(a_lines)
    b = core.impl_many(b_lines)
    n_obj = n_err = 0
    for ks, la, lb, x, y in zip(doc_cases, a_lines, b_lines, a, b):
        ck.holds_checked += 1
        n_obj += any(has_obj(k) for k in ks)
        n_err += not x.startswith("ok ")
        v = doc_verdict(ks, x, y)
        if v:
            ck.py_violation(la, x, v, py=f"expanded case: {lb[:2000]}")
    ck.tagc("doc_render", len(doc_cases))
    ck.extra_cov["extra_evaluations"] = ck.extra_cov.get("extra_evaluations", 0) + 2 * len(doc_cases)
    ck.extra_cov["document_clause"] = {
        "cases": len(doc_cases), "with_objects": n_obj, "runtime_error_object_in_dependency_head": n_err,
        "statement": "HTMLDocument(*content).render() == HTMLDocument(expanded root).render() on the real code; an error only "
                     "when a dependency's head= holds an object"}


def doc_fails(drv, ks):
    ks = rank_terms(list(ks))
    e = drv.run([f"tagify_tag {enode(doc_root(ks))}"])[0]
    la, lb = f"doc_render {enodes(ks)}", f"doc_render [ {e} ]"
    x, y = ops.run_line(la), ops.run_line(lb)
    return doc_verdict(ks, x, y), la, x, lb


def run(tier: str) -> int:
    ck = core.Check(PID, tier, PROP_FILES)
    ck.prepare()
    rng = ck.rng
    ck.rule = ("a case is one call (tagify / render / get_html_string without tagify) on one tree; non-trivial = the tree "
               "contains at least one tagifiable object (bare or below a tag); distinct by wire term")
    lines, nontriv = [], []

    def add(ls, nt):
        lines.extend(ls)
        nontriv.extend([nt] * len(ls))

    # 1. corpus
    for ks in CORPUS:
        add(lines_for_list(ks, True), True)
    # 2. exhaustive: every list of <= N elements over the 10 kinds (all adjacency patterns, first / last, empty next to
    #    non-empty, several expanding neighbours), bare and as the children of a tag
    n_max = 5
    n_tag = 3 if tier == "quick" else 4
    n_render = 4 if tier == "quick" else 5
    n_lists = 0
    for n in range(0, n_max + 1):
        for combo in itertools.product(range(10), repeat=n):
            ks = [kinds_at(p)[k] for p, k in enumerate(combo)]
            add(lines_for_list(ks, n <= n_tag, n <= n_render), any(k != 0 for k in combo))
            n_lists += 1
    ck.exhaustive_scopes.append({
        "scope": f"all lists of <= {n_max} elements over 10 child kinds {KIND_NAMES} (position-labelled): TagList.tagify; "
                 f"lists of <= {n_render} elements also render() and get_html_string without tagify; lists of <= {n_tag} elements "
                 "additionally as children of a block tag (Tag.tagify / Tag.render / Tag.get_html_string)",
        "lists": n_lists, "exhaustive": True})
    # 3. random deep nestings
    for _ in range(ck.budget(2000, 40000)):
        ks = [rand_t(rng, rng.randint(0, 6), p_obj=rng.choice([0.3, 0.5, 0.7])) for _ in range(rng.choice([0, 1, 1, 2, 3, 4, 6]))]
        add(lines_for_list(ks, rng.random() < 0.5), any(has_obj(k) for k in ks))
    # 4. other indent / eol for the un-tagified error observable
    for _ in range(ck.budget(500, 8000)):
        ks = rank_terms([rand_t(rng, rng.randint(0, 4), p_obj=0.3) for _ in range(rng.randint(1, 4))])
        i, e = rng.choice([0, 1, 3]), rng.choice(["\n", "", "<!>"])
        add([f"render_list {enodes(ks)} {i} {es(e)} {'T' if rng.random() < 0.6 else 'F'} T"], any(has_obj(k) for k in ks))
    doc_cases = []        # (content term list) for the HTMLDocument clause

    def add_doc(ks):
        doc_cases.append(rank_terms(list(ks)))

    for ks in CORPUS:
        add_doc(ks)
    for n in range(0, (3 if tier == "quick" else 4) + 1):
        for combo in itertools.product(range(10), repeat=n):
            add_doc([kinds_at(p)[k] for p, k in enumerate(combo)])
    for _ in range(ck.budget(1200, 20000)):
        ks = [rand_t(rng, rng.randint(0, 5), p_obj=rng.choice([0.3, 0.6])) for _ in range(rng.choice([0, 1, 2, 3, 5]))]
        r = rng.random()
        if r < 0.2:      # sole <body> root
            ks = [("tag", "body", True, gen.rand_attrs(rng, 1), ks)]
        elif r < 0.45:   # sole <html> root, with or without its own <head>
            head = [("tag", "head", True, [], [rand_t(rng, 1, 0.5) for _ in range(rng.randint(0, 2))])] if rng.random() < 0.6 else []
            ks = [("tag", "html", True, [], head + [("tag", "body", True, [], ks)])]
        elif r < 0.55:   # an object that expands to an <html> / <body> tag: a fragment, wrapped in <body>, as in the code
            ks = [("tobj1", None, ("tag", rng.choice(["html", "body"]), True, [], ks))]
        add_doc(ks)
    impl = core.impl_many(lines)
    for l, im, nt in zip(lines, impl, nontriv):
        ck.add(l, im, nontrivial=nt, tag=l.split(" ", 1)[0] + (":err" if im.startswith("err") else ""))
    ck.add_src(['Tag_tagify', 'TagList_tagify'])
    __import__('srctie_c18').add_src_c18(ck, ['TagList_render', 'Tag_render'])   # render(): needs the op srcc18
    ck.extra_cov["protocol_per_instance_scenarios"] = __import__("flexhist").oracle(ck)
    ck.extra_cov["odd_tagifiable_cases"] = __import__("flexhist").odd_tagifiable_oracle(ck)
    ck.correspond(holds=True)
    doc_oracle(ck, doc_cases)
    return ck.finish(shrink=make_shrinker(ck))


def replay(body: dict) -> int:
    """./check replay <file>: re-evaluate the recorded input against the current working tree"""
    line = body.get("line")
    if not line:
        import json
        print(json.dumps(body, indent=1))
        print("no concrete input in this replay file (no-failing-input-found)")
        return 1
    drv = core.Driver()
    opn, term, _tail = _split(line)
    if opn == "doc_render":
        v, la, x, lb = doc_fails(drv, term)
        print("line    :", la)
        print("impl    :", x)
        print("expanded:", lb)
        print("verdict :", v or "holds")
        return 1 if v else 0
    bad, im = _fails(drv, line)
    print("line  :", line)
    print("impl  :", im)
    print("model :", drv.run([line])[0])
    print("holds :", "F" if bad else "T")
    print(snippet(line))
    return 1 if bad else 0
