"""Implementation side of C08's identity / purity ops (model side: lean/HtmlVerif/Ops/Ident.lean).

Everything is observed through the public API and id():
  snap(x)       canonical DEEP snapshot of everything reachable from x (tags, attrs with value kinds, children,
                dependency fields incl. the dicts inside script/stylesheet/meta and the head, helper objects' content)
  kinded(x)     (kind, id()) of every mutable library object reachable from x, mirroring `IdentOps.kinded`
  mutate_all    every public mutator applied to every object of a graph
"""
from __future__ import annotations

import copy
import os
import shutil
import tempfile

from adapters import (HTML, HTMLDependency, Meta, MetadataNode, Ranks, ReprObj, Tag, TagList, TObj1, TObj1R, TObjL,
                      TObjLR, canon, canon_list, realize, realize_list, versions_in)
from htmltools import HTMLDocument
from htmltools._core import TagAttrDict
from ops import op
from packaging.version import Version
from wire import (Toks, eattrs, eb, elist, enode, enodes, eopt, err_of, es, p_attrpair, p_bool, p_list, p_node, p_opt,
                  p_str)


# (no imports from other ops_*.py modules at load time: plug-ins are loaded in alphabetical order while `ops` itself may
#  still be importing, so the three small helpers needed here are local)
def ranks_for(terms) -> Ranks:
    """version ranks of one case: every version occurring anywhere in the input terms"""
    vs = []
    for n in terms:
        versions_in(n, vs)
    return Ranks(vs)


def p_indent(t):
    x = t.next()
    if x == "N":
        return None
    assert x == "I", x
    return int(t.next())


def realize_attrarg(v):
    from ops_attrs import realize_attrarg as f     # lazy: see above
    return f(v)


# ------------------------------------------------------------------ deep snapshot
def snap_plain(v):
    if isinstance(v, dict):
        return ("dict", type(v).__name__, tuple((snap_plain(k), snap_plain(x)) for k, x in v.items()))
    if isinstance(v, (list, tuple)):
        return (type(v).__name__, tuple(snap_plain(x) for x in v))
    if isinstance(v, HTML):
        return ("HTML", v.as_string())
    if isinstance(v, (str, int, float, bool)) or v is None:
        return (type(v).__name__, v)
    if isinstance(v, Version):
        return ("Version", str(v))
    return ("object", type(v).__name__)


def snap(x):
    """structural value of everything reachable from x; no addresses, nothing order-insensitive"""
    if isinstance(x, Tag):
        extra = tuple(sorted((k, snap(v) if isinstance(v, (TagList, Tag)) else tuple((a, type(b).__name__, str(b)) for a, b in v.items())
                              if isinstance(v, TagAttrDict) else None)
                             for k, v in x.__dict__.items() if k not in ("name", "add_ws", "attrs", "children", "prev_displayhook")))
        return ("Tag", type(x).__name__, x.name, x.add_ws, type(x.attrs).__name__,
                tuple((k, type(v).__name__, str(v)) for k, v in x.attrs.items()), snap(x.children),
                x.prev_displayhook is None, extra)
    if isinstance(x, TagList):
        return ("TagList", type(x).__name__, tuple(snap(c) for c in x))
    if isinstance(x, HTML):
        return ("HTML", x.as_string())
    if isinstance(x, str):
        return ("str", str(x))
    if isinstance(x, HTMLDependency):
        return ("Dep", type(x).__name__, x.name, snap_plain(x.version), snap_plain(x.source), snap_plain(x.script),
                snap_plain(x.stylesheet), snap_plain(x.meta), snap_plain(x.all_files),
                None if x.head is None else snap(x.head), tuple(sorted(x.__dict__)))
    if isinstance(x, Meta):
        return ("Meta", x.n, tuple(sorted(x.__dict__)))
    if isinstance(x, ReprObj):
        return ("ReprObj", x.s)
    if isinstance(x, TObjL):
        return ("TObjL", type(x).__name__, getattr(x, "rh", None), tuple(snap(c) for c in x.content))
    if isinstance(x, TObj1):
        return ("TObj1", type(x).__name__, getattr(x, "rh", None), snap(x.content))
    if isinstance(x, HTMLDocument):
        return ("Doc", snap(x._content), snap_plain(x._html_attr_args), tuple(sorted(x.__dict__)))
    return snap_plain(x)


# ------------------------------------------------------------------ object graph
K_TAG, K_ATTRS, K_LIST, K_META, K_DEP, K_CONT = range(6)
KIND_NAMES = ["Tag", "TagAttrDict", "TagList", "MetadataNode", "HTMLDependency", "dependency container"]


def objects(x, out=None, top_list=False):
    """[(kind, object, path)] for every mutable library object reachable from x (same traversal as `IdentOps.kinded`)"""
    out = [] if out is None else out

    def walk(n, path):
        if isinstance(n, Tag):
            out.append((K_TAG, n, path))
            out.append((K_ATTRS, n.attrs, path + ".attrs"))
            out.append((K_LIST, n.children, path + ".children"))
            for i, c in enumerate(n.children):
                walk(c, f"{path}.children[{i}]")
            # further instance fields (a Tag subclass, or a caller's own attribute): Tag.__copy__ shallow-copies every
            # instance field, so an attribute map / child list held directly in one belongs to one tag only
            for k, v in n.__dict__.items():
                if k in ("name", "add_ws", "attrs", "children", "prev_displayhook"):
                    continue
                if isinstance(v, TagAttrDict):
                    out.append((K_ATTRS, v, f"{path}.{k}"))
                elif isinstance(v, TagList) and not isinstance(v, Tag):
                    out.append((K_LIST, v, f"{path}.{k}"))
        elif isinstance(n, HTMLDependency):
            out.append((K_DEP, n, path))
            if n.source is not None:
                out.append((K_CONT, n.source, path + ".source"))
            for fld in ("script", "stylesheet", "meta"):
                lst = getattr(n, fld)
                out.append((K_CONT, lst, f"{path}.{fld}"))
                for i, d in enumerate(lst):
                    out.append((K_CONT, d, f"{path}.{fld}[{i}]"))
            if n.head is not None:
                out.append((K_LIST, n.head, path + ".head"))
                for i, c in enumerate(n.head):
                    walk(c, f"{path}.head[{i}]")
        elif isinstance(n, MetadataNode):
            out.append((K_META, n, path))
        elif isinstance(n, TObjL):
            for i, c in enumerate(n.content):
                walk(c, f"{path}.content[{i}]")
        elif isinstance(n, TObj1):
            walk(n.content, path + ".content")

    if isinstance(x, TagList) and not isinstance(x, Tag):
        out.append((K_LIST, x, "x"))
        for i, c in enumerate(x):
            walk(c, f"x[{i}]")
    else:
        walk(x, "x")
    return out


def kinded(x):
    return [(k, id(o)) for k, o, _ in objects(x)]


# ------------------------------------------------------------------ public mutators
def _tag_mutators(t: Tag):
    yield "append('M')", lambda: t.append("M")
    yield "extend(['M2', Tag('i')])", lambda: t.extend(["M2", Tag("i")])
    yield "insert(0, 'M0')", lambda: t.insert(0, "M0")
    yield "attrs['data-m'] = '1'", lambda: t.attrs.__setitem__("data-m", "1")
    yield "attrs.update({'class': 'k'})", lambda: t.attrs.update({"class": "k"})
    yield "add_class('c2')", lambda: t.add_class("c2")
    yield "add_style('color:red;')", lambda: t.add_style("color:red;")
    yield "remove_class('k')", lambda: t.remove_class("k")
    yield "name += 'x'", lambda: setattr(t, "name", t.name + "x")
    yield "add_ws = not add_ws", lambda: setattr(t, "add_ws", not t.add_ws)


def _attrs_mutators(a):
    yield "attrs['zz-mut'] = HTML('1')", lambda: a.__setitem__("zz-mut", HTML("1"))
    yield "attrs.update(title='t')", lambda: a.update(title="t")
    yield "del attrs[first key]", lambda: a.pop(next(iter(a)))


def _list_mutators(l: TagList):
    yield "append('L')", lambda: l.append("L")
    yield "extend([Tag('b'), 'L2'])", lambda: l.extend([Tag("b"), "L2"])
    yield "insert(0, 'L0')", lambda: l.insert(0, "L0")
    yield "pop()", lambda: l.pop()


def _dep_mutators(d: HTMLDependency):
    yield "name += 'x'", lambda: setattr(d, "name", d.name + "x")
    yield "all_files = not all_files", lambda: setattr(d, "all_files", not d.all_files)
    yield "script.append({'src': 'e.js'})", lambda: d.script.append({"src": "e.js"})
    yield "stylesheet.append({'href': 'e.css'})", lambda: d.stylesheet.append({"href": "e.css"})
    yield "meta.append({'name': 'n', 'content': 'c'})", lambda: d.meta.append({"name": "n", "content": "c"})
    if d.head is not None:
        yield "head.append('H')", lambda: d.head.append("H")


def _cont_mutators(c):
    if isinstance(c, dict):
        yield "dict['zz'] = '1'", lambda: c.__setitem__("zz", "1")
        if c:
            yield "dict[first key] += 'x'", lambda: c.__setitem__(next(iter(c)), str(c[next(iter(c))]) + "x")
    else:
        yield "list.append({'src': 'z', 'href': 'z', 'name': 'z', 'content': 'z'})", lambda: c.append(
            {"src": "z", "href": "z", "name": "z", "content": "z"})


def mutators_of(kind, o):
    if kind == K_TAG:
        return _tag_mutators(o)
    if kind == K_ATTRS:
        return _attrs_mutators(o)
    if kind == K_LIST:
        return _list_mutators(o)
    if kind == K_META:
        return iter([("n += 1", lambda: setattr(o, "n", o.n + 1))])
    if kind == K_DEP:
        return _dep_mutators(o)
    return _cont_mutators(o)


def mutate_all(root, other=None, other_snap=None):
    """apply every public mutator to every object reachable from `root` (objects collected first).
    With `other`: returns the first (path, kind, mutator) after which snap(other) != other_snap, else None."""
    n = 0
    for kind, o, path in objects(root):
        for name, f in mutators_of(kind, o):
            try:
                f()
            except (KeyError, IndexError, StopIteration):
                continue        # nothing to remove on an empty container
            n += 1
            if other is not None and snap(other) != other_snap:
                return (path, KIND_NAMES[kind], name)
    return None if other is not None else n


# ------------------------------------------------------------------ receivers
def p_recv(t: Toks):
    kind = t.next()
    if kind == "list":
        terms = p_list(t, p_node)
        return kind, terms, (lambda: realize_list(terms))
    term = p_node(t)
    return kind, [term], (lambda: realize(term))


def _has_tobj(n) -> bool:
    k = n[0]
    if k in ("tobjL", "tobj1"):
        return True
    if k == "tag":
        return any(_has_tobj(c) for c in n[4])
    if k == "dep":
        return any(_has_tobj(c) for c in n[3])
    return False


def heads_plain(n) -> bool:
    """no un-expanded tagifiable object inside any dependency head (`ITree.headsPlain`)"""
    k = n[0]
    if k == "tag":
        return all(heads_plain(c) for c in n[4])
    if k == "dep":
        return not any(_has_tobj(c) for c in n[3])
    if k == "tobjL":
        return all(heads_plain(c) for c in n[2])
    if k == "tobj1":
        return heads_plain(n[2])
    return True


def enc_value(kind, v, ranks) -> str:
    if kind == "list":
        if type(v) is not TagList:
            return "bad-type " + type(v).__name__
        return enodes(canon_list(v, ranks))
    return enode(canon(v, ranks))


# ------------------------------------------------------------------ ops
@op("c08_tagify")
def _c08_tagify(t: Toks) -> str:
    kind, terms, make = p_recv(t)
    ranks = ranks_for(terms)
    x = make()
    y = x.tagify()
    if kind != "list" and not isinstance(y, Tag):
        return "bad-type " + type(y).__name__
    res = enc_value(kind, y, ranks)
    if all(heads_plain(n) for n in terms):
        eq = eb(bool(y == x)) + " " + eb(bool(x == y))
    else:
        eq = "- -"
    y2 = y.tagify()
    fixed = enc_value(kind, y2, ranks) == res
    kx, ky = kinded(x), kinded(y)
    idsx = {i for _, i in kx}
    shared = [sum(1 for (k, i) in ky if k == c and i in idsx) for c in range(6)]
    nodup = len({i for _, i in ky}) == len(ky)
    return (f"{res} eq {eq} fixed {eb(fixed)} shared " + " ".join(map(str, shared))
            + f" nodup {eb(nodup)} objs {len(ky)}")


def mutate_leak(make, direction: int):
    """direction 0: mutate the copy, watch the original; 1: mutate the original, watch the copy"""
    x = make()
    y = x.tagify()
    a, b = (y, x) if direction == 0 else (x, y)
    return mutate_all(a, b, snap(b))


@op("c08_mutate")
def _c08_mutate(t: Toks) -> str:
    _kind, _terms, make = p_recv(t)
    out = []
    for direction in (0, 1):
        x = make()
        y = x.tagify()
        a, b = (y, x) if direction == 0 else (x, y)
        sb = snap(b)
        mutate_all(a)
        out.append(eb(snap(b) == sb))
    return " ".join(out)


def p_readop(t: Toks):
    c = t.next()
    if c == "gh":
        return (c, int(t.next()), p_str(t))
    if c == "gd":
        return (c, p_bool(t))
    if c in ("dt", "dd", "dm"):
        return (c, p_opt(t), p_bool(t))
    if c == "ds":
        return (c, p_indent(t))
    return (c,)


def _kvs_list(l) -> str:
    return elist([elist([es(str(k)) + " " + es(str(v)) for k, v in d.items()]) for d in l])


def run_readop(kind: str, x, o, ranks) -> str:
    c = o[0]
    is_dep = isinstance(x, HTMLDependency)
    try:
        if c in ("dt", "dd", "dm", "ds"):
            if not is_dep:
                return "na"
            if c == "dt":
                return "n ok " + enodes(canon_list(x.as_html_tags(lib_prefix=o[1], include_version=o[2]), ranks))
            if c == "dd":
                d = x.as_dict(lib_prefix=o[1], include_version=o[2])
                return ("c ok " + _kvs_list(d["script"]) + " " + _kvs_list(d["stylesheet"]) + " " + _kvs_list(d["meta"])
                        + " " + eopt(d["head"]))
            if c == "dm":
                m = x.source_path_map(lib_prefix=o[1], include_version=o[2])
                return "m " + es(m["source"]) + " " + es(m["href"])
            return "n ok " + enodes([canon(x.serialize_to_script_json(o[1]), ranks)])
        if c == "cp":
            v = copy.copy(x)
            return ("l " if kind == "list" else "t ") + enc_value(kind, v, ranks)
        if is_dep:
            return "na"
        if c == "tg":
            return ("l " if kind == "list" else "t ") + enc_value(kind, x.tagify(), ranks)
        if c == "rd":
            r = x.render()
            return "r ok " + es(r["html"]) + " " + enodes([canon(d, ranks) for d in r["dependencies"]])
        if c == "st":
            return "s ok " + es(str(x))
        if c == "rp":
            return "s ok " + es(repr(x))
        if c == "rh":
            return "s ok " + es(x._repr_html_())
        if c == "gh":
            return "s ok " + es(str(x.get_html_string(o[1], o[2])))
        if c == "gd":
            return "d " + enodes([canon(d, ranks) for d in x.get_dependencies(dedup=o[1])])
    except Exception as e:
        return {"rd": "r ", "st": "s ", "rp": "s ", "rh": "s ", "gh": "s ", "dt": "n ", "dd": "c ", "ds": "n "}.get(c, "x ") + err_of(e)
    raise ValueError(c)


@op("c08_seq")
def _c08_seq(t: Toks) -> str:
    kind, terms, make = p_recv(t)
    ops_ = p_list(t, p_readop)
    ranks = ranks_for(terms)
    x = make()
    s0 = snap(x)
    pure = True
    results = []
    for o in ops_:
        results.append(run_readop(kind, x, o, ranks))
        if snap(x) != s0:
            pure = False
    return "pure " + eb(pure) + " " + elist(["; " + r for r in results])


def _ok(f) -> str:
    try:
        return "ok " + es(str(f()))
    except Exception as e:
        return err_of(e)


@op("c08_views")
def _c08_views(t: Toks) -> str:
    _kind, _terms, make = p_recv(t)
    x = make()
    return " ".join([_ok(lambda: str(x)), _ok(lambda: repr(x)), _ok(lambda: x._repr_html_()),
                     _ok(lambda: x.render()["html"])])


def make_doc(terms, kwargs):
    return HTMLDocument(*[realize(n) for n in terms], **{k: realize_attrarg(v) for k, v in kwargs})


def doc_ops(doc, tmp):
    """every read-only document operation: (name, thunk)"""
    yield "render()", lambda: doc.render()
    yield "render(lib_prefix=None, include_version=False)", lambda: doc.render(lib_prefix=None, include_version=False)
    yield "save_html(<tmp>/out/index.html)", lambda: doc.save_html(os.path.join(tmp, "out", "index.html"))
    yield "save_html(<tmp>/out/i2.html, libdir=None, include_version=False)", lambda: doc.save_html(
        os.path.join(tmp, "out", "i2.html"), libdir=None, include_version=False)
    yield "render() again", lambda: doc.render()


def doc_first_impure(terms, kwargs):
    """name of the first document operation after which the document's snapshot differs, else None"""
    doc = make_doc(terms, kwargs)
    s0 = snap(doc)
    tmp = tempfile.mkdtemp(prefix="c08doc")
    try:
        os.makedirs(os.path.join(tmp, "out"))
        for name, f in doc_ops(doc, tmp):
            try:
                f()
            except Exception:
                pass
            if snap(doc) != s0:
                return name
    finally:
        shutil.rmtree(tmp, ignore_errors=True)
    return None


@op("c08_doc")
def _c08_doc(t: Toks) -> str:
    terms = p_list(t, p_node)
    kwargs = p_list(t, p_attrpair)
    doc = make_doc(terms, kwargs)
    s0 = snap(doc)
    pure = True
    tmp = tempfile.mkdtemp(prefix="c08doc")
    try:
        os.makedirs(os.path.join(tmp, "out"))
        for _name, f in doc_ops(doc, tmp):
            try:
                f()
            except Exception:
                pass            # an operation that raises must not have touched the document either
            if snap(doc) != s0:
                pure = False
    finally:
        shutil.rmtree(tmp, ignore_errors=True)
    c = doc._content
    if len(c) > 0 and isinstance(c[0], Tag):
        root = "S " + eattrs([(k, ("h" if isinstance(v, HTML) else "p", str(v))) for k, v in c[0].attrs.items()])
    else:
        root = "N"
    return f"root {root} pure {eb(pure)}"
