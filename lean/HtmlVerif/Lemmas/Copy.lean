/-
Helper lemmas for C12: the copy loop of copy_to over the abstract file system.
-/
import HtmlVerif.Lemmas.FS
import HtmlVerif.Lemmas.Paths

namespace HtmlVerif
open FS

theorem copyOne_file {it : Path × Path} {fs : FS} {c : Bytes} (h : fs.read it.1 = some c) :
    copyOne it fs = (fs.write it.2 c, .ok ()) := by
  simp [copyOne, h]

theorem copyOne_dir {it : Path × Path} {fs : FS} (h : fs.read it.1 = none) (hd : fs.isDir it.1 = true)
    (he : fs.exists it.2 = false) : copyOne it fs = (fs.copyTree it.1 it.2, .ok ()) := by
  simp [copyOne, h, hd, he]

theorem copyOne_skip {it : Path × Path} {fs : FS} (h : fs.read it.1 = none) (hd : fs.isDir it.1 = false) :
    copyOne it fs = (fs, .ok ()) := by
  simp [copyOne, h, hd]

theorem copyLoop_cons_ok {it : Path × Path} {r : List (Path × Path)} {fs fs1 : FS}
    (h : copyOne it fs = (fs1, .ok ())) : copyLoop (it :: r) fs = copyLoop r fs1 := by
  simp [copyLoop, h]

/-- the loop over explicitly listed regular files -/
theorem copyLoop_files (S T : Path) (hST : Apart S T) (fs0 : FS) :
    ∀ (rels : List Path) (cur : FS),
      (∀ r ∈ rels, (fs0.read (S ++ r)).isSome = true) →
      (∀ q, ¬ T <+: q → cur.read q = fs0.read q) →
      ∃ fs', copyLoop (rels.map fun r => (S ++ r, T ++ r)) cur = (fs', .ok ()) ∧
        (∀ q, ¬ T <+: q → fs'.read q = fs0.read q) ∧
        (∀ r, fs'.read (T ++ r) = if r ∈ rels then fs0.read (S ++ r) else cur.read (T ++ r)) := by
  intro rels
  induction rels with
  | nil => intro cur _ hA; exact ⟨cur, by simp [copyLoop], hA, by simp⟩
  | cons r rest ih =>
    intro cur hfiles hA
    have hsrc : cur.read (S ++ r) = fs0.read (S ++ r) := hA _ (not_prefix_of_apart hST r)
    have hsome := hfiles r (by simp)
    obtain ⟨c, hc⟩ := Option.isSome_iff_exists.mp hsome
    have hone : copyOne (S ++ r, T ++ r) cur = (cur.write (T ++ r) c, .ok ()) :=
      copyOne_file (by simpa [hsrc] using hc)
    have hA' : ∀ q, ¬ T <+: q → (cur.write (T ++ r) c).read q = fs0.read q := by
      intro q hq
      have : q ≠ T ++ r := by intro e; apply hq; rw [e]; exact List.prefix_append T r
      rw [read_write]; simp [this, hA q hq]
    obtain ⟨fs', hl, hF, hS⟩ := ih (cur.write (T ++ r) c) (fun x hx => hfiles x (by simp [hx])) hA'
    refine ⟨fs', ?_, hF, ?_⟩
    · simp only [List.map_cons]; rw [copyLoop_cons_ok hone]; exact hl
    · intro x
      rw [hS x, read_write]
      by_cases hx : x ∈ rest
      · simp [hx]
      · by_cases hxr : x = r
        · subst hxr; simp [hx, hc]
        · simp [hx, hxr]

/-- the loop over the top-level names of the source directory (`all_files`) -/
theorem copyLoop_all (S T : Path) (hST : Apart S T) (fs0 : FS) (hwf : SrcWF fs0 S) :
    ∀ (names : List Bytes) (cur : FS), names.Nodup →
      (∀ q, ¬ T <+: q → cur.read q = fs0.read q) →
      (∀ n ∈ names, ∀ r, cur.read (T ++ n :: r) = none) →
      ∃ fs', copyLoop (names.map fun n => (S ++ [n], T ++ [n])) cur = (fs', .ok ()) ∧
        (∀ q, ¬ T <+: q → fs'.read q = fs0.read q) ∧
        (∀ n r, n ∈ names → fs'.read (T ++ n :: r) = fs0.read (S ++ n :: r)) ∧
        (∀ q, (∀ n ∈ names, q.head? ≠ some n) → fs'.read (T ++ q) = cur.read (T ++ q)) := by
  intro names
  induction names with
  | nil => intro cur _ hA _; exact ⟨cur, by simp [copyLoop], hA, by simp, by simp⟩
  | cons n rest ih =>
    intro cur hnd hA hP
    have hn : n ∉ rest := (List.nodup_cons.mp hnd).1
    have hnd' : rest.Nodup := (List.nodup_cons.mp hnd).2
    have hsrc : ∀ x, cur.read (S ++ x) = fs0.read (S ++ x) := fun x => hA _ (not_prefix_of_apart hST x)
    -- the state after this round, with the three facts the induction needs
    have key : ∃ cur', copyOne (S ++ [n], T ++ [n]) cur = (cur', .ok ()) ∧
        (∀ q, ¬ T <+: q → cur'.read q = fs0.read q) ∧
        (∀ m r, m ≠ n → cur'.read (T ++ m :: r) = cur.read (T ++ m :: r)) ∧
        (cur'.read T = cur.read T) ∧
        (∀ r, cur'.read (T ++ n :: r) = fs0.read (S ++ n :: r)) := by
      cases hc : fs0.read (S ++ [n]) with
      | some c =>
        refine ⟨cur.write (T ++ [n]) c, copyOne_file (by simpa [hsrc] using hc), ?_, ?_, ?_, ?_⟩
        · intro q hq
          have : q ≠ T ++ [n] := by intro e; apply hq; rw [e]; exact List.prefix_append T [n]
          rw [read_write]; simp [this, hA q hq]
        · intro m r hm
          rw [read_write]; simp [hm]
        · rw [read_write]; simp
        · intro r
          rw [read_write]
          by_cases hr : r = []
          · subst hr; simp [hc]
          · have h1 : cur.read (T ++ n :: r) = none := hP n (by simp) r
            have h2 : fs0.read (S ++ n :: r) = none := hwf n r hr (by simp [hc])
            simp [hr, h1, h2]
      | none =>
        have hcn : cur.read (S ++ [n]) = none := by simpa [hsrc] using hc
        cases hd : cur.isDir (S ++ [n]) with
        | true =>
          have hex : cur.exists (T ++ [n]) = false := by
            have h1 : cur.read (T ++ [n]) = none := hP n (by simp) []
            have h2 : cur.isDir (T ++ [n]) = false := by
              rw [Bool.eq_false_iff]; intro h
              rcases (isDir_iff cur _).mp h with h | ⟨r, _, hr⟩
              · simp at h
              · have := hP n (by simp) r
                simp [List.append_assoc] at hr
                simp [this] at hr
            simp [FS.exists, isFile, h1, h2]
          refine ⟨cur.copyTree (S ++ [n]) (T ++ [n]), copyOne_dir hcn hd hex, ?_, ?_, ?_, ?_⟩
          · intro q hq
            have : ¬ (T ++ [n]) <+: q := fun h => hq (List.IsPrefix.trans (List.prefix_append T [n]) h)
            rw [read_copyTree_outside _ _ _ _ this]; exact hA q hq
          · intro m r hm
            have : ¬ (T ++ [n]) <+: (T ++ m :: r) := by
              intro h
              rw [List.prefix_append_right_inj] at h
              simp at h
              exact hm h.symm
            rw [read_copyTree_outside _ _ _ _ this]
          · have : ¬ (T ++ [n]) <+: T := by
              intro h
              have := h.length_le
              simp at this
              omega
            rw [read_copyTree_outside _ _ _ _ this]
          · intro r
            have e : T ++ n :: r = (T ++ [n]) ++ r := by simp
            have e' : S ++ n :: r = (S ++ [n]) ++ r := by simp
            rw [e, read_copyTree_under, ← e, ← e', hsrc, hP n (by simp) r]
            simp
        | false =>
          refine ⟨cur, copyOne_skip hcn hd, hA, fun _ _ _ => rfl, rfl, ?_⟩
          intro r
          rw [hP n (by simp) r]
          by_cases hr : r = []
          · subst hr; exact hc.symm
          · cases hx : fs0.read (S ++ n :: r) with
            | none => rfl
            | some v =>
              exfalso
              have : cur.isDir (S ++ [n]) = true := by
                rw [isDir_iff]
                refine .inr ⟨r, hr, ?_⟩
                have e' : (S ++ [n]) ++ r = S ++ n :: r := by simp
                rw [e', hsrc, hx]; rfl
              rw [hd] at this; exact absurd this (by simp)
    obtain ⟨cur', hone, hA', hOther, hT, hMine⟩ := key
    have hP' : ∀ m ∈ rest, ∀ r, cur'.read (T ++ m :: r) = none := by
      intro m hm r
      have hmn : m ≠ n := fun e => hn (e ▸ hm)
      rw [hOther m r hmn]; exact hP m (by simp [hm]) r
    obtain ⟨fs', hl, hF, h1, h2⟩ := ih cur' hnd' hA' hP'
    refine ⟨fs', ?_, hF, ?_, ?_⟩
    · simp only [List.map_cons]; rw [copyLoop_cons_ok hone]; exact hl
    · intro m r hm
      rcases List.mem_cons.mp hm with hm | hm
      · subst hm
        rw [h2 (m :: r) (by intro k hk; simp; intro e; exact hn (e ▸ hk))]
        exact hMine r
      · exact h1 m r hm
    · intro q hq
      rw [h2 q (fun k hk => hq k (by simp [hk]))]
      match q with
      | [] => simpa using hT
      | m :: r =>
        have : m ≠ n := by
          intro e; exact hq n (by simp) (by simp [e])
        exact hOther m r this

end HtmlVerif
