/-
The tag tree (`TagNode` union of htmltools/_core.py:112-121), as a mutual inductive.
-/
import HtmlVerif.Model.Str

namespace HtmlVerif

/-- tables the renderer consults; instantiated from Generated/Tables.lean -/
structure Cfg where
  void    : List Str
  noesc   : List Str
  textTbl : List (Char × Str)
  attrTbl : List (Char × Str)

/-- a stored attribute value: plain `str` or `HTML` -/
inductive AttrVal
  | plain (s : Str)
  | html (s : Str)
  deriving DecidableEq, Repr, Inhabited

def AttrVal.str : AttrVal → Str
  | .plain s => s
  | .html s => s

def AttrVal.isHtml : AttrVal → Bool
  | .plain _ => false
  | .html _ => true

abbrev Attrs := List (Str × AttrVal)

/-- `source=` of an HTMLDependency -/
inductive DepSource
  | none
  | href (h : Str)
  | subdir (pkg : Option Str) (dir : Str) (abs : Str)   -- `abs`: resolved source dir, supplied by the harness
  deriving DecidableEq, Repr, Inhabited

/-- the non-tree fields of an HTMLDependency -/
structure DepInfo where
  name       : Str
  version    : Str          -- str(Version)
  vrank      : Nat          -- rank of the Version among those in play (order supplied by `packaging`)
  source     : DepSource
  script     : List (List (Str × Str))
  stylesheet : List (List (Str × Str))
  metas      : List (List (Str × Str))
  allFiles   : Bool
  deriving DecidableEq, Repr, Inhabited

mutual
  inductive Node
    | tag (name : Str) (ws : Bool) (attrs : Attrs) (kids : Nodes)
    | text (s : Str)                                 -- `str` (numbers arrive here as their str())
    | html (s : Str)                                 -- `HTML`
    | robj (s : Str)                                 -- object with `_repr_html_()` = s, no `tagify`
    | mnode (n : Nat)                                -- bare MetadataNode
    | dep (d : DepInfo) (hasHead : Bool) (head : Nodes)   -- HTMLDependency
    | tobjL (rh : Option Str) (content : Nodes)      -- tagify() returns TagList(*content).tagify()
    | tobj1 (rh : Option Str) (content : Node)       -- tagify() returns content.tagify() / the leaf itself
  inductive Nodes
    | nil
    | cons (h : Node) (t : Nodes)
end

instance : Inhabited Node := ⟨.text []⟩
instance : Inhabited Nodes := ⟨.nil⟩

def Nodes.toList : Nodes → List Node
  | .nil => []
  | .cons h t => h :: t.toList

def Nodes.ofList : List Node → Nodes
  | [] => .nil
  | h :: t => .cons h (Nodes.ofList t)

def Nodes.append : Nodes → Nodes → Nodes
  | .nil, b => b
  | .cons h t, b => .cons h (t.append b)

instance : Append Nodes := ⟨Nodes.append⟩

def Nodes.length : Nodes → Nat
  | .nil => 0
  | .cons _ t => t.length + 1

/-- `isinstance(x, MetadataNode)` -/
def Node.isMeta : Node → Bool
  | .mnode _ => true
  | .dep .. => true
  | _ => false

def Node.isTag : Node → Bool
  | .tag .. => true
  | _ => false

/-- `[x for x in self.children if not isinstance(x, MetadataNode)]` -/
def Nodes.visible : Nodes → List Node
  | .nil => []
  | .cons h t => if h.isMeta then t.visible else h :: t.visible

mutual
  def Node.beq : Node → Node → Bool
    | .tag n w a k, .tag n' w' a' k' => n == n' && w == w' && a == a' && k.beq k'
    | .text s, .text s' => s == s'
    | .html s, .html s' => s == s'
    | .robj s, .robj s' => s == s'
    | .mnode n, .mnode n' => n == n'
    | .dep d h k, .dep d' h' k' => d == d' && h == h' && k.beq k'
    | .tobjL r c, .tobjL r' c' => r == r' && c.beq c'
    | .tobj1 r c, .tobj1 r' c' => r == r' && c.beq c'
    | _, _ => false
  def Nodes.beq : Nodes → Nodes → Bool
    | .nil, .nil => true
    | .cons h t, .cons h' t' => h.beq h' && t.beq t'
    | _, _ => false
end

end HtmlVerif
