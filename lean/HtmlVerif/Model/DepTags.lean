/-
How an HTMLDependency becomes URLs and tags (htmltools/_core.py):
  source_path_map  1635-1661
  as_html_tags     1663-1673
  as_dict          1698-1740
Shared by C11 / C12 / C13.  Imports: Paths, Attrs (→ Render, Escape, Tree) only.
-/
import HtmlVerif.Model.Paths
import HtmlVerif.Model.Attrs

namespace HtmlVerif

/-- an insertion-ordered `dict[str, str]` -/
abbrev KVs := List (Str × Str)

/-- `d[k] = v` on an insertion-ordered dict: replace in place, else append -/
def kvSet (k v : Str) : KVs → KVs
  | [] => [(k, v)]
  | (k', v') :: r => if k' = k then (k, v) :: r else (k', v') :: kvSet k v r

/-- `SourcePathMapping` -/
structure PathMap where
  source : Str
  href   : Str
  deriving DecidableEq, Repr, Inhabited

/-- the directory name of a dependency: `self.name` [`+ "-" + str(self.version)`] (_core.py:1655-1657) -/
def dirName (d : DepInfo) (iv : Bool) : Str :=
  d.name ++ (if iv then '-' :: d.version else [])

/-- `if lib_prefix: href = posixpath.join(lib_prefix, href)` — `None` and `""` are both falsy -/
def withPrefix (lp : Option Str) (href : Str) : Str :=
  match lp with
  | none => href
  | some l => if l.isEmpty then href else posixJoin l href

/-- `HTMLDependency.source_path_map(lib_prefix=lp, include_version=iv)`.
    For a `subdir` source the absolute source directory (`os.path.realpath(subdir)` or
    `os.path.join(package_dir(pkg), subdir)`) is the runtime's contribution, carried in the `DepSource`. -/
def sourcePathMap (d : DepInfo) (lp : Option Str) (iv : Bool) : PathMap :=
  match d.source with
  | .none => { source := [], href := [] }
  | .href h => { source := [], href := h }
  | .subdir _ _ abs => { source := abs, href := withPrefix lp (dirName d iv) }

/-- the URL written for the relative path `p` of a script / stylesheet:
    `posixpath.join(source_href, urllib.parse.quote(p))` -/
def urlOf (d : DepInfo) (lp : Option Str) (iv : Bool) (p : Str) : Str :=
  posixJoin (sourcePathMap d lp iv).href (quote p)

def dtKSrc : Str := ['s', 'r', 'c']
def dtKHref : Str := ['h', 'r', 'e', 'f']
def dtKRel : Str := ['r', 'e', 'l']
def vStylesheet : Str := ['s', 't', 'y', 'l', 'e', 's', 'h', 'e', 'e', 't']

/-- the `for s in stylesheets:` loop of `as_dict`; `s["href"]` raises KeyError when absent -/
def asDictSheets (base : Str) : List KVs → Except Err (List KVs)
  | [] => .ok []
  | s :: r =>
    match alookup dtKHref s with
    | none => .error .keyError
    | some p =>
      match asDictSheets base r with
      | .error e => .error e
      | .ok r' => .ok (kvSet dtKRel vStylesheet (kvSet dtKHref (posixJoin base (quote p)) s) :: r')

/-- the `for s in scripts:` loop of `as_dict` -/
def asDictScripts (base : Str) : List KVs → Except Err (List KVs)
  | [] => .ok []
  | s :: r =>
    match alookup dtKSrc s with
    | none => .error .keyError
    | some p =>
      match asDictScripts base r with
      | .error e => .error e
      | .ok r' => .ok (kvSet dtKSrc (posixJoin base (quote p)) s :: r')

/-- the fields of `as_dict()`'s result that depend on anything (name / version / meta are copied) -/
structure DepDict where
  script     : List KVs
  stylesheet : List KVs
  metas      : List KVs
  head       : Option Str
  deriving DecidableEq, Repr, Inhabited

def eolLF : Str := ['\n']

/-- `HTMLDependency.as_dict(lib_prefix=lp, include_version=iv)`: stylesheets, then scripts, then
    `self.head.get_html_string()` (which raises RuntimeError on an un-tagified object) -/
def asDict (cfg : Cfg) (d : DepInfo) (hasHead : Bool) (head : Nodes) (lp : Option Str) (iv : Bool) :
    Except Err DepDict :=
  let base := (sourcePathMap d lp iv).href
  match asDictSheets base d.stylesheet with
  | .error e => .error e
  | .ok sheets =>
    match asDictScripts base d.script with
    | .error e => .error e
    | .ok scripts =>
      if hasHead then
        match renderListChecked cfg head 0 eolLF true true with
        | .error e => .error e
        | .ok h => .ok { script := scripts, stylesheet := sheets, metas := d.metas, head := some h }
      else .ok { script := scripts, stylesheet := sheets, metas := d.metas, head := none }

/-- keyword names that collide with a parameter of `Tag.__init__(self, _name, *args, _add_ws=True, **kwargs)`:
    `self` / `_name` → "got multiple values"; `_add_ws` with a `str` value → "`_add_ws` must be `True` or `False`" -/
def reservedKw : List Str :=
  [['s', 'e', 'l', 'f'], ['_', 'n', 'a', 'm', 'e'], ['_', 'a', 'd', 'd', '_', 'w', 's']]

/-- `Tag(name, **kw)` for a `dict[str, str]` -/
def mkTag (cfg : Cfg) (name : Str) (kw : KVs) : Except Err Node :=
  if kw.any (fun kv => reservedKw.contains kv.1) then .error .typeError
  else match tagInitAttrs cfg [] (kw.map fun kv => (kv.1, AttrArg.str kv.2)) with
    | .error e => .error e
    | .ok a => .ok (.tag name true a .nil)

/-- `[Tag(name, **m) for m in ds]` -/
def mkTags (cfg : Cfg) (name : Str) : List KVs → Except Err (List Node)
  | [] => .ok []
  | m :: r =>
    match mkTag cfg name m with
    | .error e => .error e
    | .ok t =>
      match mkTags cfg name r with
      | .error e => .error e
      | .ok ts => .ok (t :: ts)

def nMeta : Str := ['m', 'e', 't', 'a']
def nLink : Str := ['l', 'i', 'n', 'k']
def nScript : Str := ['s', 'c', 'r', 'i', 'p', 't']

/-- `HTMLDependency.as_html_tags(lib_prefix=lp, include_version=iv)`:
    `TagList(*metas, *links, *scripts, self.head)` — meta, link, script tags, then the head's own nodes -/
def asHtmlTags (cfg : Cfg) (d : DepInfo) (hasHead : Bool) (head : Nodes) (lp : Option Str) (iv : Bool) :
    Except Err Nodes :=
  match asDict cfg d hasHead head lp iv with
  | .error e => .error e
  | .ok dd =>
    match mkTags cfg nMeta dd.metas with
    | .error e => .error e
    | .ok metas =>
      match mkTags cfg nLink dd.stylesheet with
      | .error e => .error e
      | .ok links =>
        match mkTags cfg nScript dd.script with
        | .error e => .error e
        | .ok scripts =>
          .ok (Nodes.ofList (metas ++ links ++ scripts) ++ (if hasHead then head else .nil))

end HtmlVerif
