"""Implementation side of the attribute-area ops (C15, C16, merge part of C03); see lean/HtmlVerif/Ops/Attrs.lean
for the line formats.  Every function runs the real htmltools code in-process."""
from __future__ import annotations

import sys

from adapters import HTML, Tag, TagList, canon, canon_list, realize  # noqa: F401
from ops import op
from wire import (Toks, p_list, p_str, p_bool, p_opt, p_attr, p_attrarg, p_attrpair, p_node, p_kv, es, eb, eattrs,
                  enodes, elist, eattrarg, eattrdict, eopt, err_of, ok_str)

import htmltools
from htmltools._core import TagAttrDict


class HarnessBug(Exception):
    """an ill-formed term reached the implementation side: never an answer of the code under test"""


def guarded(f):
    def g(t):
        try:
            return f(t)
        except HarnessBug as e:
            return "harness-bug " + str(e).replace(" ", "_")
    return g


# ------------------------------------------------------------------ what the running interpreter contributes
# every Unicode scalar value for which str.isspace() is true (str.split() / str.strip() use the same predicate)
WS_CHARS = "".join(chr(c) for c in range(sys.maxunicode + 1) if not (0xD800 <= c <= 0xDFFF) and chr(c).isspace())
WS_TOK = es(WS_CHARS)


def css_hyphen(k: str) -> str:
    """the string css() lower-cases (a hyphen before every ASCII capital); the Lean driver recomputes it and
    refuses the line if this copy disagrees, so it cannot influence a verdict"""
    return "".join("-" + c if "A" <= c <= "Z" else c for c in k)


def lower_table(keys) -> list:
    seen = {}
    for k in keys:
        h = css_hyphen(k)
        seen[h] = h.lower()
    return list(seen.items())


# ------------------------------------------------------------------ realise un-normalised attribute values
class BadAttr:
    """a value of a type TagAttrDict rejects"""

    def __repr__(self):
        return "<BadAttr>"


def realize_num(txt: str):
    try:
        v = int(txt)
    except ValueError:
        v = float(txt)
    if str(v) != txt:
        raise HarnessBug(f"number text {txt!r} is not the str() of the value it denotes")
    return v


def realize_attrarg(v):
    k = v[0]
    if k == "none":
        return None
    if k == "false":
        return False
    if k == "true":
        return True
    if k == "str":
        return v[1]
    if k == "html":
        return HTML(v[1])
    if k == "num":
        return realize_num(v[1])
    return BadAttr()


def realize_dict(d) -> dict:
    out = {}
    for k, v in d:
        if k in out:
            raise HarnessBug("duplicate raw key in a dict term")
        out[k] = realize_attrarg(v)
    return out


def canon_attrs(a) -> str:
    return eattrs([(k, ("h" if isinstance(v, HTML) else "p", str(v))) for k, v in a.items()])


def install_attrs(t: Tag, attrs) -> None:
    for k, v in attrs:
        dict.__setitem__(t.attrs, k, HTML(v[1]) if v[0] == "h" else v[1])


# ------------------------------------------------------------------ C15
@op("norm_name")
@guarded
def _norm_name(t: Toks) -> str:
    return es(TagAttrDict._normalize_attr_name(p_str(t)))


def p_dicts(t: Toks):
    return p_list(t, lambda t: p_list(t, p_attrpair))


def p_astep(t: Toks):
    k = t.next()
    if k == "u":
        return ("u", p_dicts(t), p_list(t, p_attrpair))
    return ("s", p_str(t), p_attrarg(t))


@op("ahist")
@guarded
def _ahist(t: Toks) -> str:
    dicts = p_dicts(t)
    kw = p_list(t, p_attrpair)
    steps = p_list(t, p_astep)
    rd, rk = [realize_dict(d) for d in dicts], realize_dict(kw)
    try:
        tag = Tag("div", *rd, **rk)
    except Exception as e:
        return err_of(e)
    out = ["ok " + canon_attrs(tag.attrs)]
    for s in steps:
        if s[0] == "u":
            rd, rk = [realize_dict(d) for d in s[1]], realize_dict(s[2])
        else:
            rv = realize_attrarg(s[2])
        try:
            if s[0] == "u":
                tag.attrs.update(*rd, **rk)
            else:
                tag.attrs[s[1]] = rv
            out.append("ok " + canon_attrs(tag.attrs))
        except Exception as e:
            out.append(err_of(e) + " " + canon_attrs(tag.attrs))
    return " ".join(out)


def p_tagarg(t: Toks):
    k = t.next()
    if k == "d":
        return ("d", p_list(t, p_attrpair))
    return ("c", p_node(t))


@op("consolidate")
@guarded
def _consolidate(t: Toks) -> str:
    args = p_list(t, p_tagarg)
    kw = realize_dict(p_list(t, p_attrpair))
    real = [realize_dict(a[1]) if a[0] == "d" else realize(a[1]) for a in args]
    attrs, kids = htmltools.consolidate_attrs(*real, **kw)
    given = [x for x in real if not isinstance(x, dict)]
    identical = len(kids) == len(given) and all(a is b for a, b in zip(kids, given))
    rebuilt = Tag("x", attrs, *kids)
    direct = Tag("x", *real, **kw)
    same = canon(rebuilt) == canon(direct)
    assert type(attrs) is dict
    return "ok " + canon_attrs(attrs) + " " + enodes(canon_list(kids)) + " " + eb(same) + " " + eb(identical)


@op("attr_render")
@guarded
def _attr_render(t: Toks) -> str:
    dicts = p_dicts(t)
    kw = p_list(t, p_attrpair)
    tag = Tag("div", *[realize_dict(d) for d in dicts], **realize_dict(kw))
    return ok_str(str(tag))


# ------------------------------------------------------------------ C16
def p_cstep(t: Toks):
    k = t.next()
    if k == "ac":
        return ("ac", p_str(t), p_bool(t))
    if k in ("rc", "hc"):
        return (k, p_str(t))
    return ("as", p_attrarg(t), p_bool(t))


def _ret(tag: Tag, kids0, call) -> str:
    try:
        r = call()
    except Exception as e:
        return "E" + err_of(e)[4:]
    same = (r is tag and tag.name == "div" and tag.add_ws is True and len(tag.children) == len(kids0)
            and all(a is b for a, b in zip(tag.children, kids0)))
    return "S" if same else "O"


@op("chist")
@guarded
def _chist(t: Toks) -> str:
    p_str(t)  # the whitespace table: the real str.split()/strip() need none
    attrs = p_list(t, p_attr)
    steps = p_list(t, p_cstep)
    tag = Tag("div", "k")
    install_attrs(tag, attrs)
    kids0 = list(tag.children)
    out = []
    for s in steps:
        if s[0] == "ac":
            r = _ret(tag, kids0, lambda: tag.add_class(s[1], prepend=s[2]))
            out.append(r + " " + eb(tag.has_class(s[1]) is True) + " " + canon_attrs(tag.attrs))
        elif s[0] == "rc":
            r = _ret(tag, kids0, lambda: tag.remove_class(s[1]))
            out.append(r + " " + canon_attrs(tag.attrs))
        elif s[0] == "hc":
            h = tag.has_class(s[1])
            out.append(("T" if h is True else "F" if h is False else "O") + " " + canon_attrs(tag.attrs))
        else:
            v = realize_attrarg(s[1])
            r = _ret(tag, kids0, lambda: tag.add_style(v, prepend=s[2]))
            out.append(r + " " + canon_attrs(tag.attrs))
    return " ".join(out)


def p_cssval(t: Toks):
    k = t.next()
    if k == "cn":
        return ("cn",)
    if k == "ct":
        return ("ct", p_str(t))
    if k == "co":
        return ("co", t.next(), p_str(t))
    if k == "cl":
        return ("cl", p_list(t, p_str))
    return ("cb",)


def ecssval(v) -> str:
    k = v[0]
    if k in ("cn", "cb"):
        return k
    if k == "ct":
        return "ct " + es(v[1])
    if k == "co":
        return "co " + v[1] + " " + es(v[2])
    return "cl " + elist([es(x) for x in v[1]])


def realize_cssval(v):
    k = v[0]
    if k == "cn":
        return None
    if k == "ct":
        return v[1]
    if k == "cl":
        return list(v[1])
    if k == "cb":
        return ["a", 1]
    kind, txt = v[1], v[2]
    x = {"i": lambda: int(txt), "f": lambda: float(txt), "b": lambda: txt == "True"}[kind]()
    if str(x) != txt:
        raise HarnessBug(f"css value text {txt!r} is not the str() of the value it denotes")
    return x


@op("css")
@guarded
def _css(t: Toks) -> str:
    p_list(t, p_kv)  # lower-casing table: the real str.lower() needs none
    collapse = p_opt(t)
    kw = p_list(t, lambda t: (p_str(t), p_cssval(t)))
    kwargs = {}
    for k, v in kw:
        if k in kwargs or k == "collapse_":
            raise HarnessBug("duplicate css key in term")
        kwargs[k] = realize_cssval(v)
    r = htmltools.css(1.5 if collapse is None else collapse, **kwargs)
    if r is None:
        return "ok N"
    assert type(r) is str
    try:
        Tag("div").add_style(r)
        acc = True
    except ValueError:
        acc = False
    return "ok S " + es(r) + " " + eb(acc)


# ------------------------------------------------------------------ line builders (used by the runners)
def ahist_line(dicts, kw, steps) -> str:
    def estep(s):
        if s[0] == "u":
            return "u " + elist([eattrdict(d) for d in s[1]]) + " " + eattrdict(s[2])
        return "s " + es(s[1]) + " " + eattrarg(s[2])
    return "ahist " + elist([eattrdict(d) for d in dicts]) + " " + eattrdict(kw) + " " + elist([estep(s) for s in steps])


def attr_render_line(dicts, kw) -> str:
    return "attr_render " + elist([eattrdict(d) for d in dicts]) + " " + eattrdict(kw)


def consolidate_line(args, kw) -> str:
    from wire import enode
    return ("consolidate " + elist([("d " + eattrdict(a[1])) if a[0] == "d" else ("c " + enode(a[1])) for a in args])
            + " " + eattrdict(kw))


def chist_line(attrs, steps) -> str:
    def estep(s):
        if s[0] == "ac":
            return "ac " + es(s[1]) + " " + eb(s[2])
        if s[0] in ("rc", "hc"):
            return s[0] + " " + es(s[1])
        return "as " + eattrarg(s[1]) + " " + eb(s[2])
    return "chist " + WS_TOK + " " + eattrs(attrs) + " " + elist([estep(s) for s in steps])


def css_line(collapse, kw) -> str:
    tbl = lower_table([k for k, _ in kw])
    return ("css " + elist([es(a) + " " + es(b) for a, b in tbl]) + " " + eopt(collapse) + " "
            + elist([es(k) + " " + ecssval(v) for k, v in kw]))


# ------------------------------------------------------------------ replay files: a public-API reproduction of a line
def _py_val(v) -> str:
    k = v[0]
    return {"none": "None", "false": "False", "true": "True", "bad": "object()"}.get(k) or (
        repr(v[1]) if k == "str" else f"HTML({v[1]!r})" if k == "html" else v[1] if v[1] not in ("inf", "-inf", "nan")
        else f"float({v[1]!r})")


def _py_dict(d) -> str:
    return "{" + ", ".join(f"{k!r}: {_py_val(v)}" for k, v in d) + "}"


def _py_stored(v) -> str:
    return f"HTML({v[1]!r})" if v[0] == "h" else repr(v[1])


def python_snippet(line: str) -> str:
    """Python (public API) reproducing what the op line does"""
    t = Toks(line)
    name = t.next()
    pre = "from htmltools import *\n"
    try:
        if name in ("ahist", "attr_render"):
            dicts, kw = p_dicts(t), p_list(t, p_attrpair)
            args = ", ".join([_py_dict(d) for d in dicts] + ([f"**{_py_dict(kw)}"] if kw else []))
            s = pre + f"t = Tag('div'{', ' if args else ''}{args})\n"
            if name == "attr_render":
                return s + "print(str(t))"
            s += "print(list(t.attrs.items()))\n"
            for st in p_list(t, p_astep):
                if st[0] == "u":
                    a = ", ".join([_py_dict(d) for d in st[1]] + ([f"**{_py_dict(st[2])}"] if st[2] else []))
                    s += f"t.attrs.update({a}); print(list(t.attrs.items()))\n"
                else:
                    s += f"t.attrs[{st[1]!r}] = {_py_val(st[2])}; print(list(t.attrs.items()))\n"
            return s
        if name == "chist":
            p_str(t)
            attrs = p_list(t, p_attr)
            s = pre + "t = div('k', {" + ", ".join(f"{k!r}: {_py_stored(v)}" for k, v in attrs) + "})\n"
            for st in p_list(t, p_cstep):
                if st[0] == "ac":
                    s += f"print(t.add_class({st[1]!r}, prepend={st[2]}) is t, t.has_class({st[1]!r}), dict(t.attrs))\n"
                elif st[0] == "rc":
                    s += f"print(t.remove_class({st[1]!r}) is t, dict(t.attrs))\n"
                elif st[0] == "hc":
                    s += f"print(t.has_class({st[1]!r}))\n"
                else:
                    s += f"print(t.add_style({_py_val(st[1])}, prepend={st[2]}) is t, dict(t.attrs))\n"
            return s
        if name == "css":
            p_list(t, p_kv)
            collapse = p_opt(t)
            kw = p_list(t, lambda t: (p_str(t), p_cssval(t)))
            def cv(v):
                return {"cn": "None", "cb": "['a', 1]"}.get(v[0]) or (repr(v[1]) if v[0] in ("ct", "cl") else v[2])
            return pre + f"print(css({'1.5' if collapse is None else repr(collapse)}, **{{" + ", ".join(
                f"{k!r}: {cv(v)}" for k, v in kw) + "}))"
        if name == "consolidate":
            return pre + "# consolidate_attrs(*args, **kw) with the arguments of the wire line (see `line`)"
        if name == "norm_name":
            return f"from htmltools._core import TagAttrDict\nprint(TagAttrDict._normalize_attr_name({p_str(t)!r}))"
    except Exception as e:  # a reproduction aid only
        return f"# (no snippet: {type(e).__name__}: {e})"
    return ""


def describe(ck):
    """`shrink=` hook of Check.finish: attach the model's answer and a public-API snippet to the reported failure"""
    import core

    def f(fail):
        model = fail.model
        if not model and ck.driver is not None:
            model = ck.driver.run([fail.line])[0]
        return core.Failure(fail.kind, line=fail.line, impl=fail.impl, model=model, detail=fail.detail,
                            py=fail.py or python_snippet(fail.line))
    return f
