"""C15 — Attribute names and values are normalised and merged in argument order."""
from __future__ import annotations

import itertools

import core
import gen
import ops  # noqa: F401  (registers the implementation side of every op)
from ops_attrs import ahist_line, attr_render_line, consolidate_line, consolidate_args_line, describe
from wire import es

PID = "C15"
MANIFEST = dict(
    text="Lean theorems over the model of TagAttrDict / Tag.__init__ / consolidate_attrs (Model/Attrs.lean, "
         "Model/Consolidate.lean), all inputs: C15_normName_spec/_no_underscore/_idem, C15_normValue_spec; "
         "C15_init_is_merge (attributes of Tag(*dicts, **kw) = closed form mergeSpec over positional dicts left to "
         "right then keywords) with C15_merge_order (first-appearance order), C15_merge_value / _plain / _html / "
         "_text (values of one name joined by single spaces in argument order; dropped values do not take part); "
         "C15_update_replaces / _update_lookup / _setitem_replaces (a later call overrides, keeps positions, appends "
         "new names; never appends to the old value); error twins C15_*_rejects; representation invariant C15_wf_*; "
         "C15_consolidate_spec / _error / _rebuild (consolidate_attrs returns exactly those attributes plus the "
         "non-dict arguments, and Tag(name, attrs, *children) rebuilt from its result equals direct construction). "
         "Tie: exact equality of list(tag.attrs.items()) with value kind after every step of histories "
         "(construction, then update / item assignment), of consolidate_attrs output (children by identity) and of "
         "rebuilt-vs-direct tags, exhaustive small scope + random; the spec-side closed forms are evaluated by the Lean "
         "driver on the real answers (holds C15), each step judged from the implementation's own previous state.",
    design="DESIGN.md §6 C15",
    note="Modelled, not verified: Python dict insertion order and isinstance dispatch; str(number) is supplied by the "
         "harness; whether the children of consolidate_attrs are accepted is C14's model of TagList(*children) "
         "(consolidate_args: unsupported objects, dicts / sets inside lists, bytes, range … among the children; generators, "
         "being one-shot, are not generated). The merge of a plain "
         "with an HTML() value is modelled as C03 demands (attribute-escaped), so the pinned tree shows F-C03 here "
         "until fixes/C03-merge-attr-escape.patch is applied.",
    technique="Lean 4 proofs (closed form of a fold over association lists, override lemma, round trip) + "
              "differential correspondence check on histories",
)
PROP_FILES = ["HtmlVerif/Props/C15.lean", "HtmlVerif/Props/SrcAttrs.lean", "HtmlVerif/Props/SrcC15b.lean"]

NAMES = ["x", "x_", "x__", "a_b", "a-b", "_", "class_"]
VALUES = [("str", "v"), ("str", ""), ("html", "h"), ("true",), ("false",), ("none",), ("num", "0"), ("num", "1.5"),
          ("str", 'q"<'), ("bad",)]
NAMES_S = ["x", "x_", "a_b"]
VALUES_S = [("str", "v"), ("html", "h<"), ("true",), ("none",), ("num", "1"), ("str", 'q"&')]
PAIRS = [(n, v) for n in NAMES for v in VALUES]
PAIRS_S = [(n, v) for n in NAMES_S for v in VALUES_S]

RAND_NAMES = NAMES + ["", "class", "style", "id", "data_x", "data-x", "data_x_", "__", "é_", "A_b", "x___", "-", "a__b", "😀_"]


def splits(seq):
    """all ways of giving the pair sequence `seq` as positional dicts followed by a keyword dict, such that raw keys
    inside one dict are distinct (a Python dict cannot say the same key twice)"""
    n = len(seq)
    out = []
    for kwlen in range(0, n + 1):
        pos, kw = seq[: n - kwlen], seq[n - kwlen:]
        if len({k for k, _ in kw}) != len(kw):
            continue
        # cut `pos` into consecutive non-empty dicts
        for cuts in itertools.product([0, 1], repeat=max(0, len(pos) - 1)):
            dicts, cur = [], []
            for i, p in enumerate(pos):
                cur.append(p)
                if i == len(pos) - 1 or cuts[i]:
                    dicts.append(cur)
                    cur = []
            if all(len({k for k, _ in d}) == len(d) for d in dicts):
                out.append((dicts, kw))
    return out


def merges(dicts, kw, steps=()) -> bool:
    """non-trivial: some normalised name is supplied at least twice in one call, or a later call follows"""
    def norm(k):
        k = k[:-1] if k.endswith("_") else k
        return k.replace("_", "-")
    seen = set()
    for k, v in [p for d in dicts for p in d] + list(kw):
        if v[0] in ("none", "false", "bad"):
            continue
        if norm(k) in seen:
            return True
        seen.add(norm(k))
    return len(steps) > 0


def rand_value(rng):
    r = rng.random()
    if r < 0.35:
        return ("str", gen.rand_text(rng, 6))
    if r < 0.55:
        return ("html", gen.rand_text(rng, 6))
    if r < 0.63:
        return ("true",)
    if r < 0.69:
        return ("false",)
    if r < 0.77:
        return ("none",)
    if r < 0.9:
        x = rng.choice([0, 1, -3, 10 ** 20, 1.5, -0.0, 1e100, 2.0, float("inf"), 7])
        return ("num", str(x))
    if r < 0.93:
        return ("bad",)
    return ("str", "")


def rand_dict(rng, maxn=4):
    names = rng.sample(RAND_NAMES, rng.randint(0, maxn))
    if gen.EXTRA and rng.random() < 0.5:
        # a literal new in the source, spelled as it is and as the raw name that normalises to it
        w = rng.choice(gen.EXTRA)
        names.insert(rng.randint(0, len(names)), rng.choice([w, w.replace("-", "_"), w + "_"]))
        names = list(dict.fromkeys(names))
    return [(n, rand_value(rng)) for n in names]


def rand_step(rng):
    if rng.random() < 0.5:
        return ("s", gen.extra_or(rng, RAND_NAMES), rand_value(rng))
    return ("u", [rand_dict(rng, 3) for _ in range(rng.randint(0, 3))], rand_dict(rng, 2) if rng.random() < 0.5 else [])


def rand_tagargs(rng):
    args = []
    for _ in range(rng.randint(0, 5)):
        if rng.random() < 0.5:
            args.append(("d", rand_dict(rng, 3)))
        else:
            args.append(("c", gen.rand_node(rng, rng.randint(0, 2), leaves=("text", "html", "meta"))))
    return args


def _no_gen_no_top_dict(a, top=True) -> bool:
    """generators are one-shot (the throw-away Tag consumes them); a dict at top level is an attribute dict"""
    if a[0] == "seq":
        if a[1] == "gen" or (top and a[1] == "dict"):
            return False
        return all(_no_gen_no_top_dict(x, False) for x in a[2])
    if a[0] in ("list", "tuple", "tl"):
        return all(_no_gen_no_top_dict(x, False) for x in a[1])
    return True


BAD_KIDS = [("bad", 0), ("bad", 2), ("bad", 8), ("list", [("bad", 0)]), ("list", [("seq", "dict", [("node", ("text", "k"))])]),
            ("tuple", [("node", ("text", "a")), ("seq", "set", [("node", ("text", "k"))])]), ("seq", "bytes", [("num", "i", "65")]),
            ("seq", "range", [("num", "i", "0")]), ("tl", [("bad", 1)]), ("list", [("none",), ("list", [("bad", 3)])])]
GOOD_KIDS = [("node", ("text", "k0")), ("none",), ("num", "i", "3"), ("num", "f", "1.5"), ("node", ("tag", "span", False, [], [])),
             ("list", [("node", ("text", "a")), ("none",), ("tuple", [("num", "i", "1")])]), ("node", ("html", "<b>")),
             ("tl", [("node", ("text", "t"))]), ("list", [])]


def rand_tagargs_any(rng):
    """positional arguments of consolidate_attrs with arbitrary values among the children"""
    from props.c14 import rand_arg
    args = []
    for _ in range(rng.randint(0, 5)):
        r = rng.random()
        if r < 0.35:
            args.append(("d", rand_dict(rng, 3)))
        elif r < 0.5:
            args.append(("a", rng.choice(BAD_KIDS)))
        else:
            a = rand_arg(rng, rng.randint(0, 3), bad_p=rng.choice([0.0, 0.04, 0.15]))
            while not _no_gen_no_top_dict(a):
                a = rand_arg(rng, rng.randint(0, 3), bad_p=0.04)
            args.append(("a", a))
    return args


def run(tier: str) -> int:
    ck = core.Check(PID, tier, PROP_FILES)
    ck.prepare()
    rng = ck.rng
    thorough = tier == "thorough"
    ck.rule = ("a case is one history: Tag(*dicts, **kw) followed by update / item-assignment calls (or one "
               "consolidate_attrs call, or one name normalisation); non-trivial = some normalised name is supplied "
               "at least twice within one call, or a later call follows the construction; distinct by wire term")
    cases: list[tuple[str, bool, str]] = []  # (line, nontrivial, tag)

    # 0. corpus: the suite's literal cases, the F-C03 witness, collisions
    corpus = [
        ([[("class", ("str", "a"))], [("class_", ("str", "b"))]], [("class_", ("str", "c"))], []),
        ([[("x", ("str", "1"))]], [("x_", ("str", "2")), ("x__", ("str", "3"))], []),
        ([[("class", ("str", 'a"b'))], [("class", ("html", "x"))]], [], []),
        ([[("class", ("html", "x"))], [("class", ("str", "a'\r\n"))]], [], []),
        ([[("a", ("none",)), ("b", ("str", "1"))], [("a", ("str", "2")), ("b", ("false",))]], [("a_", ("true",))],
         [("u", [[("b", ("str", "new"))], [("b_", ("num", "2"))]], [("c", ("true",))]), ("s", "a", ("none",)), ("s", "a__", ("html", "&"))]),
        ([], [("_", ("str", "u")), ("__", ("str", "v"))], [("u", [[("x", ("bad",)), ("y", ("str", "1"))]], [])]),
    ]
    for d, kw, st in corpus:
        cases.append((ahist_line(d, kw, st), True, "corpus"))
        cases.append((attr_render_line(d, kw), True, "corpus"))

    # 1. name normalisation: every string of length <= 5 over {_, -, a}
    n_names = 0
    for n in range(0, 6 if thorough else 5):
        for tup in itertools.product("_-a", repeat=n):
            cases.append(("norm_name " + es("".join(tup)), "_" in tup, "norm_name"))
            n_names += 1
    ck.exhaustive_scopes.append({"scope": f"_normalize_attr_name on all strings of length <= {5 if thorough else 4} over {{_,-,a}}",
                                 "cases": n_names, "exhaustive": True})

    # 2. one call: all pair sequences of length <= 2 over 7 raw names x 10 values, every split into dicts / keywords
    n_a = 0
    for n in (0, 1, 2):
        for seq in itertools.product(PAIRS, repeat=n):
            for dicts, kw in splits(list(seq)):
                cases.append((ahist_line(dicts, kw, []), merges(dicts, kw), "init<=2"))
                n_a += 1
    ck.exhaustive_scopes.append({"scope": "Tag(*dicts, **kw): all sequences of <= 2 (name, value) pairs over raw names "
                                          f"{NAMES} x values {[v[0] + (':' + v[1] if len(v) > 1 else '') for v in VALUES]}, "
                                          "every split into positional dicts and keywords", "cases": n_a, "exhaustive": True})
    # 3. one call: all sequences of 3 pairs over the colliding names x 6 values, every split
    n_b = 0
    for seq in itertools.product(PAIRS_S, repeat=3):
        sp = splits(list(seq))
        if not thorough:
            sp = rng.sample(sp, min(2, len(sp)))
        for dicts, kw in sp:
            cases.append((ahist_line(dicts, kw, []), merges(dicts, kw), "init=3"))
            n_b += 1
    ck.exhaustive_scopes.append({"scope": f"Tag(*dicts, **kw): all sequences of 3 pairs over {NAMES_S} x 6 values "
                                          + ("x every split" if thorough else "x 2 sampled splits"),
                                 "cases": n_b, "exhaustive": thorough})
    if thorough:
        for seq in itertools.product(PAIRS_S, repeat=4):
            sp = splits(list(seq))
            for dicts, kw in rng.sample(sp, min(1, len(sp))):
                cases.append((ahist_line(dicts, kw, []), merges(dicts, kw), "init=4"))
    # 4. histories: construction, then <= 2 update / item-assignment calls
    inits1 = [([], [])] + [([[p]], []) for p in PAIRS_S] + [([], [p]) for p in PAIRS_S[:6]] \
        + [([[("x", ("str", "v")), ("a_b", ("html", "h"))]], [("x_", ("num", "1"))])]
    steps1 = [("s", n, v) for n, v in PAIRS] + [("u", [[p]], []) for p in PAIRS_S] \
        + [("u", [[p], [q]], []) for p in PAIRS_S for q in PAIRS_S] + [("u", [], [p]) for p in PAIRS_S[:6]] \
        + [("u", [[p]], [q]) for p in PAIRS_S[:6] for q in PAIRS_S[:6]]
    n_c = 0
    for (d, kw) in inits1:
        for s in steps1:
            cases.append((ahist_line(d, kw, [s]), True, "hist1"))
            n_c += 1
    steps2 = [("s", n, v) for n, v in PAIRS_S] + [("u", [[p]], []) for p in PAIRS_S] + [("u", [[("x", ("bad",))]], [])]
    inits2 = inits1 if thorough else inits1[:8] + inits1[-1:]
    for (d, kw) in inits2:
        for s1 in steps2:
            for s2 in steps2:
                cases.append((ahist_line(d, kw, [s1, s2]), True, "hist2"))
                n_c += 1
    ck.exhaustive_scopes.append({"scope": f"histories: {len(inits1)} constructions x {len(steps1)} single calls, and "
                                          f"{len(inits2)} constructions x {len(steps2)}^2 pairs of calls "
                                          "(update with 1-2 dicts / keywords, item assignment, one rejected call)",
                                 "cases": n_c, "exhaustive": True})
    # 5. random large
    for _ in range(ck.budget(6000, 150000)):
        dicts = [rand_dict(rng) for _ in range(rng.randint(0, 4))]
        kw = rand_dict(rng, 3) if rng.random() < 0.6 else []
        steps = [rand_step(rng) for _ in range(rng.choice([0, 0, 1, 2, 3, 5]))]
        cases.append((ahist_line(dicts, kw, steps), merges(dicts, kw, steps), "random"))
        if rng.random() < 0.15:
            cases.append((attr_render_line(dicts, kw), merges(dicts, kw), "render"))
    # 6. consolidate_attrs
    for _ in range(ck.budget(2500, 40000)):
        args = rand_tagargs(rng)
        kw = rand_dict(rng, 3) if rng.random() < 0.6 else []
        cases.append((consolidate_line(args, kw), merges([a[1] for a in args if a[0] == "d"], kw) or bool(args),
                      "consolidate"))
    for seq in itertools.product(PAIRS_S, repeat=2):
        for dicts, kw in splits(list(seq)):
            args = [("c", ("text", "k0"))]
            for d in dicts:
                args += [("d", d), ("c", ("tag", "span", False, [], []))]
            cases.append((consolidate_line(args, kw), True, "consolidate-small"))

    # 7. consolidate_attrs with arbitrary values among the non-dict arguments: raises iff building the tag raises
    n_ca = 0
    kid_pool = BAD_KIDS + GOOD_KIDS
    dict_opts = [None, [("x", ("str", "v"))], [("x_", ("bad",))]]
    for n in (1, 2):
        for kids in itertools.product(kid_pool, repeat=n):
            for d in dict_opts:
                for pos in range(n + 1):
                    args = [("a", k) for k in kids]
                    if d is not None:
                        args.insert(pos, ("d", d))
                    elif pos:
                        continue
                    for kw in ([], [("a_b", ("html", "h"))]):
                        cases.append((consolidate_args_line(args, kw), True, "consolidate-args-small"))
                        n_ca += 1
    ck.exhaustive_scopes.append({"scope": f"consolidate_attrs(*args, **kw): all sequences of <= 2 children over {len(BAD_KIDS)} unsupported "
                                          f"values (objects, dict / set inside a list, bytes, range, raw TagList data) and {len(GOOD_KIDS)} "
                                          "supported ones, with no / a valid / an invalid attribute dict at every position, with and "
                                          "without a keyword", "cases": n_ca, "exhaustive": True})
    for _ in range(ck.budget(2500, 40000)):
        args = rand_tagargs_any(rng)
        kw = rand_dict(rng, 3) if rng.random() < 0.5 else []
        cases.append((consolidate_args_line(args, kw), bool(args), "consolidate-args"))

    cases.sort(key=lambda c: len(c[0]))  # the first failing input reported is then a shortest one
    lines = [c[0] for c in cases]
    impl = core.impl_many(lines)
    for (l, nt, tag), im in zip(cases, impl):
        # a realised term that does not read back as the term (on the unchanged tree this never happens — every clean run
        # checks it): the implementation's doing, e.g. a name or text that depends on earlier calls; it is kept as the
        # implementation's answer, which no model answer equals
        ck.add(l, im, nontrivial=nt, tag=tag)
    ck.add_src(['normalize_attr_name', 'normalize_attr_value', 'TagAttrDict_update', 'TagAttrDict_setitem'])
    ck.add_src(['TagAttrDict_initC15b', 'Tag_initC15b', 'Tag_insertC15b', 'Tag_extendC15b', 'Tag_appendC15b', 'consolidate_attrsC15b'])
    ck.correspond(holds=True)
    return ck.finish(shrink=describe(ck))
