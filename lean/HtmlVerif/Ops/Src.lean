/-
Driver op that *runs* the functions regenerated from the source text (Generated/Src.lean) — the executable side
of the source tie (DESIGN §14).  The harness calls the real Python function on the same values; a difference means
the translator or the stated semantics of the Python fragment (Py/Prim.lean) is not faithful on that input.

  src <function> [ <pval>… ]      → ok <pval> | err <kind>
  pval := N | T | F | I <int> | D <str> | S <str> | H <str> | L [ <pval>… ] | U [ <pval>… ]
        | M [ (<str> <pval>)… ] | O <class> [ (<field> <pval>)… ]
-/
import HtmlVerif.Ops.Base
import HtmlVerif.Generated.Src

namespace HtmlVerif.Ops
open HtmlVerif HtmlVerif.Wire HtmlVerif.Py

private def G : Globals :=
  { HTML_ESCAPE_TABLE := embTbl cfg.textTbl, HTML_ATTRS_ESCAPE_TABLE := embTbl cfg.attrTbl,
    VOID_TAG_NAMES := cfg.void, NO_ESCAPE_TAG_NAMES := cfg.noesc, isSpace := fun _ => false, lower := id }

private partial def pval : P PVal := do
  let t ← next
  match t with
  | "N" => pure .none
  | "T" => pure (.bool true)
  | "F" => pure (.bool false)
  | "I" => do
    let s ← next
    match s.toInt? with
    | some n => pure (.int n)
    | none => throw s!"bad int {s}"
  | "D" => .float <$> str
  | "S" => .str <$> str
  | "H" => .html <$> str
  | "L" => .list <$> listOf pval
  | "U" => .tuple <$> listOf pval
  | "M" => .dict <$> listOf (do let k ← str; let v ← pval; pure (k, v))
  | "O" => do
    let c ← next
    let fs ← listOf (do let k ← next; let v ← pval; pure (k, v))
    pure (.obj c fs)
  | _ => throw s!"bad pval {t}"

private partial def encPVal : PVal → String
  | .none => "N"
  | .bool true => "T"
  | .bool false => "F"
  | .int n => s!"I {n}"
  | .float t => "D " ++ encStr t
  | .str s => "S " ++ encStr s
  | .html s => "H " ++ encStr s
  | .list xs => "L " ++ encList (xs.map encPVal)
  | .tuple xs => "U " ++ encList (xs.map encPVal)
  | .dict kvs => "M " ++ encList (kvs.map fun kv => encStr kv.1 ++ " " ++ encPVal kv.2)
  | .obj c fs => "O " ++ c ++ " " ++ encList (fs.map fun kv => kv.1 ++ " " ++ encPVal kv.2)

private def encPyErr : PyErr → String
  | .typeError => "err TypeError"
  | .valueError => "err ValueError"
  | .keyError => "err KeyError"
  | .indexError => "err IndexError"
  | .attributeError => "err AttributeError"
  | .runtimeError => "err RuntimeError"
  | .notImplemented => "err NotImplementedError"
  | .exception => "err Exception"
  | .fuel => "unsupported fuel"
  | .unsupported => "unsupported"

def srcOps : OpTable
  | "src" => some do
    let f ← next
    let a ← listOf pval
    match Generated.Src.runByName G f a with
    | none => pure "unsupported"      -- not translated (left the fragment) or unknown: no verdict
    | some r =>
      match r with
      | .ok v => pure ("ok " ++ encPVal v)
      | .error e => pure (encPyErr e)
  | _ => none

end HtmlVerif.Ops
