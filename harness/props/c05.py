"""C05 — No whitespace is ever injected into inline content."""
from __future__ import annotations

import core
import gen

PID = "C05"
MANIFEST = dict(
    text="Lean theorems, all by mutual structural induction for all trees / indent / eol: C05_flat (a whitespace-free subtree renders as "
         "indent ++ the exact concatenation of open tags, content, close tags), C05_contiguous (that string is an infix of the rendering of any "
         "tree containing it as a visible descendant, block-inside-inline nestings included), C05_adjacent (adjacent whitespace-free siblings "
         "are emitted back to back), C05_ws_sites / C05_ws_sites_list (over the piece view proved equal to the output by render_eq_pieces: every "
         "maximal run of layout whitespace is immediately after or before the opening/closing tag of a whitespace-enabled tag). The executable "
         "statement of clauses 1-3 is evaluated by the Lean driver on the real output of every generated case; clause 4 transfers through the "
         "exact-string correspondence.",
    design="DESIGN.md §6 C05",
    note="Modelled, not verified: Python isinstance dispatch; str * int.",
    technique="Lean 4 proof by mutual structural induction + differential correspondence check (exact string)",
)
PROP_FILES = ["HtmlVerif/Props/C05.lean", "HtmlVerif/Props/ConstsRender.lean", "HtmlVerif/Props/SrcRender.lean"]


def no_ws(n) -> bool:
    if n[0] == "tag":
        return (not n[2]) and all(no_ws(c) for c in n[4])
    return True


def has_inline_part(n) -> bool:
    """contains a whitespace-free tag subtree or two adjacent whitespace-free siblings"""
    if n[0] != "tag":
        return False
    if no_ws(n):
        return True
    vis = [c for c in n[4] if c[0] not in ("meta", "dep")]
    if any(no_ws(a) and no_ws(b) for a, b in zip(vis, vis[1:])):
        return True
    return any(has_inline_part(c) for c in n[4])


def run(tier: str) -> int:
    ck = core.Check(PID, tier, PROP_FILES)
    ck.prepare()
    ck.rule = ("a case is one rendering (tree or list, indent, eol); non-trivial = the tree contains a whitespace-free tag "
               "subtree or two adjacent whitespace-free siblings (so clauses 1-3 of the statement are exercised); distinct by wire term")
    fns = gen.fn_catalogue(ck.proof.translate_info)
    lines, scopes = gen.render_lines(ck.rng, tier, ck.budget, all_fns=fns)
    ck.exhaustive_scopes += scopes
    impl = core.impl_many(lines)
    from wire import Toks, p_node, p_list
    for l, im in zip(lines, impl):
        opn, rest = l.split(" ", 1)
        t = Toks(rest)
        if opn == "render_tag":
            nt = has_inline_part(p_node(t))
        else:
            ks = p_list(t, p_node)
            nt = any(has_inline_part(k) for k in ks) or len(ks) > 1
        ck.add(l, im, nontrivial=nt, tag=opn)
    import histories
    for l, im in histories.render_history_cases(ck.rng, ck.budget(1500, 20000), all_fns=fns):
        ck.add(l, im, nontrivial=True, tag="render_after_edits")
    ck.exhaustive_scopes.append({"scope": "render – edit in place through the public API – render again histories (stale-state detection)", "exhaustive": False})
    ck.add_src(['Tag_get_html_string', 'TagList_get_html_string'], quick=250, thorough=2500)
    ck.correspond(holds=True)
    return ck.finish()
