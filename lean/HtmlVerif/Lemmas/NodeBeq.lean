/-
`Node.beq` / `Nodes.beq` are reflexive (used to show the executable statement of C10 accepts the model's own output).
-/
import HtmlVerif.Model.Tree

namespace HtmlVerif

mutual
  theorem Node.beq_refl (n : Node) : n.beq n = true := by
    cases n with
    | tag nm w a k => simp [Node.beq, Nodes.beq_refl k]
    | text s => simp [Node.beq]
    | html s => simp [Node.beq]
    | robj s => simp [Node.beq]
    | mnode m => simp [Node.beq]
    | dep d h k => simp [Node.beq, Nodes.beq_refl k]
    | tobjL r c => simp [Node.beq, Nodes.beq_refl c]
    | tobj1 r c => simp [Node.beq, Node.beq_refl c]
  theorem Nodes.beq_refl (ks : Nodes) : ks.beq ks = true := by
    cases ks with
    | nil => simp [Nodes.beq]
    | cons h t => simp [Nodes.beq, Node.beq_refl h, Nodes.beq_refl t]
end

end HtmlVerif
