/-
`holds C16 <op> <args…> | <impl answer>` — the executable statement of C16 (the *unguarded* property), evaluated
step by step on the implementation's answers, every step judged from the implementation's own previous state,
with the definitions the theorems are about (`tokens`, `strip`, `isToken`, `classOf`, `addedVal`, `cssDecl`).
Answer: `T`, or `F <step>:<clause>[!g] …`; `!g` marks a clause whose guard `plainOrSafe` (F-C16) is false for
that step, i.e. a failure inside the recorded finding's input class.
-/
import HtmlVerif.Ops.HoldsC15

namespace HtmlVerif.Ops
open HtmlVerif HtmlVerif.Wire

def holdsCStep (sp : Char → Bool) (i : Nat) (pre : Attrs) : CStep → P (List String × Attrs)
  | .hc t => do
    let r ← next; let post ← listOf attr
    pure (clause (r != encBool ((tokens sp (classOf pre)).contains t)) s!"{i}:has_spec"
      ++ clause (post != pre) s!"{i}:has_pure", post)
  | .ac t p => do
    let r ← next; let h ← bool; let post ← listOf attr
    let g := if plainOrSafe cfg pre t then "" else "!g"
    let tok := isToken sp t
    let expToks := if p then t :: tokens sp (classOf pre) else tokens sp (classOf pre) ++ [t]
    pure (clause (r != "S") s!"{i}:returns_self"
      ++ clause (tok && !h) s!"{i}:add_has{g}"
      ++ clause (tok && tokens sp (classOf post) != expToks) s!"{i}:add_order{g}"
      ++ clause (h != (tokens sp (classOf post)).contains t) s!"{i}:has_spec"
      ++ clause (othersOf classKey post != othersOf classKey pre) s!"{i}:add_others", post)
  | .rc t => do
    let r ← next; let post ← listOf attr
    let kept := (tokens sp (classOf pre)).filter fun v => v != strip sp t
    let noop := t.isEmpty || (classOf pre).isEmpty
    pure (clause (r != "S") s!"{i}:returns_self"
      ++ clause (tokens sp (classOf post) != kept) s!"{i}:remove_spec"
      ++ clause (noop && post != pre) s!"{i}:remove_noop"
      ++ clause (!noop && (kept.isEmpty != (alookup classKey post).isNone)) s!"{i}:remove_drops"
      ++ clause (match alookup classKey post, alookup classKey pre with
                 | some v', some v => v'.isHtml != v.isHtml
                 | _, _ => false) s!"{i}:remove_keeps_mark"
      ++ clause (othersOf classKey post != othersOf classKey pre) s!"{i}:remove_others", post)
  | .ast v p => do
    let r ← next; let post ← listOf attr
    let judge (s : Str) (nv : AttrVal) : List String :=
      if endsSemi s then
        clause (r != "S") s!"{i}:returns_self"
        ++ clause (alookup styleKey post != some (addedVal cfg (alookup styleKey pre) nv p)) s!"{i}:addStyle_ok"
        ++ clause (othersOf styleKey post != othersOf styleKey pre) s!"{i}:addStyle_others"
      else clause (!(r == "EvalueError" && post == pre)) s!"{i}:addStyle_rej"
    match v with
    | .str s => pure (judge s (.plain s), post)
    | .html s => pure (judge s (.html s), post)
    | _ => pure ([], post)

def holdsCSteps (sp : Char → Bool) : Nat → Attrs → List CStep → P (List String)
  | _, _, [] => pure []
  | i, pre, s :: r => do
    let (f, post) ← holdsCStep sp i pre s
    let rest ← holdsCSteps sp (i + 1) post r
    pure (f ++ rest)

def holdsC16 : OpTable
  | "chist" => some do
    let ws ← str; let a ← listOf attr; let steps ← listOf cStep
    expect "|"
    let sp := spOf ws
    let f ← holdsCSteps sp 0 a steps
    pure (verdict (clause (!sp ' ') "hsp" ++ f))
  | "css" => some do
    let tbl ← listOf kv; let collapse ← optStr; let kw ← listOf cssPair
    if !lowTblCovers tbl kw then throw "css: lower-casing table does not cover the hyphenated keys"
    let lower := lowerOf tbl
    expect "|"
    let t ← next
    -- what C16_css_spec says the answer is
    let expected : Except Err (Option Str) :=
      match collapse with
      | none => .error .typeError
      | some c =>
        if kw.any (fun kv => kv.2.isBad) then .error .typeError
        else
          let flat := (kw.filterMap (cssDecl lower c)).flatten
          .ok (if flat.isEmpty then none else some flat)
    if t == "err" then
      let k ← next
      pure (verdict (clause (expected.toOption.isSome || k != "typeError") "css_spec"))
    else if t == "ok" then
      let o ← next
      if o == "N" then
        pure (verdict (clause (!(match expected with | .ok none => true | _ => false)) "css_spec"))
      else
        let s ← str; let acc ← bool
        pure (verdict (clause (!(match expected with | .ok (some e) => e == s | _ => false)) "css_spec"
          ++ clause (collapse == some [] && !(endsSemi s && acc)) "css_accepted"))
    else throw s!"bad css answer {t}"
  | _ => none

end HtmlVerif.Ops
