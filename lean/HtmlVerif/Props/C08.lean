/-
C08 — Rendering and tagify are pure and consistent; tagify returns an independent copy.
First part: the equality clause (`==`).  Second part (from "identity layer" on): tagify refines the expansion, equals
the original when nothing needed expansion, is a fixed point, returns only new objects (so mutating either side
never affects the other); every read-only operation returns its receiver unchanged, hence any history of them gives
the same results; the four string views coincide in the default render mode; `HTMLDocument.render()` no longer
touches the user's `<html>` tag (F-C08a) and the pinned shallow dependency copy shared its containers (F-C08b).
-/
import HtmlVerif.Spec.Equality
import HtmlVerif.Lemmas.Equality
import HtmlVerif.Lemmas.Ident
import HtmlVerif.Lemmas.ReadOps
import HtmlVerif.Props.C09

namespace HtmlVerif.C08
open HtmlVerif

mutual
  /-- `==` is true for structurally identical objects -/
  theorem C08_eq_refl (n : Node) (h : n.Plain) : n.eqv n = true := by
    cases h with
    | tag ha hk => simp [Node.eqv, attrsEqv_refl _ ha, C08_eq_refl_kids _ hk]
    | text => simp [Node.eqv]
    | html => simp [Node.eqv]
    | robj => simp [Node.eqv]
    | mnode => simp [Node.eqv]
    | dep hd hk =>
      obtain ⟨h1, h2, h3⟩ := hd
      simp [Node.eqv, depInfoEqv, sourceEqv_refl, kvDictsEqv_refl _ h1, kvDictsEqv_refl _ h2,
        kvDictsEqv_refl _ h3, C08_eq_refl_kids _ hk]
  theorem C08_eq_refl_kids (ks : Nodes) (h : ks.PlainKids) : ks.eqvKids ks = true := by
    cases h with
    | nil => rfl
    | cons hh ht => simp [Nodes.eqvKids, C08_eq_refl _ hh, C08_eq_refl_kids _ ht]
end

/-- `==` is false for objects of different kinds -/
theorem C08_eq_kind (a b : Node) (h : a.eqv b = true) : a.kind = b.kind := by
  cases a <;> cases b <;> simp_all [Node.eqv, Node.kind]

/-- equal tags have the same name, the same whitespace flag, the same set of attributes with the same
    values (as text), and the same number of children, pairwise equal -/
theorem C08_eq_tag (n n' : Str) (w w' : Bool) (a a' : Attrs) (k k' : Nodes)
    (h : (Node.tag n w a k).eqv (.tag n' w' a' k') = true) :
    n = n' ∧ w = w' ∧ a.length = a'.length ∧
    (∀ kv ∈ a, ∃ v, alookup kv.1 a' = some v ∧ kv.2.str = v.str) ∧ k.eqvKids k' = true := by
  simp only [Node.eqv, Bool.and_eq_true, beq_iff_eq, attrsEqv, List.all_eq_true] at h
  obtain ⟨⟨⟨hn, hw⟩, hl, hall⟩, hk⟩ := h
  refine ⟨hn, hw, hl, ?_, hk⟩
  intro kv hm
  have := hall kv hm
  cases hlk : alookup kv.1 a' with
  | none => simp [hlk] at this
  | some v => exact ⟨v, rfl, by simpa [hlk] using this⟩

/-- equal child lists have the same length and are equal position by position -/
theorem C08_eq_kids_length (k k' : Nodes) (h : k.eqvKids k' = true) : k.length = k'.length := by
  induction k using Nodes.rec (motive_1 := fun _ => True) generalizing k' with
  | nil => cases k' <;> simp_all [Nodes.eqvKids, Nodes.length]
  | cons x t _ ih =>
    cases k' with
    | nil => simp [Nodes.eqvKids] at h
    | cons y u =>
      simp only [Nodes.eqvKids, Bool.and_eq_true] at h
      simp [Nodes.length, ih u h.2]
  | _ => trivial

theorem C08_eq_kids_head (x y : Node) (t u : Nodes) (h : (Nodes.cons x t).eqvKids (.cons y u) = true) :
    x.eqv y = true ∧ t.eqvKids u = true := by
  simpa [Nodes.eqvKids] using h

/-- text children are compared by their text (`'a'` and `HTML('a')` are the same text) -/
theorem C08_eq_text (a b : Node) (s t : Str) (ha : a.leafText? = some s) (hb : b.leafText? = some t) :
    a.eqv b = (s == t) := by
  cases a <;> cases b <;> simp_all [Node.leafText?, Node.eqv]

/-- any difference in tag name, whitespace flag, attribute set or values, child count, or a child makes `==` false -/
theorem C08_eq_differs (n n' : Str) (w w' : Bool) (a a' : Attrs) (k k' : Nodes)
    (h : n ≠ n' ∨ w ≠ w' ∨ a.length ≠ a'.length ∨ (∃ kv ∈ a, ∀ v, alookup kv.1 a' = some v → kv.2.str ≠ v.str)
      ∨ k.length ≠ k'.length ∨ k.eqvKids k' = false) :
    (Node.tag n w a k).eqv (.tag n' w' a' k') = false := by
  cases hq : (Node.tag n w a k).eqv (.tag n' w' a' k') with
  | false => rfl
  | true =>
    obtain ⟨h1, h2, h3, h4, h5⟩ := C08_eq_tag n n' w w' a a' k k' hq
    rcases h with h | h | h | ⟨kv, hm, hv⟩ | h | h
    · exact absurd h1 h
    · exact absurd h2 h
    · exact absurd h3 h
    · obtain ⟨v, hl, he⟩ := h4 kv hm; exact absurd he (hv v hl)
    · exact absurd (C08_eq_kids_length k k' h5) h
    · rw [h5] at h; cases h

/-- two dependencies are equal only if name, version (as a version number), source, script, stylesheet, meta,
    all_files agree and their heads are equal -/
theorem C08_eq_dep (d d' : DepInfo) (h h' : Bool) (k k' : Nodes)
    (he : (Node.dep d h k).eqv (.dep d' h' k') = true) :
    d.name = d'.name ∧ d.vrank = d'.vrank ∧ d.allFiles = d'.allFiles ∧ h = h' ∧ k.eqvKids k' = true := by
  simp only [Node.eqv, depInfoEqv, Bool.and_eq_true, beq_iff_eq] at he
  exact ⟨he.1.1.1.1.1.1.1.1, he.1.1.1.1.1.1.1.2, he.1.1.2, he.1.2, he.2⟩

example : (Node.tag ['a'] true [(['i'], .plain ['x'])] (.cons (.text ['t']) .nil)).Plain :=
  .tag (by simp [keysNodup]) (.cons .text .nil)

end HtmlVerif.C08

/-! # identity layer: tagify, independence, purity, views (Model/Ident.lean, Model/ReadOps.lean) -/

namespace HtmlVerif.C08
open HtmlVerif HtmlVerif.Ident

/-! ### tagify refines the expansion -/

/-- forgetting ids, what the id-level `tagify` puts in a child's place is the child's expansion (`Node.expand`, the
    forward specification of C09) -/
theorem C08_tagify_refines (x : ITree) (n : Nat) : (x.itagify n).1.eraseAll = x.erase.expand :=
  ITree.itagify_erase x n

/-- `TagList.tagify` at the id level erases to `TagList.tagify` as written (`tagifyNodes`, the backwards splice loop) -/
theorem C08_tagify_refines_list (ks : ITrees) (n : Nat) :
    (ks.itagifyList n).2.1.eraseAll = tagifyNodes ks.eraseAll ∧ tagifyNodes ks.eraseAll = ks.eraseAll.expandAll :=
  ⟨itagifyList_erase ks n, C09.C09_tagify_is_spec _⟩

/-- `Tag.tagify` at the id level erases to `Tag.tagify` as written -/
theorem C08_tagify_refines_tag (x : ITree) (n : Nat) : (x.itagifyTag n).1.erase = tagifyTag x.erase :=
  itagifyTag_erase x n

/-! ### the result equals the original when nothing needed expansion -/

/-- for a tree of plain library objects (no un-expanded tagifiable object, dicts with distinct keys) nothing needs
    expansion, `tagify()` returns an equal value, and `==` says so in both directions (dependencies by value) -/
theorem C08_tagify_eq (x : Node) (hp : plainB x = true) :
    x.tagified = true ∧ tagifyTag x = x ∧ (tagifyTag x).eqv x = true ∧ x.eqv (tagifyTag x) = true := by
  have ht := plainB_tagified x hp
  have hfix : tagifyTag x = x := by
    cases x with
    | tag n w a k =>
      rw [C09.C09_tagify_tag, C09.C09_tagified_fixed k (by simpa [Node.tagified] using ht)]
    | _ => rfl
  have hr := C08_eq_refl x (plainB_plain x hp)
  exact ⟨ht, hfix, by rw [hfix]; exact hr, by rw [hfix]; exact hr⟩

theorem C08_tagify_eq_list (ks : Nodes) (hp : plainKidsB ks = true) :
    tagifyNodes ks = ks ∧ (tagifyNodes ks).eqvKids ks = true ∧ ks.eqvKids (tagifyNodes ks) = true := by
  have hfix : tagifyNodes ks = ks := by
    rw [C09.C09_tagify_is_spec, C09.C09_tagified_fixed ks (plainKidsB_tagified ks hp)]
  have hr := C08_eq_refl_kids ks (plainKidsB_plain ks hp)
  exact ⟨hfix, by rw [hfix]; exact hr, by rw [hfix]; exact hr⟩

/-- only the un-expanded objects make the difference: whenever nothing below needs expansion the value is unchanged -/
theorem C08_tagify_same_value (n : Str) (w : Bool) (a : Attrs) (k : Nodes) (ht : k.tagifiedKids = true) :
    tagifyTag (.tag n w a k) = .tag n w a k := by
  rw [C09.C09_tagify_tag, C09.C09_tagified_fixed k ht]

/-! ### the result is a fixed point of tagify -/

theorem C08_tagify_fixed (x : Node) : tagifyTag (tagifyTag x) = tagifyTag x := by
  cases x with
  | tag n w a k => simp [C09.C09_tagify_tag, C09.C09_idempotent]
  | _ => rfl

theorem C08_tagify_fixed_list (ks : Nodes) : tagifyNodes (tagifyNodes ks) = tagifyNodes ks :=
  C09.C09_tagify_idempotent ks

/-- at the id level: tagifying the copy again gives a tree of the same value (and, by `C08_tagify_fresh`, new objects) -/
theorem C08_tagify_fixed_ident (x : ITree) (n m : Nat) :
    ((x.itagifyTag n).1.itagifyTag m).1.erase = (x.itagifyTag n).1.erase := by
  rw [itagifyTag_erase, itagifyTag_erase, C08_tagify_fixed]

/-! ### freshness: the copy shares no mutable object with the original -/

/-- **Freshness.**  If every object of the original was created before the counter stood at `n`, then every mutable
    object reachable from what `tagify()` returns — Tag, TagAttrDict, TagList, MetadataNode, and for a dependency its
    `source` dict, its `script` / `stylesheet` / `meta` lists with their dicts, its `head` list and everything in it —
    was created by the call (`n ≤ id < counter afterwards`), no object occurs twice, and none is an object of the
    original.  Guard: no un-expanded tagifiable object sits inside a dependency head (`tagify()` never looks there). -/
theorem C08_tagify_fresh (x : ITree) (n : Nat) (hx : ∀ i ∈ x.ids, i < n) (g : x.headsPlain = true) :
    (∀ i ∈ (x.itagify n).1.idsAll, n ≤ i ∧ i < (x.itagify n).2) ∧ (x.itagify n).1.idsAll.Nodup ∧
    (∀ i ∈ (x.itagify n).1.idsAll, i ∉ x.ids) := by
  have h := ITree.itagify_ids x n g
  refine ⟨h.1, h.2, ?_⟩
  intro i hi hm
  have := (h.1 i hi).1
  have := hx i hm
  omega

/-- the same for the receiver of `Tag.tagify()` -/
theorem C08_tagify_fresh_tag (i a k : Nat) (nm : Str) (ws : Bool) (at' : Attrs) (kids : ITrees) (n : Nat)
    (hx : ∀ j ∈ (ITree.tag i a k nm ws at' kids).ids, j < n) (g : kids.headsPlainAll = true) :
    let r := (ITree.tag i a k nm ws at' kids).itagifyTag n
    (∀ j ∈ r.1.ids, n ≤ j ∧ j < r.2) ∧ r.1.ids.Nodup ∧ (∀ j ∈ r.1.ids, j ∉ (ITree.tag i a k nm ws at' kids).ids) := by
  have h := C08_tagify_fresh (.tag i a k nm ws at' kids) n hx (by simpa [ITree.headsPlain] using g)
  rw [itagify_of_tag] at h
  simpa [ITrees.idsAll] using h

/-- … and of `TagList.tagify()`: the returned list object is new as well -/
theorem C08_tagify_fresh_list (lid : Nat) (ks : ITrees) (n : Nat) (hl : lid < n) (hx : ∀ i ∈ ks.idsAll, i < n)
    (g : ks.headsPlainAll = true) :
    let r := ks.itagifyList n
    (∀ i ∈ r.1 :: r.2.1.idsAll, n ≤ i ∧ i < r.2.2) ∧ (r.1 :: r.2.1.idsAll).Nodup ∧
    (∀ i ∈ r.1 :: r.2.1.idsAll, i ∉ lid :: ks.idsAll) := by
  simp only [ITrees.itagifyList]
  have h := ITrees.itagifyAll_ids ks (n + 1) g
  have hle := ITrees.itagifyAll_le ks (n + 1)
  have hc := InR.cons h hle
  refine ⟨hc.1, hc.2, ?_⟩
  intro i hi hm
  have h1 := (hc.1 i hi).1
  rcases List.mem_cons.mp hm with rfl | hm
  · omega
  · have := hx i hm
    omega

/-- a dependency `a-1` without source, with the given `script` items -/
def exDep (script : List (List (Str × Str))) : DepInfo :=
  { name := ['a'], version := ['1'], vrank := 0, source := DepSource.none, script := script, stylesheet := [],
    metas := [], allFiles := false }

/-- a dependency whose head holds a tagifiable object (holding a metadata node), labelled from 0 -/
def exGuard : ITree × Nat := labelNode (.dep (exDep []) true (.cons (.tobjL none (.cons (.mnode 7) .nil)) .nil)) 0

/-- the guard is needed: a tagifiable user object inside a dependency head is neither expanded nor copied, so what it
    holds is reachable from both trees -/
theorem C08_tagify_fresh_guard_needed :
    exGuard.1.headsPlain = false ∧
    ((exGuard.1.itagify exGuard.2).1.idsAll.filter (fun i => exGuard.1.ids.contains i)) ≠ [] := by
  decide

/-! ### independence: mutating either side never affects the other -/

/-- a mutation (any mutation `f`) of an object that does not occur in a tree leaves the tree as it is -/
theorem C08_independent_core (y : ITree) (i : Nat) (f : Mut) (h : i ∉ y.ids) : y.mutateAt i f = y :=
  ITree.mutateAt_of_not_mem y i f h

/-- **Independence.**  Mutating any object of the copy leaves the original unchanged, and mutating any object of
    the original leaves the copy unchanged — whatever the mutation is. -/
theorem C08_independent (x : ITree) (n : Nat) (hx : ∀ i ∈ x.ids, i < n) (g : x.headsPlain = true) (f : Mut) :
    (∀ i ∈ (x.itagify n).1.idsAll, x.mutateAt i f = x) ∧
    (∀ i ∈ x.ids, (x.itagify n).1.mutateAll i f = (x.itagify n).1) := by
  have h := C08_tagify_fresh x n hx g
  refine ⟨fun i hi => ITree.mutateAt_of_not_mem x i f (h.2.2 i hi), fun i hi => ?_⟩
  apply ITrees.mutateAll_of_not_mem
  intro hm
  exact h.2.2 i hm hi

/-- `div(HTMLDependency("a", "1", script={"s": "x"}))`, labelled from 0: div 0, its attrs 1, its child list 2,
    the dependency 3, (its source slot 4), its `script` list 5 with the dict 6, `stylesheet` 7, `meta` 8, (head slot 9) -/
def exShare : ITree × Nat := labelNode (.tag ['d'] true [] (.cons (.dep (exDep [[(['s'], ['x'])]]) false .nil) .nil)) 0

/-- the mutation `dep.script.append({"s": "e"})` -/
def exAppend : Mut := { dictsF := fun l => l ++ [{ id := 99, kvs := [(['s'], ['e'])] }] }

/-- negative twin (F-C08b): with the PINNED shallow `copy(HTMLDependency)` the copy's dependency holds the same
    `script` list (object 5) as the original — appending to it through the copy changes the original; the copy the
    property demands has no object of the original -/
theorem C08_pinned_copy_shares :
    (exShare.1.itagifyPinned exShare.2).1.idsAll.contains 5 = true ∧
    ((exShare.1.mutateAt 5 exAppend).erase.beq exShare.1.erase) = false ∧
    ((exShare.1.itagify exShare.2).1.idsAll.filter (fun i => exShare.1.ids.contains i)) = [] := by
  decide

/-! ### purity: every read-only operation returns its receiver unchanged -/

/-- **Purity** (Tag / HTMLDependency receiver): after any of tagify, render, str, repr, _repr_html_, get_html_string,
    get_dependencies, copy.copy, as_html_tags, as_dict, source_path_map, serialize_to_script_json the receiver —
    every object reachable from it — is what it was; and the result is a function of the receiver's value alone
    (not of the counter, i.e. of nothing that happened before) -/
theorem C08_pure (cfg : Cfg) (o : ReadOp) (x : ITree) (n : Nat) :
    (o.step cfg x n).2.1 = x ∧ (o.step cfg x n).1 = o.obs cfg x.erase :=
  ⟨step_receiver cfg o x n, step_obs cfg o x n⟩

/-- the same for a TagList receiver -/
theorem C08_pure_list (cfg : Cfg) (o : ReadOp) (s : Nat × ITrees) (n : Nat) :
    (o.stepList cfg s n).2.1 = s ∧ (o.stepList cfg s n).1 = o.obsList cfg s.2.eraseAll :=
  ⟨stepList_receiver cfg o s n, stepList_obs cfg o s n⟩

/-- `tagify()` hands back a new tree and leaves the original as it was (by construction of `itagify`: it only reads) -/
theorem C08_original_unchanged (cfg : Cfg) (x : ITree) (n : Nat) :
    (ReadOp.step cfg .tagify x n).2.1 = x ∧ (ReadOp.step cfg .tagify x n).1 = .tree (tagifyTag x.erase) :=
  ⟨rfl, by simp [ReadOp.step, itagifyTag_erase]⟩

/-- **`HTMLDocument.render()` / `save_html()` leave the document alone** — content list, every object in it and the
    keyword arguments — whatever follows `_gen_html_tag_tree` (`rest`: hoisting, rendering, writing files), which
    only sees a tagified copy -/
theorem C08_doc_pure {ρ : Type} (rest : Node → ρ) (cfg : Cfg) (d : IDoc) (n : Nat) :
    (docGenTree cfg d n).2.1 = d ∧ (docRender rest cfg d n).2.1 = d := by
  have h : (docGenTree cfg d n).2.1 = d := by
    unfold docGenTree
    split
    · split
      · rfl
      · split <;> rfl
    · rfl
  exact ⟨h, h⟩

/-- the repair does not change what is rendered: the `<html>` tree handed on is the one the pinned code built -/
theorem C08_doc_same_tree (cfg : Cfg) (d : IDoc) (n : Nat) :
    (docGenTree cfg d n).1 = (docGenTreePinned cfg d n).1 := by
  unfold docGenTree docGenTreePinned
  split
  · rename_i i a k nm w at' kids heq
    by_cases h1 : nm = nHtml
    · simp only [h1, if_true, ITree.itagifyTag, ITree.erase, updateRootAttrs]
      cases attrsUpdate cfg at' [d.args] <;> rfl
    · simp only [h1, if_false]
  · rfl

/-- negative twin (F-C08a): the PINNED `_gen_html_tag_tree` is not pure — `HTMLDocument(tags.html(), lang="en")`:
    afterwards the user's `<html>` tag carries `lang="en"` -/
theorem C08_doc_pinned_impure :
    let cfg : Cfg := { void := [], noesc := [], textTbl := [], attrTbl := [] }
    let d : IDoc := { cid := 0, content := .cons (.tag 1 2 3 nHtml true [] .nil) .nil,
                      args := [(['l', 'a', 'n', 'g'], .str ['e', 'n'])] }
    d.rootAttrs = some [] ∧
    (docGenTreePinned cfg d 4).2.1.rootAttrs = some [(['l', 'a', 'n', 'g'], .plain ['e', 'n'])] ∧
    (docGenTree cfg d 4).2.1.rootAttrs = some [] := by
  decide

/-! ### repeating read-only operations in any order gives identical results -/

/-- **Any history of read-only operations**: the k-th result is the value of the k-th operation on the *initial*
    receiver — whatever ran before it — and the receiver at the end is the initial one -/
theorem C08_repeat (cfg : Cfg) (ops : List ReadOp) (x : ITree) (n : Nat) :
    (runSeq (ReadOp.step cfg) ops x n).1 = ops.map (fun o => o.obs cfg x.erase) ∧
    (runSeq (ReadOp.step cfg) ops x n).2.1 = x :=
  runSeq_spec (ReadOp.step cfg) (fun o s => o.obs cfg s.erase) (step_receiver cfg) (step_obs cfg) ops x n

theorem C08_repeat_list (cfg : Cfg) (ops : List ReadOp) (s : Nat × ITrees) (n : Nat) :
    (runSeq (ReadOp.stepList cfg) ops s n).1 = ops.map (fun o => o.obsList cfg s.2.eraseAll) ∧
    (runSeq (ReadOp.stepList cfg) ops s n).2.1 = s :=
  runSeq_spec (ReadOp.stepList cfg) (fun o s => o.obsList cfg s.2.eraseAll) (stepList_receiver cfg) (stepList_obs cfg) ops s n

/-- the result of an operation does not depend on what was run before it (nor on how many objects exist) -/
theorem C08_repeat_history (cfg : Cfg) (pre pre' : List ReadOp) (o : ReadOp) (x : ITree) (n n' : Nat) :
    (runSeq (ReadOp.step cfg) (pre ++ [o]) x n).1.getLast? = (runSeq (ReadOp.step cfg) (pre' ++ [o]) x n').1.getLast? := by
  rw [(C08_repeat cfg _ x n).1, (C08_repeat cfg _ x n').1]
  simp

/-- running the same operations in another order gives the same results, in that order -/
theorem C08_repeat_order (cfg : Cfg) (ops ops' : List ReadOp) (h : ops.Perm ops') (x : ITree) (n n' : Nat) :
    (runSeq (ReadOp.step cfg) ops x n).1.Perm (runSeq (ReadOp.step cfg) ops' x n').1 := by
  rw [(C08_repeat cfg ops x n).1, (C08_repeat cfg ops' x n').1]
  exact h.map _

/-- an operation repeated gives the same result twice -/
theorem C08_repeat_twice (cfg : Cfg) (o : ReadOp) (x : ITree) (n : Nat) :
    (runSeq (ReadOp.step cfg) [o, o] x n).1 = [o.obs cfg x.erase, o.obs cfg x.erase] := by
  simpa using (C08_repeat cfg [o, o] x n).1

/-! ### the four string views -/

/-- **`str(x)`, `repr(x)`, `x._repr_html_()` and `x.render()["html"]` are one function** in the default dependency
    render mode -/
theorem C08_views (cfg : Cfg) (x : Node) :
    strView cfg .invisible x = renderHtmlView cfg x ∧ reprView cfg .invisible x = renderHtmlView cfg x ∧
    reprHtmlView cfg .invisible x = renderHtmlView cfg x :=
  ⟨rfl, rfl, rfl⟩

theorem C08_views_list (cfg : Cfg) (ks : Nodes) :
    strViewList cfg .invisible ks = renderHtmlViewList cfg ks ∧ reprViewList cfg .invisible ks = renderHtmlViewList cfg ks ∧
    reprHtmlViewList cfg .invisible ks = renderHtmlViewList cfg ks :=
  ⟨rfl, rfl, rfl⟩

/-- … namely the markup of the expanded tree (never an error) -/
theorem C08_views_value (cfg : Cfg) (n : Str) (w : Bool) (a : Attrs) (kids : Nodes) :
    strView cfg .invisible (.tag n w a kids) = .ok ((Node.tag n w a kids.expandAll).render cfg 0 ['\n']) :=
  (C09.C09_render_tag cfg n w a kids).1

theorem C08_views_value_list (cfg : Cfg) (ks : Nodes) :
    strViewList cfg .invisible ks = .ok (renderList cfg ks.expandAll 0 ['\n'] true true) :=
  (C09.C09_render cfg ks).1

/-- `repr` and `_repr_html_` are `str` in every mode; the mode matters for `str` vs `render()["html"]`: in "json" mode
    `str` appends the serialised dependencies -/
theorem C08_views_any_mode (cfg : Cfg) (m : RenderMode) (x : Node) :
    reprView cfg m x = strView cfg m x ∧ reprHtmlView cfg m x = strView cfg m x :=
  ⟨rfl, rfl⟩

theorem C08_views_json_mode (cfg : Cfg) (x : Node) (h : Str) (hr : renderHtmlView cfg x = .ok h) :
    strView cfg .json x = .ok (h ++ joinStr ['\n'] (((renderOfTag cfg x).deps.map
      fun e => sdepOfNode cfg e.1 e.2.1 e.2.2).map (tdSerialize none))) := by
  simp only [renderHtmlView] at hr
  simp [strView, strOfRendered, hr, jsonModeStr]

/-! ### non-vacuity -/

/-- a tree with a tag, attributes, a bare metadata node and a dependency with all its containers and a head: labelled
    from 0 it satisfies the hypotheses of `C08_tagify_fresh` / `C08_independent` with `n` = the label counter -/
def exampleNode : Node :=
  .tag ['d', 'i', 'v'] true [(['i', 'd'], .plain ['x'])]
    (.cons (.text ['t']) (.cons (.mnode 3)
      (.cons (.dep { name := ['a'], version := ['1'], vrank := 0, source := .href ['h'], script := [[(['s', 'r', 'c'], ['s'])]],
                     stylesheet := [], metas := [], allFiles := false } true
                (.cons (.tag ['p'] true [] (.cons (.text ['h']) .nil)) .nil))
        (.cons (.tobjL none (.cons (.tag ['b'] false [] .nil) .nil)) .nil))))

example : let x := labelNode exampleNode 0
    (∀ i ∈ x.1.ids, i < x.2) ∧ x.1.headsPlain = true ∧ x.1.ids.length = 17 ∧ (x.1.itagify x.2).1.idsAll.length = 17 := by
  decide

example : plainB (.tag ['a'] true [(['i'], .plain ['x'])] (.cons (.text ['t']) (.cons (.mnode 1) .nil))) = true := by decide

end HtmlVerif.C08
