"""Value generators for the `src` lines of the C10 / C09 translations (harness/pytr_c10.py).

Trees are written directly as pval terms in the shape of the embedding `embT` (Lemmas/SrcC10.lean): Tag / TagList
instances, strings, HTML, self-rendering objects, bare metadata nodes (with an identity index), dependencies (name,
Version with its rank among the versions of the line — computed here with the real `packaging` — and a marker in `meta`),
and tagifiable objects of a foreign class carrying the value their `tagify()` returns.  Invalid shapes (receivers of the
wrong class, non-dependencies in a dependency list, non-iterables, odd `dedup` values, versions that are not Versions)
are mixed in.
"""
from __future__ import annotations

import itertools

from wire import es

VERSIONS = ["1.9", "1.10", "1.10.0", "2", "10", "2.0.0", "1.0a1", "1.0rc1", "1.0", "1.0.post1", "1.0.dev0", "1!0.5",
            "1.0+local", "0.0.1", "0", "1.10.1"]
NAMES = ["a", "b", "c", "jquery", ""]
TAGS = [("div", True), ("span", False), ("p", True), ("br", False), ("script", True)]
TEXTS = ["", "a", "x<y", "&amp;", "é", "a b"]


def S(s):
    return "S " + es(s)


class Ctx:
    """per line: counter for markers, the versions used (ranks are filled in at the end)"""

    def __init__(self, rng):
        self.rng = rng
        self.ctr = itertools.count()
        self.versions: list[str] = []

    def dep(self, name=None, version=None):
        rng = self.rng
        name = rng.choice(NAMES[:3] if rng.random() < 0.8 else NAMES) if name is None else name
        version = rng.choice(VERSIONS[:4] if rng.random() < 0.6 else VERSIONS) if version is None else version
        self.versions.append(version)
        marker = f"M [ {es('name')} {S('id')} {es('content')} {S(str(next(self.ctr)))} ]"
        return f"O HTMLDependency [ name {S(name)} version O Version [ rank I @@{version}@@ text {S(self.norm(version))} ] meta L [ {marker} ] ]"

    @staticmethod
    def norm(v):
        from packaging.version import Version
        return str(Version(v))

    def finish(self, line: str) -> str:
        from packaging.version import Version
        order = sorted({Version(v) for v in self.versions})
        for v in set(self.versions):
            line = line.replace(f"@@{v}@@", str(order.index(Version(v))))
        return line


def leaf(cx: Ctx, tobj=True) -> str:
    rng = cx.rng
    r = rng.random()
    if r < 0.25:
        return S(rng.choice(TEXTS))
    if r < 0.35:
        return "H " + es(rng.choice(TEXTS))
    if r < 0.45:
        return f"O ReprObj [ _repr_html_ {S(rng.choice(TEXTS))} ]"
    if r < 0.55:
        return f"O MetadataNode [ id I {next(cx.ctr)} ]"
    if r < 0.85 or not tobj:
        return cx.dep()
    return tobj_of(cx, 1)


def tag(cx: Ctx, depth: int, tobj=True) -> str:
    rng = cx.rng
    name, ws = rng.choice(TAGS)
    attrs = rng.choice(["M [ ]", f"M [ {es('class')} {S('x')} ]", f"M [ {es('id')} H {es('<i>')} {es('title')} {S('t')} ]"])
    return (f"O Tag [ name {S(name)} attrs {attrs} children {taglist(cx, depth - 1, tobj)} "
            f"add_ws {'T' if ws else 'F'} ]")


def node(cx: Ctx, depth: int, tobj=True) -> str:
    if depth <= 0 or cx.rng.random() < 0.45:
        return leaf(cx, tobj)
    return tag(cx, depth, tobj)


def items(cx: Ctx, depth: int, tobj=True) -> str:
    n = cx.rng.choice([0, 1, 2, 2, 3, 4])
    return "L [ " + "".join(node(cx, depth, tobj) + " " for _ in range(n)) + "]"


def taglist(cx: Ctx, depth: int, tobj=True) -> str:
    return f"O TagList [ data {items(cx, depth, tobj)} ]"


def tagified(cx: Ctx, depth: int) -> str:
    """a node without tagifiable objects of foreign classes (what a well-behaved `tagify()` returns)"""
    return node(cx, depth, tobj=False)


def tobj_of(cx: Ctx, depth: int) -> str:
    """a foreign tagifiable object: its `tagify()` returns a TagList of nodes, a single node, or something odd"""
    rng = cx.rng
    r = rng.random()
    if r < 0.45:
        n = rng.choice([0, 1, 2, 3])
        res = "O TagList [ data L [ " + "".join(tagified(cx, depth) + " " for _ in range(n)) + "] ]"
    elif r < 0.88:
        res = tagified(cx, depth)
    elif r < 0.93:
        res = node(cx, depth, tobj=True)              # not tagified: allowed, the loop does not look into it
    elif r < 0.985:
        res = rng.choice(["N", "I 3", "L [ ]", "U [ " + S("a") + " ]"])      # `cp[i] = <that>`
    else:
        # a TagList with items `_tagchilds_to_tagnodes` would rewrite (outside the primitive's domain: no verdict)
        res = "O TagList [ data L [ " + rng.choice(["N", "I 3", "O TagList [ data L [ ] ]", "L [ " + S("a") + " ]"]) + " ] ]"
    rh = f" _repr_html_ {S(rng.choice(TEXTS))}" if rng.random() < 0.4 else ""
    return f"O TagifyObj [ tagify {res}{rh} ]"


def _resolve_line(rng):
    cx = Ctx(rng)
    r = rng.random()
    n = rng.choice([0, 1, 2, 3, 4, 5, 6, 8])
    ds = [cx.dep() for _ in range(n)]
    if r < 0.08 and ds:                # something that is not a dependency in the list
        ds[rng.randrange(len(ds))] = rng.choice([S("a"), "N", "O Other [ ]", "I 1", f"O MetadataNode [ id I 0 ]",
                                                  f"O HTMLDependency [ name {S('a')} version I {rng.choice([1, 2])} meta L [ ] ]",
                                                  f"O HTMLDependency [ name I 1 version I 1 meta L [ ] ]",
                                                  f"O HTMLDependency [ name {S('a')} version {S('1.0')} meta L [ ] ]"])
    if r > 0.97:
        return cx.finish("[ " + rng.choice(["N", "I 3", "M [ ]", f"M [ {es('k')} {S('v')} ]", S("ab")]) + " ]")
    kind = "U" if 0.90 < r <= 0.97 else "L"
    return cx.finish(f"[ {kind} [ " + "".join(d + " " for d in ds) + "] ]")


def _dedup(rng):
    return rng.choice(["T", "T", "T", "F", "F", "N", "I 0", "I 2", S(""), S("x")])


def _tag_deps_line(rng):
    cx = Ctx(rng)
    r = rng.random()
    if r < 0.06:
        recv = rng.choice([taglist(cx, 1), S("x"), "N", "O Other [ ]",
                           f"O Tag [ name {S('div')} attrs M [ ] children {S('x')} add_ws T ]",
                           f"O Tag [ name {S('div')} attrs M [ ] children {tag(cx, 2)} add_ws T ]"])
    else:
        recv = tag(cx, rng.randint(1, 4))
    return cx.finish(f"[ {recv} {_dedup(rng)} ]")


def _list_deps_line(rng):
    cx = Ctx(rng)
    r = rng.random()
    if r < 0.05:
        recv = rng.choice([items(cx, 2), "N", "I 1", S("ab"), "O Other [ ]"])
    elif r < 0.12:                     # a TagList nested in a TagList is not a Tag: skipped
        recv = f"O TagList [ data L [ {taglist(cx, 1)} {node(cx, 2)} ] ]"
    else:
        recv = taglist(cx, rng.randint(1, 4))
    return cx.finish(f"[ {recv} {_dedup(rng)} ]")


def _tag_tagify_line(rng):
    cx = Ctx(rng)
    r = rng.random()
    if r < 0.06:
        recv = rng.choice([taglist(cx, 1), S("x"), "N", "O Other [ ]",
                           f"O Tag [ name {S('div')} attrs M [ ] children {tobj_of(cx, 1)} add_ws T ]",
                           f"O Tag [ name {S('div')} attrs M [ ] children {tag(cx, 2)} add_ws T ]",
                           f"O Tag [ name {S('div')} attrs M [ ] children {S('x')} add_ws T ]"])
    else:
        recv = tag(cx, rng.randint(1, 4))
    return cx.finish(f"[ {recv} ]")


def _list_tagify_line(rng):
    cx = Ctx(rng)
    r = rng.random()
    if r < 0.05:
        recv = rng.choice(["N", "I 1", "O Other [ ]", S("ab")])
    else:
        recv = taglist(cx, rng.randint(1, 4))
    return cx.finish(f"[ {recv} ]")


def register(GENS):
    GENS["resolve_dependencies"] = _resolve_line
    GENS["Tag_get_dependencies"] = _tag_deps_line
    GENS["TagList_get_dependencies"] = _list_deps_line
    GENS["Tag_tagify"] = _tag_tagify_line
    GENS["TagList_tagify"] = _list_tagify_line
