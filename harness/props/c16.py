"""C16 — Class/style helpers and css() act as token-set and declaration algebra."""
from __future__ import annotations

import itertools

import core
import gen
import ops  # noqa: F401
import srctie_c16
from ops_attrs import WS_CHARS, chist_line, css_line, css_hyphen, describe

PID = "C16"
MANIFEST = dict(
    text="Lean theorems over the model of Tag.add_class / remove_class / has_class / add_style and css() "
         "(Model/ClassStyle.lean), for every whitespace predicate sp with sp(' ') and every lower-casing function: "
         "C16_has_spec (has_class = membership in split()); C16_add_order / C16_add_has / C16_add_others (token "
         "appended or placed first, all other tokens and attributes undisturbed) under the guard plainOrSafe, and "
         "C16_add_has_full_is_false (F-C16: the unguarded law is false, witnessed against the source's escape "
         "table); C16_remove_total / _spec / _token / _drops / _noop / _others (every occurrence of exactly that token "
         "removed, others in order, attribute dropped iff none remain), C16_remove_keeps_mark (what remains of an "
         "HTML()-marked class value stays HTML()-marked, so it is not escaped a second time: C16_remove_rendered_once; "
         "C16_remove_mark_fails_for_pinned is the pinned code's loss of the mark, F-C16b); C16_addStyle_ok / _text / _rej / "
         "_rej_unchanged / _others; C16_css_spec / _cssKey_spec / _cssKey_spec_perchar / _cssKey_no_underscore / "
         "_css_accepted / _css_addStyle; C16_returns_self. Tie: exact equality of attrs (with str/HTML kind), "
         "has_class results, return identity and css() output on histories of <= 5 calls and css keyword sets, "
         "exhaustive small scope + random; the executable (unguarded) statement is evaluated by the Lean driver on the "
         "real answers step by step; str.isspace is tabulated from the running interpreter (all code points) and "
         "str.lower is applied by the interpreter to exactly the strings css() lower-cases. Source tie (DESIGN §14, "
         "Props/SrcC16.lean): src_has_class / src_add_class / src_add_style / src_remove_class / src_css prove, for all inputs, "
         "every whitespace predicate and every lower-casing map, that the Lean functions regenerated from the text of the five "
         "functions compute what the model computes; the regenerated functions are run against the real ones (ops src, srcc16).",
    design="DESIGN.md §6 C16, §7 F-C16",
    note="Modelled, not verified: str.split()/strip() as functions of the tabulated str.isspace; str.lower as an "
         "opaque whole-string function (CPython's is per-character except for Greek final sigma, so the per-character "
         "key law is stated under that hypothesis); str(v) of css values supplied by the harness; add_style with a "
         "non-str/HTML argument is compared with the model but no law is claimed for it. Known finding F-C16 "
         "(known_findings.json): add_class of a token containing an escaped character onto an HTML()-marked class.",
    technique="Lean 4 proofs (split/join algebra generic in the whitespace predicate, closed forms of the update "
              "funnel) + differential correspondence check on histories; recorded finding with proved negation",
)
PROP_FILES = ["HtmlVerif/Props/C16.lean", "HtmlVerif/Props/SrcC16.lean"]

INIT_CLASS = [None, ("p", ""), ("p", "a"), ("p", "a b"), ("p", " a  b\ta "), ("h", "a"), ("h", ""), ("p", " \t"),
              ("h", "a ab a"), ("p", "ab a-b a")]
TOKENS = ["a", "b", "ab", "a-b", "a b", " a ", "", "d<", " a", 'q"']
TOKENS_S = ["a", "ab", " a ", "d<"]
STYLES = [("str", "a:1;"), ("str", "b"), ("html", "c:2;"), ("html", "d"), ("str", 'e:"x";'), ("true",), ("none",),
          ("num", "5"), ("bad",), ("str", ";"), ("str", "")]

CSS_KEYS = ["fontSize", "font_size", "WebkitX", "x_Y", "_a", "a_", "É", "aΣ", "aΣB", "İx"]
CSS_VALS = [("ct", "v"), ("ct", ""), ("co", "i", "1"), ("co", "f", "1.5"), ("cn",), ("cl", ["a", "b"]), ("cl", []),
            ("cb",), ("co", "b", "True")]
CSS_KEYS_S = ["fontSize", "x_Y", "a_", "aΣB"]
CSS_VALS_S = [("ct", "v"), ("co", "f", "1.5"), ("cn",), ("cl", ["a", "b"]), ("ct", "")]

WITNESS = chist_line([("class", ("h", "a"))], [("ac", "d<", False), ("hc", "d<")])


def init_attrs(cls, style=None, extra=True):
    a = []
    if extra:
        a.append(("id", ("p", "i")))
    if cls is not None:
        a.append(("class", cls))
    if style is not None:
        a.append(("style", style))
    if extra:
        a.append(("title", ("h", "<t>")))
    return a


def step_pool(tokens, styles=()):
    pool = []
    for t in tokens:
        pool += [("ac", t, False), ("ac", t, True), ("rc", t), ("hc", t)]
    for s in styles:
        pool += [("as", s, False), ("as", s, True)]
    return pool


def nontrivial(attrs, steps) -> bool:
    """some mutating call acts on an existing class/style value or follows another mutating call"""
    muts = [s for s in steps if s[0] != "hc"]
    has = any(k in ("class", "style") for k, _ in attrs)
    return len(muts) >= 2 or (len(muts) == 1 and has)


def rand_token(rng):
    if gen.EXTRA and rng.random() < 0.2:      # change-directed: a literal the source has gained (DESIGN §14.4)
        return rng.choice(gen.EXTRA)
    r = rng.random()
    if r < 0.45:
        return rng.choice(["a", "b", "ab", "a-b", "foo", "foobar", "foo-x", "A", "é", "d<", "x&y", 'q"', "it's"])
    if r < 0.6:
        w = rng.choice(WS_CHARS)
        return rng.choice([w + "a", "a" + w, w + "ab" + w, "a" + w + "b", w, w + w])
    if r < 0.65:
        return ""
    return "".join(rng.choice("ab-<&\"'x_é") for _ in range(rng.randint(1, 4)))


def rand_class_value(rng):
    toks = [rand_token(rng) for _ in range(rng.randint(0, 5))]
    seps = [rng.choice([" ", " ", "  ", "\t", "\n", rng.choice(WS_CHARS)]) for _ in toks]
    txt = rng.choice(["", " ", "\t"]) + "".join(t + s for t, s in zip(toks, seps))
    if rng.random() < 0.5:
        txt = txt.rstrip(" ")
    return (rng.choice(["p", "p", "h"]), txt)


def rand_style(rng):
    r = rng.random()
    if r < 0.5:
        return (rng.choice(["str", "str", "html"]), gen.rand_text(rng, 5) + rng.choice([";", ";", ";", "", " "]))
    if r < 0.8:
        return rng.choice(STYLES)
    return ("str", rng.choice(["color:red;", "a:b", "x:'1';", 'y:"2";', "z:1;\n"]))


def rand_css_key(rng):
    if gen.EXTRA and rng.random() < 0.25:      # change-directed: a new source literal, spelled the ways a css() keyword can spell it
        return rng.choice(gen.spellings(rng.choice(gen.EXTRA)))
    r = rng.random()
    if r < 0.5:
        return rng.choice(CSS_KEYS + ["backgroundColor", "margin_top", "MozBoxSizing", "a__b", "ABC", "x9", "σΣ", "ǅ", "ẞ"])
    return "".join(rng.choice("abXY_Σσé-İß9") for _ in range(rng.randint(1, 6)))


def rand_css_val(rng):
    r = rng.random()
    if r < 0.3:
        return ("ct", gen.rand_text(rng, 5))
    if r < 0.5:
        x = rng.choice([0, 12, -1, 1.5, 1e21, 0.1, True, False])
        return ("co", "b" if isinstance(x, bool) else "i" if isinstance(x, int) else "f", str(x))
    if r < 0.65:
        return ("cn",)
    if r < 0.85:
        return ("cl", [gen.rand_text(rng, 3) for _ in range(rng.randint(0, 3))])
    if r < 0.9:
        return ("cb",)
    return ("ct", "")


_OWN_LABEL = {
    "class_html_marked_and_token_has_escaped_char":
        lambda l: l.endswith("!g") and l.split(":")[1] in ("add_has!g", "add_order!g"),
    "class_html_marked_remove_class_loses_mark": lambda l: l.split(":")[1] == "remove_keeps_mark",
}


def _recorded() -> list:
    return [k["matcher"] for k in core.load_known().get("findings", []) if k["property"] == PID and k["matcher"] in _OWN_LABEL]


def _labels_match(f, name: str) -> bool:
    """every failing clause belongs to a recorded finding's class and at least one to the finding `name`"""
    if f.kind != "property" or not f.detail.startswith("F "):
        return False
    labels = f.detail.split()[1:]
    rec = set(_recorded()) | {name}
    return (bool(labels) and all(any(_OWN_LABEL[n](l) for n in rec) for l in labels)
            and any(_OWN_LABEL[name](l) for l in labels))


def m_fc16(f) -> bool:
    """failing input inside the recorded finding's class: every failing clause of the executable statement is an
    add_class law on a step where the class value is HTML()-marked and the token contains a character the merge
    escapes (the Lean guard `plainOrSafe` is false there: the driver marks such clauses `!g`)"""
    return _labels_match(f, "class_html_marked_and_token_has_escaped_char")


WITNESS_MARK = chist_line([("class", ("h", "a&amp;b c"))], [("rc", "c")])


def m_fc16b(f) -> bool:
    """input class of F-C16b (used only if known_findings.json records it instead of the repair
    fixes/C16-remove-class-keeps-html.patch): remove_class on an HTML()-marked class value stores a plain string"""
    if not f.line.startswith("chist "):
        return False
    if f.kind == "property":
        return _labels_match(f, "class_html_marked_remove_class_loses_mark")
    from wire import Toks, p_str, p_list, p_attr
    from ops_attrs import p_cstep
    t = Toks(f.line[len("chist "):])
    p_str(t)
    attrs = p_list(t, p_attr)
    steps = p_list(t, p_cstep)
    return any(k == "class" and v[0] == "h" for k, v in attrs) and any(s[0] == "rc" for s in steps)


def run(tier: str) -> int:
    ck = core.Check(PID, tier, PROP_FILES)
    ck.prepare()
    rng = ck.rng
    thorough = tier == "thorough"
    ck.rule = ("a case is one history of add_class / remove_class / has_class / add_style calls on one tag (or one css() "
               "call); non-trivial = a mutating call acts on an existing class/style value or follows another mutating "
               "call (css: at least one non-None value); distinct by wire term")
    cases: list[tuple[str, bool, str]] = [(WITNESS, True, "corpus")]
    # 0. corpus: the suite's walk (test_basic_tag_api) and the finding's witness
    cases.append((chist_line([], [("ac", "foo", False), ("ac", "bar", False), ("ac", "baz", True), ("hc", "foo"),
                                  ("rc", "bar"), ("hc", "bar"), ("as", ("str", "color: red;"), False),
                                  ("as", ("str", "font-size: 12px;"), True), ("rc", "foo"), ("rc", "baz"), ("hc", "baz")]),
                  True, "corpus"))
    cases.append((chist_line([("class", ("h", "&amp;c1"))], [("ac", "&c2", False), ("ac", "&c3", True)]), True, "corpus"))
    # F-C16b: what remains after remove_class keeps the HTML() mark (also when nothing was removed)
    cases.append((WITNESS_MARK, True, "corpus"))
    cases.append((chist_line([("class", ("h", "a&amp;b c"))], [("rc", "zzz"), ("hc", "c"), ("rc", "c"), ("ac", "d", False), ("rc", "a&amp;b")]),
                  True, "corpus"))

    # 1. exhaustive: every history of <= 2 calls over 10 tokens (+ styles) from 10 initial class values
    pool = step_pool(TOKENS, STYLES[:5])
    n1 = 0
    for cls in INIT_CLASS:
        attrs = init_attrs(cls)
        for n in (1, 2):
            for steps in itertools.product(pool, repeat=n):
                cases.append((chist_line(attrs, list(steps)), nontrivial(attrs, steps), f"hist{n}"))
                n1 += 1
    ck.exhaustive_scopes.append({"scope": f"all histories of <= 2 calls over add/remove/has_class x tokens {TOKENS} x both "
                                          f"prepend settings + add_style x 5 declarations, from {len(INIT_CLASS)} initial class "
                                          "values (absent, empty, plain, HTML()-marked, whitespace-only, repeated tokens)",
                                 "cases": n1, "exhaustive": True})
    # 2. exhaustive: every history of 3 calls over the substring tokens
    pool3 = step_pool(TOKENS_S)
    inits3 = INIT_CLASS if thorough else [None, ("p", "a ab"), ("h", "a"), ("p", " a  ab\ta ")]
    n2 = 0
    for cls in inits3:
        attrs = init_attrs(cls, extra=False)
        for steps in itertools.product(pool3, repeat=3):
            cases.append((chist_line(attrs, list(steps)), nontrivial(attrs, steps), "hist3"))
            n2 += 1
    ck.exhaustive_scopes.append({"scope": f"all histories of 3 calls over tokens {TOKENS_S} from {len(inits3)} initial class values",
                                 "cases": n2, "exhaustive": True})
    if thorough:
        pool4 = step_pool(["a", "ab", " a "])
        n3 = 0
        for cls in [None, ("p", "a ab a"), ("h", "ab a")]:
            attrs = init_attrs(cls, extra=False)
            for steps in itertools.product(pool4, repeat=4):
                cases.append((chist_line(attrs, list(steps)), nontrivial(attrs, steps), "hist4"))
                n3 += 1
        ck.exhaustive_scopes.append({"scope": "all histories of 4 calls over tokens a / ab / ' a ' from 3 initial class values",
                                     "cases": n3, "exhaustive": True})
    # 3. add_style: every history of <= 2 calls over 11 arguments from 4 initial style values
    n4 = 0
    spool = step_pool([], STYLES)
    for sty in [None, ("p", "x:0;"), ("h", "y:<0>;"), ("p", "")]:
        attrs = init_attrs(("p", "c"), sty)
        for n in (1, 2):
            for steps in itertools.product(spool, repeat=n):
                cases.append((chist_line(attrs, list(steps)), nontrivial(attrs, steps), "style"))
                n4 += 1
    ck.exhaustive_scopes.append({"scope": "all histories of <= 2 add_style calls over 11 arguments (str/HTML with and without "
                                          "semicolon, True, None, number, invalid type) x both prepend settings, 4 initial styles",
                                 "cases": n4, "exhaustive": True})
    # 4. random histories of <= 5 calls (thorough: <= 8)
    for _ in range(ck.budget(12000, 200000)):
        attrs = []
        if rng.random() < 0.3:
            attrs.append(("id", ("p", gen.rand_text(rng, 4))))
        if rng.random() < 0.8:
            attrs.append(("class", rand_class_value(rng)))
        if rng.random() < 0.4:
            attrs.append(("style", (rng.choice(["p", "h"]), gen.rand_text(rng, 5) + rng.choice([";", ""]))))
        steps = []
        for _ in range(rng.randint(1, 8 if thorough else 5)):
            r = rng.random()
            t = rand_token(rng)
            if r < 0.35:
                steps.append(("ac", t, rng.random() < 0.4))
            elif r < 0.6:
                steps.append(("rc", t))
            elif r < 0.8:
                steps.append(("hc", t))
            else:
                steps.append(("as", rand_style(rng), rng.random() < 0.4))
        cases.append((chist_line(attrs, steps), nontrivial(attrs, steps), "random"))
    # 5. css(): all keyword sequences of <= 2 distinct keys over 10 keys x 9 values x 3 separators; 3 keys over 4 x 5
    n5 = 0
    for collapse in ("", "\n", None):
        for n in (0, 1, 2):
            for keys in itertools.permutations(CSS_KEYS, n):
                for vals in itertools.product(CSS_VALS, repeat=n):
                    kw = list(zip(keys, vals))
                    cases.append((css_line(collapse, kw), any(v[0] != "cn" for v in vals), "css<=2"))
                    n5 += 1
    for keys in itertools.permutations(CSS_KEYS_S, 3):
        for vals in itertools.product(CSS_VALS_S, repeat=3):
            cases.append((css_line("", list(zip(keys, vals))), any(v[0] != "cn" for v in vals), "css=3"))
            n5 += 1
    ck.exhaustive_scopes.append({"scope": f"css(): all ordered keyword sets of <= 2 distinct keys over {CSS_KEYS} x 9 value kinds "
                                          "(str, '', int, float, None, list, [], unjoinable list, bool) x separators '', '\\n', non-str; "
                                          f"all ordered triples over {CSS_KEYS_S} x 5 values", "cases": n5, "exhaustive": True})
    for _ in range(ck.budget(4000, 60000)):
        keys = []
        for _ in range(rng.randint(0, 5)):
            k = rand_css_key(rng)
            if k not in keys and k != "collapse_":
                keys.append(k)
        kw = [(k, rand_css_val(rng)) for k in keys]
        collapse = rng.choice(["", "", "", "\n", " ", None, ";x"])
        cases.append((css_line(collapse, kw), any(v[0] != "cn" for _, v in kw), "css-random"))

    cases.sort(key=lambda c: len(c[0]))  # the first failing input reported is then a shortest one
    lines = [c[0] for c in cases]
    impl = core.impl_many(lines)
    for (l, nt, tag), im in zip(cases, impl):
        # a realised term that does not read back as the term (on the unchanged tree this never happens — every clean run
        # checks it): the implementation's doing, e.g. a name or text that depends on earlier calls; it is kept as the
        # implementation's answer, which no model answer equals
        ck.add(l, im, nontrivial=nt, tag=tag)
    # the tabulated runtime facts the statements assume
    ck.assumptions.append(f"str.isspace table: {len(WS_CHARS)} code points, contains U+0020: {' ' in WS_CHARS}")
    if " " not in WS_CHARS:
        raise core.Infra("str.isspace(' ') is false in this interpreter")
    ck.add_src(['Tag_add_class', 'Tag_add_style'])
    srctie_c16.add_src_c16(ck, ['Tag_has_class', 'Tag_remove_class', 'util_css'])   # need the str.isspace / str.lower tables
    ck.correspond(holds=True)
    # the recorded finding's witness is replayed on every run: a stale record is reported, not hidden
    known = {k["matcher"]: k for k in core.load_known().get("findings", []) if k["property"] == PID}
    for name, witness, m in (("class_html_marked_and_token_has_escaped_char", WITNESS, m_fc16),
                             ("class_html_marked_remove_class_loses_mark", WITNESS_MARK, m_fc16b)):
        wit = [f for f in ck.failures if f.kind == "property" and f.line == witness]
        if name in known and not (wit and m(wit[0])):
            print(f"WARNING: property={PID} stale known finding {known[name]['id']}: its witness no longer fails")
    return ck.finish(matchers={"class_html_marked_and_token_has_escaped_char": m_fc16,
                               "class_html_marked_remove_class_loses_mark": m_fc16b}, shrink=describe(ck))
