/-
Specification side of C01: a tokenizer / tree builder for the HTML syntax the library emits,
written independently of the renderer (it never mentions `Node.render`, pieces or escape tables),
character-reference decoding, normalisation, and the expected image of a tag tree.
Everything is executable: the driver evaluates these definitions on the REAL output.

  tokenize  : Str → Option (List Tok)          text until `<` ; `</name>` ; `<name (ws+ k="v")* ws* /?>`
  build     : List Tok → Option (List PTree)   stack discipline
  decodeRefs: Str → Str                        &amp; &lt; &gt; &quot; &apos; and decimal &#N;
  normalise : List PTree → List PTree          decode, trim HTML whitespace, drop empty runs
  expected  : List Str → Node → PTree          what a tag tree must parse back to
-/
import HtmlVerif.Model.Tree

namespace HtmlVerif

/-! ### characters -/

/-- HTML whitespace: space, tab, LF, FF, CR -/
def isWs (c : Char) : Bool :=
  c == ' ' || c == '\t' || c == '\n' || c == Char.ofNat 12 || c == '\r'

def isAsciiLetter (c : Char) : Bool :=
  (97 ≤ c.toNat && c.toNat ≤ 122) || (65 ≤ c.toNat && c.toNat ≤ 90)

def isAsciiDigit (c : Char) : Bool := 48 ≤ c.toNat && c.toNat ≤ 57

/-- characters of a tag name after the first: `[A-Za-z0-9:_.-]` -/
def isNameChar (c : Char) : Bool :=
  isAsciiLetter c || isAsciiDigit c || c == ':' || c == '_' || c == '.' || c == '-'

/-- a tag name: an ASCII letter followed by name characters -/
def validName : Str → Bool
  | [] => false
  | c :: r => isAsciiLetter c && r.all isNameChar

/-- characters allowed in an attribute name: anything but whitespace and `" ' > / = <` -/
def isAttrNameChar (c : Char) : Bool :=
  !(isWs c || c == '"' || c == '\'' || c == '>' || c == '/' || c == '=' || c == '<')

/-- a string of HTML whitespace only -/
def wsOnly (s : Str) : Bool := s.all isWs

/-- longest prefix whose characters satisfy `p`, and the rest -/
def spanP (p : Char → Bool) : Str → Str × Str
  | [] => ([], [])
  | c :: r => if p c then ((c :: (spanP p r).1), (spanP p r).2) else ([], c :: r)

/-! ### tokens -/

inductive Tok
  | text (s : Str)                                              -- a run of character data (raw, undecoded)
  | stag (name : Str) (attrs : List (Str × Str)) (selfClose : Bool)   -- start tag, raw attribute values
  | etag (name : Str)                                           -- end tag
  deriving DecidableEq, Repr

/-- one attribute `name="value"` at the head of the input, and what follows it -/
def attrAt (r : Str) : Option ((Str × Str) × Str) :=
  let k := spanP isAttrNameChar r
  if k.1 = [] then none else
  match k.2 with
  | e :: q :: r3 =>
    if e = '=' ∧ q = '"' then
      let v := spanP (fun x => x != '"') r3            -- the value ends at the first `"`
      match v.2 with
      | [] => none
      | _ :: r5 => some ((k.1, v.1), r5)
    else none
  | _ => none

/-- the end of a start tag: `>` or `/>` -/
def tagEndAt (c : Char) (r : Str) : Option (Option (Bool × Str)) :=
  if c = '>' then some (some (false, r))
  else if c = '/' then
    match r with
    | [] => some none
    | d :: r3 => if d = '>' then some (some (true, r3)) else some none
  else none

abbrev AttrsResult := List (Str × Str) × Bool × Str

/-- after a tag name: `(ws+ name="value")* ws* (/)?>`; `k` parses what follows one attribute -/
def attrsStep (k : Str → Option AttrsResult) (r : Str) : Option AttrsResult :=
  let w := spanP isWs r
  match w.2 with
  | [] => none
  | c :: r2 =>
    match tagEndAt c r2 with
    | some e => e.map fun p => ([], p.1, p.2)
    | none =>
      if w.1 = [] then none                            -- an attribute must be preceded by whitespace
      else
        match attrAt (c :: r2) with
        | none => none
        | some (kv, r5) =>
          match k r5 with
          | some (as, sc, r6) => some (kv :: as, sc, r6)
          | none => none

/-- fuel bounds the number of attributes -/
def attrsF : Nat → Str → Option AttrsResult
  | 0, _ => none
  | f + 1, r => attrsStep (attrsF f) r

/-- what follows a `<`: `/name>` or `name attrs >`; anything else (`<!`, `<?`, `< `, `<>`) is a failure -/
def tagAt (r : Str) : Option (Tok × Str) :=
  match r with
  | [] => none
  | c :: r1 =>
    if c = '/' then
      let n := spanP isNameChar r1
      if validName n.1 then
        match n.2 with
        | d :: r2 => if d = '>' then some (.etag n.1, r2) else none
        | [] => none
      else none
    else
      let n := spanP isNameChar (c :: r1)
      if validName n.1 then
        match attrsF n.2.length n.2 with
        | some (as, sc, r2) => some (.stag n.1 as sc, r2)
        | none => none
      else none

/-- one token at the head of a non-empty input; `k` tokenizes the rest -/
def tokStep (k : Str → Option (List Tok)) (c : Char) (r : Str) : Option (List Tok) :=
  if c = '<' then
    match tagAt r with
    | some (t, r') => (k r').map (t :: ·)
    | none => none
  else
    let p := spanP (fun x => x != '<') r               -- a text run ends at the first `<`
    (k p.2).map (Tok.text (c :: p.1) :: ·)

/-- the tokenizer proper; every token consumes at least one character, so fuel = length suffices -/
def tokF : Nat → Str → Option (List Tok)
  | _, [] => some []
  | 0, _ :: _ => none
  | f + 1, c :: r => tokStep (tokF f) c r

def tokenize (s : Str) : Option (List Tok) := tokF s.length s

/-! ### parse trees -/

inductive PTree
  | elem (name : Str) (attrs : List (Str × Str)) (selfClosed : Bool) (kids : List PTree)
  | text (s : Str)
  deriving Repr

mutual
  def PTree.beq : PTree → PTree → Bool
    | .elem n a s k, .elem n' a' s' k' => n == n' && a == a' && s == s' && PTree.beqList k k'
    | .text s, .text s' => s == s'
    | _, _ => false
  def PTree.beqList : List PTree → List PTree → Bool
    | [], [] => true
    | x :: xs, y :: ys => x.beq y && PTree.beqList xs ys
    | _, _ => false
end

/-- an element that is open while building: its name, attributes and (reversed) older siblings -/
structure Frame where
  name  : Str
  attrs : List (Str × Str)
  sibs  : List PTree

/-- close the pending run of character data (consecutive text tokens form one text node) -/
def flushT (p : Str) (cur : List PTree) : List PTree :=
  if p = [] then cur else .text p :: cur

/-- `cur`: children of the innermost open element so far (reversed); `st`: the open elements -/
def buildGo : List Tok → Str → List PTree → List Frame → Option (List PTree)
  | [], p, cur, [] => some (flushT p cur).reverse
  | [], _, _, _ :: _ => none                                          -- something is still open
  | .text s :: ts, p, cur, st => buildGo ts (p ++ s) cur st
  | .stag n as true :: ts, p, cur, st => buildGo ts [] (.elem n as true [] :: flushT p cur) st
  | .stag n as false :: ts, p, cur, st => buildGo ts [] [] (⟨n, as, flushT p cur⟩ :: st)
  | .etag _ :: _, _, _, [] => none                                    -- nothing to close
  | .etag n :: ts, p, cur, fr :: st =>
    if fr.name = n then                                               -- must name the innermost open element
      buildGo ts [] (.elem n fr.attrs false (flushT p cur).reverse :: fr.sibs) st
    else none

def build (ts : List Tok) : Option (List PTree) := buildGo ts [] [] []

/-! ### character references -/

def isRefChar (c : Char) : Bool := isAsciiLetter c || isAsciiDigit c || c == '#'

def digitsVal (ds : Str) : Nat := ds.foldl (fun a c => 10 * a + (c.toNat - 48)) 0

def namedRefs : List (Str × Char) :=
  [(['a', 'm', 'p'], '&'), (['l', 't'], '<'), (['g', 't'], '>'), (['q', 'u', 'o', 't'], '"'),
   (['a', 'p', 'o', 's'], '\'')]

/-- what stands between `&` and `;` -/
def refBody (b : Str) : Option Char :=
  match b with
  | [] => none
  | c :: ds =>
    if c = '#' then
      if ds ≠ [] ∧ ds.all isAsciiDigit = true then
        let n := digitsVal ds
        if 0 < n ∧ n.isValidChar then some (Char.ofNat n) else none
      else none
    else alookup b namedRefs

/-- a reference directly after an `&`: the character it denotes and how many characters it occupies -/
def refAt (r : Str) : Option (Char × Nat) :=
  let p := spanP isRefChar r
  match p.2 with
  | [] => none
  | c :: _ => if c = ';' then (refBody p.1).map (fun ch => (ch, p.1.length + 1)) else none

/-- the first argument counts characters still to be skipped (the body of a decoded reference) -/
def decodeGo : Nat → Str → Str
  | _, [] => []
  | k + 1, _ :: r => decodeGo k r
  | 0, c :: r =>
    if c = '&' then
      match refAt r with
      | some (ch, n) => ch :: decodeGo n r
      | none => c :: decodeGo 0 r
    else c :: decodeGo 0 r

/-- one left-to-right pass replacing `&name;` / `&#N;` -/
def decodeRefs (s : Str) : Str := decodeGo 0 s

/-! ### normalisation -/

/-- remove HTML whitespace at both ends -/
def trimWs (s : Str) : Str := ((s.dropWhile isWs).reverse.dropWhile isWs).reverse

def decodeAttrs (as : List (Str × Str)) : List (Str × Str) := as.map fun kv => (kv.1, decodeRefs kv.2)

mutual
  /-- zero or one tree: a text run is decoded, trimmed, and dropped when nothing is left -/
  def PTree.norm : PTree → List PTree
    | .text s => if trimWs (decodeRefs s) = [] then [] else [.text (trimWs (decodeRefs s))]
    | .elem n as sc ks => [.elem n (decodeAttrs as) sc (PTree.normList ks)]
  def PTree.normList : List PTree → List PTree
    | [] => []
    | t :: ts => t.norm ++ PTree.normList ts
end

def normalise (ts : List PTree) : List PTree := PTree.normList ts

/-- the whole observation of C01 on a string of markup -/
def parseHtml (s : Str) : Option (List PTree) := ((tokenize s).bind build).map normalise

/-! ### the expected image of a tree -/

/-- a (decoded) text run as zero or one tree -/
def textNode (s : Str) : List PTree := if trimWs s = [] then [] else [.text (trimWs s)]

def plainAttrs (a : Attrs) : List (Str × Str) := a.map fun kv => (kv.1, kv.2.str)

mutual
  /-- same name; attributes in stored order with stored values; self-closed iff void and childless;
      metadata ignored.  (Leaves other than plain text are outside C01's guard; they count as text.) -/
  def Node.expected (void : List Str) : Node → PTree
    | .tag n _ attrs kids =>
      .elem n (plainAttrs attrs) (void.contains n && kids.visible.isEmpty) (kids.expKids void [])
    | .text s => .text s
    | .html s => .text s
    | .robj s => .text s
    | _ => .text []
  /-- children: adjacent text leaves are concatenated (`acc`), trimmed, and dropped when empty -/
  def Nodes.expKids (void : List Str) : Nodes → Str → List PTree
    | .nil, acc => textNode acc
    | .cons h t, acc =>
      match h with
      | .tag .. => textNode acc ++ h.expected void :: t.expKids void []
      | .text s => t.expKids void (acc ++ s)
      | .html s => t.expKids void (acc ++ s)
      | .robj s => t.expKids void (acc ++ s)
      | _ => t.expKids void acc
end

def expected (void : List Str) (t : Node) : PTree := t.expected void
def expectedKids (void : List Str) (ks : Nodes) : List PTree := ks.expKids void []

/-! ### the guard of C01 -/

def attrsOrdinary : Attrs → Bool
  | [] => true
  | (k, v) :: r =>
    !k.isEmpty && k.all isAttrNameChar && !v.isHtml && !(r.any fun kv => kv.1 == k) && attrsOrdinary r

mutual
  /-- names `[A-Za-z][A-Za-z0-9:_.-]*`, not script/style; attribute names non-empty, distinct, without
      whitespace or `" ' > / = <`; attribute values and leaves plain text; metadata allowed anywhere -/
  def Node.ordinary (noesc : List Str) : Node → Bool
    | .tag n _ attrs kids => validName n && !noesc.contains n && attrsOrdinary attrs && kids.ordinaryKids noesc
    | .text _ => true
    | .mnode _ => true
    | .dep .. => true
    | _ => false
  def Nodes.ordinaryKids (noesc : List Str) : Nodes → Bool
    | .nil => true
    | .cons h t => h.ordinary noesc && t.ordinaryKids noesc
end

/-- an ordinary *tag* -/
def Ordinary (cfg : Cfg) (t : Node) : Prop := t.isTag = true ∧ t.ordinary cfg.noesc = true

instance (cfg : Cfg) (t : Node) : Decidable (Ordinary cfg t) := by unfold Ordinary; infer_instance

end HtmlVerif
