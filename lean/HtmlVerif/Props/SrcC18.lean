/-
Source tie (DESIGN §14) for `render()`, the string views and `head_content` (harness/pytr_c18.py).

1. `TagList.render` / `Tag.render`

       cp = self.tagify(); deps = cp.get_dependencies(); return {"dependencies": deps, "html": cp.get_html_string()}

   compute, for every tree, the dict whose two entries are what the model reports: the resolved dependency list and the
   markup of the expanded tree (`renderOfList` / `renderOfTag`, Model/Tagify.lean — the definitions `C09_render` is about):
   `src_TagList_render`, `src_Tag_render`, `src_TagList_render_spec`.  Obligations of C09.

   The three callees are tied to the model in Props/SrcC09.lean (`tagify`, embedding `embT tv`), Props/SrcC10.lean
   (`get_dependencies`, `embT tv`) and Props/SrcRender.lean (`get_html_string`, embedding `embNode`).  The embeddings
   differ, and `render()` hands the *same* objects to all three.  So the three ties are re-established here for one
   family of embeddings that carries every field any of them reads — `embC18 xf tv` (Lemmas/SrcC18.lean; `xf` = further
   fields of the dependency objects, used by the string views) — by the same per-pass arguments as in those files
   (`*_step_C18`, `*_depth_C18`; no loop body is spelled out: the loops are obtained from the regenerated definitions by
   unification through the loop lemmas restated for an arbitrary embedding).  With `xf = xfNilC18` the embedding is
   `embT tv` (`embC18_nil`), so `src_tagify_*` and `src_get_dependencies_*` are instances of the theorems below, and
   `src_render_*` is transported from `embNode` to the embedding that carries all fields.  The two models of
   `_resolve_dependencies` (`resolve`, Model/Deps.lean; `Tagify.resolveDeps`, Model/Tagify.lean) are proved equal
   (`resolve_entries_C18`).

2. `_render_tag_or_taglist`, `Tag.__str__`, `TagList.__str__` = `strOfRendered` / `strView` / `strViewList`
   (Model/ReadOps.lean — the definitions `C08_views` is about), in both values of `html_dependency_render_mode`
   (`Globals.renderModeC18`): `src_render_tag_or_taglist_gen/_list/_tag`, `src_Tag_str`, `src_TagList_str`.  Obligations of
   C08.  `serialize_to_script_json` is not translated: each dependency object records the `<script>` Tag the model says
   the method returns (`xfSerC18`; primitive `pySerializeToScriptJsonC18`).

3. `hash_deterministic` (SHA-1 is the parameter `H`: `Globals.sha1HexC18`) and `head_content` = `headContent`
   (Model/HeadContent.lean) on the child list `TagList(*args)` builds: `src_hash_deterministic`, `src_head_content`
   (through `src_TagList_init` of Props/SrcC14.lean, `src_render_list` of Props/SrcRender.lean — transported to the
   module constants of this area by `get_html_string_globalsHeadC18` — and `src_init` of Props/SrcC10b.lean).
   Obligations of C18.

The module constants are `globalsC18 cfg mode sha` — `globalsOf cfg` with `html_dependency_render_mode` and the SHA-1
digest as parameters; the text functions do not see them (`normalize_text_globalsC18`, by `rfl`).
-/
import HtmlVerif.Generated.Src
import HtmlVerif.Lemmas.SrcC18
import HtmlVerif.Props.SrcC10
import HtmlVerif.Props.SrcRender
import HtmlVerif.Model.ReadOps
import HtmlVerif.Model.HeadContent
import HtmlVerif.Props.SrcC14
import HtmlVerif.Props.SrcC10b
import HtmlVerif.Props.C14

set_option linter.unusedVariables false
set_option linter.unusedSimpArgs false

namespace HtmlVerif.SrcTie
open HtmlVerif HtmlVerif.Py HtmlVerif.Generated.Src

/-! ## `tagify` on the embedding that carries all fields -/

/-- the loop of `TagList.tagify` (cf. `src_taglist_tagify_step`) -/
theorem src_taglist_tagify_step_C18 (h : TagList_tagify_available = true) (G : Globals) (xf : XfC18) (hx : XfOkC18 xf)
    (tv : Node → PVal) (fuel : Nat) (ks : Nodes)
    (htv : ∀ c ∈ ks.toList, c.isTag = false → c.isTagifiable = true → tv c = embResultC18 xf tv (specResult c))
    (HP : ∀ c ∈ ks.toList, c.isTag = true → Tag_tagify G fuel (embC18 xf tv c) = .ok (embC18 xf tv (tagifyTag c))) :
    TagList_tagify G (fuel + 1) (tagListOf (embsC18 xf tv ks)) = .ok (tagListOf (embsC18 xf tv (tagifyNodes ks))) := by
  first
  | exact absurd h (by decide)
  | skip
  all_goals (
    rw [TagList_tagify]
    simp only [ok_bind, pure_eq_ok, truthy_bool, pyCopy_tagListOf, pyLenU_tagListOf, pyRange_nat, pyReversed_list, pyIter_list,
      embsC18_toList, List.length_map]
    refine tagify_loop_k_C18 (embC18 xf tv) Prod.fst specResult ks.toList _ rfl _ ?step _ _ ?k
    case k =>
      intro s hs
      rw [hs, flatMap_specResult]
    case step =>
      intro pre c post s hc hs
      obtain ⟨s1, s2, s3, s4⟩ := s
      simp only at hs; subst hs
      have hget := pyGetItemU_at (pre.map (embC18 xf tv)) (embC18 xf tv c) (post.map (embC18 xf tv))
      have hset := fun v => pySetItemU_at (pre.map (embC18 xf tv)) (embC18 xf tv c) v (post.map (embC18 xf tv))
      have hsl := fun xs => pySetSliceU_at (pre.map (embC18 xf tv)) (embC18 xf tv c) (post.map (embC18 xf tv)) xs
      simp only [List.length_map] at hget hset hsl
      simp only [List.map_append, List.map_cons, hget, ok_bind, isTagifiable_embC18 xf hx, isMeta_embC18]
      cases c with
      | tag nm ws at' kk =>
        have hp := HP _ hc rfl
        have hcls : pyClassOf (embC18 xf tv (Node.tag nm ws at' kk)) = "Tag" := rfl
        simp only [Node.isTagifiable_tag, if_true, hcls, hp, ok_bind, not_taglist_embC18, Bool.false_eq_true, if_false, hset]
        simp [stepSpec, specResult, tagifyTag, C09.C09_tagify_is_spec, TagifyResult.splice]
      | tobjL rh cc =>
        have hcls : pyClassOf (embC18 xf tv (Node.tobjL rh cc)) = "TagifyObj" := rfl
        have hv := htv _ hc rfl rfl
        have hty : pyTagifyObj (embC18 xf tv (Node.tobjL rh cc)) = .ok (tv (Node.tobjL rh cc)) := by
          simp [embC18, pyTagifyObj, fieldGet?]
        simp only [Node.isTagifiable_tobjL, if_true, hcls, hty, ok_bind, hv, stepSpec]
        cases specResult (Node.tobjL rh cc) with
        | taglist ns =>
          have hi : isInstance (tagListOf (ns.map (embC18 xf tv))) ["TagList"] = true := by simp [tagListOf, isInstance]
          simp [embResultC18, hi, pyTagchilds_embC18, pyAdd_int1, hsl, TagifyResult.splice]
        | single x => simp [embResultC18, not_taglist_embC18, hset, TagifyResult.splice]
      | tobj1 rh cc =>
        have hcls : pyClassOf (embC18 xf tv (Node.tobj1 rh cc)) = "TagifyObj" := rfl
        have hv := htv _ hc rfl rfl
        have hty : pyTagifyObj (embC18 xf tv (Node.tobj1 rh cc)) = .ok (tv (Node.tobj1 rh cc)) := by
          simp [embC18, pyTagifyObj, fieldGet?]
        simp only [Node.isTagifiable_tobj1, if_true, hcls, hty, ok_bind, hv, stepSpec]
        cases specResult (Node.tobj1 rh cc) with
        | taglist ns =>
          have hi : isInstance (tagListOf (ns.map (embC18 xf tv))) ["TagList"] = true := by simp [tagListOf, isInstance]
          simp [embResultC18, hi, pyTagchilds_embC18, pyAdd_int1, hsl, TagifyResult.splice]
        | single x => simp [embResultC18, not_taglist_embC18, hset, TagifyResult.splice]
      | mnode k => simp [Node.isMeta, pyCopy_meta_C18 xf hx tv (Node.mnode k) rfl, hset, stepSpec]
      | dep d hh hd => simp [Node.isMeta, pyCopy_meta_C18 xf hx tv (Node.dep d hh hd) rfl, hset, stepSpec]
      | text t => simp [Node.isMeta, stepSpec]
      | html t => simp [Node.isMeta, stepSpec]
      | robj t => simp [Node.isMeta, stepSpec])

/-- a tag: given the tie for its child list at this fuel (cf. `src_tag_tagify_step`) -/
theorem src_tag_tagify_step_C18 (h : Tag_tagify_available = true) (G : Globals) (xf : XfC18) (tv : Node → PVal) (fuel : Nat)
    (nm : Str) (ws : Bool) (at' : Attrs) (kk : Nodes)
    (HQ : TagList_tagify G fuel (tagListOf (embsC18 xf tv kk)) = .ok (tagListOf (embsC18 xf tv (tagifyNodes kk)))) :
    Tag_tagify G (fuel + 1) (embC18 xf tv (.tag nm ws at' kk)) = .ok (embC18 xf tv (tagifyTag (.tag nm ws at' kk))) := by
  first
  | exact absurd h (by decide)
  | skip
  all_goals (
    rw [Tag_tagify]
    have hcp : pyCopy (embC18 xf tv (.tag nm ws at' kk)) = .ok (embC18 xf tv (.tag nm ws at' kk)) := by
      simp [embC18, pyCopy, fieldGet?]
    have hcls : pyClassOf (tagListOf (embsC18 xf tv kk)) = "TagList" := rfl
    simp only [ok_bind, pure_eq_ok, hcp, (getattr_tagC18 xf tv nm ws at' kk).2.2.1, hcls, HQ]
    simp [embC18, pySetAttr, fieldSet, tagifyTag, tagListOf])

/-- both functions, for all trees of tag-nesting depth ≤ n, with any fuel that covers the depth -/
theorem src_tagify_depth_C18 (h1 : Tag_tagify_available = true) (h2 : TagList_tagify_available = true)
    (G : Globals) (xf : XfC18) (hx : XfOkC18 xf) (tv : Node → PVal) (htv : TvOkC18 xf tv) (n : Nat) :
    (∀ t : Node, t.isTag = true → nodeDepth t ≤ n → ∀ fuel, 2 * n ≤ fuel →
        Tag_tagify G fuel (embC18 xf tv t) = .ok (embC18 xf tv (tagifyTag t)))
    ∧ (∀ ks : Nodes, kidsDepth ks ≤ n → ∀ fuel, 2 * n + 1 ≤ fuel →
        TagList_tagify G fuel (tagListOf (embsC18 xf tv ks)) = .ok (tagListOf (embsC18 xf tv (tagifyNodes ks)))) := by
  have listOf : ∀ m, (∀ t : Node, t.isTag = true → nodeDepth t ≤ m → ∀ fuel, 2 * m ≤ fuel →
        Tag_tagify G fuel (embC18 xf tv t) = .ok (embC18 xf tv (tagifyTag t))) →
      ∀ ks : Nodes, kidsDepth ks ≤ m → ∀ fuel, 2 * m + 1 ≤ fuel →
        TagList_tagify G fuel (tagListOf (embsC18 xf tv ks)) = .ok (tagListOf (embsC18 xf tv (tagifyNodes ks))) := by
    intro m hP ks hd fuel hf
    obtain ⟨f, rfl⟩ : ∃ f, fuel = f + 1 := ⟨fuel - 1, by omega⟩
    exact src_taglist_tagify_step_C18 h2 G xf hx tv f ks (fun c _ => htv c)
      (fun c hc hct => hP c hct (Nat.le_trans (depth_mem ks c hc) hd) f (by omega))
  induction n with
  | zero =>
    refine ⟨?_, listOf 0 ?_⟩ <;>
    · intro t htag hd
      cases t <;> simp [Node.isTag] at htag
      simp [nodeDepth] at hd
  | succ n ih =>
    have hP : ∀ t : Node, t.isTag = true → nodeDepth t ≤ n + 1 → ∀ fuel, 2 * (n + 1) ≤ fuel →
        Tag_tagify G fuel (embC18 xf tv t) = .ok (embC18 xf tv (tagifyTag t)) := by
      intro t htag hd fuel hf
      cases t <;> simp [Node.isTag] at htag
      rename_i nm ws at' kk
      obtain ⟨f, rfl⟩ : ∃ f, fuel = f + 1 := ⟨fuel - 1, by omega⟩
      have hk : kidsDepth kk ≤ n := by simp [nodeDepth] at hd; omega
      exact src_tag_tagify_step_C18 h1 G xf tv f nm ws at' kk (ih.2 kk hk f (by omega))
    exact ⟨hP, listOf (n + 1) hP⟩

/-- `Tag.tagify()` = `tagifyTag`, on the embedding that carries all fields -/
theorem src_tagify_tag_C18 (h1 : Tag_tagify_available = true) (h2 : TagList_tagify_available = true)
    (G : Globals) (xf : XfC18) (hx : XfOkC18 xf) (tv : Node → PVal) (htv : TvOkC18 xf tv) (t : Node) (htag : t.isTag = true)
    (fuel : Nat) (hf : 2 * nodeDepth t ≤ fuel) :
    Tag_tagify G fuel (embC18 xf tv t) = .ok (embC18 xf tv (tagifyTag t)) :=
  (src_tagify_depth_C18 h1 h2 G xf hx tv htv (nodeDepth t)).1 t htag (Nat.le_refl _) fuel hf

/-- `TagList.tagify()` = `tagifyNodes`, on the embedding that carries all fields -/
theorem src_tagify_list_C18 (h1 : Tag_tagify_available = true) (h2 : TagList_tagify_available = true)
    (G : Globals) (xf : XfC18) (hx : XfOkC18 xf) (tv : Node → PVal) (htv : TvOkC18 xf tv) (ks : Nodes) (fuel : Nat)
    (hf : 2 * kidsDepth ks + 1 ≤ fuel) :
    TagList_tagify G fuel (tagListOf (embsC18 xf tv ks)) = .ok (tagListOf (embsC18 xf tv (tagifyNodes ks))) :=
  (src_tagify_depth_C18 h1 h2 G xf hx tv htv (kidsDepth ks)).2 ks (Nat.le_refl _) fuel hf

/-! ## `get_dependencies` on the embedding that carries all fields -/

/-- the loop of `TagList.get_dependencies` and the code after it (cf. `src_taglist_deps_step`) -/
theorem src_taglist_deps_step_C18 (h : TagList_get_dependencies_available = true) (hr : resolve_dependencies_available = true)
    (G : Globals) (xf : XfC18) (tv : Node → PVal) (fuel : Nat) (ks : Nodes) (dd : Bool)
    (HP : ∀ c ∈ ks.toList, c.isTag = true →
      Tag_get_dependencies G fuel (embC18 xf tv c) (.bool false) = .ok (.list (c.collect.map (embC18 xf tv)))) :
    TagList_get_dependencies G (fuel + 1) (tagListOf (embsC18 xf tv ks)) (.bool dd)
      = .ok (.list ((ks.getDeps dd).map (embC18 xf tv))) := by
  first
  | exact absurd h (by decide)
  | skip
  all_goals (
    rw [TagList_get_dependencies]
    simp only [ok_bind, pure_eq_ok, truthy_bool, tagListOf, pyIter_taglist, embsC18_toList]
    refine deps_loop_k_C18 (embC18 xf tv) Prod.fst ks _ rfl _ ?step _ _ ?k
    case k =>
      intro s hs
      have hres := src_resolve_gen hr G (embC18 xf tv) Node.depName (fun d => (d.vrank : Int)) ks.collect
        (fun a ha => embC18_dep_name xf tv a (collect_isDep ks a ha))
        (fun a ha => embC18_dep_version xf tv a (collect_isDep ks a ha))
      rw [depGt_int] at hres
      rw [hs]
      cases dd <;> simp [Nodes.getDeps, resolve, hres]
    case step =>
      intro c hc s b hs
      obtain ⟨s1, s2⟩ := s
      simp only at hs; subst hs
      simp only [isDep_embC18, isTag_embC18]
      cases c with
      | tag nm ws at' kk =>
        have hp := HP _ hc rfl
        have hcls : pyClassOf (embC18 xf tv (Node.tag nm ws at' kk)) = "Tag" := rfl
        simp [Node.isDep, Node.isTag, hcls, hp, depsStep, pyListExtend, pyListAppend]
      | _ => simp [Node.isDep, Node.isTag, depsStep, pyListExtend, pyListAppend])

/-- a tag: given the tie for its child list at this fuel (cf. `src_tag_deps_step`) -/
theorem src_tag_deps_step_C18 (h : Tag_get_dependencies_available = true)
    (G : Globals) (xf : XfC18) (tv : Node → PVal) (fuel : Nat) (nm : Str) (ws : Bool) (at' : Attrs) (kk : Nodes) (dd : Bool)
    (HQ : TagList_get_dependencies G fuel (tagListOf (embsC18 xf tv kk)) (.bool dd)
      = .ok (.list ((kk.getDeps dd).map (embC18 xf tv)))) :
    Tag_get_dependencies G (fuel + 1) (embC18 xf tv (.tag nm ws at' kk)) (.bool dd)
      = .ok (.list (((Node.tag nm ws at' kk).getDeps dd).map (embC18 xf tv))) := by
  first
  | exact absurd h (by decide)
  | skip
  all_goals (
    rw [Tag_get_dependencies]
    have hcls : pyClassOf (tagListOf (embsC18 xf tv kk)) = "TagList" := rfl
    simp only [ok_bind, pure_eq_ok, (getattr_tagC18 xf tv nm ws at' kk).2.2.1, hcls, HQ, Node.getDeps])

/-- both functions, for all trees of tag-nesting depth ≤ n, with any fuel that covers the depth -/
theorem src_deps_depth_C18 (h1 : Tag_get_dependencies_available = true) (h2 : TagList_get_dependencies_available = true)
    (hr : resolve_dependencies_available = true) (G : Globals) (xf : XfC18) (tv : Node → PVal) (n : Nat) :
    (∀ t : Node, t.isTag = true → nodeDepth t ≤ n → ∀ fuel, 2 * n ≤ fuel → ∀ dd : Bool,
        Tag_get_dependencies G fuel (embC18 xf tv t) (.bool dd) = .ok (.list ((t.getDeps dd).map (embC18 xf tv))))
    ∧ (∀ ks : Nodes, kidsDepth ks ≤ n → ∀ fuel, 2 * n + 1 ≤ fuel → ∀ dd : Bool,
        TagList_get_dependencies G fuel (tagListOf (embsC18 xf tv ks)) (.bool dd)
          = .ok (.list ((ks.getDeps dd).map (embC18 xf tv)))) := by
  have listOf : ∀ m, (∀ t : Node, t.isTag = true → nodeDepth t ≤ m → ∀ fuel, 2 * m ≤ fuel → ∀ dd : Bool,
        Tag_get_dependencies G fuel (embC18 xf tv t) (.bool dd) = .ok (.list ((t.getDeps dd).map (embC18 xf tv)))) →
      ∀ ks : Nodes, kidsDepth ks ≤ m → ∀ fuel, 2 * m + 1 ≤ fuel → ∀ dd : Bool,
        TagList_get_dependencies G fuel (tagListOf (embsC18 xf tv ks)) (.bool dd)
          = .ok (.list ((ks.getDeps dd).map (embC18 xf tv))) := by
    intro m hP ks hd fuel hf dd
    obtain ⟨f, rfl⟩ : ∃ f, fuel = f + 1 := ⟨fuel - 1, by omega⟩
    refine src_taglist_deps_step_C18 h2 hr G xf tv f ks dd (fun c hc hct => ?_)
    have := hP c hct (Nat.le_trans (depth_mem ks c hc) hd) f (by omega) false
    cases c <;> simp [Node.isTag] at hct
    simpa [Node.getDeps, Nodes.getDeps, Node.collect] using this
  induction n with
  | zero =>
    refine ⟨?_, listOf 0 ?_⟩ <;>
    · intro t htag hd
      cases t <;> simp [Node.isTag] at htag
      simp [nodeDepth] at hd
  | succ n ih =>
    have hP : ∀ t : Node, t.isTag = true → nodeDepth t ≤ n + 1 → ∀ fuel, 2 * (n + 1) ≤ fuel → ∀ dd : Bool,
        Tag_get_dependencies G fuel (embC18 xf tv t) (.bool dd) = .ok (.list ((t.getDeps dd).map (embC18 xf tv))) := by
      intro t htag hd fuel hf dd
      cases t <;> simp [Node.isTag] at htag
      rename_i nm ws at' kk
      obtain ⟨f, rfl⟩ : ∃ f, fuel = f + 1 := ⟨fuel - 1, by omega⟩
      have hk : kidsDepth kk ≤ n := by simp [nodeDepth] at hd; omega
      exact src_tag_deps_step_C18 h1 G xf tv f nm ws at' kk dd (ih.2 kk hk f (by omega) dd)
    exact ⟨hP, listOf (n + 1) hP⟩

/-- `Tag.get_dependencies(dedup)` = `Node.getDeps`, on the embedding that carries all fields -/
theorem src_get_dependencies_tag_C18 (h1 : Tag_get_dependencies_available = true)
    (h2 : TagList_get_dependencies_available = true) (hr : resolve_dependencies_available = true) (G : Globals)
    (xf : XfC18) (tv : Node → PVal) (t : Node) (htag : t.isTag = true) (fuel : Nat) (hf : 2 * nodeDepth t ≤ fuel) (dd : Bool) :
    Tag_get_dependencies G fuel (embC18 xf tv t) (.bool dd) = .ok (.list ((t.getDeps dd).map (embC18 xf tv))) :=
  (src_deps_depth_C18 h1 h2 hr G xf tv (nodeDepth t)).1 t htag (Nat.le_refl _) fuel hf dd

/-- `TagList.get_dependencies(dedup=…)` = `Nodes.getDeps`, on the embedding that carries all fields -/
theorem src_get_dependencies_list_C18 (h1 : Tag_get_dependencies_available = true)
    (h2 : TagList_get_dependencies_available = true) (hr : resolve_dependencies_available = true) (G : Globals)
    (xf : XfC18) (tv : Node → PVal) (ks : Nodes) (fuel : Nat) (hf : 2 * kidsDepth ks + 1 ≤ fuel) (dd : Bool) :
    TagList_get_dependencies G fuel (tagListOf (embsC18 xf tv ks)) (.bool dd)
      = .ok (.list ((ks.getDeps dd).map (embC18 xf tv))) :=
  (src_deps_depth_C18 h1 h2 hr G xf tv (kidsDepth ks)).2 ks (Nat.le_refl _) fuel hf dd

/-! ## `get_html_string` on the embedding that carries all fields -/

/-- the child loop of `TagList.get_html_string` (cf. `src_taglist_step`) -/
theorem src_taglist_step_C18 (h : TagList_get_html_string_available = true) (hn : normalize_text_available = true)
    (he : html_escape_available = true) (hs : HTML_as_string_available = true) (cfg : Cfg) (ht : keysPlain cfg.textTbl = true)
    (ha : keysPlain cfg.attrTbl = true) (m : PVal) (sha : Str → Option Str) (xf : XfC18) (tv : Node → PVal)
    (fuel : Nat) (ks : Nodes) (i : Nat) (eol : Str) (aw esc : Bool)
    (HP : ∀ c ∈ ks.toList, c.isTag = true → ∀ (j : Nat) (e : Str),
      Tag_get_html_string (globalsC18 cfg m sha) fuel (embC18 xf tv c) (.int j) (.str e)
        = if c.hasTobj then .error .runtimeError else .ok (.str (c.render cfg j e))) :
    TagList_get_html_string (globalsC18 cfg m sha) (fuel + 1) (tagListOf (embsC18 xf tv ks)) (.int i) (.str eol) (.bool aw) (.bool esc)
      = if ks.hasTobjKids then .error .runtimeError else .ok (.str (renderList cfg ks i eol aw esc)) := by
  first
  | exact absurd h (by decide)
  | skip
  all_goals (
    rw [TagList_get_html_string]
    simp only [ok_bind, pure_eq_ok, truthy_bool]
    have hiter : pyIter (tagListOf (embsC18 xf tv ks)) = .ok (ks.toList.map (embC18 xf tv)) := by
      simp [pyIter, tagListOf, embsC18_toList]
    rw [hiter]
    simp only [ok_bind]
    have hnt : ∀ s, normalize_text (globalsC18 cfg m sha) (.str s) = .ok (.str (escText cfg s)) := by
      intro s
      have := src_normalize_text hn he hs cfg ht ha s false
      simpa [normalize_text_globalsC18] using this
    refine child_loop_C18 (embC18 xf tv) cfg ks i eol aw esc _ _ ?step
    case step =>
      intro c hc s b hR
      obtain ⟨s1, s2, s3, s4⟩ := s
      obtain ⟨acc, first, prev⟩ := b
      obtain ⟨h1, h2, h3⟩ := hR
      simp only at h1 h2 h3
      subst h1 h2 h3
      cases c with
      | mnode n =>
        rw [kidStep_mnode]
        exact Sim.yield_ok _ (by simp [embC18, isInstance, classBases, RKS]; rfl) (by simp [RKS, leafStep])
      | dep d hh hd =>
        rw [kidStep_dep]
        exact Sim.yield_ok _ (by simp [embC18, isInstance, classBases, RKS]; rfl) (by simp [RKS, leafStep])
      | text t =>
        rw [kidStep_text]
        cases first <;> cases prev <;> cases esc <;>
          exact Sim.yield_ok _ (by simp [embC18, isInstance, builtinClasses, pyOr, pyAnd, pyGetAttr, pyMul_indent, pyAdd_str, hnt]; rfl) (by simp [RKS, leafStep])
      | html t =>
        rw [kidStep_html]
        cases first <;> cases prev <;>
          exact Sim.yield_ok _ (by simp [embC18, isInstance, builtinClasses, classBases, pyOr, pyAnd, pyGetAttr, pyMul_indent, pyAdd_str,
            pyReprHtml, fieldGet?]; rfl) (by simp [RKS, leafStep])
      | robj t =>
        rw [kidStep_robj]
        cases first <;> cases prev <;>
          exact Sim.yield_ok _ (by simp [embC18, isInstance, builtinClasses, classBases, pyOr, pyAnd, pyGetAttr, pyMul_indent, pyAdd_str,
            pyReprHtml, fieldGet?]; rfl) (by simp [RKS, leafStep])
      | tobjL rh cc =>
        cases rh with
        | none =>
          rw [kidStep_tobjL_none]
          cases first <;> cases prev <;> simp [embC18, reprField, isInstance, builtinClasses, classBases, Sim, pyOr, pyAnd, pyGetAttr, fieldGet?, embErr, pyAdd_str]
        | some t =>
          rw [kidStep_tobjL_some]
          cases first <;> cases prev <;>
            exact Sim.yield_ok _ (by simp [embC18, reprField, isInstance, builtinClasses, classBases, pyOr, pyAnd, pyGetAttr, pyMul_indent, pyAdd_str,
              pyReprHtml, fieldGet?]; rfl) (by simp [RKS, leafStep])
      | tobj1 rh cc =>
        cases rh with
        | none =>
          rw [kidStep_tobj1_none]
          cases first <;> cases prev <;> simp [embC18, reprField, isInstance, builtinClasses, classBases, Sim, pyOr, pyAnd, pyGetAttr, fieldGet?, embErr, pyAdd_str]
        | some t =>
          rw [kidStep_tobj1_some]
          cases first <;> cases prev <;>
            exact Sim.yield_ok _ (by simp [embC18, reprField, isInstance, builtinClasses, classBases, pyOr, pyAnd, pyGetAttr, pyMul_indent, pyAdd_str,
              pyReprHtml, fieldGet?]; rfl) (by simp [RKS, leafStep])
      | tag nm ws at' kk =>
        rw [kidStep_tag]
        have hp := HP _ hc rfl
        have hp0 : Tag_get_html_string (globalsC18 cfg m sha) fuel (embC18 xf tv (Node.tag nm ws at' kk)) (PVal.int 0) (PVal.str [])
            = if (Node.tag nm ws at' kk).hasTobj then .error .runtimeError
              else .ok (.str ((Node.tag nm ws at' kk).render cfg 0 [])) := hp 0 []
        have hcls : pyClassOf (embC18 xf tv (Node.tag nm ws at' kk)) = "Tag" := rfl
        have hws : pyGetAttr (embC18 xf tv (Node.tag nm ws at' kk)) "add_ws" = .ok (.bool ws) := by
          simp [embC18, pyGetAttr, fieldGet?]
        have hit : isInstance (embC18 xf tv (Node.tag nm ws at' kk)) ["Tag"] = true := by simp [embC18, isInstance]
        have him : isInstance (embC18 xf tv (Node.tag nm ws at' kk)) ["MetadataNode"] = false := by
          simp [embC18, isInstance, classBases]
        by_cases hto : (Node.tag nm ws at' kk).hasTobj = true
        · simp only [hto, if_true] at hp hp0 ⊢
          cases first <;> cases prev <;> cases ws <;>
            simp [Sim, embErr, hp, hp0, hcls, hws, hit, him, pyOr, pyAnd, pyAdd_str]
        · simp only [hto, Bool.false_eq_true, if_false] at hp hp0 ⊢
          cases first <;> cases prev <;> cases ws <;>
            exact Sim.yield_ok _ (by simp [hp, hp0, hcls, hws, hit, him, pyOr, pyAnd, pyAdd_str]; rfl) (by simp [RKS, leafStep]))

/-- a tag: given the tie for its child list at this fuel (cf. `src_tag_step`) -/
theorem src_tag_step_C18 (h : Tag_get_html_string_available = true) (hn : normalize_text_available = true)
    (he : html_escape_available = true) (hs : HTML_as_string_available = true) (cfg : Cfg) (ht : keysPlain cfg.textTbl = true)
    (ha : keysPlain cfg.attrTbl = true) (m : PVal) (sha : Str → Option Str) (xf : XfC18) (tv : Node → PVal)
    (fuel : Nat) (nm : Str) (ws : Bool) (at' : Attrs) (kk : Nodes) (i : Nat) (eol : Str)
    (HQ : ∀ (j : Nat) (e : Str) (aw esc : Bool),
      TagList_get_html_string (globalsC18 cfg m sha) fuel (tagListOf (embsC18 xf tv kk)) (.int j) (.str e) (.bool aw) (.bool esc)
        = if kk.hasTobjKids then .error .runtimeError else .ok (.str (renderList cfg kk j e aw esc))) :
    Tag_get_html_string (globalsC18 cfg m sha) (fuel + 1) (embC18 xf tv (.tag nm ws at' kk)) (.int i) (.str eol)
      = if (Node.tag nm ws at' kk).hasTobj then .error .runtimeError
        else .ok (.str ((Node.tag nm ws at' kk).render cfg i eol)) := by
  first
  | exact absurd h (by decide)
  | skip
  all_goals (
    rw [Tag_get_html_string]
    obtain ⟨g1, g2, g3, g4⟩ := getattr_tagC18 xf tv nm ws at' kk
    have hesc : ∀ x, html_escape (globalsC18 cfg m sha) (.str x) (.bool true) = .ok (.str (htmlEscapeT cfg.attrTbl x)) := by
      intro x
      have := src_html_escape he cfg ht ha x true
      simpa [html_escape_globalsC18] using this
    have hntT : ∀ s, normalize_text (globalsC18 cfg m sha) (.str s) = .ok (.str (escText cfg s)) := by
      intro s
      have := src_normalize_text hn he hs cfg ht ha s false
      simpa [normalize_text_globalsC18] using this
    have hntH : ∀ s, normalize_text (globalsC18 cfg m sha) (.html s) = .ok (.str s) := by
      intro s
      have := src_normalize_text hn he hs cfg ht ha s true
      simpa [normalize_text_globalsC18] using this
    simp only [ok_bind, pure_eq_ok, truthy_bool, g1, g2, g3, g4, pyMul_indent, pyAdd_str, embAttrs, pyItems_dict, pyIter_list,
      List.map_map]
    refine attr_loop_k cfg at' (indentStr i ++ ['<'] ++ nm) _ _ (by simp [Function.comp_def]) _ ?hA _ _ ?hk
    case hA =>
      intro kv _ s b hs
      obtain ⟨k, v⟩ := kv
      obtain ⟨s1, s2⟩ := s
      simp only at hs; subst hs
      cases v <;> simp [isInstance, builtinClasses, hesc, pyConcat, attrText, emitAttrVal, pyAdd_str]
    case hk =>
      intro s hs
      obtain ⟨s1, s2⟩ := s
      simp only at hs; subst hs
      simp only [tagListOf, pyIter_taglist, embsC18_toList, ok_bind]
      rw [vis_loop_C18 (embC18 xf tv) kk _ (by intro c _ s; rw [isMeta_embC18]; cases c.isMeta <;> rfl)]
      simp only [ok_bind, pyLen, pure_eq_ok, List.length_map, pyIn_names, globalsC18_void, globalsC18_noesc, pyAdd_str]
      have hvis : (Node.tag nm ws at' kk).hasTobj = (if kk.visible.isEmpty then false else match inlineChild? kk.visible with
          | some _ => false
          | none => kk.hasTobjKids) := by rw [Node.hasTobj]; rfl
      rw [hvis, Node.render]
      cases hv : kk.visible with
      | nil =>
        by_cases hvoid : nm ∈ cfg.void <;>
          simp [hv, hvoid, pyEq, pyAnd, pyOr, truthy_list, openTag, closeTag, List.append_assoc]
      | cons c rest =>
        have hq := HQ (i + 1) eol ws (!cfg.noesc.contains nm)
        have hi1 : pyAdd (globalsC18 cfg m sha) (PVal.int ↑i) (PVal.int 1) = .ok (PVal.int ↑(i + 1)) := by
          simp [pyAdd, pyAddBase]
        simp only [tagListOf, embsC18_toList] at hq
        cases rest with
        | nil =>
          cases c <;> cases ws <;> by_cases hne : nm ∈ cfg.noesc <;> by_cases hk : kk.hasTobjKids = true <;>
            simp [hne, hk] at hq <;>
            simp [hv, pyEq, pyAnd, pyOr, truthy_list, openTag, closeTag, List.append_assoc, inlineChild?, embC18, reprField, isInstance, builtinClasses, classBases,
              pyGetItem, inlineText, hne, hntT, hntH, pyStr, escText, hi1, hq, hk, pyClassOf, renderList, embsC18_toList, pyAdd_str]
        | cons c2 r2 =>
          have hlen0 : ¬ ((r2.length : Int) + 1 + 1 = 0) := by omega
          have hlen : ¬ ((r2.length : Int) + 1 + 1 = 1) := by omega
          have hin : inlineChild? (c :: c2 :: r2) = none := by cases c <;> rfl
          cases ws <;> by_cases hne : nm ∈ cfg.noesc <;> by_cases hk : kk.hasTobjKids = true <;>
            simp [hne, hk] at hq <;>
            simp [hv, pyEq, pyAnd, pyOr, truthy_list, openTag, closeTag, List.append_assoc, hin, hlen, hlen0,
              hne, hi1, hq, hk, pyClassOf, renderList, embsC18_toList, pyAdd_str])

/-- both functions, for all trees of nesting depth ≤ n, with any fuel that covers the depth -/
theorem src_render_depth_C18 (h1 : Tag_get_html_string_available = true) (h2 : TagList_get_html_string_available = true)
    (hn : normalize_text_available = true) (he : html_escape_available = true) (hs : HTML_as_string_available = true)
    (cfg : Cfg) (ht : keysPlain cfg.textTbl = true) (ha : keysPlain cfg.attrTbl = true)
    (m : PVal) (sha : Str → Option Str) (xf : XfC18) (tv : Node → PVal) (n : Nat) :
    (∀ t : Node, t.isTag = true → nodeDepth t ≤ n → ∀ fuel, 2 * n ≤ fuel → ∀ (i : Nat) (eol : Str),
        Tag_get_html_string (globalsC18 cfg m sha) fuel (embC18 xf tv t) (.int i) (.str eol) = tagChecked cfg t i eol)
    ∧ (∀ ks : Nodes, kidsDepth ks ≤ n → ∀ fuel, 2 * n + 1 ≤ fuel → ∀ (i : Nat) (eol : Str) (aw esc : Bool),
        TagList_get_html_string (globalsC18 cfg m sha) fuel (tagListOf (embsC18 xf tv ks)) (.int i) (.str eol)
          (.bool aw) (.bool esc) = listChecked cfg ks i eol aw esc) := by
  have listOf : ∀ d, (∀ t : Node, t.isTag = true → nodeDepth t ≤ d → ∀ fuel, 2 * d ≤ fuel → ∀ (i : Nat) (eol : Str),
        Tag_get_html_string (globalsC18 cfg m sha) fuel (embC18 xf tv t) (.int i) (.str eol) = tagChecked cfg t i eol) →
      ∀ ks : Nodes, kidsDepth ks ≤ d → ∀ fuel, 2 * d + 1 ≤ fuel → ∀ (i : Nat) (eol : Str) (aw esc : Bool),
        TagList_get_html_string (globalsC18 cfg m sha) fuel (tagListOf (embsC18 xf tv ks)) (.int i) (.str eol)
          (.bool aw) (.bool esc) = listChecked cfg ks i eol aw esc := by
    intro d hP ks hd fuel hf i eol aw esc
    obtain ⟨f, rfl⟩ : ∃ f, fuel = f + 1 := ⟨fuel - 1, by omega⟩
    exact src_taglist_step_C18 h2 hn he hs cfg ht ha m sha xf tv f ks i eol aw esc
      (fun c hc hct j e => hP c hct (Nat.le_trans (depth_mem ks c hc) hd) f (by omega) j e)
  induction n with
  | zero =>
    have hP : ∀ t : Node, t.isTag = true → nodeDepth t ≤ 0 → ∀ fuel, 2 * 0 ≤ fuel → ∀ (i : Nat) (eol : Str),
        Tag_get_html_string (globalsC18 cfg m sha) fuel (embC18 xf tv t) (.int i) (.str eol) = tagChecked cfg t i eol := by
      intro t htag hd
      cases t <;> simp [Node.isTag] at htag
      simp [nodeDepth] at hd
    exact ⟨hP, listOf 0 hP⟩
  | succ n ih =>
    have hP : ∀ t : Node, t.isTag = true → nodeDepth t ≤ n + 1 → ∀ fuel, 2 * (n + 1) ≤ fuel → ∀ (i : Nat) (eol : Str),
        Tag_get_html_string (globalsC18 cfg m sha) fuel (embC18 xf tv t) (.int i) (.str eol) = tagChecked cfg t i eol := by
      intro t htag hd fuel hf i eol
      cases t <;> simp [Node.isTag] at htag
      rename_i nm ws at' kk
      obtain ⟨f, rfl⟩ : ∃ f, fuel = f + 1 := ⟨fuel - 1, by omega⟩
      have hk : kidsDepth kk ≤ n := by simp [nodeDepth] at hd; omega
      exact src_tag_step_C18 h1 hn he hs cfg ht ha m sha xf tv f nm ws at' kk i eol
        (fun j e aw esc => ih.2 kk hk f (by omega) j e aw esc)
    exact ⟨hP, listOf (n + 1) hP⟩

/-- `Tag.get_html_string(indent, eol)` = `Node.render`, on the embedding that carries all fields -/
theorem src_render_tag_C18 (h1 : Tag_get_html_string_available = true) (h2 : TagList_get_html_string_available = true)
    (hn : normalize_text_available = true) (he : html_escape_available = true) (hs : HTML_as_string_available = true)
    (cfg : Cfg) (ht : keysPlain cfg.textTbl = true) (ha : keysPlain cfg.attrTbl = true)
    (m : PVal) (sha : Str → Option Str) (xf : XfC18) (tv : Node → PVal)
    (t : Node) (htag : t.isTag = true) (fuel : Nat) (hf : 2 * nodeDepth t ≤ fuel) (i : Nat) (eol : Str) :
    Tag_get_html_string (globalsC18 cfg m sha) fuel (embC18 xf tv t) (.int i) (.str eol)
      = if t.hasTobj then .error .runtimeError else .ok (.str (t.render cfg i eol)) :=
  (src_render_depth_C18 h1 h2 hn he hs cfg ht ha m sha xf tv (nodeDepth t)).1 t htag (Nat.le_refl _) fuel hf i eol

/-- `TagList.get_html_string(…)` = `renderList`, on the embedding that carries all fields -/
theorem src_render_list_C18 (h1 : Tag_get_html_string_available = true) (h2 : TagList_get_html_string_available = true)
    (hn : normalize_text_available = true) (he : html_escape_available = true) (hs : HTML_as_string_available = true)
    (cfg : Cfg) (ht : keysPlain cfg.textTbl = true) (ha : keysPlain cfg.attrTbl = true)
    (m : PVal) (sha : Str → Option Str) (xf : XfC18) (tv : Node → PVal)
    (ks : Nodes) (fuel : Nat) (hf : 2 * kidsDepth ks + 1 ≤ fuel) (i : Nat) (eol : Str) (aw esc : Bool) :
    TagList_get_html_string (globalsC18 cfg m sha) fuel (tagListOf (embsC18 xf tv ks)) (.int i) (.str eol) (.bool aw) (.bool esc)
      = if ks.hasTobjKids then .error .runtimeError else .ok (.str (renderList cfg ks i eol aw esc)) :=
  (src_render_depth_C18 h1 h2 hn he hs cfg ht ha m sha xf tv (kidsDepth ks)).2 ks (Nat.le_refl _) fuel hf i eol aw esc

/-! ## `render()` -/

def kDependenciesC18 : Str := ['d', 'e', 'p', 'e', 'n', 'd', 'e', 'n', 'c', 'i', 'e', 's']
def kHtmlC18 : Str := ['h', 't', 'm', 'l']

/-- the dict `render()` returns — `{"dependencies": [...], "html": "..."}` — for what the model reports (`Rendered`,
    Model/Tagify.lean); the error of `get_html_string` if the model says it raises -/
def embRenderedC18 (xf : XfC18) (tv : Node → PVal) (r : Rendered) : PyM PVal :=
  match r.html with
  | .ok s => .ok (.dict [(kDependenciesC18, .list (r.deps.map fun e => embC18 xf tv (depNodeC18 e))), (kHtmlC18, .str s)])
  | .error e => .error (embErr e)

theorem getDeps_entries_C18 (ks : Nodes) :
    ks.getDeps true = (Tagify.resolveDeps (Tagify.collectDepsKids ks)).map depNodeC18 := by
  simp only [Nodes.getDeps, if_true, collectKids_depEntries_C18, resolve_entries_C18]

/-- **`TagList.render()`** as the source has it = the model's `renderOfList` (the resolved dependency list and the markup of
    the tagified copy), for every tree, every value of the two parameters, any fuel that covers the nesting depth of
    the tree and of its expansion -/
theorem src_TagList_render (h : TagList_render_available = true)
    (ht1 : Tag_tagify_available = true) (ht2 : TagList_tagify_available = true)
    (hd1 : Tag_get_dependencies_available = true) (hd2 : TagList_get_dependencies_available = true)
    (hr : resolve_dependencies_available = true)
    (hg1 : Tag_get_html_string_available = true) (hg2 : TagList_get_html_string_available = true)
    (hn : normalize_text_available = true) (he : html_escape_available = true) (hs : HTML_as_string_available = true)
    (cfg : Cfg) (ht : keysPlain cfg.textTbl = true) (ha : keysPlain cfg.attrTbl = true)
    (m : PVal) (sha : Str → Option Str) (xf : XfC18) (hx : XfOkC18 xf) (tv : Node → PVal) (htv : TvOkC18 xf tv)
    (ks : Nodes) (fuel : Nat) (hf1 : 2 * kidsDepth ks + 2 ≤ fuel) (hf2 : 2 * kidsDepth (tagifyNodes ks) + 2 ≤ fuel) :
    TagList_render (globalsC18 cfg m sha) fuel (tagListOf (embsC18 xf tv ks))
      = embRenderedC18 xf tv (renderOfList cfg ks) := by
  first
  | exact absurd h (by decide)
  | skip
  all_goals (
    obtain ⟨f, rfl⟩ : ∃ f, fuel = f + 1 := ⟨fuel - 1, by omega⟩
    rw [TagList_render]
    have hcls : ∀ l, pyClassOf (tagListOf l) = "TagList" := fun _ => rfl
    have e1 := src_tagify_list_C18 ht1 ht2 (globalsC18 cfg m sha) xf hx tv htv ks f (by omega)
    have e2 := src_get_dependencies_list_C18 hd1 hd2 hr (globalsC18 cfg m sha) xf tv (tagifyNodes ks) f (by omega) true
    have e3 : TagList_get_html_string (globalsC18 cfg m sha) f (tagListOf (embsC18 xf tv (tagifyNodes ks))) (PVal.int 0)
        (PVal.str [Char.ofNat 10]) (PVal.bool true) (PVal.bool true) = _ :=
      src_render_list_C18 hg1 hg2 hn he hs cfg ht ha m sha xf tv (tagifyNodes ks) f (by omega) 0 ['\n'] true true
    simp only [ok_bind, pure_eq_ok, hcls, e1, e2, e3, getDeps_entries_C18, List.map_map]
    simp only [embRenderedC18, renderOfList, renderListChecked]
    by_cases hk : (tagifyNodes ks).hasTobjKids = true
    · simp [hk, embErr]
    · simp [hk, kDependenciesC18, kHtmlC18, Function.comp_def])

theorem tag_getDeps_entries_C18 (t : Node) (ht : t.isTag = true) :
    t.getDeps true = (Tagify.resolveDeps (Tagify.collectDeps t)).map depNodeC18 := by
  cases t <;> simp [Node.isTag] at ht
  simp only [Node.getDeps, Tagify.collectDeps, getDeps_entries_C18]

/-- **`Tag.render()`** as the source has it = the model's `renderOfTag` -/
theorem src_Tag_render (h : Tag_render_available = true)
    (ht1 : Tag_tagify_available = true) (ht2 : TagList_tagify_available = true)
    (hd1 : Tag_get_dependencies_available = true) (hd2 : TagList_get_dependencies_available = true)
    (hr : resolve_dependencies_available = true)
    (hg1 : Tag_get_html_string_available = true) (hg2 : TagList_get_html_string_available = true)
    (hn : normalize_text_available = true) (he : html_escape_available = true) (hs : HTML_as_string_available = true)
    (cfg : Cfg) (ht : keysPlain cfg.textTbl = true) (ha : keysPlain cfg.attrTbl = true)
    (m : PVal) (sha : Str → Option Str) (xf : XfC18) (hx : XfOkC18 xf) (tv : Node → PVal) (htv : TvOkC18 xf tv)
    (t : Node) (htag : t.isTag = true) (fuel : Nat)
    (hf1 : 2 * nodeDepth t + 1 ≤ fuel) (hf2 : 2 * nodeDepth (tagifyTag t) + 1 ≤ fuel) :
    Tag_render (globalsC18 cfg m sha) fuel (embC18 xf tv t) = embRenderedC18 xf tv (renderOfTag cfg t) := by
  first
  | exact absurd h (by decide)
  | skip
  all_goals (
    obtain ⟨f, rfl⟩ : ∃ f, fuel = f + 1 := ⟨fuel - 1, by omega⟩
    rw [Tag_render]
    have htag' : (tagifyTag t).isTag = true := by cases t <;> simp [Node.isTag] at htag; rfl
    have hcls : ∀ u : Node, u.isTag = true → pyClassOf (embC18 xf tv u) = "Tag" := by
      intro u hu; cases u <;> simp [Node.isTag] at hu; rfl
    have e1 := src_tagify_tag_C18 ht1 ht2 (globalsC18 cfg m sha) xf hx tv htv t htag f (by omega)
    have e2 := src_get_dependencies_tag_C18 hd1 hd2 hr (globalsC18 cfg m sha) xf tv (tagifyTag t) htag' f (by omega) true
    have e3 : Tag_get_html_string (globalsC18 cfg m sha) f (embC18 xf tv (tagifyTag t)) (PVal.int 0)
        (PVal.str [Char.ofNat 10]) = _ :=
      src_render_tag_C18 hg1 hg2 hn he hs cfg ht ha m sha xf tv (tagifyTag t) htag' f (by omega) 0 ['\n']
    simp only [ok_bind, pure_eq_ok, hcls t htag, hcls _ htag', e1, e2, e3, tag_getDeps_entries_C18 _ htag', List.map_map]
    simp only [embRenderedC18, renderOfTag, renderTagChecked]
    by_cases hk : (tagifyTag t).hasTobj = true
    · simp [hk, embErr]
    · simp [hk, kDependenciesC18, kHtmlC18, Function.comp_def])

/-- with `C09_render`: `TagList.render()` never raises; it returns the markup of the *expanded* tree (default indent, eol,
    add_ws) and the dependencies of the expanded tree, in document order, resolved -/
theorem src_TagList_render_spec (h : TagList_render_available = true)
    (ht1 : Tag_tagify_available = true) (ht2 : TagList_tagify_available = true)
    (hd1 : Tag_get_dependencies_available = true) (hd2 : TagList_get_dependencies_available = true)
    (hr : resolve_dependencies_available = true)
    (hg1 : Tag_get_html_string_available = true) (hg2 : TagList_get_html_string_available = true)
    (hn : normalize_text_available = true) (he : html_escape_available = true) (hs : HTML_as_string_available = true)
    (cfg : Cfg) (ht : keysPlain cfg.textTbl = true) (ha : keysPlain cfg.attrTbl = true)
    (m : PVal) (sha : Str → Option Str) (xf : XfC18) (hx : XfOkC18 xf)
    (ks : Nodes) (fuel : Nat) (hf1 : 2 * kidsDepth ks + 2 ≤ fuel) (hf2 : 2 * kidsDepth ks.expandAll + 2 ≤ fuel) :
    TagList_render (globalsC18 cfg m sha) fuel (tagListOf (embsC18 xf (tvSpecC18 xf) ks))
      = .ok (.dict [(kDependenciesC18, .list ((Tagify.resolveDeps (Tagify.collectDepsKids ks.expandAll)).map
                      fun e => embC18 xf (tvSpecC18 xf) (depNodeC18 e))),
                    (kHtmlC18, .str (renderList cfg ks.expandAll 0 ['\n'] true true))]) := by
  have hspec := C09.C09_render cfg ks
  rw [src_TagList_render h ht1 ht2 hd1 hd2 hr hg1 hg2 hn he hs cfg ht ha m sha xf hx (tvSpecC18 xf) (tvSpecC18_ok xf) ks fuel hf1
    (by rw [C09.C09_tagify_is_spec]; exact hf2)]
  simp only [embRenderedC18, hspec.1, hspec.2]

/-! ## the string views: `_render_tag_or_taglist`, `Tag.__str__`, `TagList.__str__` -/

/-- `html_dependency_render_mode` as the Python value the package attribute holds -/
def embModeC18 : Ident.RenderMode → PVal
  | .invisible => .str ['i', 'n', 'v', 'i', 's', 'i', 'b', 'l', 'e']
  | .json => .str ['j', 's', 'o', 'n']

/-- the field the primitive `pySerializeToScriptJsonC18` reads: every dependency object records, under
    `serialize_to_script_json`, the `<script>` Tag the model says the (untranslated) method returns for it
    (`serNode`, Model/TextDoc.lean) -/
def xfSerC18 (cfg : Cfg) : XfC18 := fun d hh hd =>
  [("serialize_to_script_json", embC18 xfNilC18 (fun _ => PVal.none) (serNode none (sdepOfNode cfg d hh hd)))]

theorem xfSerC18_ok (cfg : Cfg) : XfOkC18 (xfSerC18 cfg) :=
  fun _ _ _ => ⟨by simp [xfSerC18, fieldGet?], by simp [xfSerC18]⟩

theorem pySerialize_dep_C18 (cfg : Cfg) (tv : Node → PVal) (e : Tagify.DepEntry) :
    pySerializeToScriptJsonC18 (embC18 (xfSerC18 cfg) tv (depNodeC18 e))
      = .ok (embC18 xfNilC18 (fun _ => PVal.none) (serNode none (sdepOfNode cfg e.1 e.2.1 e.2.2))) := by
  simp [depNodeC18, embC18, pySerializeToScriptJsonC18, embDepFields, fieldGet?, xfSerC18]

/-- **`_render_tag_or_taglist(x)`** as the source has it = `strOfRendered` (Model/ReadOps.lean) of what `x.render()`
    returns, in both render modes: given the tie of `x.render()` for the receiver at hand.  `hser` is a condition on the
    tables: the serialised `<script>` element is rendered verbatim (C13_element_render, for the tables of the source). -/
theorem src_render_tag_or_taglist_gen (h : render_tag_or_taglist_available = true)
    (hg1 : Tag_get_html_string_available = true) (hg2 : TagList_get_html_string_available = true)
    (hn : normalize_text_available = true) (he : html_escape_available = true) (hs : HTML_as_string_available = true)
    (cfg : Cfg) (ht : keysPlain cfg.textTbl = true) (ha : keysPlain cfg.attrTbl = true)
    (hser : ∀ d : SDep, (serNode none d).render cfg 0 ['\n'] = tdSerialize none d)
    (mode : Ident.RenderMode) (sha : Str → Option Str) (tv : Node → PVal) (x : PVal) (r : Rendered) (f : Nat) (hf : 2 ≤ f)
    (hcls : pyClassOf x = "Tag" ∨ pyClassOf x = "TagList")
    (hT : pyClassOf x = "Tag" →
      Tag_render (globalsC18 cfg (embModeC18 mode) sha) f x = embRenderedC18 (xfSerC18 cfg) tv r)
    (hL : pyClassOf x = "TagList" →
      TagList_render (globalsC18 cfg (embModeC18 mode) sha) f x = embRenderedC18 (xfSerC18 cfg) tv r) :
    render_tag_or_taglist (globalsC18 cfg (embModeC18 mode) sha) (f + 1) x
      = embRes PVal.str (Ident.strOfRendered cfg mode r) := by
  first
  | exact absurd h (by decide)
  | skip
  all_goals (
    rw [render_tag_or_taglist]
    have hrender : ∀ d : SDep, Tag_get_html_string (globalsC18 cfg (embModeC18 mode) sha) f
        (embC18 xfNilC18 (fun _ => PVal.none) (serNode none d)) (PVal.int 0) (PVal.str [Char.ofNat 10])
          = .ok (.str (tdSerialize none d)) := by
      intro d
      have := src_render_tag_C18 hg1 hg2 hn he hs cfg ht ha (embModeC18 mode) sha xfNilC18 (fun _ => PVal.none)
        (serNode none d) rfl f (by simp [serNode, nodeDepth, kidsDepth]; omega) 0 ['\n']
      rw [hser d] at this
      simpa [serNode, Node.hasTobj, Nodes.visible, Node.isMeta, inlineChild?] using this
    have hclsS : ∀ d : SDep, pyClassOf (embC18 xfNilC18 (fun _ => PVal.none) (serNode none d)) = "Tag" := fun _ => rfl
    have hR : (pyClassOf x = "Tag" ∧ Tag_render (globalsC18 cfg (embModeC18 mode) sha) f x = embRenderedC18 (xfSerC18 cfg) tv r)
        ∨ (pyClassOf x = "TagList" ∧ TagList_render (globalsC18 cfg (embModeC18 mode) sha) f x = embRenderedC18 (xfSerC18 cfg) tv r) := by
      rcases hcls with hc | hc
      · exact Or.inl ⟨hc, hT hc⟩
      · exact Or.inr ⟨hc, hL hc⟩
    rcases hR with ⟨hc, e⟩ | ⟨hc, e⟩ <;> simp only [hc, e, embRenderedC18, Ident.strOfRendered] <;> (
      cases hh : r.html with
      | error e => cases mode <;> simp [embRes]
      | ok html =>
        have hdeps : pyGetItem (PVal.dict [(kDependenciesC18, PVal.list (r.deps.map fun e => embC18 (xfSerC18 cfg) tv (depNodeC18 e))),
            (kHtmlC18, PVal.str html)]) (PVal.str ['d', 'e', 'p', 'e', 'n', 'd', 'e', 'n', 'c', 'i', 'e', 's'])
            = .ok (PVal.list (r.deps.map fun e => embC18 (xfSerC18 cfg) tv (depNodeC18 e))) := by
          simp [pyGetItem, dictGet?, kDependenciesC18]
        have hhtml : pyGetItem (PVal.dict [(kDependenciesC18, PVal.list (r.deps.map fun e => embC18 (xfSerC18 cfg) tv (depNodeC18 e))),
            (kHtmlC18, PVal.str html)]) (PVal.str ['h', 't', 'm', 'l']) = .ok (PVal.str html) := by
          simp [pyGetItem, dictGet?, kDependenciesC18, kHtmlC18]
        simp only [ok_bind, pure_eq_ok, globalsC18_mode, hhtml]
        cases mode with
        | invisible =>
          have hmode : pyEq (embModeC18 .invisible) (PVal.str ['j', 's', 'o', 'n']) = .ok (.bool false) := by
            simp [embModeC18, pyEq]
          simp [hmode, embRes]
        | json =>
          have hmode : pyEq (embModeC18 .json) (PVal.str ['j', 's', 'o', 'n']) = .ok (.bool true) := by
            simp [embModeC18, pyEq]
          simp only [hdeps, hmode, ok_bind, truthy_bool, if_true, pyIter_list]
          rw [map_loop_C18 (fun e => embC18 (xfSerC18 cfg) tv (depNodeC18 e))
            (fun e => PVal.str (tdSerialize none (sdepOfNode cfg e.1 e.2.1 e.2.2))) r.deps _
            (by intro e _ s; simp only [pySerialize_dep_C18, ok_bind, pure_eq_ok, hclsS, hrender])]
          rw [show (r.deps.map fun e => PVal.str (tdSerialize none (sdepOfNode cfg e.1 e.2.1 e.2.2)))
              = ((r.deps.map fun e => sdepOfNode cfg e.1 e.2.1 e.2.2).map (tdSerialize none)).map PVal.str by
            simp [List.map_map, Function.comp_def]]
          simp only [ok_bind, pure_eq_ok, pyJoin, pyIter_list, strsOf_map_str, pyAdd_str, pyStr_str]
          simp [embRes, jsonModeStr]))

/-- **`_render_tag_or_taglist(taglist)`** = `strViewList` (the definition `C08_views_list` is about), both modes, every tree -/
theorem src_render_tag_or_taglist_list (h : render_tag_or_taglist_available = true) (h' : TagList_render_available = true)
    (ht1 : Tag_tagify_available = true) (ht2 : TagList_tagify_available = true)
    (hd1 : Tag_get_dependencies_available = true) (hd2 : TagList_get_dependencies_available = true)
    (hr : resolve_dependencies_available = true)
    (hg1 : Tag_get_html_string_available = true) (hg2 : TagList_get_html_string_available = true)
    (hn : normalize_text_available = true) (he : html_escape_available = true) (hs : HTML_as_string_available = true)
    (cfg : Cfg) (ht : keysPlain cfg.textTbl = true) (ha : keysPlain cfg.attrTbl = true)
    (hser : ∀ d : SDep, (serNode none d).render cfg 0 ['\n'] = tdSerialize none d)
    (mode : Ident.RenderMode) (sha : Str → Option Str) (tv : Node → PVal) (htv : TvOkC18 (xfSerC18 cfg) tv)
    (ks : Nodes) (fuel : Nat) (hf1 : 2 * kidsDepth ks + 3 ≤ fuel) (hf2 : 2 * kidsDepth (tagifyNodes ks) + 3 ≤ fuel) :
    render_tag_or_taglist (globalsC18 cfg (embModeC18 mode) sha) fuel (tagListOf (embsC18 (xfSerC18 cfg) tv ks))
      = embRes PVal.str (Ident.strViewList cfg mode ks) := by
  obtain ⟨f, rfl⟩ : ∃ f, fuel = f + 1 := ⟨fuel - 1, by omega⟩
  exact src_render_tag_or_taglist_gen h hg1 hg2 hn he hs cfg ht ha hser mode sha tv _ (renderOfList cfg ks) f (by omega)
    (Or.inr rfl) (fun hc => by simp [tagListOf, pyClassOf] at hc)
    (fun _ => src_TagList_render h' ht1 ht2 hd1 hd2 hr hg1 hg2 hn he hs cfg ht ha _ sha _ (xfSerC18_ok cfg) tv htv ks f
      (by omega) (by omega))

/-- **`_render_tag_or_taglist(tag)`** = `strView` (the definition `C08_views` is about), both modes, every tag tree -/
theorem src_render_tag_or_taglist_tag (h : render_tag_or_taglist_available = true) (h' : Tag_render_available = true)
    (ht1 : Tag_tagify_available = true) (ht2 : TagList_tagify_available = true)
    (hd1 : Tag_get_dependencies_available = true) (hd2 : TagList_get_dependencies_available = true)
    (hr : resolve_dependencies_available = true)
    (hg1 : Tag_get_html_string_available = true) (hg2 : TagList_get_html_string_available = true)
    (hn : normalize_text_available = true) (he : html_escape_available = true) (hs : HTML_as_string_available = true)
    (cfg : Cfg) (ht : keysPlain cfg.textTbl = true) (ha : keysPlain cfg.attrTbl = true)
    (hser : ∀ d : SDep, (serNode none d).render cfg 0 ['\n'] = tdSerialize none d)
    (mode : Ident.RenderMode) (sha : Str → Option Str) (tv : Node → PVal) (htv : TvOkC18 (xfSerC18 cfg) tv)
    (t : Node) (htag : t.isTag = true) (fuel : Nat)
    (hf1 : 2 * nodeDepth t + 3 ≤ fuel) (hf2 : 2 * nodeDepth (tagifyTag t) + 3 ≤ fuel) :
    render_tag_or_taglist (globalsC18 cfg (embModeC18 mode) sha) fuel (embC18 (xfSerC18 cfg) tv t)
      = embRes PVal.str (Ident.strView cfg mode t) := by
  obtain ⟨f, rfl⟩ : ∃ f, fuel = f + 1 := ⟨fuel - 1, by omega⟩
  have hc : pyClassOf (embC18 (xfSerC18 cfg) tv t) = "Tag" := by cases t <;> simp [Node.isTag] at htag; rfl
  exact src_render_tag_or_taglist_gen h hg1 hg2 hn he hs cfg ht ha hser mode sha tv _ (renderOfTag cfg t) f (by omega)
    (Or.inl hc)
    (fun _ => src_Tag_render h' ht1 ht2 hd1 hd2 hr hg1 hg2 hn he hs cfg ht ha _ sha _ (xfSerC18_ok cfg) tv htv t htag f
      (by omega) (by omega))
    (fun hc' => by rw [hc] at hc'; exact absurd hc' (by decide))

/-- **`TagList.__str__`**: `return _render_tag_or_taglist(self)` -/
theorem src_TagList_str (h0 : TagList_str_available = true)
    (h : render_tag_or_taglist_available = true) (h' : TagList_render_available = true)
    (ht1 : Tag_tagify_available = true) (ht2 : TagList_tagify_available = true)
    (hd1 : Tag_get_dependencies_available = true) (hd2 : TagList_get_dependencies_available = true)
    (hr : resolve_dependencies_available = true)
    (hg1 : Tag_get_html_string_available = true) (hg2 : TagList_get_html_string_available = true)
    (hn : normalize_text_available = true) (he : html_escape_available = true) (hs : HTML_as_string_available = true)
    (cfg : Cfg) (ht : keysPlain cfg.textTbl = true) (ha : keysPlain cfg.attrTbl = true)
    (hser : ∀ d : SDep, (serNode none d).render cfg 0 ['\n'] = tdSerialize none d)
    (mode : Ident.RenderMode) (sha : Str → Option Str) (tv : Node → PVal) (htv : TvOkC18 (xfSerC18 cfg) tv)
    (ks : Nodes) (fuel : Nat) (hf1 : 2 * kidsDepth ks + 4 ≤ fuel) (hf2 : 2 * kidsDepth (tagifyNodes ks) + 4 ≤ fuel) :
    TagList_str (globalsC18 cfg (embModeC18 mode) sha) fuel (tagListOf (embsC18 (xfSerC18 cfg) tv ks))
      = embRes PVal.str (Ident.strViewList cfg mode ks) := by
  first
  | exact absurd h0 (by decide)
  | skip
  all_goals (
    obtain ⟨f, rfl⟩ : ∃ f, fuel = f + 1 := ⟨fuel - 1, by omega⟩
    rw [TagList_str]
    rw [src_render_tag_or_taglist_list h h' ht1 ht2 hd1 hd2 hr hg1 hg2 hn he hs cfg ht ha hser mode sha tv htv ks f
      (by omega) (by omega)]
    try (cases Ident.strViewList cfg mode ks <;> rfl))

/-- **`Tag.__str__`**: `return _render_tag_or_taglist(self)` -/
theorem src_Tag_str (h0 : Tag_str_available = true)
    (h : render_tag_or_taglist_available = true) (h' : Tag_render_available = true)
    (ht1 : Tag_tagify_available = true) (ht2 : TagList_tagify_available = true)
    (hd1 : Tag_get_dependencies_available = true) (hd2 : TagList_get_dependencies_available = true)
    (hr : resolve_dependencies_available = true)
    (hg1 : Tag_get_html_string_available = true) (hg2 : TagList_get_html_string_available = true)
    (hn : normalize_text_available = true) (he : html_escape_available = true) (hs : HTML_as_string_available = true)
    (cfg : Cfg) (ht : keysPlain cfg.textTbl = true) (ha : keysPlain cfg.attrTbl = true)
    (hser : ∀ d : SDep, (serNode none d).render cfg 0 ['\n'] = tdSerialize none d)
    (mode : Ident.RenderMode) (sha : Str → Option Str) (tv : Node → PVal) (htv : TvOkC18 (xfSerC18 cfg) tv)
    (t : Node) (htag : t.isTag = true) (fuel : Nat)
    (hf1 : 2 * nodeDepth t + 4 ≤ fuel) (hf2 : 2 * nodeDepth (tagifyTag t) + 4 ≤ fuel) :
    Tag_str (globalsC18 cfg (embModeC18 mode) sha) fuel (embC18 (xfSerC18 cfg) tv t)
      = embRes PVal.str (Ident.strView cfg mode t) := by
  first
  | exact absurd h0 (by decide)
  | skip
  all_goals (
    obtain ⟨f, rfl⟩ : ∃ f, fuel = f + 1 := ⟨fuel - 1, by omega⟩
    rw [Tag_str]
    rw [src_render_tag_or_taglist_tag h h' ht1 ht2 hd1 hd2 hr hg1 hg2 hn he hs cfg ht ha hser mode sha tv htv t htag f
      (by omega) (by omega)]
    try (cases Ident.strView cfg mode t <;> rfl))

/-- the condition `hser` for the tables as they are in the source right now: the serialised element is rendered as OPEN,
    the body verbatim, CLOSE (`script` is a no-escape tag; the two attribute values need no escaping) -/
theorem src_ser_render_now_C18 (d : SDep) : (serNode none d).render cfgNow 0 ['\n'] = tdSerialize none d := by
  have hne : (['s', 'c', 'r', 'i', 'p', 't'] : Str) ∈ cfgNow.noesc := by decide
  have ha : htmlEscapeT cfgNow.attrTbl ['a', 'p', 'p', 'l', 'i', 'c', 'a', 't', 'i', 'o', 'n', '/', 'j', 's', 'o', 'n']
      = ['a', 'p', 'p', 'l', 'i', 'c', 'a', 't', 'i', 'o', 'n', '/', 'j', 's', 'o', 'n'] := by decide
  have hb : htmlEscapeT cfgNow.attrTbl [] = [] := by decide
  simp [serNode, Node.render, Nodes.visible, Node.isMeta, inlineChild?, inlineText, hne, openTag, renderAttrs,
    emitAttrVal, ha, hb, closeTag, indentStr, tdSerialize, openMarker, closeMarker]

/-- `str(taglist)` for the tables of the source as they are now, in both render modes -/
theorem src_TagList_str_now (h0 : TagList_str_available = true)
    (h : render_tag_or_taglist_available = true) (h' : TagList_render_available = true)
    (ht1 : Tag_tagify_available = true) (ht2 : TagList_tagify_available = true)
    (hd1 : Tag_get_dependencies_available = true) (hd2 : TagList_get_dependencies_available = true)
    (hr : resolve_dependencies_available = true)
    (hg1 : Tag_get_html_string_available = true) (hg2 : TagList_get_html_string_available = true)
    (hn : normalize_text_available = true) (he : html_escape_available = true) (hs : HTML_as_string_available = true)
    (mode : Ident.RenderMode) (ks : Nodes) :
    TagList_str (globalsC18 cfgNow (embModeC18 mode) (fun _ => none))
        (2 * max (kidsDepth ks) (kidsDepth (tagifyNodes ks)) + 4)
        (tagListOf (embsC18 (xfSerC18 cfgNow) (tvSpecC18 (xfSerC18 cfgNow)) ks))
      = embRes PVal.str (Ident.strViewList cfgNow mode ks) :=
  src_TagList_str h0 h h' ht1 ht2 hd1 hd2 hr hg1 hg2 hn he hs cfgNow src_tables_ok.1 src_tables_ok.2.1 src_ser_render_now_C18
    mode _ _ (tvSpecC18_ok _) ks _ (by omega) (by omega)

/-! ## `hash_deterministic` -/

/-- `hash_deterministic(s)`: `hashlib.sha1(s.encode("utf-8")).hexdigest()` is the digest function `H` the interpreter
    supplies (a parameter of the model, `headContent … H …`; the driver runs the executable `Model/Sha1.lean`) -/
theorem src_hash_deterministic (h : hash_deterministic_available = true) (G : Globals) (H : Str → Str)
    (hG : G.sha1HexC18 = fun x => some (H x)) (s : Str) :
    hash_deterministic G (.str s) = .ok (.str (H s)) := by
  first
  | exact absurd h (by decide)
  | skip
  all_goals (
    unfold hash_deterministic
    simp [pySha1HexC18, hG])

/-! ## `head_content` -/

/-- the module constants of `head_content`: additionally what `packaging` answers for a version string -/
def globalsHeadC18 (cfg : Cfg) (mode : PVal) (sha : Str → Option Str) (mkv : Str → Option PVal) : Globals :=
  { globalsC18 cfg mode sha with mkVersion := mkv }

theorem pyAdd_globalsHeadC18 (cfg : Cfg) (m : PVal) (sha : Str → Option Str) (mkv : Str → Option PVal) :
    pyAdd (globalsHeadC18 cfg m sha mkv) = pyAdd (globalsOf cfg) := rfl
theorem html_escape_globalsHeadC18 (cfg : Cfg) (m : PVal) (sha : Str → Option Str) (mkv : Str → Option PVal) :
    html_escape (globalsHeadC18 cfg m sha mkv) = html_escape (globalsOf cfg) := rfl
theorem normalize_text_globalsHeadC18 (cfg : Cfg) (m : PVal) (sha : Str → Option Str) (mkv : Str → Option PVal) :
    normalize_text (globalsHeadC18 cfg m sha mkv) = normalize_text (globalsOf cfg) := rfl
theorem globalsHeadC18_void (cfg : Cfg) (m : PVal) (sha : Str → Option Str) (mkv : Str → Option PVal) :
    (globalsHeadC18 cfg m sha mkv).VOID_TAG_NAMES = (globalsOf cfg).VOID_TAG_NAMES := rfl
theorem globalsHeadC18_noesc (cfg : Cfg) (m : PVal) (sha : Str → Option Str) (mkv : Str → Option PVal) :
    (globalsHeadC18 cfg m sha mkv).NO_ESCAPE_TAG_NAMES = (globalsOf cfg).NO_ESCAPE_TAG_NAMES := rfl

/-- the renderer reads the tables only: with the further parameters of this area it is the same function (by induction
    on the fuel; the bodies are never looked at — both sides are unfolded once and the recursive calls rewritten) -/
theorem get_html_string_globalsHeadC18 (h1 : Tag_get_html_string_available = true)
    (h2 : TagList_get_html_string_available = true) (cfg : Cfg) (m : PVal) (sha : Str → Option Str)
    (mkv : Str → Option PVal) (fuel : Nat) :
    Tag_get_html_string (globalsHeadC18 cfg m sha mkv) fuel = Tag_get_html_string (globalsOf cfg) fuel
    ∧ TagList_get_html_string (globalsHeadC18 cfg m sha mkv) fuel = TagList_get_html_string (globalsOf cfg) fuel := by
  first
  | exact absurd h1 (by decide)
  | exact absurd h2 (by decide)
  | skip
  all_goals (
    induction fuel with
    | zero =>
      constructor
      · funext v i e; rw [Tag_get_html_string, Tag_get_html_string]
      · funext v i e a b; rw [TagList_get_html_string, TagList_get_html_string]
    | succ n ih =>
      constructor
      · funext v i e
        rw [Tag_get_html_string, Tag_get_html_string]
        simp only [ih.1, ih.2, pyAdd_globalsHeadC18, html_escape_globalsHeadC18, normalize_text_globalsHeadC18,
          globalsHeadC18_void, globalsHeadC18_noesc]
      · funext v i e a b
        rw [TagList_get_html_string, TagList_get_html_string]
        simp only [ih.1, ih.2, pyAdd_globalsHeadC18, html_escape_globalsHeadC18, normalize_text_globalsHeadC18,
          globalsHeadC18_void, globalsHeadC18_noesc])

/-- the stored elements of a normalised child list are the embedded nodes -/
theorem embStored_nodes_C18 (s : TL) (h : Inv s) : s.map embStored = s.nodes.map embNode := by
  induction s with
  | nil => rfl
  | cons x r ih =>
    have hx := h x (by simp)
    have ih' := ih (fun y hy => h y (by simp [hy]))
    cases x with
    | node n => simp [TL.nodes, embStored, Stored.toArg, embA, ih']
    | raw a => simp [Stored.isNode] at hx

theorem embNodes_ofList_C18 (l : List Node) : embNodes (Nodes.ofList l) = l.map embNode := by
  induction l with
  | nil => rfl
  | cons a t ih => simp [Nodes.ofList, embNodes, ih]

theorem headItem_embNode_C18 (n : Node) : headItemC10b (embNode n) = .ok [embNode n] ∧ isNestedSeqC10b (embNode n) = false := by
  cases n with
  | tobjL rh c => cases rh <;> simp [embNode, headItemC10b, isNestedSeqC10b, isInstance, classBases]
  | tobj1 rh c => cases rh <;> simp [embNode, headItemC10b, isNestedSeqC10b, isInstance, classBases]
  | _ => simp [embNode, headItemC10b, isNestedSeqC10b, isInstance, classBases]

theorem headItems_embNode_C18 (l : List Node) : headItemsC10b (l.map embNode) = .ok (l.map embNode) := by
  induction l with
  | nil => rfl
  | cons a t ih => simp [headItemsC10b, (headItem_embNode_C18 a).1, ih]

/-- `TagList(head)` for a `head` that already is a TagList of normalised nodes: a new TagList with the same items -/
theorem pyTagList1_nodes_C18 (l : List Node) :
    pyTagList1 (.obj "TagList" [("data", .list (l.map embNode))]) = .ok (tagListObjC10b (l.map embNode)) := by
  have hn : (l.map embNode).any isNestedSeqC10b = false := by
    simp [List.any_eq_false, (headItem_embNode_C18 _).2]
  simp [pyTagList1, fieldGet?, headSeqC10b, hn, headItems_embNode_C18]

/-- the dependency `head_content` returns, as the instance `HTMLDependency.__init__` builds (Lemmas/SrcC10b.lean) -/
def embHeadDepC18 : Node → PVal
  | .dep d _ hd => embDepObjC10b "HTMLDependency" PVal.none d (tagListObjC10b (embNodes hd))
  | _ => PVal.none

/-- **`head_content(*args)`** as the source has it = `headContent` (Model/HeadContent.lean) on the child list
    `TagList(*args)` builds (`TL.init`, Model/Children.lean; TypeError for an argument that is no tag child): the name is
    "headcontent_" + the digest `H` of the rendered list, the version "0.0", the head the list itself; RuntimeError when
    the list holds an un-expanded tagifiable object that does not render itself.  `H` and the rank `packaging` gives
    version 0.0 are parameters.  (Attributes compared through `projDepC10b`: the assignment order of `__init__` is not
    part of the statement, as in Props/SrcC10b.lean.) -/
theorem src_head_content (h : head_content_available = true) (hh : hash_deterministic_available = true)
    (hi : TagList_init_available = true) (hc : tagchilds_to_tagnodes_available = true)
    (hf' : util_flatten_available = true) (hr' : util_flatten_recurse_available = true) (hnn : is_tag_node_available = true)
    (hg1 : Tag_get_html_string_available = true) (hg2 : TagList_get_html_string_available = true)
    (hn : normalize_text_available = true) (he : html_escape_available = true) (hs : HTML_as_string_available = true)
    (hd0 : HTMLDependency_init_available = true) (hd1 : HTMLDependency_validate_dicts_available = true)
    (hd2 : HTMLDependency_validate_dict_available = true)
    (cfg : Cfg) (ht : keysPlain cfg.textTbl = true) (ha : keysPlain cfg.attrTbl = true)
    (m : PVal) (H : Str → Str) (vrank0 : Nat) (mkv : Str → Option PVal)
    (hmk : mkv ['0', '.', '0'] = some (versionObjC10b vrank0 ['0', '.', '0']))
    (args : List Arg) (hr : args.all argRep = true) (fuel : Nat)
    (hf1 : argsFdepth (Args.ofList args) + 4 < fuel)
    (hf2 : ∀ s, TL.init args = .ok s → 2 * kidsDepth (Nodes.ofList s.nodes) + 2 ≤ fuel) :
    projDepC10b <$> head_content (globalsHeadC18 cfg m (fun x => some (H x)) mkv) fuel (.tuple (args.map embA))
      = match TL.init args with
        | .error e => .error (embErr e)
        | .ok s => embRes embHeadDepC18 (headContent cfg H vrank0 (Nodes.ofList s.nodes)) := by
  first
  | exact absurd h (by decide)
  | skip
  all_goals (
    obtain ⟨f, rfl⟩ : ∃ f, fuel = f + 1 := ⟨fuel - 1, by omega⟩
    rw [head_content]
    have e1 := src_TagList_init hi hc hf' hr' hnn (globalsHeadC18 cfg m (fun x => some (H x)) mkv) args hr f (by omega)
    simp only [pyIter_tuple, ok_bind, pure_eq_ok, e1]
    cases hinit : TL.init args with
    | error e => simp [embRes]
    | ok s =>
      have hinv : Inv s := (C14.C14_new_lists_inv [] s).1 args hinit
      have hdata : embTL s = .obj "TagList" [("data", .list (embNodes (Nodes.ofList s.nodes)))] := by
        simp [embTL, embStored_nodes_C18 s hinv, embNodes_ofList_C18]
      have hcls : pyClassOf (embTL s) = "TagList" := rfl
      have e2 : TagList_get_html_string (globalsHeadC18 cfg m (fun x => some (H x)) mkv) f (embTL s) (PVal.int 0)
          (PVal.str [Char.ofNat 10]) (PVal.bool true) (PVal.bool true)
          = if (Nodes.ofList s.nodes).hasTobjKids then .error .runtimeError
            else .ok (.str (renderList cfg (Nodes.ofList s.nodes) 0 ['\n'] true true)) := by
        rw [(get_html_string_globalsHeadC18 hg1 hg2 cfg m _ mkv f).2, hdata]
        exact src_render_list hg1 hg2 hn he hs cfg ht ha (Nodes.ofList s.nodes) f (by have := hf2 s hinit; omega) 0 ['\n'] true true
      simp only [embRes, ok_bind, pure_eq_ok, hcls, e2, headContent, renderListChecked]
      by_cases hk : (Nodes.ofList s.nodes).hasTobjKids = true
      · simp [hk, embErr]
      · simp only [hk, Bool.false_eq_true, if_false, ok_bind]
        have e3 := src_hash_deterministic hh (globalsHeadC18 cfg m (fun x => some (H x)) mkv) H rfl
          (renderList cfg (Nodes.ofList s.nodes) 0 ['\n'] true true)
        have hadd : ∀ a b : Str, pyAdd (globalsHeadC18 cfg m (fun x => some (H x)) mkv) (.str a) (.str b) = .ok (.str (a ++ b)) :=
          fun _ _ => rfl
        simp only [e3, ok_bind, hadd]
        let a : DepArgV := { name := headcontentPrefix ++ H (renderList cfg (Nodes.ofList s.nodes) 0 ['\n'] true true),
                             version := ['0', '.', '0'], verOk := true, vrank := vrank0, source := .none, script := .none,
                             stylesheet := .none, metas := .none, allFiles := false }
        have e4 : projDepC10b <$> HTMLDependency_init (globalsHeadC18 cfg m (fun x => some (H x)) mkv) (PVal.obj "HTMLDependency" [])
            (PVal.str (['h', 'e', 'a', 'd', 'c', 'o', 'n', 't', 'e', 'n', 't', '_'] ++ H (renderList cfg (Nodes.ofList s.nodes) 0 ['\n'] true true)))
            (PVal.str ['0', '.', '0']) PVal.none PVal.none PVal.none (PVal.bool false) PVal.none (embTL s) = _ :=
          src_init hd0 hd1 hd2 (globalsHeadC18 cfg m (fun x => some (H x)) mkv) "HTMLDependency" a (.str ['0', '.', '0'])
            (Or.inl ⟨_, rfl, hmk⟩) (.node (embTL s) rfl rfl)
        rw [e4]
        have hres : (HeadV.node (embTL s) rfl rfl).res = .ok (tagListObjC10b (embNodes (Nodes.ofList s.nodes))) := by
          simp only [HeadV.res, hdata, embNodes_ofList_C18, pyTagList1_nodes_C18]
        simp [depInit, DepArgV.toArg, ItemsV.toArg, SourceV.toArg, checkSource, normItems, a, hres, embHeadDepC18, SourceV.emb,
          headcontentPrefix])

end HtmlVerif.SrcTie
