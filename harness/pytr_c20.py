"""Translator plug-in for C20 (htmltools/_jsx.py): `JSXTagAttrDict._normalize_attr_name`, and the mutually recursive
`_render_react_js` / `_serialize_attr` / `_serialize_style_attr` (one `mutual` block, recursion bounded by fuel).

Values of these functions may be `jsx("…")` strings — instances of a `str` subclass, `PVal.obj "jsx" […]` in the
universe of Py/Val.lean — on which the base primitives (written for instances *without* special methods) would state
something false.  For the functions of `_jsx.py` the hooks below therefore emit the `…J` primitives of
`lean/HtmlVerif/Py/PrimC20.lean` for every operation whose operand may be such a string (isinstance, str, len, `+`,
`+=`, `==`, `!=`, `>`, the `str` methods, slices, `re.search`, `join`, f-strings, `tuple`, `dict`, iteration), and
refuse (Untranslatable) a truth test of a value that is not a `bool` by construction.

New syntax handled here (all of it checked syntactically, anything else raises Untranslatable):
  * `cast(T, e)` (typing.cast, imported as such at module level) is `e`;
  * `math.isfinite(x)`, `math.isnan(x)` (module `math` imported as such);
  * `x.split(sep)`, `x.lower()` (ASCII), `dict(pairs)`;
  * one list comprehension *inside* the expression of a `return` / assignment: its loop is emitted before the
    statement, which is the same order of evaluation when everything the expression evaluates before the comprehension
    is a constant, a name or a method looked up on a constant, and the comprehension is not under `if`-`else`, `and`,
    `or` or a lambda (`hoistable`).
"""
from __future__ import annotations

import ast
import os

FILE = "htmltools/_jsx.py"

#: str method -> (primitive, number of arguments)
METHODS = {"endswith": ("pyEndswith", 1), "replace": ("pyReplace", 2), "split": ("pySplitSep", 1), "lower": ("pyLowerJ", 0)}

_T = None
_mods: dict = {}


def _module(fn):
    path = os.path.join(_T.repo(), fn.spec.file)
    key = (path, os.path.getmtime(path))
    if key not in _mods:
        with open(path, encoding="utf-8") as f:
            _mods[key] = ast.parse(f.read())
    return _mods[key]


def _imported(fn, name: str, frm: str | None) -> bool:
    """`name` is bound at module level exactly once, by `import name` (frm None) or `from frm import name`"""
    ok = False
    for n in _module(fn).body:
        if isinstance(n, ast.Import):
            for a in n.names:
                if (a.asname or a.name) == name:
                    if frm is None and a.name == name and a.asname is None and not ok:
                        ok = True
                    else:
                        return False
        elif isinstance(n, ast.ImportFrom):
            for a in n.names:
                if (a.asname or a.name) == name:
                    if frm is not None and n.module == frm and a.name == name and n.level == 0 and not ok:
                        ok = True
                    else:
                        return False
        elif isinstance(n, (ast.FunctionDef, ast.ClassDef, ast.AsyncFunctionDef)) and n.name == name:
            return False
        elif isinstance(n, (ast.Assign, ast.AnnAssign, ast.AugAssign)):
            for t in (n.targets if isinstance(n, ast.Assign) else [n.target]):
                for x in ast.walk(t):
                    if isinstance(x, ast.Name) and x.id == name:
                        return False
    # … and not rebound inside the function
    if name in fn.all_params or name in fn.locals:
        return False
    return ok


def mine(fn) -> bool:
    return fn.spec.file == FILE


# ---- truth tests --------------------------------------------------------------------------------------------------

def _is_bool(fn, e: ast.expr) -> bool:
    """the value of `e` is a `bool` by construction (so `truthy` of the base fragment is right whatever the inputs)"""
    if isinstance(e, ast.Constant):
        return isinstance(e.value, bool)
    if isinstance(e, ast.Compare):
        return True
    if isinstance(e, ast.UnaryOp) and isinstance(e.op, ast.Not):
        return True
    if isinstance(e, ast.BoolOp):
        return all(_is_bool(fn, v) for v in e.values)
    if isinstance(e, ast.Call):
        f = e.func
        if isinstance(f, ast.Name) and f.id == "isinstance":
            return True
        if isinstance(f, ast.Attribute) and isinstance(f.value, ast.Name) and (f.value.id, f.attr) in (
                ("math", "isfinite"), ("math", "isnan"), ("re", "search")):
            return True          # (the Match object of re.search is represented by its truth value)
        if isinstance(f, ast.Attribute) and f.attr == "endswith" and len(e.args) == 1 and not e.keywords:
            return True          # translated by `pyEndswith`, a bool
        return False
    if isinstance(e, ast.Name):
        if e.id in fn.all_params:
            return False
        vals = []
        for n in ast.walk(fn.node):
            if isinstance(n, ast.Assign):
                for t in n.targets:
                    for x in ast.walk(t):
                        if isinstance(x, ast.Name) and x.id == e.id:
                            if not (isinstance(t, ast.Name)):
                                return False
                            vals.append(n.value)
            elif isinstance(n, ast.AnnAssign) and isinstance(n.target, ast.Name) and n.target.id == e.id:
                if n.value is not None:
                    vals.append(n.value)
            elif isinstance(n, ast.AugAssign) and isinstance(n.target, ast.Name) and n.target.id == e.id:
                return False
            elif isinstance(n, (ast.For, ast.comprehension)):
                for x in ast.walk(n.target):
                    if isinstance(x, ast.Name) and x.id == e.id:
                        return False
        return bool(vals) and all(isinstance(v, ast.Constant) and isinstance(v.value, bool) for v in vals)
    return False


def _need_bool(fn, e: ast.expr):
    if not _is_bool(fn, e):
        raise _T.Untranslatable("truth test of a value that may be a jsx string (not a bool by construction)")


# ---- list comprehensions inside an expression -----------------------------------------------------------------------

def _pure(e: ast.expr) -> bool:
    for n in ast.walk(e):
        if isinstance(n, (ast.Constant, ast.Name, ast.Load)):
            continue
        if isinstance(n, ast.Attribute) and isinstance(n.value, ast.Constant):
            continue
        return False
    return True


def _path_to(root: ast.expr, target: ast.expr):
    """chain of (parent, child) from root down to target"""
    if root is target:
        return []
    for ch in ast.iter_child_nodes(root):
        if isinstance(ch, ast.expr) or isinstance(ch, ast.keyword):
            p = _path_to(ch, target) if isinstance(ch, ast.expr) else (_path_to(ch.value, target) if ch.value is not None else None)
            if p is not None:
                return [(root, ch)] + p
    return None


def hoistable(root: ast.expr, lc: ast.ListComp) -> bool:
    path = _path_to(root, lc)
    if path is None:
        return False
    for parent, child in path:
        if isinstance(parent, ast.BinOp):
            if child is parent.right and not _pure(parent.left):
                return False
        elif isinstance(parent, ast.Call):
            if parent.keywords or child is parent.func or any(isinstance(a, ast.Starred) for a in parent.args):
                return False
            if not _pure(parent.func):
                return False
            for a in parent.args:
                if a is child:
                    break
                if not _pure(a):
                    return False
        else:
            return False
    return True


def emit_listcomp(fn, ind: int, e: ast.ListComp) -> str:
    T = _T
    if len(e.generators) != 1 or e.generators[0].is_async or not isinstance(e.generators[0].target, ast.Name):
        raise T.Untranslatable("list comprehension with several generators / a pattern target")
    if any(isinstance(n, ast.ListComp) and n is not e for n in ast.walk(e)):
        raise T.Untranslatable("nested list comprehension")
    g = e.generators[0]
    acc = fn.fresh("acc")
    var = fn.fresh("cv")
    fn.emit(ind, f"let mut {acc} : List PVal := []")
    fn.emit(ind, f"for {var} in (← pyIterJ {fn.V(g.iter)}) do")
    fn.scopes = getattr(fn, "scopes", []) + [{g.target.id: var}]
    try:
        k = ind + 1
        for c in g.ifs:
            _need_bool(fn, c)
            fn.emit(k, f"if truthy {fn.V(c)} then")
            k += 1
        fn.emit(k, f"{acc} := {acc} ++ [{fn.V(e.elt)}]")
    finally:
        fn.scopes = fn.scopes[:-1]
    return f"(PVal.list {acc})"


def _hoist(fn, ind: int, value: ast.expr | None):
    """emit the loop of the (single) list comprehension inside `value` before the statement"""
    if value is None:
        return
    lcs = [n for n in ast.walk(value) if isinstance(n, ast.ListComp)]
    if not lcs:
        return
    if len(lcs) > 1:
        raise _T.Untranslatable("more than one list comprehension in a statement")
    lc = lcs[0]
    if not hoistable(value, lc):
        raise _T.Untranslatable("a list comprehension after an operand with effects, or under a conditional")
    subst = getattr(fn, "_lc_subst", None)
    if subst is None:
        subst = fn._lc_subst = {}
    subst[id(lc)] = emit_listcomp(fn, ind, lc)


# ---- statements -----------------------------------------------------------------------------------------------------

def stmt_hook(fn, ind: int, s: ast.stmt):
    T = _T
    if not mine(fn):
        return False
    if isinstance(s, ast.If):
        _need_bool(fn, s.test)
        return False                      # the base translation of `if`
    if isinstance(s, ast.For):
        if s.orelse:
            raise T.Untranslatable("for … else")
        it = fn.fresh("it")
        fn.emit(ind, f"for {it} in (← pyIterJ {fn.V(s.iter)}) do")
        fn.assign_to(ind + 1, s.target, it)
        fn.stmts(ind + 1, s.body)
        return True
    if isinstance(s, ast.Return):
        if fn.spec.returns_self:
            return False
        _hoist(fn, ind, s.value)
        fn.emit(ind, "return " + (fn.V(s.value) if s.value is not None else "PVal.none"))
        return True
    if isinstance(s, ast.Assign):
        if len(s.targets) != 1:
            raise T.Untranslatable("multiple assignment targets")
        _hoist(fn, ind, s.value)
        fn.assign_to(ind, s.targets[0], fn.V(s.value))
        return True
    if isinstance(s, ast.AnnAssign):
        if s.value is None:
            return True
        _hoist(fn, ind, s.value)
        fn.assign_to(ind, s.target, fn.V(s.value))
        return True
    if isinstance(s, ast.AugAssign):
        if not isinstance(s.op, ast.Add) or not isinstance(s.target, ast.Name):
            raise T.Untranslatable("augmented assignment other than name += expr")
        if s.target.id in fn.fresh_containers:
            raise T.Untranslatable("+= on a container")
        _hoist(fn, ind, s.value)
        nm = fn.name(s.target.id)
        # `x += e` on str / jsx operands: no __iadd__, x = x + e
        fn.emit(ind, f"{nm} := (← pyAddJ (pyAdd G) {nm} {fn.V(s.value)})")
        return True
    if isinstance(s, ast.Expr) and not (isinstance(s.value, ast.Constant)):
        if any(isinstance(n, ast.ListComp) for n in ast.walk(s.value)):
            raise T.Untranslatable("list comprehension in an expression statement")
    return False


# ---- expressions ----------------------------------------------------------------------------------------------------

def _bound(b):
    if b is None:
        return "none"
    if isinstance(b, ast.Constant) and isinstance(b.value, int) and not isinstance(b.value, bool):
        return f"(some ({b.value}))"
    if isinstance(b, ast.UnaryOp) and isinstance(b.op, ast.USub) and isinstance(b.operand, ast.Constant) \
            and isinstance(b.operand.value, int) and not isinstance(b.operand.value, bool):
        return f"(some (-{b.operand.value}))"
    raise _T.Untranslatable("non-constant slice bound")


def _S(fn, e: ast.expr) -> str:
    """an operand of a `str` operation: a jsx string counts as the `str` it is; nothing to do for an operand that is a
    plain `str` by construction"""
    if isinstance(e, (ast.Constant, ast.JoinedStr)) or (
            isinstance(e, ast.Call) and isinstance(e.func, ast.Name) and e.func.id == "str"):
        return fn.V(e)
    return f"(asStr {fn.V(e)})"


def expr_hook(fn, e: ast.expr):
    T = _T
    if not mine(fn):
        return None
    V = fn.V

    def S(x):
        return _S(fn, x)
    if isinstance(e, ast.ListComp):
        r = getattr(fn, "_lc_subst", {}).get(id(e))
        if r is None:
            raise T.Untranslatable("list comprehension in a position the translator cannot hoist it from")
        return r
    if isinstance(e, ast.UnaryOp) and isinstance(e.op, ast.Not):
        _need_bool(fn, e.operand)
        return None
    if isinstance(e, ast.IfExp):
        _need_bool(fn, e.test)
        return None
    if isinstance(e, ast.BoolOp):
        for v in e.values[:-1]:
            _need_bool(fn, v)
        return None
    if isinstance(e, ast.BinOp) and isinstance(e.op, ast.Add):
        return f"(← pyAddJ (pyAdd G) {V(e.left)} {V(e.right)})"
    if isinstance(e, ast.Compare) and len(e.ops) == 1:
        op, l, r = e.ops[0], e.left, e.comparators[0]
        if isinstance(op, ast.Eq):
            return f"(← pyEqJ {V(l)} {V(r)})"
        if isinstance(op, ast.NotEq):
            return f"(PVal.bool (!truthy (← pyEqJ {V(l)} {V(r)})))"
        if isinstance(op, ast.Gt):
            return f"(← pyGtJ {V(l)} {V(r)})"
        if isinstance(op, (ast.In, ast.NotIn)):
            return f"(← pyIn {S(l)} {S(r)})" if isinstance(op, ast.In) else f"(PVal.bool (!truthy (← pyIn {S(l)} {S(r)})))"
        return None
    if isinstance(e, ast.Subscript) and isinstance(e.slice, ast.Slice):
        if e.slice.step is not None:
            raise T.Untranslatable("slice step")
        return f"(← pySlice {S(e.value)} {_bound(e.slice.lower)} {_bound(e.slice.upper)})"
    if isinstance(e, ast.JoinedStr):
        parts = []
        for p in e.values:
            if isinstance(p, ast.Constant):
                parts.append(fn.const(p.value))
            elif isinstance(p, ast.FormattedValue):
                if p.format_spec is not None or p.conversion not in (-1, 115):
                    raise T.Untranslatable("format spec / conversion in an f-string")
                parts.append(f"(← pyStrJ {V(p.value)})")
            else:
                raise T.Untranslatable("f-string part")
        return f"(← pyConcat [{', '.join(parts)}])"
    if isinstance(e, ast.Call):
        f = e.func
        nargs = len(e.args)
        plain = not e.keywords and not any(isinstance(a, ast.Starred) for a in e.args)
        if isinstance(f, ast.Name) and f.id not in fn.all_params and f.id not in fn.locals:
            if f.id == "isinstance" and nargs == 2 and plain:
                cs = ", ".join(f'"{c}"' for c in fn.class_names(e.args[1]))
                return f"(PVal.bool (isInstanceJ {V(e.args[0])} [{cs}]))"
            if f.id == "str" and nargs == 1 and plain:
                return f"(← pyStrJ {V(e.args[0])})"
            if f.id == "len" and nargs == 1 and plain:
                return f"(← pyLenJ {V(e.args[0])})"
            if f.id == "tuple" and nargs == 1 and plain:
                return f"(← pyTupleJ {V(e.args[0])})"
            if f.id == "dict" and nargs == 1 and plain:
                return f"(← pyDict {V(e.args[0])})"
            if f.id == "cast" and nargs == 2 and plain:
                if not _imported(fn, "cast", "typing"):
                    raise T.Untranslatable("`cast` is not typing.cast")
                return V(e.args[1])           # typing.cast returns its second argument (the type is not evaluated here)
            if f.id in ("list", "enumerate", "reversed", "range", "HTML"):
                raise T.Untranslatable(f"call of {f.id} on a value that may be a jsx string")
            return None                       # a translated function, or Untranslatable in the base translation
        if isinstance(f, ast.Attribute):
            if isinstance(f.value, ast.Name) and f.value.id == "math" and f.attr in ("isfinite", "isnan") and nargs == 1 and plain:
                if not _imported(fn, "math", None):
                    raise T.Untranslatable("`math` is not the module math")
                return f"(← {'mathIsFinite' if f.attr == 'isfinite' else 'mathIsNan'} {V(e.args[0])})"
            if isinstance(f.value, ast.Name) and f.value.id == "re" and f.attr == "search" and nargs == 2 and plain:
                if not _imported(fn, "re", None):
                    raise T.Untranslatable("`re` is not the module re")
                return f"(← reSearch {S(e.args[0])} {S(e.args[1])})"
            if f.attr == "join" and nargs == 1 and plain:
                return f"(← pyJoinJ {V(f.value)} {V(e.args[0])})"
            if f.attr in METHODS and plain and nargs == METHODS[f.attr][1]:
                prim = METHODS[f.attr][0]
                return "(← " + " ".join([prim, S(f.value)] + [S(a) for a in e.args]) + ")"
            if f.attr in ("items", "keys", "values") and plain and nargs == 0:
                return None                   # dict views: AttributeError on a str, as the base primitives say
            raise T.Untranslatable(f"method call .{f.attr}() on a value that may be a jsx string")
    return None


def register(T):
    global _T
    _T = T
    T.SPECS += [
        T.FnSpec(FILE, "JSXTagAttrDict._normalize_attr_name", "JSX_normalize_attr_name", drop_self=True),
        T.FnSpec(FILE, "_render_react_js", "render_react_js", group="jsx"),
        T.FnSpec(FILE, "_serialize_attr", "serialize_attr", group="jsx"),
        T.FnSpec(FILE, "_serialize_style_attr", "serialize_style_attr", group="jsx"),
    ]
    T.ARITY.update({"JSX_normalize_attr_name": 1, "render_react_js": 3, "serialize_attr": 1, "serialize_style_attr": 1})
    if "HtmlVerif.Py.PrimC20" not in T.IMPORTS:
        T.IMPORTS.append("HtmlVerif.Py.PrimC20")
    T.EXPR_HOOKS.append(expr_hook)
    T.STMT_HOOKS.append(stmt_hook)
