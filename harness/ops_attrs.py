"""Implementation side of the attribute-area ops (C15, C16, merge part of C03); see lean/HtmlVerif/Ops/Attrs.lean
for the line formats.  Every function runs the real htmltools code in-process."""
from __future__ import annotations

import sys

from adapters import HTML, Tag, TagList, canon, canon_list, realize  # noqa: F401
from ops import op
from wire import (Toks, p_list, p_str, p_bool, p_opt, p_attr, p_attrarg, p_attrpair, p_node, p_kv, es, eb, eattrs,
                  enodes, elist, eattrarg, eattrdict, eopt, err_of, ok_str)

import htmltools


class HarnessBug(Exception):
    """an ill-formed term reached the implementation side: never an answer of the code under test"""


def guarded(f):
    def g(t):
        try:
            return f(t)
        except HarnessBug as e:
            return "harness-bug " + str(e).replace(" ", "_")
    return g


# ------------------------------------------------------------------ what the running interpreter contributes
# every Unicode scalar value for which str.isspace() is true (str.split() / str.strip() use the same predicate)
WS_CHARS = "".join(chr(c) for c in range(sys.maxunicode + 1) if not (0xD800 <= c <= 0xDFFF) and chr(c).isspace())
WS_TOK = es(WS_CHARS)


def css_hyphen(k: str) -> str:
    """the string css() lower-cases (a hyphen before every ASCII capital); the Lean driver recomputes it and
    refuses the line if this copy disagrees, so it cannot influence a verdict"""
    return "".join("-" + c if "A" <= c <= "Z" else c for c in k)


def lower_table(keys) -> list:
    seen = {}
    for k in keys:
        h = css_hyphen(k)
        seen[h] = h.lower()
    return list(seen.items())


# ------------------------------------------------------------------ realise un-normalised attribute values
class BadAttr:
    """a value of a type TagAttrDict rejects"""

    def __repr__(self):
        return "<BadAttr>"


def realize_num(txt: str):
    try:
        v = int(txt)
    except ValueError:
        v = float(txt)
    if str(v) != txt:
        raise HarnessBug(f"number text {txt!r} is not the str() of the value it denotes")
    return v


def realize_attrarg(v):
    k = v[0]
    if k == "none":
        return None
    if k == "false":
        return False
    if k == "true":
        return True
    if k == "str":
        return v[1]
    if k == "html":
        return HTML(v[1])
    if k == "num":
        return realize_num(v[1])
    return BadAttr()


def realize_dict(d) -> dict:
    out = {}
    for k, v in d:
        if k in out:
            raise HarnessBug("duplicate raw key in a dict term")
        out[k] = realize_attrarg(v)
    return out


def canon_attrs(a) -> str:
    return eattrs([(k, ("h" if isinstance(v, HTML) else "p", str(v))) for k, v in a.items()])


def install_attrs(t: Tag, attrs) -> None:
    for k, v in attrs:
        dict.__setitem__(t.attrs, k, HTML(v[1]) if v[0] == "h" else v[1])


# ------------------------------------------------------------------ C15
def _name_routes(k: str):
    """the stored name of an attribute supplied under the raw name `k`, through every PUBLIC way of supplying it
    (no private helper is named: a refactoring that moves the normaliser cannot change the answer)"""
    def keys(x):
        return list(x)

    def via_update():
        t = Tag("div")
        t.attrs.update({k: "v"})
        return keys(t.attrs)

    def via_update_kw():
        t = Tag("div")
        t.attrs.update(**{k: "v"})
        return keys(t.attrs)

    def via_setitem():
        t = Tag("div")
        t.attrs[k] = "v"
        return keys(t.attrs)

    attr_dict = type(Tag("div").attrs)
    return [
        ("Tag('div', {k: 'v'})", lambda: keys(Tag("div", {k: "v"}).attrs)),
        ("Tag('div', **{k: 'v'})", lambda: keys(Tag("div", **{k: "v"}).attrs)),
        ("type(tag.attrs)({k: 'v'})", lambda: keys(attr_dict({k: "v"}))),
        ("tag.attrs.update({k: 'v'})", via_update),
        ("tag.attrs.update(**{k: 'v'})", via_update_kw),
        ("tag.attrs[k] = 'v'", via_setitem),
        ("consolidate_attrs({k: 'v'})", lambda: keys(htmltools.consolidate_attrs({k: "v"})[0])),
    ]


@op("norm_name")
@guarded
def _norm_name(t: Toks) -> str:
    k = p_str(t)
    got = []
    for label, f in _name_routes(k):
        if k in ("_name", "_add_ws") and "**" in label:
            continue   # these two keywords are parameters of Tag.__init__, not attributes
        r = f()
        if len(r) != 1:
            return "routes " + es(label) + " stored " + str(len(r)) + " names"
        got.append((label, r[0]))
    names = {n for _, n in got}
    if len(names) != 1:   # an answer of another shape: no model answer equals it
        return "routes-disagree " + " ".join(es(lb) + " " + es(n) for lb, n in got)
    return es(got[0][1])


def p_dicts(t: Toks):
    return p_list(t, lambda t: p_list(t, p_attrpair))


def p_astep(t: Toks):
    k = t.next()
    if k == "u":
        return ("u", p_dicts(t), p_list(t, p_attrpair))
    return ("s", p_str(t), p_attrarg(t))


@op("ahist")
@guarded
def _ahist(t: Toks) -> str:
    dicts = p_dicts(t)
    kw = p_list(t, p_attrpair)
    steps = p_list(t, p_astep)
    rd, rk = [realize_dict(d) for d in dicts], realize_dict(kw)
    try:
        tag = Tag("div", *rd, **rk)
    except Exception as e:
        return err_of(e)
    out = ["ok " + canon_attrs(tag.attrs)]
    for s in steps:
        if s[0] == "u":
            rd, rk = [realize_dict(d) for d in s[1]], realize_dict(s[2])
        else:
            rv = realize_attrarg(s[2])
        try:
            if s[0] == "u":
                tag.attrs.update(*rd, **rk)
            else:
                tag.attrs[s[1]] = rv
            out.append("ok " + canon_attrs(tag.attrs))
        except Exception as e:
            out.append(err_of(e) + " " + canon_attrs(tag.attrs))
    return " ".join(out)


def p_tagarg(t: Toks):
    k = t.next()
    if k == "d":
        return ("d", p_list(t, p_attrpair))
    return ("c", p_node(t))


@op("consolidate")
@guarded
def _consolidate(t: Toks) -> str:
    args = p_list(t, p_tagarg)
    kw = realize_dict(p_list(t, p_attrpair))
    real = [realize_dict(a[1]) if a[0] == "d" else realize(a[1]) for a in args]
    attrs, kids = htmltools.consolidate_attrs(*real, **kw)      # raises: the op's answer is that error
    given = [x for x in real if not isinstance(x, dict)]
    identical = len(kids) == len(given) and all(a is b for a, b in zip(kids, given))
    try:
        same = canon(Tag("x", attrs, *kids)) == canon(Tag("x", *real, **kw))
    except Exception:  # noqa: BLE001
        same = False
    assert type(attrs) is dict
    return "ok " + canon_attrs(attrs) + " " + enodes(canon_list(kids)) + " " + eb(same) + " " + eb(identical)


def p_tagarg_a(t: Toks):
    from wire import p_arg
    k = t.next()
    if k == "d":
        return ("d", p_list(t, p_attrpair))
    return ("a", p_arg(t))


@op("consolidate_args")
@guarded
def _consolidate_args(t: Toks) -> str:
    """consolidate_attrs with arbitrary values among the non-dict arguments (unsupported objects, dicts / sets inside
    lists, None, numbers, nested sequences): it must raise exactly when building the tag raises"""
    import ops_children as oc
    from wire import eargs
    args = p_list(t, p_tagarg_a)
    kw = realize_dict(p_list(t, p_attrpair))
    for a in args:
        if a[0] == "a" and a[1][0] == "seq" and a[1][1] == "dict":
            raise HarnessBug("a dict among the positional arguments is an attribute dict, not a child")
    real = [realize_dict(a[1]) if a[0] == "d" else oc.realize_arg(a[1]) for a in args]
    attrs, kids = htmltools.consolidate_attrs(*real, **kw)      # raises: the op's answer is that error
    given = [x for x in real if not isinstance(x, dict)]
    identical = len(kids) == len(given) and all(a is b for a, b in zip(kids, given))
    try:   # consolidate_attrs returned: if building the tag raises now, the two disagree (not an error of the op)
        same = canon(Tag("x", attrs, *kids)) == canon(Tag("x", *real, **kw))
    except Exception:  # noqa: BLE001
        same = False
    assert type(attrs) is dict
    return "ok " + canon_attrs(attrs) + " " + eargs([oc.canon_arg(k) for k in kids]) + " " + eb(same) + " " + eb(identical)


@op("attr_render")
@guarded
def _attr_render(t: Toks) -> str:
    dicts = p_dicts(t)
    kw = p_list(t, p_attrpair)
    tag = Tag("div", *[realize_dict(d) for d in dicts], **realize_dict(kw))
    return ok_str(str(tag))


# ------------------------------------------------------------------ C16
def p_cstep(t: Toks):
    k = t.next()
    if k == "ac":
        return ("ac", p_str(t), p_bool(t))
    if k in ("rc", "hc"):
        return (k, p_str(t))
    return ("as", p_attrarg(t), p_bool(t))


def _ret(tag: Tag, kids0, call) -> str:
    try:
        r = call()
    except Exception as e:
        return "E" + err_of(e)[4:]
    same = (r is tag and tag.name == "div" and tag.add_ws is True and len(tag.children) == len(kids0)
            and all(a is b for a, b in zip(tag.children, kids0)))
    return "S" if same else "O"


@op("chist")
@guarded
def _chist(t: Toks) -> str:
    p_str(t)  # the whitespace table: the real str.split()/strip() need none
    attrs = p_list(t, p_attr)
    steps = p_list(t, p_cstep)
    tag = Tag("div", "k")
    install_attrs(tag, attrs)
    kids0 = list(tag.children)
    out = []
    for s in steps:
        if s[0] == "ac":
            r = _ret(tag, kids0, lambda: tag.add_class(s[1], prepend=s[2]))
            out.append(r + " " + eb(tag.has_class(s[1]) is True) + " " + canon_attrs(tag.attrs))
        elif s[0] == "rc":
            r = _ret(tag, kids0, lambda: tag.remove_class(s[1]))
            out.append(r + " " + canon_attrs(tag.attrs))
        elif s[0] == "hc":
            h = tag.has_class(s[1])
            out.append(("T" if h is True else "F" if h is False else "O") + " " + canon_attrs(tag.attrs))
        else:
            v = realize_attrarg(s[1])
            r = _ret(tag, kids0, lambda: tag.add_style(v, prepend=s[2]))
            out.append(r + " " + canon_attrs(tag.attrs))
    return " ".join(out)


def p_cssval(t: Toks):
    k = t.next()
    if k == "cn":
        return ("cn",)
    if k == "ct":
        return ("ct", p_str(t))
    if k == "co":
        return ("co", t.next(), p_str(t))
    if k == "cl":
        return ("cl", p_list(t, p_str))
    return ("cb",)


def ecssval(v) -> str:
    k = v[0]
    if k in ("cn", "cb"):
        return k
    if k == "ct":
        return "ct " + es(v[1])
    if k == "co":
        return "co " + v[1] + " " + es(v[2])
    return "cl " + elist([es(x) for x in v[1]])


def realize_cssval(v):
    k = v[0]
    if k == "cn":
        return None
    if k == "ct":
        return v[1]
    if k == "cl":
        return list(v[1])
    if k == "cb":
        return ["a", 1]
    kind, txt = v[1], v[2]
    x = {"i": lambda: int(txt), "f": lambda: float(txt), "b": lambda: txt == "True"}[kind]()
    if str(x) != txt:
        raise HarnessBug(f"css value text {txt!r} is not the str() of the value it denotes")
    return x


@op("css")
@guarded
def _css(t: Toks) -> str:
    p_list(t, p_kv)  # lower-casing table: the real str.lower() needs none
    collapse = p_opt(t)
    kw = p_list(t, lambda t: (p_str(t), p_cssval(t)))
    kwargs = {}
    for k, v in kw:
        if k in kwargs or k == "collapse_":
            raise HarnessBug("duplicate css key in term")
        kwargs[k] = realize_cssval(v)
    r = htmltools.css(1.5 if collapse is None else collapse, **kwargs)
    if r is None:
        return "ok N"
    assert type(r) is str
    try:
        Tag("div").add_style(r)
        acc = True
    except ValueError:
        acc = False
    return "ok S " + es(r) + " " + eb(acc)


# ------------------------------------------------------------------ line builders (used by the runners)
def ahist_line(dicts, kw, steps) -> str:
    def estep(s):
        if s[0] == "u":
            return "u " + elist([eattrdict(d) for d in s[1]]) + " " + eattrdict(s[2])
        return "s " + es(s[1]) + " " + eattrarg(s[2])
    return "ahist " + elist([eattrdict(d) for d in dicts]) + " " + eattrdict(kw) + " " + elist([estep(s) for s in steps])


def attr_render_line(dicts, kw) -> str:
    return "attr_render " + elist([eattrdict(d) for d in dicts]) + " " + eattrdict(kw)


def consolidate_line(args, kw) -> str:
    from wire import enode
    return ("consolidate " + elist([("d " + eattrdict(a[1])) if a[0] == "d" else ("c " + enode(a[1])) for a in args])
            + " " + eattrdict(kw))


def consolidate_args_line(args, kw) -> str:
    from wire import earg
    return ("consolidate_args " + elist([("d " + eattrdict(a[1])) if a[0] == "d" else ("a " + earg(a[1])) for a in args])
            + " " + eattrdict(kw))


def chist_line(attrs, steps) -> str:
    def estep(s):
        if s[0] == "ac":
            return "ac " + es(s[1]) + " " + eb(s[2])
        if s[0] in ("rc", "hc"):
            return s[0] + " " + es(s[1])
        return "as " + eattrarg(s[1]) + " " + eb(s[2])
    return "chist " + WS_TOK + " " + eattrs(attrs) + " " + elist([estep(s) for s in steps])


def css_line(collapse, kw) -> str:
    tbl = lower_table([k for k, _ in kw])
    return ("css " + elist([es(a) + " " + es(b) for a, b in tbl]) + " " + eopt(collapse) + " "
            + elist([es(k) + " " + ecssval(v) for k, v in kw]))


# ------------------------------------------------------------------ replay files: a public-API reproduction of a line
def _py_val(v) -> str:
    k = v[0]
    return {"none": "None", "false": "False", "true": "True", "bad": "object()"}.get(k) or (
        repr(v[1]) if k == "str" else f"HTML({v[1]!r})" if k == "html" else v[1] if v[1] not in ("inf", "-inf", "nan")
        else f"float({v[1]!r})")


def _py_dict(d) -> str:
    return "{" + ", ".join(f"{k!r}: {_py_val(v)}" for k, v in d) + "}"


def _py_stored(v) -> str:
    return f"HTML({v[1]!r})" if v[0] == "h" else repr(v[1])


def python_snippet(line: str) -> str:
    """Python (public API) reproducing what the op line does"""
    t = Toks(line)
    name = t.next()
    pre = "from htmltools import *\n"
    try:
        if name in ("ahist", "attr_render"):
            dicts, kw = p_dicts(t), p_list(t, p_attrpair)
            args = ", ".join([_py_dict(d) for d in dicts] + ([f"**{_py_dict(kw)}"] if kw else []))
            s = pre + f"t = Tag('div'{', ' if args else ''}{args})\n"
            if name == "attr_render":
                return s + "print(str(t))"
            s += "print(list(t.attrs.items()))\n"
            for st in p_list(t, p_astep):
                if st[0] == "u":
                    a = ", ".join([_py_dict(d) for d in st[1]] + ([f"**{_py_dict(st[2])}"] if st[2] else []))
                    s += f"t.attrs.update({a}); print(list(t.attrs.items()))\n"
                else:
                    s += f"t.attrs[{st[1]!r}] = {_py_val(st[2])}; print(list(t.attrs.items()))\n"
            return s
        if name == "chist":
            p_str(t)
            attrs = p_list(t, p_attr)
            s = pre + "t = div('k', {" + ", ".join(f"{k!r}: {_py_stored(v)}" for k, v in attrs) + "})\n"
            for st in p_list(t, p_cstep):
                if st[0] == "ac":
                    s += f"print(t.add_class({st[1]!r}, prepend={st[2]}) is t, t.has_class({st[1]!r}), dict(t.attrs))\n"
                elif st[0] == "rc":
                    s += f"print(t.remove_class({st[1]!r}) is t, dict(t.attrs))\n"
                elif st[0] == "hc":
                    s += f"print(t.has_class({st[1]!r}))\n"
                else:
                    s += f"print(t.add_style({_py_val(st[1])}, prepend={st[2]}) is t, dict(t.attrs))\n"
            return s
        if name == "css":
            p_list(t, p_kv)
            collapse = p_opt(t)
            kw = p_list(t, lambda t: (p_str(t), p_cssval(t)))
            def cv(v):
                return {"cn": "None", "cb": "['a', 1]"}.get(v[0]) or (repr(v[1]) if v[0] in ("ct", "cl") else v[2])
            return pre + f"print(css({'1.5' if collapse is None else repr(collapse)}, **{{" + ", ".join(
                f"{k!r}: {cv(v)}" for k, v in kw) + "}))"
        if name == "consolidate":
            return pre + "# consolidate_attrs(*args, **kw) with the arguments of the wire line (see `line`)"
        if name == "consolidate_args":
            import ops_children as oc
            args = p_list(t, p_tagarg_a)
            kw = p_list(t, p_attrpair)
            a = ", ".join([_py_dict(x[1]) if x[0] == "d" else oc.py_arg(x[1]) for x in args] + ([f"**{_py_dict(kw)}"] if kw else []))
            return (pre + "import decimal, fractions\n"
                    + f"args = [{', '.join(_py_dict(x[1]) if x[0] == 'd' else oc.py_arg(x[1]) for x in args)}]\n"
                    + f"kw = {_py_dict(kw)}\n"
                    + "try: print('Tag:', Tag('x', *args, **kw))\nexcept Exception as e: print('Tag raises', type(e).__name__)\n"
                    + "try: print('consolidate_attrs:', consolidate_attrs(*args, **kw))\nexcept Exception as e: print('consolidate_attrs raises', type(e).__name__)\n")
        if name == "norm_name":
            k = p_str(t)
            return (pre + f"k = {k!r}\nt = Tag('div'); t.attrs[k] = 'v'; u = Tag('div'); u.attrs.update({{k: 'v'}})\n"
                    "print(list(Tag('div', {k: 'v'}).attrs), list(Tag('div', **{k: 'v'}).attrs), list(t.attrs), list(u.attrs), "
                    "list(consolidate_attrs({k: 'v'})[0]))")
    except Exception as e:  # a reproduction aid only
        return f"# (no snippet: {type(e).__name__}: {e})"
    return ""


def describe(ck):
    """`shrink=` hook of Check.finish: attach the model's answer and a public-API snippet to the reported failure"""
    import core

    def f(fail):
        model = fail.model
        if not model and ck.driver is not None:
            model = ck.driver.run([fail.line])[0]
        return core.Failure(fail.kind, line=fail.line, impl=fail.impl, model=model, detail=fail.detail,
                            py=fail.py or python_snippet(fail.line))
    return f
