/-
Executable statement of C05, evaluated by the driver on the *implementation's* output.
-/
import HtmlVerif.Spec.Flat

namespace HtmlVerif.Holds
open HtmlVerif

mutual
  /-- every visible descendant of a tag, with the escaping flag of its own parent -/
  def descs (cfg : Cfg) : Node → List (Node × Bool)
    | .tag name _ _ kids => descsKids cfg kids (!cfg.noesc.contains name)
    | _ => []
  def descsKids (cfg : Cfg) : Nodes → Bool → List (Node × Bool)
    | .nil, _ => []
    | .cons h t, esc =>
      (if h.isMeta then [] else (h, esc) :: descs cfg h) ++ descsKids cfg t esc
end

mutual
  /-- every pair of adjacent visible siblings at every level, with their parent's escaping flag -/
  def adjPairs (cfg : Cfg) : Node → List (Node × Node × Bool)
    | .tag name _ _ kids =>
      let esc := !cfg.noesc.contains name
      (let v := kids.visible; (v.zip v.tail).map fun (a, b) => (a, b, esc)) ++ adjPairsKids cfg kids
    | _ => []
  def adjPairsKids (cfg : Cfg) : Nodes → List (Node × Node × Bool)
    | .nil => []
    | .cons h t => adjPairs cfg h ++ adjPairsKids cfg t
end

def holdsC05Tag (cfg : Cfg) (t : Node) (i : Nat) (out : Str) : Bool :=
  (if t.noWs then out == indentStr i ++ t.flat cfg else true)
  && (descs cfg t).all (fun (d, esc) => !d.noWs || isInfix (d.flatIn cfg esc) out)
  && (adjPairs cfg t).all (fun (a, b, esc) =>
        !(a.noWs && b.noWs) || isInfix (a.flatIn cfg esc ++ b.flatIn cfg esc) out)

def holdsC05List (cfg : Cfg) (ks : Nodes) (aw esc : Bool) (out : Str) : Bool :=
  (if ks.noWsKids && !aw then out == ks.flatKids cfg esc else true)
  && (descsKids cfg ks esc).all (fun (d, e) => !d.noWs || isInfix (d.flatIn cfg e) out)
  && ((let v := ks.visible; (v.zip v.tail)).all fun (a, b) =>
        !(a.noWs && b.noWs) || isInfix (a.flatIn cfg esc ++ b.flatIn cfg esc) out)
  && (adjPairsKids cfg ks).all (fun (a, b, e) =>
        !(a.noWs && b.noWs) || isInfix (a.flatIn cfg e ++ b.flatIn cfg e) out)

end HtmlVerif.Holds
