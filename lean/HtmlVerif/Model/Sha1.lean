/-
hash_deterministic (_util.py): hashlib.sha1(s.encode("utf-8")).hexdigest().
SHA-1 (FIPS 180-4) over UInt32; used only by the driver to name head_content dependencies.
The theorems of C18 are parametric in the digest function (assumed injective on the inputs in play).
-/
import HtmlVerif.Model.Str

namespace HtmlVerif.Sha1

/-- UTF-8 encoding of one scalar value -/
def utf8Char (c : Char) : List UInt8 :=
  let n := c.toNat
  if n < 0x80 then [n.toUInt8]
  else if n < 0x800 then [(0xC0 + n / 64).toUInt8, (0x80 + n % 64).toUInt8]
  else if n < 0x10000 then [(0xE0 + n / 4096).toUInt8, (0x80 + n / 64 % 64).toUInt8, (0x80 + n % 64).toUInt8]
  else [(0xF0 + n / 262144).toUInt8, (0x80 + n / 4096 % 64).toUInt8, (0x80 + n / 64 % 64).toUInt8,
        (0x80 + n % 64).toUInt8]

def utf8 (s : Str) : List UInt8 := s.flatMap utf8Char

def rotl (x : UInt32) (n : UInt32) : UInt32 := (x <<< n) ||| (x >>> (32 - n))

def be32 (a b c d : UInt8) : UInt32 :=
  (a.toUInt32 <<< 24) ||| (b.toUInt32 <<< 16) ||| (c.toUInt32 <<< 8) ||| d.toUInt32

def pad (msg : List UInt8) : List UInt8 :=
  let l := msg.length
  let k := (119 - l % 64) % 64       -- zero bytes so that total ≡ 0 mod 64
  let bits := l * 8
  msg ++ [0x80] ++ List.replicate k 0 ++
    (List.range 8).map (fun i => (bits / 2 ^ (8 * (7 - i)) % 256).toUInt8)

def words : List UInt8 → List UInt32
  | a :: b :: c :: d :: r => be32 a b c d :: words r
  | _ => []

structure St where
  a : UInt32
  b : UInt32
  c : UInt32
  d : UInt32
  e : UInt32

def schedule (w : Array UInt32) : Array UInt32 := Id.run do
  let mut w := w
  for t in [16:80] do
    w := w.push (rotl (w[t-3]! ^^^ w[t-8]! ^^^ w[t-14]! ^^^ w[t-16]!) 1)
  return w

def block (h : St) (ws : Array UInt32) : St := Id.run do
  let w := schedule ws
  let mut s := h
  for t in [0:80] do
    let (f, k) : UInt32 × UInt32 :=
      if t < 20 then ((s.b &&& s.c) ||| ((~~~ s.b) &&& s.d), 0x5A827999)
      else if t < 40 then (s.b ^^^ s.c ^^^ s.d, 0x6ED9EBA1)
      else if t < 60 then ((s.b &&& s.c) ||| (s.b &&& s.d) ||| (s.c &&& s.d), 0x8F1BBCDC)
      else (s.b ^^^ s.c ^^^ s.d, 0xCA62C1D6)
    let tmp := rotl s.a 5 + f + s.e + k + w[t]!
    s := ⟨tmp, s.a, rotl s.b 30, s.c, s.d⟩
  return ⟨h.a + s.a, h.b + s.b, h.c + s.c, h.d + s.d, h.e + s.e⟩

partial def blocks (h : St) (ws : List UInt32) : St :=
  if ws.length < 16 then h else blocks (block h (ws.take 16).toArray) (ws.drop 16)

def hexDigit (n : Nat) : Char := if n < 10 then Char.ofNat (48 + n) else Char.ofNat (87 + n)

def hex32 (x : UInt32) : Str :=
  (List.range 8).map fun i => hexDigit (x.toNat / 16 ^ (7 - i) % 16)

/-- sha1 hex digest of the UTF-8 encoding -/
def sha1Hex (s : Str) : Str :=
  let h := blocks ⟨0x67452301, 0xEFCDAB89, 0x98BADCFE, 0x10325476, 0xC3D2E1F0⟩ (words (pad (utf8 s)))
  hex32 h.a ++ hex32 h.b ++ hex32 h.c ++ hex32 h.d ++ hex32 h.e

end HtmlVerif.Sha1
