"""Hash-order probes for C18's cross-process battery.

Every place in htmltools where the iteration order of a dict / set / frozenset or a `hash()` value *could* reach an
observable (markup, attribute order, dependency order, listing, serialised JSON, css text, class/style values, JSX
props) gets a family of op lines here whose input has **at least four distinct string keys** at that place, so that an
implementation that goes through a `set(...)` (or names something by `hash()`) gives a different answer under a
different PYTHONHASHSEED with near certainty — and, because every digest is compared with the *model's* single answer,
already in a single process unless the set happens to iterate in insertion order (1/n! per line).

Sites (htmltools/_core.py, _util.py, _jsx.py) -> family:
  TagAttrDict.__init__/update (dicts and kwargs, merge of equal names)            attrs      (attr_render, ahist, consolidate)
  Tag.get_html_string: `for key, val in self.attrs.items()`                       tag_attrs  (render_tag, render_list)
  add_class / remove_class / has_class / add_style                                class_style (chist)
  css(**kwargs)                                                                   css
  html_escape: `for key, value in table.items()` (`&` must be replaced first)     escape
  HTMLDocument(**kwargs) -> <html> attributes, three root cases                   document   (document_render, document_tree)
  _hoist_head_content: listing, order of hoisted blocks; head_content once/distinct  document
  HTMLDependency.as_dict / as_html_tags / source_path_map (dict-valued entries)   dep_tags
  _resolve_dependencies (insertion-ordered dict), get_dependencies, render()      resolve    (deps_list, deps_tag, deps_twice, deps_render, render_full_tag, tagify_tag)
  serialize_to_script_json (json.dumps of a dict), JSON render mode               serialize  (ser, sern, jsonmode, jmrt)
  HTMLTextDocument extraction (seen-set de-duplication) and render                textdoc    (extract, textdoc)
  head_content naming                                                             head_content
  JSXTag props / style dict / nested values                                       jsx        (jsx_render, jsx_tagify, jsx_init, jsx_attr, jsx_style)

`probes()` is deterministic (no rng): the lines are the same in every run, so a report can be replayed by line.
A family that cannot be built (its op module is gone) raises: the probes are not optional."""
from __future__ import annotations

import copy

import ops  # noqa: F401  (registers the op modules; must come before any ops_* import)

from wire import eb, edepinfo, enode, enodes, eopt, es

KEYS = ["alpha", "bravo", "charlie", "delta", "echo", "foxtrot", "golf", "hotel", "india", "juliet", "kilo", "lima"]
TOKENS = ["btn", "btn-primary", "btn-lg", "card", "shadow", "rounded", "mx-auto", "p-3", "é", "x-1", "w3", "zz"]


def rot(xs, k):
    k %= len(xs)
    return xs[k:] + xs[:k]


# ------------------------------------------------------------------ attributes
def attrs_family():
    from ops_attrs import ahist_line, attr_render_line, consolidate_line
    out = []
    for r in range(3):
        ks = rot(KEYS, 3 * r)
        d1 = [("id", ("str", "a")), ("title", ("str", "t")), (ks[0] + "_x", ("str", "1")), ("role", ("str", "r")), ("lang", ("str", "en")),
              (ks[1], ("true",)), (ks[2], ("num", "7"))]
        d2 = [("class_", ("str", "c1")), ("style", ("str", "k:v;")), ("title", ("str", "t2")), ("hidden", ("true",)),
              ("tabindex", ("num", "3")), (ks[3], ("html", "<&>")), (ks[4], ("none",)), (ks[5], ("false",))]
        kw = [("class_", ("str", "c2")), ("aria_label", ("str", "L")), ("data_y", ("html", "<\"y\">")), ("id", ("str", "b")),
              ("width", ("num", "10")), (ks[6], ("str", "q\"")), (ks[7] + "_", ("str", "u"))]
        out.append(attr_render_line([d1, d2], kw))
        out.append(attr_render_line([], rot(kw, r + 1) + d1[2:5]))
        out.append(attr_render_line([rot(d2, r), rot(d1, r + 2)], []))
        steps = [("u", [rot(d2, 2)], rot(kw, 3)), ("s", ks[8], ("str", "set")), ("u", [], [(k, ("str", k)) for k in ks[:6]]),
                 ("u", [[(k + "_", ("num", str(i))) for i, k in enumerate(ks[4:10])], d1[:4]], [])]
        out.append(ahist_line([d1], kw, steps))
        out.append(ahist_line([], [], steps[2:] + steps[:1]))
        kid = ("tag", "span", False, [], [("text", "k")])
        out.append(consolidate_line([("d", d1), ("c", kid), ("d", d2), ("c", ("text", "x")), ("d", [(k, ("str", k)) for k in ks[:5]])], kw))
        out.append(consolidate_line([("d", rot(d2, r + 1))], rot(kw, 2)))
    return out


def tag_attrs_family():
    out = []
    for r in range(3):
        ks = rot(KEYS, 4 * r)
        a = [(k, ("p", k.upper())) for k in ks[:7]] + [("class", ("p", " ".join(TOKENS[:5]))), ("style", ("h", "a:b;c:d;")), ("id", ("p", "i\"d"))]
        inner = ("tag", "a", False, [(k, ("p", "v")) for k in rot(ks, 5)[:6]] + [("href", ("p", "/x?a=1&b=2"))], [("text", "link")])
        t = ("tag", "div", True, rot(a, r), [inner, ("tag", "img", True, [("src", ("p", "s.png")), ("alt", ("p", "A")), ("width", ("p", "1")),
                                                                     ("height", ("p", "2")), ("loading", ("p", "lazy"))], [])])
        out.append(f"render_tag {enode(t)} 0 {es(chr(10))}")
        out.append(f"render_list {enodes([t, inner])} 1 {es(chr(10))} T T")
    return out


def class_style_family():
    from ops_attrs import chist_line
    out = []
    for r in range(4):
        tk = rot(TOKENS, 2 * r)
        init = [("class", ("p", " ".join(tk[:6]))), ("style", ("p", "x:1;")), ("id", ("p", "i")), ("title", ("p", "t"))]
        steps = [("ac", " ".join(tk[6:10]), False), ("hc", tk[7]), ("rc", tk[2]), ("ac", " ".join(tk[10:12] + tk[:1]), True),
                 ("hc", tk[2]), ("rc", tk[0]), ("rc", tk[8]),
                 ("as", ("str", "color:red;margin:0;padding:1px;top:2px;left:3px;"), False), ("as", ("str", "z-index:1;"), True),
                 ("as", ("html", "font:'x';"), False), ("ac", tk[3], False), ("hc", tk[5])]
        out.append(chist_line(init, steps))
        out.append(chist_line([], steps))
        out.append(chist_line(init[:1], [("rc", t) for t in (tk[1], tk[3], tk[5])] + [("hc", tk[0]), ("hc", tk[1])]))
    return out


def css_family():
    from ops_attrs import css_line
    props = [("font_size", ("ct", "12px")), ("backgroundColor", ("ct", "red")), ("margin", ("cl", ["1px", "2px", "3px"])),
             ("z_index", ("co", "i", "3")), ("opacity", ("co", "f", "0.5")), ("color", ("cn",)), ("border_top_width", ("ct", "1px")),
             ("WebkitTransition", ("ct", "all 1s")), ("line_height", ("co", "f", "1.5")), ("display", ("ct", "flex")),
             ("visible", ("co", "b", "True"))]
    out = []
    for r in range(5):
        kw = rot(props, 2 * r)[:4 + r]
        out.append(css_line("" if r % 2 == 0 else "\n", kw))
    out.append(css_line(" ", props))
    return out


def escape_family():
    s = "a&b<c>d\"e'f\rg\nh&amp;&lt;<&>&"
    return ["escape T " + es(s), "escape F " + es(s), "escape T " + es("&<>\"'\r\n" * 3), "escape F " + es("<&" * 8)]


# ------------------------------------------------------------------ documents and dependencies
def rich_dep(name, version, k=0, source=None, head=None):
    """a dependency with several scripts / stylesheets / metas, each a dict with >= 3 keys in a non-alphabetical order"""
    from props.c11 import D
    ks = rot(KEYS, k)
    script = [[("src", f"{name}-{i}.js"), (ks[i], "1"), ("type", "module"), (ks[i + 3] + "-x", "y"), ("defer", "")] for i in range(3)]
    sheet = [[("media", "print"), ("href", f"{name} {i}.css"), (ks[i + 1], "s"), ("title", "T"), ("crossorigin", "anonymous")] for i in range(3)]
    metas = [[("name", f"{name}-m{i}"), ("content", "c&\"" + str(i)), (ks[i + 2], "m"), ("scheme", "s")] for i in range(3)]
    return D(name, version, extra_meta=metas, script=script, stylesheet=sheet, source=source, head=head)


def document_family():
    from props.c11 import T, hc, mk_line
    out = []
    kws = [
        [("lang", ("str", "en")), ("dir", ("str", "ltr")), ("class_", ("str", "no-js theme")), ("data_theme", ("str", "dark")), ("id", ("str", "root"))],
        [("class_", ("str", "a")), ("lang", ("html", "<&>")), ("data_bs_theme", ("str", "x")), ("style", ("str", "k:v;")), ("hidden", ("true",)),
         ("translate", ("str", "no")), ("skip", ("none",))],
        [(k, ("str", k)) for k in KEYS[:8]],
    ]

    def payloads():
        p1 = [T("link", attrs=[("rel", ("p", "icon")), ("href", ("p", "f.ico")), ("sizes", ("p", "16x16")), ("type", ("p", "image/x-icon"))])]
        p2 = [T("style", ("text", "body{margin:0}")), T("title", ("text", "T<&>"))]
        p3 = [T("meta", attrs=[("name", ("p", "viewport")), ("content", ("p", "width=device-width")), ("data-a", ("p", "1")), ("data-b", ("p", "2"))])]
        p4 = [("html", "<script>window.x = 1 && 2</script>")]
        p5 = [T("base", attrs=[("href", ("p", "/")), ("target", ("p", "_blank"))]), ("text", "tail")]
        return [p1, p2, p3, p4, p5]

    for r in range(3):
        P = payloads()
        deps = [rich_dep("zeta", "1.2", 0, ("href", "https://cdn/z")), rich_dep("alpha", "2.0", 3, None),
                rich_dep("mid", "0.9", 5, ("subdir", None, "/V/src/mid", "")), rich_dep("zeta", "1.10", 2, ("href", "//z2")),
                rich_dep("omega", "3", 7, None, head=[T("link", attrs=[("href", ("p", "o.css")), ("rel", ("p", "x")), ("as", ("p", "style"))])]),
                rich_dep("alpha", "1.0", 1, None), rich_dep("beta", "1", 4, ("href", "b/"))]
        deps = rot(deps, r)
        # equal payloads several times (must appear once), distinct payloads (each once, first-occurrence order)
        hcs = [hc(*P[0]), hc(*P[1]), hc(*P[0]), hc(*P[2]), hc(*P[3]), hc(*P[1]), hc(*P[4]), hc(*P[0])]
        hcs = rot(hcs, 2 * r)
        body_kids = [T("div", hcs[0], deps[0], T("p", ("text", "one"), hcs[1], deps[1]), attrs=[("id", ("p", "x")), ("class", ("p", "a b"))]),
                     hcs[2], deps[2], T("section", deps[3], hcs[3], T("span", hcs[4], deps[4], ws=False), hcs[5]), deps[5], hcs[6], hcs[7], deps[6]]
        kw = kws[r]
        lp, iv = [("lib", True), (None, False), ("a/b", True)][r]
        frag = copy.deepcopy(body_kids)
        out.append(mk_line(frag, kw, lp, iv, mode=r))
        out.append(mk_line(copy.deepcopy(body_kids), kw, lp, iv, mode=0, opn="document_tree"))
        body = [T("body", *copy.deepcopy(body_kids), attrs=[("class", ("p", "bd")), ("data-x", ("p", "1")), ("id", ("p", "b")), ("lang", ("p", "fr"))])]
        out.append(mk_line(body, rot(kw, 2), lp, not iv))
        html = [T("html", T("head", T("title", ("text", "user")), copy.deepcopy(hcs[1])), T("body", *copy.deepcopy(body_kids)),
                  attrs=[("lang", ("p", "de")), ("class", ("p", "u")), ("data-u", ("p", "1")), ("id", ("p", "h"))])]
        out.append(mk_line(html, rot(kw, 1), lp, iv))
        # exactly the property's sentence: two equal payloads and one different one, nothing else
        out.append(mk_line([hc(*P[r]), hc(*P[r]), hc(*P[(r + 1) % 5])], kw[:3], None, True))
        out.append(mk_line([hc(*P[(r + 1) % 5]), hc(*P[r]), hc(*P[(r + 1) % 5])], [], None, True, opn="document_tree"))
    return out


def dep_tags_family():
    out = []
    srcs = [None, ("href", "https://cdn/x/"), ("href", "rel/x"), ("subdir", None, "/V/src/d1", "/V/src/d1")]
    for r, src in enumerate(srcs):
        info = copy.deepcopy(rich_dep("lib" + str(r), "1." + str(r), 2 * r, None)[1])
        info["source"] = src
        info["metas"] = info["metas"][1:]          # drop the marker meta of the document generator
        head = [("tag", "link", True, [("href", ("p", "h.css")), ("rel", ("p", "preload")), ("as", ("p", "style")), ("id", ("p", "pl"))], [])]
        for lp, iv in ((None, True), ("lib", False), ("a/b/", True)):
            out.append(f"as_dict {edepinfo(info)} F [ ] {eopt(lp)} {eb(iv)}")
            out.append(f"as_html_tags {edepinfo(info)} T {enodes(head)} {eopt(lp)} {eb(iv)}")
        out.append(f"source_path_map {edepinfo(info)} {eopt('lib')} T")
    return out


def resolve_family():
    from props.c10 import finish_terms, mk_dep
    out = []
    names = ["jquery", "bootstrap", "popper", "d3", "héllo", "selectize", "font-awesome", "shiny", "htmlwidgets", "leaflet"]
    vers = ["1.9", "1.10", "1.10.0", "2", "0.0.1", "3.1.4"]
    for r in range(4):
        ns = rot(names, 3 * r)
        deps = [mk_dep(ns[i % 10], vers[(i * 7 + r) % 6], script=[[("src", f"{i}.js"), ("async", ""), ("data-k", str(i))]]) for i in range(16)]
        kids = [deps[0], ("tag", "div", True, [], [deps[1], ("text", "x"), deps[2], ("tag", "p", False, [], [deps[3], deps[4]]), deps[5]]),
                deps[6], ("tag", "ul", True, [], [("tag", "li", True, [], [deps[7 + j]]) for j in range(5)]), deps[12], deps[13],
                ("tag", "span", False, [], [deps[14], deps[15]])]
        t = finish_terms([("tag", "main", True, [], copy.deepcopy(kids))])[0]
        out.append(f"deps_tag {enode(t)} T")
        out.append(f"deps_tag {enode(t)} F")
        out.append(f"deps_list {enodes(t[4])} T")
        out.append(f"deps_twice {enodes(t[4])}")
        out.append(f"deps_render {enode(t)}")
        out.append(f"render_full_tag {enode(t)}")
        out.append(f"tagify_tag {enode(t)}")
    return out


def sdep(name, version, k, head):
    info = copy.deepcopy(rich_dep(name, version, k, ("href", "h/" + name))[1])
    info["metas"] = info["metas"][1:]
    info["vrank"] = 0
    return (info, head)


def serialize_family():
    from props.c13 import ser_line
    out = []
    for r in range(3):
        sd = sdep("ser" + str(r), "1.0", 3 * r, "<title>h</title>" if r else None)
        out.append(ser_line(None, sd))
        out.append(ser_line(2, sd))
    from props.c10 import finish_terms, mk_dep
    for r in range(2):
        deps = [mk_dep(n, "1." + str(i), script=[[("src", "s.js"), (KEYS[i + r], "v"), ("type", "module"), ("nomodule", "")]],
                       head=[("text", "h" + str(i))] if i % 2 else None)
                for i, n in enumerate(rot(["west", "east", "north", "south", "up", "down"], 2 * r))]
        t = finish_terms([("tag", "div", True, [("id", ("p", "root"))], [deps[0], ("tag", "p", True, [], [deps[1], ("text", "x"), deps[2]]),
                                                                         deps[3], ("tag", "b", False, [], [deps[4]]), deps[5]])])[0]
        out.append("jsonmode " + enode(t))
        out.append("jmrt " + enode(t))
        out.append("sern N " + enode(t[4][0]))
        out.append("sern I 1 " + enode(t[4][2]))
    return out


def textdoc_family():
    import ops_json
    from htmltools import HTMLTextDocument
    from props.c13 import e_sdep, extract_line
    from wire import elist
    out = []
    for r in range(3):
        sds = [sdep(n, "2." + str(i), i + r, None if i % 3 else "<meta name=\"h\">") for i, n in enumerate(rot(["uno", "dos", "tres", "cuatro", "cinco", "seis"], r))]
        # distinct, with repeats (equal text: extracted once, first occurrence decides the position)
        seq = [sds[0], sds[1], sds[0], sds[2], sds[3], sds[1], sds[4], sds[5], sds[2], sds[0]]
        out.append(extract_line("<html>", [(None if i % 2 else 2, sd, f"<p>{i}</p>") for i, sd in enumerate(seq)]))
        given = [sds[3], sds[1], sds[5]]
        html = "<html><head>PH</head><body>" + "".join(
            ops_json.realize_sdep(sd).serialize_to_script_json(None).get_html_string() + "<i/>" for sd in (sds[0], sds[2], sds[0], sds[4], sds[2])) + "</body></html>"
        doc = HTMLTextDocument(html, [ops_json.realize_sdep(d) for d in given], "PH")
        table = ops_json.tags_table(doc._deps)
        out.append("textdoc " + es(html) + " " + eopt("PH") + " D " + elist([e_sdep(d) for d in given]) + " " + table)
    return out


def head_content_family():
    out = []
    for r in range(3):
        ks = rot(KEYS, 2 * r)
        payload = [("tag", "link", True, [(k, ("p", "v" + k)) for k in ks[:6]], []), ("tag", "style", True, [("media", ("p", "all")), ("id", ("p", "s"))], [("text", "p{}")]),
                   ("html", "<!-- c -->")]
        out.append(f"head_content {enodes(payload)} 0")
        out.append(f"head_content {enodes(rot(payload, 1))} 0")
        out.append(f"head_content_json {enodes(payload)} 0")
    return out


def jsx_family():
    from ops_jsx import eallowed, ejnode, ejnodes, ejprops, ejval
    from props.c20 import S, in_model, upper_initial, val_in_model
    out = []
    for r in range(3):
        ks = rot(KEYS, 3 * r)
        style = ("dict", [("color", ("node", S("red"))), ("fontSize", ("num", "12")), ("marginTop", ("node", S("1px"))), ("zIndex", ("num", "3")),
                          (ks[0], ("node", S("v")))])
        nested = ("dict", [(ks[1], ("num", "1")), (ks[2], ("list", False, [("num", "1"), ("node", S("two")), ("dict", [(ks[3], ("null",)), (ks[4], ("bool", True))])])),
                           (ks[5], ("node", S("() => 1", "j"))), (ks[6], ("bool", False))])
        props = [(ks[7], ("num", "1")), ("style", style), (ks[8], ("node", S('a"b'))), ("options", nested), (ks[9], ("bool", True)),
                 (ks[10], ("null",)), ("className", ("node", S("c1 c2"))), (ks[11], ("node", S("<i>", "h")))]
        inner = ("comp", "In", [(k, ("node", S(k))) for k in ks[:5]], [S("d")])
        tagk = ("tag", "span", [("style", ("p", "a:b;c:d")), ("id", ("p", "q")), ("class", ("p", "k")), ("title", ("p", "t")), ("data-z", ("p", "1"))], [S("in")])
        comp = ("comp", "Foo", rot(props, r), [S("kid"), tagk, inner])
        assert in_model(comp, False) and in_model(comp, True)
        out.append(f"jsx_render {ejnode(comp)} 0 {es(chr(10))}")
        out.append("jsx_tagify " + ejnode(("comp", "Outer", [(k, ("node", S(k))) for k in ks[5:10]], [comp])))
        kw = [(k, v) for k, v in rot(props, 2 * r) if k != "style" and val_in_model(v, True, True)][:6]
        out.append(f"jsx_init {es('Foo')} {es(upper_initial('Foo'))} {eallowed(None)} {ejprops(kw)} {ejnodes([S('c')])}")
        out.append("jsx_style " + ejval(style))
        out.append("jsx_attr " + ejval(nested))
    return out


# ------------------------------------------------------------------ numbers that compare equal and print differently
def numbers_family():
    """0.0 == -0.0 == 0 == False and 1.0 == 1 == True with equal hashes, yet each has its own text: a memo keyed on the
    value (an untyped lru_cache, a dict) makes the text of one depend on which was formatted first in the process.
    One line per number and route (child, attribute value), so that the shuffled orders of the battery place each
    after each."""
    from ops_attrs import attr_render_line
    from wire import earg
    out = []
    nums = [("f", "0.0"), ("f", "-0.0"), ("i", "0"), ("b", "False"), ("f", "1.0"), ("i", "1"), ("b", "True"),
            ("f", "2.0"), ("i", "2"), ("f", "1e+16"), ("i", "10000000000000000")]
    for kind, txt in nums:
        out.append("c14_t2n " + earg(("list", [("num", kind, txt)])))
        out.append("c14_t2n " + earg(("tuple", [("node", ("text", "n")), ("num", kind, txt), ("list", [("num", kind, txt)])])))
        if kind != "b":
            out.append(attr_render_line([[("title", ("num", txt))]], []))
            out.append(attr_render_line([], [("width", ("num", txt)), ("data_n", ("num", txt))]))
    return out


FAMILIES = [
    ("numbers", numbers_family),
    ("attrs", attrs_family), ("tag_attrs", tag_attrs_family), ("class_style", class_style_family), ("css", css_family),
    ("escape", escape_family), ("document", document_family), ("dep_tags", dep_tags_family), ("resolve", resolve_family),
    ("serialize", serialize_family), ("textdoc", textdoc_family), ("head_content", head_content_family), ("jsx", jsx_family),
]


def probes() -> dict[str, list[str]]:
    out = {}
    for name, f in FAMILIES:
        ls = f()
        if not ls:
            raise RuntimeError(f"C18 probe family {name} is empty")
        out[name] = ls
    return out


if __name__ == "__main__":
    import ops  # noqa: F401
    for fam, ls in probes().items():
        print(fam, len(ls), sorted({l.split(" ", 1)[0] for l in ls}))
