#!/usr/bin/env python3
"""List declaration names defined in more than one module of lean/HtmlVerif (same namespace)."""
import os, re, sys, collections
LEAN = os.path.join(os.path.dirname(os.path.dirname(os.path.abspath(__file__))), "lean", "HtmlVerif")
decl = re.compile(r"^\s*(?:@\[[^\]]*\]\s*)?(private\s+|protected\s+)?(?:partial\s+|noncomputable\s+)?(def|theorem|abbrev|structure|inductive|instance|lemma)\s+([A-Za-z_][\w.'?!]*)")
seen = collections.defaultdict(list)
for root, _, fs in os.walk(LEAN):
    for f in fs:
        if not f.endswith(".lean"):
            continue
        ns = []
        p = os.path.join(root, f)
        for line in open(p, encoding="utf-8"):
            m = re.match(r"^\s*namespace\s+([\w.]+)", line)
            if m:
                ns.append(m.group(1)); continue
            m = re.match(r"^\s*end\s+([\w.]+)\s*$", line)
            if m and ns and ns[-1] == m.group(1):
                ns.pop(); continue
            m = decl.match(line)
            if m and not m.group(1) and m.group(2) != "instance":
                seen[".".join(ns + [m.group(3)])].append(os.path.relpath(p, LEAN))
bad = {k: v for k, v in seen.items() if len(set(v)) > 1}
for k, v in sorted(bad.items()):
    print(k, sorted(set(v)))
sys.exit(1 if bad else 0)
