"""Implementation side of the `src` op for the C14 translations (harness/pytr_c14.py): the real `is_tag_node`, `is_tag_child`,
`flatten`, `_flatten_recurse`, `_tagchilds_to_tagnodes` and `TagList` methods on the realised values, and the encoders that
turn their results (lists that hold Tag / TagList / other objects) back into pval terms.

Value conventions shared with lean/HtmlVerif/Lemmas/SrcC14.lean (`embA`): `O Opaque [ id I k ]` an object that is neither
iterable nor a tag node; `O bytes|range|set [ data L [ … ] ]` an instance of that built-in type which yields `data`;
`O TagList [ ]` a TagList instance before `__init__` has run."""
from __future__ import annotations

import ops_src
from wire import es


class _Opaque:
    def __init__(self, k):
        self._k = k


def _taglist(fields):
    import htmltools
    tl = htmltools.TagList.__new__(htmltools.TagList)
    if "data" in fields:
        tl.data = list(fields["data"])
    return tl


def _meta(fields):
    import htmltools
    m = htmltools.MetadataNode()
    m._vid = fields.get("id", 0)
    return m


def _range(fields):
    d = fields["data"]
    if d != list(range(len(d))):
        raise ValueError("not a range(n)")
    return range(len(d))


ops_src.REALIZE["Opaque"] = lambda f: _Opaque(f.get("id", 0))
ops_src.REALIZE["TagList"] = _taglist
ops_src.REALIZE["MetadataNode"] = _meta
ops_src.REALIZE["bytes"] = lambda f: bytes(f["data"])
ops_src.REALIZE["range"] = _range
ops_src.REALIZE["set"] = lambda f: set(f["data"])


def _encode(v, enc):
    import htmltools
    L = lambda xs: "L [ " + "".join(enc(x) + " " for x in xs) + "]"  # noqa: E731
    if type(v) is htmltools.TagList:
        return "O TagList [ " + (("data " + L(v.data) + " ") if "data" in v.__dict__ else "") + "]"
    if type(v) is htmltools.Tag:
        return (f"O Tag [ name S {es(v.name)} attrs {enc(dict(v.attrs))} children {enc(v.children)} "
                f"add_ws {'T' if v.add_ws else 'F'} ]")
    if type(v) is _Opaque:
        return f"O Opaque [ id I {v._k} ]"
    if type(v) is ops_src._Repr:
        return f"O ReprObj [ _repr_html_ S {es(v._t)} ]"
    if type(v) is ops_src._TagifiableRepr:
        return f"O TagifiableObj [ tagify N _repr_html_ S {es(v._t)} ]"
    if type(v) is ops_src._Tagifiable:
        return "O TagifiableObj [ tagify N ]"
    if type(v) is htmltools.MetadataNode:
        return f"O MetadataNode [ id I {getattr(v, '_vid', 0)} ]"
    if type(v) is htmltools.HTMLDependency:
        return f"O HTMLDependency [ name S {es(v.name)} ]"
    if type(v) is bytes:
        return "O bytes [ data " + L(list(v)) + " ]"
    if type(v) is range:
        return "O range [ data " + L(list(v)) + " ]"
    if type(v) is set:
        return "O set [ data " + L(list(v)) + " ]"
    return None


ops_src.ENCODE.append(_encode)


def _flatten_recurse(a):
    from htmltools import _util
    r = a[1]
    _util._flatten_recurse(a[0], r)
    return r          # the translation returns the list the real function has appended to


def _method(name, ret_self):
    def call(a):
        import htmltools
        r = getattr(htmltools.TagList, name)(*a)
        return a[0] if ret_self else r
    return call


def _core_fn(name):
    def call(a):
        from htmltools import _core
        return getattr(_core, name)(*a)
    return call


def _flatten(a):
    from htmltools import _util
    return _util.flatten(a[0])


C = ops_src.CALLS
C["is_tag_node"] = _core_fn("is_tag_node")
C["is_tag_child"] = _core_fn("is_tag_child")
C["util_flatten_recurse"] = _flatten_recurse
C["util_flatten"] = _flatten
C["tagchilds_to_tagnodes"] = _core_fn("_tagchilds_to_tagnodes")
C["TagList_should_not_expand"] = _method("_should_not_expand", False)
C["TagList_init"] = lambda a: (__import__("htmltools").TagList.__init__(a[0], *a[1]), a[0])[1]
C["TagList_extend"] = _method("extend", True)
C["TagList_append"] = lambda a: (__import__("htmltools").TagList.append(a[0], a[1], *a[2]), a[0])[1]
C["TagList_insert"] = _method("insert", True)
C["TagList_add"] = _method("__add__", False)
C["TagList_radd"] = _method("__radd__", False)
C["TagList_iadd"] = _method("__iadd__", False)      # returns self
