import HtmlVerif.Ops.Base
import HtmlVerif.Model.HeadContent
import HtmlVerif.Model.Sha1

namespace HtmlVerif.Ops
open HtmlVerif HtmlVerif.Wire

def headContentOps : OpTable
  | "head_content" => some do
    let ks ← nodes; let r ← nat
    pure (encExcept encNode (headContent cfg Sha1.sha1Hex r ks))
  | "head_content_json" => some do
    -- the same construction while the global dependency render mode is "json": the name must not depend on the mode
    let ks ← nodes; let r ← nat
    pure (encExcept encNode (headContent cfg Sha1.sha1Hex r ks))
  | "sha1" => some do
    let s ← str
    pure (encStr (Sha1.sha1Hex s))
  | _ => none

end HtmlVerif.Ops
