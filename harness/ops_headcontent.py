from ops import op
from wire import Toks, p_list, p_node, p_str, es, enode
from adapters import realize, canon, Ranks


@op("head_content")
def _head_content(t: Toks) -> str:
    import htmltools
    ns = p_list(t, p_node)
    rank0 = int(t.next())
    d = htmltools.head_content(*[realize(n) for n in ns])
    term = canon(d, None)
    term[1]["vrank"] = rank0
    return "ok " + enode(term)


@op("sha1")
def _sha1(t: Toks) -> str:
    from htmltools._util import hash_deterministic
    return es(hash_deterministic(p_str(t)))


@op("head_content_json")
def _head_content_json(t: Toks) -> str:
    import htmltools
    ns = p_list(t, p_node)
    rank0 = int(t.next())
    old = htmltools.html_dependency_render_mode
    htmltools.html_dependency_render_mode = "json"
    try:
        d = htmltools.head_content(*[realize(n) for n in ns])
    finally:
        htmltools.html_dependency_render_mode = old
    term = canon(d, None)
    term[1]["vrank"] = rank0
    return "ok " + enode(term)


class Loud(str):
    """a str subclass whose str()/format() differ from its value (like a (str, Enum) member)"""

    def __str__(self):
        return "LOUD:" + str.__str__(self)

    def __format__(self, spec):
        return "LOUD:" + str.__str__(self)


@op("noise_strsub")
def _noise_strsub(t: Toks) -> str:
    """Python-only (no model): renders constructions whose values are str-subclass instances EQUAL to plain strings used
    elsewhere in the battery; only ever used as interleaved noise by the C18 worker"""
    from htmltools import Tag
    s = p_str(t)
    x = Loud(s)
    Tag("div", x, class_=x, title=x).get_html_string()
    str(Tag("span", {"class": x}, x))
    return "noise"
