"""Translator plug-in for the constructor validation of `HTMLDependency` (C10, clause "dependencies are validated";
DESIGN §14): `HTMLDependency._validate_dict`, `HTMLDependency._validate_dicts`, `HTMLDependency.__init__`
(htmltools/_core.py).

New syntax (through hooks, for the functions of this area only):

  * `Version(x)` -> `pyMkVersion G x` (Py/PrimC10b.lean).  `packaging.version.Version` is not translated; what it answers
    for a string (InvalidVersion, a ValueError — or the Version object, carried as class `Version` with its rank in the
    order `packaging` reports and its `str()` text) is a parameter, read from `G.mkVersion`.

  * `TagList(x)` with exactly one positional argument -> `pyTagList1 x` (Py/PrimC10b.lean): `TagList.__init__` is not
    translated in this area; the primitive states what `TagList(x)` is for the argument shapes that reach it from
    `head=` (None, str / HTML, numbers, a node, a TagList / list / tuple of plain nodes) and is `unsupported` elsewhere.

  * the loop

        for s in self.<F>:
            if <K> not in s:
                s[<K>] = <V>

    assigns into a dict that is an *element* of the list held in the field `<F>`.  It is made functional explicitly: the
    loop collects the (possibly updated) elements and the field is rebuilt from them (`pyRebuildSeq`, which keeps the
    kind of the sequence).  In Python the assignment is visible through every reference to the element; the rewriting
    is the same function of the arguments provided that, after the loop, the function reads the elements only through
    `self.<F>`.  The hook checks the syntactic part of that condition (`_elem_loop`):
      - the loop is a statement of the function body (not nested), the function is translated as `returns_self`;
      - the loop variable is bound by this loop only and is not read outside it;
      - every local name that was stored into the field (`self.<F> = n`) is stored into no other field, and is not read
        after the loop (so the only live reference to the list inside the function is `self.<F>`);
      - every statement of the body has the guarded shape above with a constant `<K>` and a `<V>` that does not mention
        the loop variable.  The guard makes one pass idempotent on an element, so a list that holds the same dict twice
        (`[d, d]`: the second pass sees the first pass's assignment) gives the same result as the element-wise
        rewriting.
    What no syntactic check can establish, and what is therefore an assumption of the tie (as for every self-mutating
    method translated so far: a `PVal` has no identity): the items of this argument are not shared with the *other*
    arguments (`script=[d], stylesheet=[d]` would make the assignment visible in `self.script` too).  The effect on the
    caller's own dicts (the constructor adds the key to the dict the caller passed) is not part of the translation.

`raise E(message)`: as everywhere in the translator the message expression is not evaluated (the messages of
`_validate_dict` read `self.name` / `self.version`, which `__init__` has set before the first call).
"""
from __future__ import annotations

import ast

#: Lean names of this area's translations
MINE = ("HTMLDependency_validate_dict", "HTMLDependency_validate_dicts", "HTMLDependency_init")


def _expr_hook(fn, e):
    if fn.spec.lean not in MINE:
        return None
    if isinstance(e, ast.Call) and isinstance(e.func, ast.Name) and not e.keywords \
            and len(e.args) == 1 and not isinstance(e.args[0], ast.Starred):
        if e.func.id == "Version":
            return f"(← pyMkVersion G {fn.V(e.args[0])})"
        if e.func.id == "TagList":
            return f"(← pyTagList1 {fn.V(e.args[0])})"
    return None


def _names(node, ctx=None) -> set[str]:
    return {n.id for n in ast.walk(node) if isinstance(n, ast.Name) and (ctx is None or isinstance(n.ctx, ctx))}


def _assigns_item_of(body: list[ast.stmt], var: str) -> bool:
    for s in body:
        for n in ast.walk(s):
            if isinstance(n, (ast.Assign, ast.AugAssign, ast.AnnAssign)):
                tgts = n.targets if isinstance(n, ast.Assign) else [n.target]
                for t in tgts:
                    if isinstance(t, ast.Subscript) and isinstance(t.value, ast.Name) and t.value.id == var:
                        return True
    return False


def _elem_loop(fn, ind: int, s: ast.stmt):
    """`for v in self.F: if K not in v: v[K] = V` — see the module docstring"""
    T = _T
    if fn.spec.lean not in MINE or not isinstance(s, ast.For):
        return False
    if not (isinstance(s.target, ast.Name) and isinstance(s.iter, ast.Attribute) and isinstance(s.iter.value, ast.Name)
            and s.iter.value.id == "self" and _assigns_item_of(s.body, s.target.id)):
        return False
    var, fld = s.target.id, s.iter.attr
    why = f"item assignment into `{var}`, an element of `self.{fld}`: "
    if s.orelse:
        raise T.Untranslatable(why + "for … else")
    if not fn.spec.returns_self:
        raise T.Untranslatable(why + "the function is not translated as returning the new self")
    top = fn.node.body
    if s not in top:
        raise T.Untranslatable(why + "the loop is nested in another statement")
    # the loop variable: bound here only, not read outside the loop
    for n in ast.walk(fn.node):
        if isinstance(n, ast.Name) and n.id == var and not any(n is m for m in ast.walk(s)):
            raise T.Untranslatable(why + f"`{var}` is used outside the loop")
    if var in fn.all_params:
        raise T.Untranslatable(why + f"`{var}` is a parameter")
    # names stored into the field: stored into no other field, not read after the loop
    aliases: set[str] = set()
    for n in ast.walk(fn.node):
        if isinstance(n, ast.Assign):
            for t in n.targets:
                if isinstance(t, ast.Attribute) and isinstance(t.value, ast.Name) and t.value.id == "self":
                    if t.attr == fld:
                        if isinstance(n.value, ast.Name):
                            aliases.add(n.value.id)
                        else:
                            # the field holds the value of an expression: the elements may be reachable through whatever
                            # the expression mentions
                            aliases |= _names(n.value, ast.Load)
    for n in ast.walk(fn.node):
        if isinstance(n, ast.Assign):
            for t in n.targets:
                if isinstance(t, ast.Attribute) and isinstance(t.value, ast.Name) and t.value.id == "self" and t.attr != fld \
                        and _names(n.value, ast.Load) & aliases:
                    raise T.Untranslatable(why + f"the list is also stored in `self.{t.attr}`")
    after = top[top.index(s) + 1:]
    for st in after:
        used = _names(st, ast.Load) & aliases
        if used:
            raise T.Untranslatable(why + f"`{sorted(used)[0]}` (another reference to the list) is read after the loop")
    # the body: guarded assignments of a constant key
    for st in s.body:
        ok = (isinstance(st, ast.If) and not st.orelse and len(st.body) == 1
              and isinstance(st.test, ast.Compare) and len(st.test.ops) == 1 and isinstance(st.test.ops[0], ast.NotIn)
              and isinstance(st.test.left, ast.Constant) and isinstance(st.test.left.value, str)
              and isinstance(st.test.comparators[0], ast.Name) and st.test.comparators[0].id == var)
        if ok:
            a = st.body[0]
            ok = (isinstance(a, ast.Assign) and len(a.targets) == 1 and isinstance(a.targets[0], ast.Subscript)
                  and isinstance(a.targets[0].value, ast.Name) and a.targets[0].value.id == var
                  and isinstance(a.targets[0].slice, ast.Constant) and a.targets[0].slice.value == st.test.left.value
                  and var not in _names(a.value))
        if not ok:
            raise T.Untranslatable(why + "the loop body is not a sequence of `if K not in v: v[K] = V`")
    me = fn.name("self")
    v = fn.name(var)
    acc = fn.fresh("elems")
    it = fn.fresh("it")
    fn.mutates_self = True
    fn.emit(ind, f"let mut {acc} : List PVal := []")
    fn.emit(ind, f"for {it} in (← pyIter (← pyGetAttr {me} \"{fld}\")) do")
    fn.emit(ind + 1, f"{v} := {it}")
    for st in s.body:
        a = st.body[0]
        fn.emit(ind + 1, f"if truthy {fn.V(st.test)} then")
        fn.emit(ind + 2, f"{v} := (← pySetItem {v} {fn.V(a.targets[0].slice)} {fn.V(a.value)})")
    fn.emit(ind + 1, f"{acc} := {acc} ++ [{v}]")
    fn.emit(ind, f"{me} := (← pySetAttr {me} \"{fld}\" (← pyRebuildSeq (← pyGetAttr {me} \"{fld}\") {acc}))")
    return True


_T = None


def register(T):
    global _T
    _T = T
    T.SPECS += [
        T.FnSpec("htmltools/_core.py", "HTMLDependency._validate_dict", "HTMLDependency_validate_dict"),
        T.FnSpec("htmltools/_core.py", "HTMLDependency._validate_dicts", "HTMLDependency_validate_dicts"),
        T.FnSpec("htmltools/_core.py", "HTMLDependency.__init__", "HTMLDependency_init", returns_self=True),
    ]
    T.ARITY.update({"HTMLDependency_validate_dict": 3, "HTMLDependency_validate_dicts": 3, "HTMLDependency_init": 9})
    if "HtmlVerif.Py.PrimC10b" not in T.IMPORTS:
        T.IMPORTS.append("HtmlVerif.Py.PrimC10b")
    T.EXPR_HOOKS.append(_expr_hook)
    T.STMT_HOOKS.append(_elem_loop)
