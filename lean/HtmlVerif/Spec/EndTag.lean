/-
Specification-side vocabulary of C13: "no end-tag-like `</script` in any letter case occurs inside the
serialised element before its own closing tag".
-/
import HtmlVerif.Model.Str

namespace HtmlVerif

/-- `c` equals the (lower-case or non-letter) pattern character `p`, ignoring ASCII letter case -/
def ciEq (p c : Char) : Bool :=
  c.toNat == p.toNat || (97 ≤ p.toNat && p.toNat ≤ 122 && c.toNat + 32 == p.toNat)

/-- `pat` (given in lower case) is a prefix of `s`, ignoring ASCII letter case -/
def ciIsPrefix : Str → Str → Bool
  | [], _ => true
  | _ :: _, [] => false
  | p :: ps, c :: cs => ciEq p c && ciIsPrefix ps cs

/-- `</script` -/
def endTagLike : Str := ['<', '/', 's', 'c', 'r', 'i', 'p', 't']

/-- some position of `s` starts an end-tag-like `</script` in some letter case -/
def hasEndTagLike : Str → Bool
  | [] => false
  | c :: cs => ciIsPrefix endTagLike (c :: cs) || hasEndTagLike cs

end HtmlVerif
