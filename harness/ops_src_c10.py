"""Implementation side of the `src` op for the C10 / C09 translations (harness/pytr_c10.py): `_resolve_dependencies`,
`Tag/TagList.get_dependencies`, `Tag/TagList.tagify` are called as *functions* (unbound, `self` = first value) on the
realised values, so that a receiver of the wrong class meets the function body exactly as the translation does.

Values of the classes involved are realised as real objects and encoded back field by field, in the order of the
embedding `embT` (Lemmas/SrcC10.lean).  What is not a field of the real object — the rank of a Version among the versions
in play, the identity index of a bare MetadataNode — is carried on the object (`_srctie_*`) and survives `copy`.
"""
from __future__ import annotations

import ops_src
from ops_src import CALLS, REALIZE, ENCODE
from wire import es

_RV = None


def _rv():
    global _RV
    if _RV is None:
        from packaging.version import Version

        class RankedVersion(Version):       # `Version` has __slots__; a subclass instance can carry the rank
            pass

        _RV = RankedVersion
    return _RV


class _TagifyObj:
    """an instance of a class outside the library whose `tagify()` returns the recorded value"""

    def __init__(self, result):
        self._result = result

    def tagify(self):
        return self._result


class _TagifyObjRepr(_TagifyObj):
    def __init__(self, result, text):
        self._result = result
        self._t = text

    def _repr_html_(self):
        return self._t


def _mk_version(f):
    v = _rv()(f["text"])
    v._srctie_rank = f.get("rank")
    return v


_prev_dep = REALIZE.get("HTMLDependency")


def _mk_dep(f):
    import htmltools
    if "version" not in f:                   # the renderer's embedding (name only): as before
        if _prev_dep is not None:
            return _prev_dep(f)
        return htmltools.HTMLDependency(f.get("name") or "d", "1.0")
    d = htmltools.HTMLDependency("d", "1.0", meta=f.get("meta"))
    d.name = f.get("name")
    d.version = f["version"]
    return d


def _mk_meta(f):
    import htmltools
    m = htmltools.MetadataNode()
    if "id" in f:
        m._srctie_id = f["id"]
    return m


def _mk_tobj(f):
    if "_repr_html_" in f:
        return _TagifyObjRepr(f.get("tagify"), f["_repr_html_"])
    return _TagifyObj(f.get("tagify"))


REALIZE["Version"] = _mk_version
REALIZE["HTMLDependency"] = _mk_dep
REALIZE["MetadataNode"] = _mk_meta
REALIZE["TagifyObj"] = _mk_tobj


def _enc(v, enc):
    import htmltools
    t = type(v)
    if _RV is not None and t is _RV:
        r = getattr(v, "_srctie_rank", None)
        return "O Version [ rank " + enc(r) + " text S " + es(str(v)) + " ]"
    if t is htmltools.HTMLDependency:
        return ("O HTMLDependency [ name " + enc(v.name) + " version " + enc(v.version) + " meta " + enc(v.meta) + " ]")
    if t is htmltools.MetadataNode:
        if hasattr(v, "_srctie_id"):
            return "O MetadataNode [ id " + enc(v._srctie_id) + " ]"
        return None
    if t is _TagifyObjRepr:
        return "O TagifyObj [ tagify " + enc(v._result) + " _repr_html_ S " + es(v._t) + " ]"
    if t is _TagifyObj:
        return "O TagifyObj [ tagify " + enc(v._result) + " ]"
    if t is htmltools.Tag:
        return ("O Tag [ name " + enc(v.name) + " attrs " + enc(dict(v.attrs)) + " children " + enc(v.children)
                + " add_ws " + enc(v.add_ws) + " ]")
    if t is htmltools.TagList:
        return "O TagList [ data " + enc(list(v.data)) + " ]"
    if t is ops_src._Repr:
        return "O ReprObj [ _repr_html_ S " + es(v._t) + " ]"
    return None


ENCODE.append(_enc)


def _core():
    from htmltools import _core
    return _core


CALLS["resolve_dependencies"] = lambda a: _core()._resolve_dependencies(a[0])
CALLS["Tag_get_dependencies"] = lambda a: _core().Tag.get_dependencies(a[0], a[1])
CALLS["TagList_get_dependencies"] = lambda a: _core().TagList.get_dependencies(a[0], dedup=a[1])
CALLS["Tag_tagify"] = lambda a: _core().Tag.tagify(a[0])
CALLS["TagList_tagify"] = lambda a: _core().TagList.tagify(a[0])
