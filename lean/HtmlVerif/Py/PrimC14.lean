/-
Primitives of the Python fragment used by the C14 translations (flatten, _tagchilds_to_tagnodes, the TagList
mutators): `list.append`, `isinstance(…, Sequence)`, and the three `collections.UserList` operations the TagList
methods reach through `super()` / `self[i:i] = …`.  Same contract as Py/Prim.lean: what CPython does on that argument
shape, the exception kind CPython raises, or `unsupported`.

Convention (as in `pyIter`): an instance `.obj cls fields` whose `data` field is a list is an iterable that yields that
list; the classes "bytes", "range", "set", "generator" stand for instances of those built-in types.
-/
import HtmlVerif.Py.Prim

namespace HtmlVerif.Py
open HtmlVerif

/-- `xs.append(v)` as a statement: the new list -/
def pyListAppendA (xs v : PVal) : PyM PVal :=
  match xs with
  | .list l => pure (.list (l ++ [v]))
  | .obj _ _ => throw .unsupported
  | _ => throw .attributeError        -- None, numbers, str, UserString, tuple, dict have no `append`

/-- `isinstance(v, collections.abc.Sequence)`: `str`, `UserString`, `list`, `tuple`, `bytes`, `range`, `UserList` are
    (registered) sequences; `dict`, `set`, generators, numbers, None and instances of the library's other classes are not -/
def isSequence : PVal → Bool
  | .str _ => true
  | .html _ => true
  | .list _ => true
  | .tuple _ => true
  | .obj cls _ => cls == "bytes" || cls == "range" || cls == "UserList" || (classBases cls).contains "UserList"
  | _ => false

/-- `isinstance(v, (c₁, …))` where the class tuple may name `collections.abc.Sequence` -/
def isInstanceSeq (v : PVal) (classes : List String) : Bool :=
  isInstance v classes || (classes.contains "Sequence" && isSequence v)

/-- `UserList.__init__(self, initlist)`: `self.data` becomes a new list with the items of `initlist` -/
def userListInit (self initlist : PVal) : PyM PVal :=
  match self, initlist with
  | .obj c fs, .list xs => pure (.obj c (fieldSet "data" (.list xs) fs))
  | .obj c fs, .tuple xs => pure (.obj c (fieldSet "data" (.list xs) fs))
  | .obj c fs, .none => pure (.obj c (fieldSet "data" (.list []) fs))
  | _, _ => throw .unsupported

/-- `UserList.extend(self, other)`: `self.data.extend(other)` -/
def userListExtend (self other : PVal) : PyM PVal :=
  match self, other with
  | .obj c fs, .list xs =>
    match fieldGet? "data" fs with
    | some (.list ds) => pure (.obj c (fieldSet "data" (.list (ds ++ xs)) fs))
    | _ => throw .unsupported
  | .obj c fs, .tuple xs =>
    match fieldGet? "data" fs with
    | some (.list ds) => pure (.obj c (fieldSet "data" (.list (ds ++ xs)) fs))
    | _ => throw .unsupported
  | _, _ => throw .unsupported

/-- `self[i:i] = val` on a `UserList` (`self.data[i:i] = val`): the items go in before position `i`, negative `i`
    counting from the end, clamped to `[0, len]`; `True` / `False` index as 1 / 0; `None` bounds replace everything;
    any other index type is a TypeError -/
def userListSliceInsert (self i val : PVal) : PyM PVal :=
  match self with
  | .obj c fs =>
    match fieldGet? "data" fs, val with
    | some (.list ds), .list xs =>
      match i with
      | .int n => let k := clampIdx ds.length n; pure (.obj c (fieldSet "data" (.list (ds.take k ++ xs ++ ds.drop k)) fs))
      | .bool b => let k := clampIdx ds.length (if b then 1 else 0); pure (.obj c (fieldSet "data" (.list (ds.take k ++ xs ++ ds.drop k)) fs))
      | .none => pure (.obj c (fieldSet "data" (.list xs) fs))
      | .obj _ _ => throw .unsupported
      | _ => throw .typeError      -- float, str, UserString, list, tuple, dict: "slice indices must be integers or None …"
    | _, _ => throw .unsupported
  | _ => throw .unsupported

end HtmlVerif.Py
