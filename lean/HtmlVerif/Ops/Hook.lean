/-
Driver ops for the display-hook model (C17).
  hook_run [ [ item* ]* ] [ stmt* ]   →  <outcome> <hook is the recorder again: T/F> [ flag* ] [ val* ] [ [ item* ]* ]
  hook_append <val>                   →  ok [ item* ] | err <kind>          (`Tag.append(v)` on a fresh tag)
  hook_wrap <val>                     →  N | S <val>                        (what `wrap_displayhook_handler(h)` hands to `h`)
-/
import HtmlVerif.Ops.Base
import HtmlVerif.Spec.Hook

namespace HtmlVerif.Ops
open HtmlVerif HtmlVerif.Wire HtmlVerif.Hook

/-- initial children, per tag id (`[]` beyond the listed tags: the generator never refers to them) -/
def hookInit (init : List (List Item)) : TagId → List Item :=
  fun t => match init[t]? with
    | some l => l
    | Option.none => []

/-- the observable of one run -/
structure HookAnswer where
  outcome  : Outcome
  hookBack : Bool
  flags    : List Bool
  log      : List Val
  children : List (List Item)

def encHookAnswer (a : HookAnswer) : String :=
  " ".intercalate [encOutcome a.outcome, encBool a.hookBack, encList (a.flags.map encBool),
    encList (a.log.map encHookVal), encList (a.children.map fun l => encList (l.map encHookItem))]

def hookAnswer : P HookAnswer := do
  let outcome ← hookOutcome
  let hookBack ← bool
  let flags ← listOf bool
  let log ← listOf hookVal
  let children ← listOf (listOf hookItem)
  pure { outcome, hookBack, flags, log, children }

def hookRun (init : List (List Item)) (ps : Progs) : HookAnswer :=
  let s0 := St.init (hookInit init)
  let r := ps.exec s0
  { outcome := r.2, hookBack := decide (r.1.hook = .outer), flags := ps.flags s0, log := r.1.outer,
    children := (List.range init.length).map fun t => (r.1.tags t).children }

def hookOps : OpTable
  | "hook_run" => some do
    let init ← listOf (listOf hookItem); let ps ← hookProgs
    pure (encHookAnswer (hookRun init ps))
  | "hook_append" => some do
    let v ← hookVal
    pure (encExcept (fun l => encList (l.map encHookItem)) (toItems v))
  | "hook_wrap" => some do
    let v ← hookVal
    pure (match wrapFilter v with
      | Option.none => "N"
      | some v' => "S " ++ encHookVal v')
  | _ => none

end HtmlVerif.Ops
