/-
`holds C08 <op> <args…> | <impl answer>` — the executable statement of C08 evaluated on the implementation's answer.
Answers: `T`, or `F:<clause>` naming the clause of the statement that fails.

  eq / eq_list   C08_eq_refl (structurally identical plain objects are equal), C08_eq_kind (different kinds are not),
                 otherwise the value of `Node.eqv` (the definition C08_eq_tag / _differs / _text / _dep are about)
  c08_tagify     C08_tagify_refines (result = expansion), C08_tagify_fixed, C08_tagify_fresh under its guard (nothing shared,
                 no object twice, as many objects as the model allocates), C08_tagify_eq under its guard (== both ways)
  c08_mutate     C08_independent under its guard
  c08_seq        C08_pure / C08_repeat: receiver unchanged, k-th result = value of the k-th operation on the initial receiver
  c08_views      C08_views / C08_views_value: the four strings are one, namely the markup of the expanded tree
  c08_doc        C08_doc_pure: the document's content (first item's attributes in particular) and arguments are unchanged
-/
import HtmlVerif.Ops.Ident
import HtmlVerif.Spec.Equality

namespace HtmlVerif.Ops.IdentOps
open HtmlVerif HtmlVerif.Wire HtmlVerif.Ident HtmlVerif.Ops

def toks (s : String) : List String := (s.splitOn " ").filter (· ≠ "")

def verdict (clauses : List (String × Bool)) : String :=
  match clauses.find? (fun c => !c.2) with
  | none => "T"
  | some c => "F:" ++ c.1

/-- the value `tagify()` must return according to the specification (`Node.expand` / `Nodes.expandAll`), encoded -/
def expectedEnc : Recv → String
  | .one x =>
    match x.erase with
    | .tag nm ws a kids => encNode (.tag nm ws a kids.expandAll)
    | y => encNode y
  | .many _ ks => encNodes ks.eraseAll.expandAll

def kindOf (n : Node) : Nat :=
  match n with
  | .tag .. => 0 | .text _ => 1 | .html _ => 1 | .robj _ => 2 | .mnode _ => 3 | .dep .. => 4 | .tobjL .. => 5 | .tobj1 .. => 5

def flag? (t : String) : Option Bool := if t == "T" then some true else if t == "F" then some false else none

end HtmlVerif.Ops.IdentOps

namespace HtmlVerif.Ops
open HtmlVerif HtmlVerif.Wire HtmlVerif.Ident HtmlVerif.Ops.IdentOps

def holdsC08 : OpTable
  | "eq" => some do
    let a ← node; let b ← node
    let raw ← implRaw
    match raw with
    | [x, y] =>
      match flag? x, flag? y with
      | some fx, some fy =>
        if Ident.plainB a && a.beq b then pure (verdict [("eq_refl", fx && fy)])
        else if kindOf a != kindOf b then pure (verdict [("eq_kind", !fx && !fy)])
        else pure (verdict [("eq_value", fx == a.eqv b && fy == b.eqv a)])
      | _, _ => pure "F:eq_raised"
    | _ => pure "F:eq_raised"
  | "eq_list" => some do
    let a ← nodes; let b ← nodes
    let raw ← implRaw
    match raw with
    | [x, y] =>
      match flag? x, flag? y with
      | some fx, some fy =>
        if Ident.plainKidsB a && a.beq b then pure (verdict [("eq_refl", fx && fy)])
        else pure (verdict [("eq_value", fx == a.eqvKids b && fy == b.eqvKids a)])
      | _, _ => pure "F:eq_raised"
    | _ => pure "F:eq_raised"
  | "c08_tagify" => some do
    let (r, n) ← recvP
    let raw ← implRaw
    let m := tagifyAns r n
    -- impl: <result tokens…> eq f f fixed b shared k0 … k5 nodup b objs n
    let expTree := toks (expectedEnc r)
    let k := expTree.length
    let res := raw.take k
    let rest := raw.drop k
    match rest with
    | ["eq", e1, e2, "fixed", fx, "shared", s0, s1, s2, s3, s4, s5, "nodup", nd, "objs", ob] =>
      let sharedZero := [s0, s1, s2, s3, s4, s5].all (· == "0")
      let guard := r.headsPlain
      pure (verdict [
        ("tagify_refines", res == expTree),
        ("tagify_fixed", fx == "T"),
        ("tagify_fresh:shares-an-object-with-the-original", !guard || sharedZero),
        ("tagify_fresh:an-object-occurs-twice", !guard || nd == "T"),
        ("tagify_fresh:object-count", !guard || ob == toString m.objs),
        ("tagify_eq", !r.plainB || (e1 == "T" && e2 == "T"))])
    | _ => pure (if res == expTree then "F:tagify_answer_malformed" else "F:tagify_refines")
  | "c08_mutate" => some do
    let (r, _) ← recvP
    let raw ← implRaw
    match raw with
    | [a, b] =>
      if r.headsPlain then
        pure (verdict [("independent:mutating-the-copy-changed-the-original", a == "T"),
                       ("independent:mutating-the-original-changed-the-copy", b == "T")])
      else pure "T"
    | _ => pure "F:independent_raised"
  | "c08_seq" => some do
    let (r, _) ← recvP
    let ops ← listOf readOpP
    let raw ← implRaw
    let want := match r with
      | .one x => ops.map fun o => "; " ++ encObs (o.obs cfg x.erase)
      | .many _ ks => ops.map fun o => "; " ++ encObs (o.obsList cfg ks.eraseAll)
    match raw with
    | "pure" :: p :: results =>
      pure (verdict [("pure:receiver-changed", p == "T"), ("repeat:result-depends-on-history", results == toks (encList want))])
    | _ => pure "F:seq_raised"
  | "c08_views" => some do
    let (r, _) ← recvP
    let raw ← implRaw
    let want : Except Err Str := match r with
      | .one x =>
        match x.erase with
        | .tag nm ws a kids => .ok ((Node.tag nm ws a kids.expandAll).render cfg 0 ['\n'])
        | _ => .error .exception
      | .many _ ks => .ok (renderList cfg ks.eraseAll.expandAll 0 ['\n'] true true)
    let w := toks (encExcept encStr want)
    pure (verdict [("views", raw == w ++ w ++ w ++ w)])
  | "c08_doc" => some do
    let (d, _) ← docP
    let raw ← implRaw
    pure (verdict [("doc_pure", raw == toks ("root " ++ encRootAttrs d.rootAttrs ++ " pure T"))])
  | _ => none

end HtmlVerif.Ops
