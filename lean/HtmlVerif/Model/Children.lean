/-
Child-list normalisation and the TagList / Tag child operations.

  flatten / _flatten_recurse        htmltools/_util.py:79-100
  _tagchilds_to_tagnodes            htmltools/_core.py:1927-1944
  is_tag_node / is_tag_child        htmltools/_core.py:162-218
  TagList.__init__/extend/append/insert/__add__/__radd__     _core.py:280-321
  UserList.__iadd__/__mul__/__rmul__/__imul__/__getitem__(slice)   (inherited, collections/__init__.py)
  Tag.__init__ (kids part), Tag.insert/extend/append          _core.py:657-681, 709-728

A Python value that may be handed to these operations is an `Arg`.  What a TagList *holds* is a list of
`Stored = node n | raw a`: `raw` is a Python value that sits in `.data` without being a normalised node
(e.g. an `int` or a nested `list`), so "every element is a valid tag node" is an invariant that has to be
proved of every mutator and can fail (it does for the inherited `+=`, see `TL.iaddInherited`).

`+=` is modelled as the property demands (`TL.iadd` = extend in place, F-C14a); `is_tag_child` accepts
`int` (F-C14b).  Everything else is the code as it is.
-/
import HtmlVerif.Model.Tree
import HtmlVerif.Model.Render

namespace HtmlVerif

/-- which Python number a `num` is (its `str()` text is supplied by the harness) -/
inductive NumKind
  | int | float | bool
  deriving DecidableEq, Repr, Inhabited

/-- the concrete type of an iterable that is neither list, tuple, TagList, str nor HTML -/
inductive SeqKind
  | bytes | range | set | dict | gen
  deriving DecidableEq, Repr, Inhabited

/-- `isinstance(x, collections.abc.Sequence)` for those -/
def SeqKind.isSequence : SeqKind → Bool
  | .bytes => true
  | .range => true
  | _ => false

mutual
  /-- a Python value given to a child operation -/
  inductive Arg
    | none                                   -- None
    | num (k : NumKind) (txt : Str)          -- int / float / bool, with its str() text
    | node (n : Node)                        -- anything is_tag_node accepts, except TagList: str is `node (.text s)`
    | list (xs : Args)
    | tuple (xs : Args)
    | taglist (xs : Args)                    -- a TagList, `xs` = its `.data`
    | seqLike (k : SeqKind) (xs : Args)      -- other iterable (bytes, range, set, dict, generator) and what iterating it yields
    | bad (k : Nat)                          -- not iterable and not a tag node: object(), 1j, Decimal, a function …
  inductive Args
    | nil
    | cons (h : Arg) (t : Args)
end

instance : Inhabited Arg := ⟨.none⟩
instance : Inhabited Args := ⟨.nil⟩

def Args.toList : Args → List Arg
  | .nil => []
  | .cons h t => h :: t.toList

def Args.ofList : List Arg → Args
  | [] => .nil
  | h :: t => .cons h (Args.ofList t)

mutual
  def Arg.beq : Arg → Arg → Bool
    | .none, .none => true
    | .num k t, .num k' t' => k == k' && t == t'
    | .node n, .node n' => n.beq n'
    | .list xs, .list ys => xs.beq ys
    | .tuple xs, .tuple ys => xs.beq ys
    | .taglist xs, .taglist ys => xs.beq ys
    | .seqLike k xs, .seqLike k' ys => k == k' && xs.beq ys
    | .bad k, .bad k' => k == k'
    | _, _ => false
  def Args.beq : Args → Args → Bool
    | .nil, .nil => true
    | .cons h t, .cons h' t' => h.beq h' && t.beq t'
    | _, _ => false
end

/-! ### flatten (_util.py:79-100) -/

mutual
  /-- one iteration of `for item in x:` in `_flatten_recurse(x, result)`; returns the new `result` -/
  def Arg.flattenItem : Arg → List Arg → List Arg
    | .list xs, acc => xs.flattenInto acc          -- isinstance(item, (list, tuple, TagList)): recurse
    | .tuple xs, acc => xs.flattenInto acc
    | .taglist xs, acc => xs.flattenInto acc
    | .none, acc => acc                             -- `elif item is not None` fails: dropped
    | .num k t, acc => acc ++ [.num k t]            -- result.append(item)
    | .node n, acc => acc ++ [.node n]
    | .seqLike k xs, acc => acc ++ [.seqLike k xs]  -- bytes, range, set, dict … are leaves for flatten
    | .bad k, acc => acc ++ [.bad k]
  /-- `_flatten_recurse(x, result)` where iterating `x` yields these items -/
  def Args.flattenInto : Args → List Arg → List Arg
    | .nil, acc => acc
    | .cons h t, acc => t.flattenInto (h.flattenItem acc)
end

/-- `flatten(x)` where iterating `x` yields `items` -/
def flatten (items : Args) : List Arg := items.flattenInto []

/-! ### what iterating an argument yields -/

/-- iterating an `HTML` (a `UserString`): one-character `HTML`s -/
def htmlChars (s : Str) : Args := Args.ofList (s.map fun c => Arg.node (.html [c]))

/-- iterating a `str`: one-character strings -/
def strChars (s : Str) : Args := Args.ofList (s.map fun c => Arg.node (.text [c]))

/-- `iter(x)` / `*x`: TypeError when `x` is not iterable -/
def Arg.iter : Arg → Except Err Args
  | .list xs => .ok xs
  | .tuple xs => .ok xs
  | .taglist xs => .ok xs
  | .seqLike _ xs => .ok xs
  | .node (.html s) => .ok (htmlChars s)
  | .node (.text s) => .ok (strChars s)
  | _ => .error .typeError       -- None, numbers, Tag, MetadataNode, objects

/-- `isinstance(x, str)` -/
def Arg.isStr : Arg → Bool
  | .node (.text _) => true
  | _ => false

/-- `isinstance(x, dict)` -/
def Arg.isDict : Arg → Bool
  | .seqLike .dict _ => true
  | _ => false

/-! ### is_tag_node / is_tag_child (_core.py:162-218) -/

/-- `isinstance(x, (Tagifiable, MetadataNode, ReprHtml, str, HTML))` on the node kinds: each kind is in the union -/
def Node.isTagNode : Node → Bool
  | .tag .. => true        -- Tagifiable
  | .text _ => true        -- str
  | .html _ => true        -- HTML
  | .robj _ => true        -- ReprHtml
  | .mnode _ => true       -- MetadataNode
  | .dep .. => true        -- MetadataNode
  | .tobjL .. => true      -- Tagifiable
  | .tobj1 .. => true      -- Tagifiable

def Arg.isTagNode : Arg → Bool
  | .node n => n.isTagNode
  | .taglist _ => true     -- a TagList has `.tagify`, so the runtime protocol check accepts it
  | _ => false

/-- `is_tag_child(x)`; the `num .int` / `num .bool` rows are what the property demands (F-C14b: the pinned
    code lists only `float`) -/
def Arg.isTagChild : Arg → Bool
  | .none => true
  | .num _ _ => true
  | .node n => n.isTagNode
  | .list _ => true        -- Sequence
  | .tuple _ => true       -- Sequence
  | .taglist _ => true
  | .seqLike k _ => k.isSequence
  | .bad _ => false

/-! ### stored elements -/

inductive Stored
  | node (n : Node)
  | raw (a : Arg)

instance : Inhabited Stored := ⟨.node default⟩

def Stored.toArg : Stored → Arg
  | .node n => .node n
  | .raw a => a

/-- how a Python value is classified when it is found in `.data` -/
def Stored.ofArg : Arg → Stored
  | .node n => .node n
  | a => .raw a

def Stored.isNode : Stored → Bool
  | .node _ => true
  | .raw _ => false

/-- `is_tag_node(x)` for an element of `.data` -/
def Stored.isTagNode (x : Stored) : Bool := x.toArg.isTagNode

def Stored.beq : Stored → Stored → Bool
  | .node n, .node n' => n.beq n'
  | .raw a, .raw a' => a.beq a'
  | _, _ => false

/-- the `.data` of a TagList -/
abbrev TL := List Stored

def TL.toArgs (s : TL) : Args := Args.ofList (s.map Stored.toArg)

/-- the TagList as an argument value -/
def TL.toArg (s : TL) : Arg := .taglist s.toArgs

def TL.beq : TL → TL → Bool
  | [], [] => true
  | a :: r, b :: r' => a.beq b && TL.beq r r'
  | _, _ => false

/-! ### _tagchilds_to_tagnodes (_core.py:1927-1944) -/

/-- the `for i, item in enumerate(result)` loop: numbers become their `str()`, anything else must pass
    `is_tag_node` or the whole call raises -/
def convertLoop : List Arg → Except Err (List Stored)
  | [] => .ok []
  | item :: rest =>
    match item with
    | .num _ txt =>
      match convertLoop rest with
      | .ok r => .ok (.node (.text txt) :: r)
      | .error e => .error e
    | a =>
      if a.isTagNode then
        match convertLoop rest with
        | .ok r => .ok (Stored.ofArg a :: r)
        | .error e => .error e
      else .error .typeError

/-- `_tagchilds_to_tagnodes(x)` -/
def chTagchildsToTagnodes (x : Arg) : Except Err (List Stored) :=
  if x.isStr then .ok [Stored.ofArg x]            -- `if isinstance(x, str): return [x]`
  else match x.iter with
    | .error e => .error e                         -- flatten's `for item in x` on a non-iterable
    | .ok items => convertLoop (flatten items)

/-! ### Python list primitives used by the operations -/

/-- the position `self[i:i] = …` writes at: negative indices count from the end, then clamp to `[0, len]` -/
def clampIdx (len : Nat) (i : Int) : Nat :=
  if i < 0 then (i + len).toNat else min i.toNat len

/-- `data * n` -/
def rep {α} (n : Int) (l : List α) : List α := (List.replicate n.toNat l).flatten

/-- one bound of `slice.indices(len)` (CPython `PySlice_AdjustIndices`) -/
def adjustBound (len : Nat) (step : Int) (v : Int) : Int :=
  if v < 0 then
    (if v + len < 0 then (if step < 0 then -1 else 0) else v + len)
  else if v ≥ len then (if step < 0 then (len : Int) - 1 else len)
  else v

/-- the indices selected by `[lo:hi:step]` on a list of length `len` (`step ≠ 0`) -/
def sliceIdx (len : Nat) (lo hi : Option Int) (step : Int) : List Nat :=
  let start : Int := match lo with
    | some v => adjustBound len step v
    | none => if step < 0 then (len : Int) - 1 else 0
  let stop : Int := match hi with
    | some v => adjustBound len step v
    | none => if step < 0 then -1 else len
  let n : Int :=
    if step < 0 then (if stop < start then (start - stop - 1) / (-step) + 1 else 0)
    else (if start < stop then (stop - start - 1) / step + 1 else 0)
  (List.range n.toNat).map fun (k : Nat) => (start + (k : Int) * step).toNat

/-- `data[lo:hi:step]` -/
def pySlice {α} (l : List α) (lo hi : Option Int) (step : Int) : List α :=
  (sliceIdx l.length lo hi step).filterMap (l[·]?)

/-! ### TagList operations -/

/-- outcome of a mutating call: what it returned/raised and the receiver afterwards -/
structure StepOut where
  result : Except Err Unit
  state : TL

/-- `TagList(*args)` -/
def TL.init (args : List Arg) : Except Err TL :=
  chTagchildsToTagnodes (.tuple (Args.ofList args))

/-- `self.extend(other)`: the nodes are computed first, then `self.data.extend(...)` -/
def TL.extend (s : TL) (other : Arg) : StepOut :=
  match chTagchildsToTagnodes other with
  | .error e => ⟨.error e, s⟩
  | .ok ns => ⟨.ok (), s ++ ns⟩

/-- `self.append(item, *args)` = `self.extend([item, *args])`; calling it with nothing is a TypeError -/
def TL.append (s : TL) : List Arg → StepOut
  | [] => ⟨.error .typeError, s⟩
  | item :: rest => s.extend (.list (Args.ofList (item :: rest)))

/-- `self.insert(i, item)`: `self[i:i] = _tagchilds_to_tagnodes([item])` -/
def TL.insert (s : TL) (i : Int) (item : Arg) : StepOut :=
  match chTagchildsToTagnodes (.list (.cons item .nil)) with
  | .error e => ⟨.error e, s⟩
  | .ok ns => let k := clampIdx s.length i; ⟨.ok (), s.take k ++ ns ++ s.drop k⟩

/-- `self + item`: `TagList(self, item)` for a str, else `TagList(self, *item)` -/
def TL.add (s : TL) (item : Arg) : Except Err TL :=
  if item.isStr then TL.init [s.toArg, item]
  else match item.iter with
    | .error e => .error e
    | .ok items => TL.init (s.toArg :: items.toList)

/-- `item + self`: `TagList(item, self)` for a str, else `TagList(*item, self)` -/
def TL.radd (s : TL) (item : Arg) : Except Err TL :=
  if item.isStr then TL.init [item, s.toArg]
  else match item.iter with
    | .error e => .error e
    | .ok items => TL.init (items.toList ++ [s.toArg])

/-- `self += other` as the property demands: `self.extend(other); return self` -/
def TL.iadd (s : TL) (other : Arg) : StepOut := s.extend other

/-- `self += other` as inherited from `UserList` on the pinned tree: `self.data += other.data` /
    `+= other` / `+= list(other)` — the elements are stored as they come (F-C14a) -/
def TL.iaddInherited (s : TL) (other : Arg) : StepOut :=
  match other.iter with
  | .error e => ⟨.error e, s⟩
  | .ok items => ⟨.ok (), s ++ items.toList.map Stored.ofArg⟩

/-- `self[lo:hi:step]` = `self.__class__(self.data[lo:hi:step])` -/
def TL.slice (s : TL) (lo hi step : Option Int) : Except Err TL :=
  if step = some 0 then .error .valueError
  else TL.init [.list (TL.toArgs (pySlice s lo hi (step.getD 1)))]

/-- `self * n` and `n * self` = `self.__class__(self.data * n)` -/
def TL.mul (s : TL) (n : Int) : Except Err TL :=
  TL.init [.list (TL.toArgs (rep n s))]

/-- `self *= n`: `self.data *= n` -/
def TL.imul (s : TL) (n : Int) : StepOut := ⟨.ok (), rep n s⟩

/-! ### Tag (the child-related part) -/

structure TagM where
  name : Str
  ws : Bool
  attrs : Attrs
  children : TL

/-- `Tag(name, *args)` without attributes: dict arguments are attributes, the rest go to `TagList(*kids)` -/
def TagM.init (name : Str) (args : List Arg) : Except Err TagM :=
  match TL.init (args.filter (fun a => !a.isDict)) with
  | .ok c => .ok ⟨name, true, [], c⟩
  | .error e => .error e

/-- lift an operation on the child list to the tag that owns it -/
def TagM.withChildren (t : TagM) (o : StepOut) : Except Err Unit × TagM :=
  (o.result, { t with children := o.state })

/-- `Tag.insert(index, x)`: `self.children.insert(index, x)` -/
def TagM.insert (t : TagM) (i : Int) (x : Arg) : Except Err Unit × TagM :=
  t.withChildren (t.children.insert i x)

/-- `Tag.extend(x)`: `self.children.extend(x)` -/
def TagM.extend (t : TagM) (x : Arg) : Except Err Unit × TagM :=
  t.withChildren (t.children.extend x)

/-- `Tag.append(*args)`: `self.children.append(*args)` -/
def TagM.append (t : TagM) (args : List Arg) : Except Err Unit × TagM :=
  t.withChildren (t.children.append args)

/-! ### operation histories on one receiver `x` -/

/-- an operand that may mention the receiver itself (`x.extend(x)`, `x + [1, x]`) -/
inductive OArg
  | val (a : Arg)
  | self
  | inList (pre post : List Arg)      -- `[*pre, x, *post]`

def OArg.resolve (s : TL) : OArg → Arg
  | .val a => a
  | .self => s.toArg
  | .inList pre post => .list (Args.ofList (pre ++ s.toArg :: post))

inductive Op
  | init (args : List Arg)                 -- x = TagList(*args)
  | extend (a : OArg)                      -- x.extend(a)
  | append (args : List OArg)              -- x.append(*args)
  | insert (i : Int) (a : OArg)            -- x.insert(i, a)
  | add (a : OArg)                         -- x = x + a
  | radd (a : OArg)                        -- x = a + x
  | iadd (a : OArg)                        -- x += a
  | slice (lo hi step : Option Int)        -- x = x[lo:hi:step]
  | mul (n : Int)                          -- x = x * n
  | rmul (n : Int)                         -- x = n * x
  | imul (n : Int)                         -- x *= n

/-- `x = <expr>`: the name is rebound only if the expression did not raise -/
def rebind (s : TL) : Except Err TL → StepOut
  | .ok r => ⟨.ok (), r⟩
  | .error e => ⟨.error e, s⟩

def step (s : TL) : Op → StepOut
  | .init args => rebind s (TL.init args)
  | .extend a => s.extend (a.resolve s)
  | .append args => s.append (args.map (·.resolve s))
  | .insert i a => s.insert i (a.resolve s)
  | .add a => rebind s (s.add (a.resolve s))
  | .radd a => rebind s (s.radd (a.resolve s))
  | .iadd a => s.iadd (a.resolve s)
  | .slice lo hi st => rebind s (s.slice lo hi st)
  | .mul n => rebind s (s.mul n)
  | .rmul n => rebind s (s.mul n)
  | .imul n => s.imul n

/-- the state after a whole history -/
def runOps (s : TL) : List Op → TL
  | [] => s
  | op :: r => runOps (step s op).state r

/-- the outcome of every step of a history -/
def trace (s : TL) : List Op → List StepOut
  | [] => []
  | op :: r => let o := step s op; o :: trace o.state r

/-- the same history on a Tag's children: extend / append / insert go through the Tag methods, construction
    through `Tag(name, *args)`, everything else through `t.children` -/
def tagStep (t : TagM) : Op → Except Err Unit × TagM
  | .init args =>
    match TagM.init t.name args with
    | .ok t' => (.ok (), t')
    | .error e => (.error e, t)
  | .extend a => t.extend (a.resolve t.children)
  | .append args => t.append (args.map (·.resolve t.children))
  | .insert i a => t.insert i (a.resolve t.children)
  | op => t.withChildren (step t.children op)

def tagTrace (t : TagM) : List Op → List StepOut
  | [] => []
  | op :: r => let o := tagStep t op; ⟨o.1, o.2.children⟩ :: tagTrace o.2 r

end HtmlVerif
