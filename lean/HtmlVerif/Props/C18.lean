/-
C18 — Output is deterministic across processes and independent of history.  (*partial*: see below)

What a theorem can carry: in the model every observable is a *function* of the construction (no state
argument, no hash-order anywhere), so history independence of the model holds by construction and is not
dressed up as a theorem.  The theorems with content are about head_content names.  What only the runtime can
show — that the Python has no dependence on the hash seed or on earlier calls — is decided by the tie: every
digest from every subprocess (different PYTHONHASHSEED, different orders, unrelated renderings interleaved)
must equal the model's single answer.
-/
import HtmlVerif.Model.HeadContent
import HtmlVerif.Props.C10

namespace HtmlVerif.C18
open HtmlVerif

/-- name and version of a head_content dependency: a function of the rendered content only -/
theorem C18_headContent_name (cfg : Cfg) (H : Str → Str) (r : Nat) (args : Nodes) (d : DepInfo) (hh : Bool)
    (hd : Nodes) (h : headContent cfg H r args = .ok (.dep d hh hd)) :
    d.name = headcontentPrefix ++ H (renderList cfg args 0 ['\n'] true true) ∧ d.version = ['0', '.', '0']
      ∧ hh = true ∧ hd = args := by
  unfold headContent renderListChecked at h
  by_cases ht : args.hasTobjKids = true
  · simp [ht] at h
  · simp only [ht] at h
    simp only [Bool.false_eq_true, if_false, Except.ok.injEq, Node.dep.injEq] at h
    obtain ⟨h1, h2, h3⟩ := h
    subst h1 h2 h3
    simp

/-- equal content ⇔ equal name (so equal content is included once per document and different content is never
    merged), for any injective digest; SHA-1's collision resistance is the standing assumption -/
theorem C18_name_iff_content (cfg : Cfg) (H : Str → Str) (hinj : Function.Injective H) (r r' : Nat)
    (a b : Nodes) (da db : DepInfo) (ha hb : Bool) (ka kb : Nodes)
    (h1 : headContent cfg H r a = .ok (.dep da ha ka)) (h2 : headContent cfg H r' b = .ok (.dep db hb kb)) :
    da.name = db.name ↔ renderList cfg a 0 ['\n'] true true = renderList cfg b 0 ['\n'] true true := by
  obtain ⟨na, _⟩ := C18_headContent_name cfg H r a da ha ka h1
  obtain ⟨nb, _⟩ := C18_headContent_name cfg H r' b db hb kb h2
  rw [na, nb]
  constructor
  · intro h; exact hinj (List.append_cancel_left h)
  · intro h; rw [h]

/-- head_content refuses content that still contains an un-expanded object (it renders it at construction) -/
theorem C18_headContent_error (cfg : Cfg) (H : Str → Str) (r : Nat) (args : Nodes) (h : args.hasTobjKids = true) :
    headContent cfg H r args = .error .runtimeError := by
  simp [headContent, renderListChecked, h]

example : (headContent ⟨[], [], [], []⟩ (fun s => s) 0 (.cons (.text ['x']) .nil)).toOption.isSome = true := by
  decide +kernel

end HtmlVerif.C18

namespace HtmlVerif.C18
open HtmlVerif

/-- the order of every dependency list the library reports is a function of positions only: names in order
    of first occurrence (never a sort, never a hash order), each name once -/
theorem C18_order_is_positional (ds : List Node) :
    (resolve ds).map Node.depName = dedupKeepFirst (ds.map Node.depName)
      ∧ ((resolve ds).map Node.depName).Nodup :=
  ⟨C10.C10_deps_names ds, by rw [C10.C10_deps_names]; exact dedupKeepFirst_nodup _⟩

/-- equal head_content payloads are included once per document, different payloads are never merged:
    after resolution every name that occurred is represented exactly once, and (by `C18_name_iff_content`)
    names coincide exactly when the rendered payloads do -/
theorem C18_once_per_document (ds : List Node) (d : Node) (h : d ∈ ds) :
    ((resolve ds).filter fun r => r.depName == d.depName).length = 1 := by
  have hn := (C18_order_is_positional ds).2
  have hc : d.depName ∈ (resolve ds).map Node.depName := by
    rw [(C18_order_is_positional ds).1, mem_dedupKeepFirst]; exact List.mem_map_of_mem h
  generalize resolve ds = rs at hn hc
  induction rs with
  | nil => simp at hc
  | cons r rs ih =>
    simp only [List.map_cons, List.nodup_cons] at hn
    by_cases e : r.depName = d.depName
    · have hne : ∀ x ∈ rs, ¬ x.depName = d.depName := by
        intro x hx e'
        exact hn.1 (by rw [e, ← e']; exact List.mem_map_of_mem hx)
      have hnil : rs.filter (fun r => r.depName == d.depName) = [] := by
        rw [List.filter_eq_nil_iff]; intro x hx; simpa using hne x hx
      simp [List.filter_cons, e, hnil]
    · have hc' : d.depName ∈ rs.map Node.depName := by
        simp only [List.map_cons, List.mem_cons] at hc
        rcases hc with hc | hc
        · exact absurd hc.symm e
        · exact hc
      simp [List.filter_cons, e, ih hn.2 hc']

end HtmlVerif.C18
