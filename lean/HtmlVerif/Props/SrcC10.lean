/-
Source tie (DESIGN §14) for dependency resolution and collection: the Lean functions regenerated from the text of
`_resolve_dependencies`, `TagList.get_dependencies` and `Tag.get_dependencies` (the last two a `mutual` pair, recursion
bounded by fuel) compute, for every tree, what the model (`resolve`, `Nodes.getDeps`, `Node.getDeps`; Model/Deps.lean)
computes.  Obligations of C10 (and of C09 through `render()`).

No loop body is spelled out: the loops are taken from the regenerated definitions by unification (`resolve_loop_k`,
`deps_loop_k` of Lemmas/SrcC10.lean); what is proved about each is its effect on one pass.
-/
import HtmlVerif.Generated.Src
import HtmlVerif.Lemmas.SrcC10

set_option linter.unusedVariables false
set_option linter.unusedSimpArgs false

namespace HtmlVerif.SrcTie
open HtmlVerif HtmlVerif.Py HtmlVerif.Generated.Src

/-- `_resolve_dependencies` as the source has it = `resolveBy`, for a list of objects of *any* kind whose `name` is a
    `str` and whose `version` is a `packaging` Version (carrying its rank in the order `packaging` reports) -/
theorem src_resolve_gen (h : resolve_dependencies_available = true) (G : Globals) {α : Type} (e : α → PVal) (nm : α → Str) (rk : α → Int)
    (ds : List α)
    (hname : ∀ a ∈ ds, pyGetAttr (e a) "name" = .ok (.str (nm a)))
    (hver : ∀ a ∈ ds, ∃ fs, pyGetAttr (e a) "version" = .ok (.obj "Version" (("rank", .int (rk a)) :: fs))) :
    resolve_dependencies G (.list (ds.map e))
      = .ok (.list ((resolveBy (fun a b => decide (rk a > rk b)) nm ds).map e)) := by
  first
  | exact absurd h (by decide)
  | unfold resolve_dependencies
    simp only [ok_bind, pure_eq_ok, truthy_bool, pyIter_list]
    refine resolve_loop_k Prod.fst e nm (fun a b => decide (rk a > rk b)) ds _ rfl _ ?step _ _ ?k
    case k =>
      intro s hs
      rw [hs]
      exact values_embMap e _
    case step =>
      intro c hc s m hs hm
      obtain ⟨s1, s2⟩ := s
      simp only at hs; subst hs
      obtain ⟨fc, hvc⟩ := hver c hc
      simp only [hname c hc, ok_bind, pyIn_embMap, truthy_bool, resolveStep]
      cases hg : amapGet? (nm c) m with
      | none => simp [pySetItem_embMap]
      | some cur =>
        obtain ⟨kv, hkv, rfl⟩ := amapGet?_vals _ _ _ hg
        obtain ⟨fv, hvv⟩ := hver kv.2 (hm kv hkv)
        simp only [Option.isSome_some, Bool.not_true, Bool.false_eq_true, if_false, hvc, ok_bind, pyGetItem_embMap e _ _ _ hg, hvv,
          pyGt_version, truthy_bool]
        by_cases hgt : rk c > rk kv.2 <;> simp [hgt, pySetItem_embMap]


/-- `_resolve_dependencies` on dependency nodes = `resolve` -/
theorem src_resolve (h : resolve_dependencies_available = true) (G : Globals) (tv : Node → PVal) (ds : List Node)
    (hd : ∀ d ∈ ds, d.isDep = true) :
    resolve_dependencies G (.list (ds.map (embT tv))) = .ok (.list ((resolve ds).map (embT tv))) := by
  have := src_resolve_gen h G (embT tv) Node.depName (fun d => (d.vrank : Int)) ds
    (fun a ha => embT_dep_name tv a (hd a ha)) (fun a ha => embT_dep_version tv a (hd a ha))
  rw [this, depGt_int, resolve]

/-- the loop of `TagList.get_dependencies` and the code after it: given the tie for the tag children at this fuel -/
theorem src_taglist_deps_step (h : TagList_get_dependencies_available = true) (hr : resolve_dependencies_available = true)
    (G : Globals) (tv : Node → PVal) (fuel : Nat) (ks : Nodes) (dd : Bool)
    (HP : ∀ c ∈ ks.toList, c.isTag = true →
      Tag_get_dependencies G fuel (embT tv c) (.bool false) = .ok (.list (c.collect.map (embT tv)))) :
    TagList_get_dependencies G (fuel + 1) (tagListOf (embTs tv ks)) (.bool dd)
      = .ok (.list ((ks.getDeps dd).map (embT tv))) := by
  first
  | exact absurd h (by decide)
  | rw [TagList_get_dependencies]
    simp only [ok_bind, pure_eq_ok, truthy_bool, tagListOf, pyIter_taglist, embTs_toList]
    refine deps_loop_k Prod.fst tv ks _ rfl _ ?step _ _ ?k
    case k =>
      intro s hs
      have hres := src_resolve_gen hr G (embT tv) Node.depName (fun d => (d.vrank : Int)) ks.collect
        (fun a ha => embT_dep_name tv a (collect_isDep ks a ha))
        (fun a ha => embT_dep_version tv a (collect_isDep ks a ha))
      rw [depGt_int] at hres
      rw [hs]
      cases dd <;> simp [Nodes.getDeps, resolve, hres]
    case step =>
      intro c hc s b hs
      obtain ⟨s1, s2⟩ := s
      simp only at hs; subst hs
      simp only [isDep_embT, isTag_embT]
      cases c with
      | tag nm ws at' kk =>
        have hp := HP _ hc rfl
        have hcls : pyClassOf (embT tv (Node.tag nm ws at' kk)) = "Tag" := rfl
        simp [Node.isDep, Node.isTag, hcls, hp, depsStep, pyListExtend, pyListAppend]
      | _ => simp [Node.isDep, Node.isTag, depsStep, pyListExtend, pyListAppend]

/-- a tag: given the tie for its child list at this fuel -/
theorem src_tag_deps_step (h : Tag_get_dependencies_available = true)
    (G : Globals) (tv : Node → PVal) (fuel : Nat) (nm : Str) (ws : Bool) (at' : Attrs) (kk : Nodes) (dd : Bool)
    (HQ : TagList_get_dependencies G fuel (tagListOf (embTs tv kk)) (.bool dd) = .ok (.list ((kk.getDeps dd).map (embT tv)))) :
    Tag_get_dependencies G (fuel + 1) (embT tv (.tag nm ws at' kk)) (.bool dd)
      = .ok (.list (((Node.tag nm ws at' kk).getDeps dd).map (embT tv))) := by
  first
  | exact absurd h (by decide)
  | rw [Tag_get_dependencies]
    have hcls : pyClassOf (tagListOf (embTs tv kk)) = "TagList" := rfl
    simp only [ok_bind, pure_eq_ok, getattr_tagT, hcls, HQ, Node.getDeps]

/-- both functions, for all trees of tag-nesting depth ≤ n, with any fuel that covers the depth -/
theorem src_deps_depth (h1 : Tag_get_dependencies_available = true) (h2 : TagList_get_dependencies_available = true)
    (hr : resolve_dependencies_available = true) (G : Globals) (tv : Node → PVal) (n : Nat) :
    (∀ t : Node, t.isTag = true → nodeDepth t ≤ n → ∀ fuel, 2 * n ≤ fuel → ∀ dd : Bool,
        Tag_get_dependencies G fuel (embT tv t) (.bool dd) = .ok (.list ((t.getDeps dd).map (embT tv))))
    ∧ (∀ ks : Nodes, kidsDepth ks ≤ n → ∀ fuel, 2 * n + 1 ≤ fuel → ∀ dd : Bool,
        TagList_get_dependencies G fuel (tagListOf (embTs tv ks)) (.bool dd) = .ok (.list ((ks.getDeps dd).map (embT tv)))) := by
  have listOf : ∀ m, (∀ t : Node, t.isTag = true → nodeDepth t ≤ m → ∀ fuel, 2 * m ≤ fuel → ∀ dd : Bool,
        Tag_get_dependencies G fuel (embT tv t) (.bool dd) = .ok (.list ((t.getDeps dd).map (embT tv)))) →
      ∀ ks : Nodes, kidsDepth ks ≤ m → ∀ fuel, 2 * m + 1 ≤ fuel → ∀ dd : Bool,
        TagList_get_dependencies G fuel (tagListOf (embTs tv ks)) (.bool dd) = .ok (.list ((ks.getDeps dd).map (embT tv))) := by
    intro m hP ks hd fuel hf dd
    obtain ⟨f, rfl⟩ : ∃ f, fuel = f + 1 := ⟨fuel - 1, by omega⟩
    refine src_taglist_deps_step h2 hr G tv f ks dd (fun c hc hct => ?_)
    have := hP c hct (Nat.le_trans (depth_mem ks c hc) hd) f (by omega) false
    cases c <;> simp [Node.isTag] at hct
    simpa [Node.getDeps, Nodes.getDeps, Node.collect] using this
  induction n with
  | zero =>
    refine ⟨?_, listOf 0 ?_⟩ <;>
    · intro t htag hd
      cases t <;> simp [Node.isTag] at htag
      simp [nodeDepth] at hd
  | succ n ih =>
    have hP : ∀ t : Node, t.isTag = true → nodeDepth t ≤ n + 1 → ∀ fuel, 2 * (n + 1) ≤ fuel → ∀ dd : Bool,
        Tag_get_dependencies G fuel (embT tv t) (.bool dd) = .ok (.list ((t.getDeps dd).map (embT tv))) := by
      intro t htag hd fuel hf dd
      cases t <;> simp [Node.isTag] at htag
      rename_i nm ws at' kk
      obtain ⟨f, rfl⟩ : ∃ f, fuel = f + 1 := ⟨fuel - 1, by omega⟩
      have hk : kidsDepth kk ≤ n := by simp [nodeDepth] at hd; omega
      exact src_tag_deps_step h1 G tv f nm ws at' kk dd (ih.2 kk hk f (by omega) dd)
    exact ⟨hP, listOf (n + 1) hP⟩


/-- `Tag.get_dependencies(dedup)` as the source has it = `Node.getDeps`, for every tag tree -/
theorem src_get_dependencies_tag (h1 : Tag_get_dependencies_available = true) (h2 : TagList_get_dependencies_available = true)
    (hr : resolve_dependencies_available = true) (G : Globals) (tv : Node → PVal)
    (t : Node) (htag : t.isTag = true) (fuel : Nat) (hf : 2 * nodeDepth t ≤ fuel) (dd : Bool) :
    Tag_get_dependencies G fuel (embT tv t) (.bool dd) = .ok (.list ((t.getDeps dd).map (embT tv))) :=
  (src_deps_depth h1 h2 hr G tv (nodeDepth t)).1 t htag (Nat.le_refl _) fuel hf dd

/-- `TagList.get_dependencies(dedup=…)` as the source has it = `Nodes.getDeps` (`collect`, then `resolve` when `dedup`) -/
theorem src_get_dependencies_list (h1 : Tag_get_dependencies_available = true) (h2 : TagList_get_dependencies_available = true)
    (hr : resolve_dependencies_available = true) (G : Globals) (tv : Node → PVal)
    (ks : Nodes) (fuel : Nat) (hf : 2 * kidsDepth ks + 1 ≤ fuel) (dd : Bool) :
    TagList_get_dependencies G fuel (tagListOf (embTs tv ks)) (.bool dd) = .ok (.list ((ks.getDeps dd).map (embT tv))) :=
  (src_deps_depth h1 h2 hr G tv (kidsDepth ks)).2 ks (Nat.le_refl _) fuel hf dd

end HtmlVerif.SrcTie
