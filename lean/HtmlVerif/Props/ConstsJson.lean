/- Constants tie, serialised dependencies (obligations of C13): extraction regex, neutralisation pair, element type,
   HTMLTextDocument's listing and defaults. -/
import HtmlVerif.Lemmas.ConstTie
import HtmlVerif.Model.TextDoc
import HtmlVerif.Model.Json

namespace HtmlVerif.ConstsJson
open HtmlVerif HtmlVerif.Generated HtmlVerif.ConstTie

theorem json_literals :
    (strIs extractPattern (openMarker ++ ['(', '(', '?', ':', '.', '|', '\\', 'r', '|', '\\', 'n', ')', '*', '?', ')'] ++ closeMarker)
      && strIs neutraliseFrom ['<', '/'] && strIs neutraliseTo ['<', '\\', '/']
      && strIs serialTypeLit ['a', 'p', 'p', 'l', 'i', 'c', 'a', 't', 'i', 'o', 'n', '/', 'j', 's', 'o', 'n']) = true := by
  decide +kernel

theorem textdoc_literals :
    (strIs listingTypeText ['a', 'p', 'p', 'l', 'i', 'c', 'a', 't', 'i', 'o', 'n', '/', 'h', 't', 'm', 'l', '-', 'd', 'e', 'p', 'e', 'n',
        'd', 'e', 'n', 'c', 'i', 'e', 's']
      && strIs listingSepText [';']
      && dfltStr dTextDocLibPrefix (some ['l', 'i', 'b']) && dfltBool dTextDocInclVersion true) = true := by decide +kernel

end HtmlVerif.ConstsJson
