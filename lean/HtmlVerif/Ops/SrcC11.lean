/-
Driver op that *runs* the regenerated C11 functions (`HTMLDocument._hoist_head_content`, `_gen_html_tag_tree`, `render`, …)
with what the **untranslated** `HTMLDependency.as_html_tags` answers taken from the line (DESIGN §14, translator validation):

  srcc11 [ (<marker> ok <pval> | <marker> err <Kind>)… ] <function> [ <pval>… ]      → ok <pval> | err <kind> | unsupported

The table says, for each dependency object of the line — identified by the marker the harness puts into its `meta`
(`meta = [{"name": …, "content": <marker>}]`, as in harness/srctie_c10.py) — what `d.as_html_tags(lib_prefix=…,
include_version=…)` returns or raises in this call.  A dependency that is asked but is not in the table makes the answer
`unsupported` — no verdict, never a guess.  The pval syntax is that of `Ops/Src.lean`.
-/
import HtmlVerif.Ops.Base
import HtmlVerif.Generated.Src

namespace HtmlVerif.Ops
open HtmlVerif HtmlVerif.Wire HtmlVerif.Py

/-- the marker of a dependency object: `meta[0]["content"]` -/
private def c11Marker (d : PVal) : Option Str :=
  match d with
  | .obj "HTMLDependency" fs =>
    match fieldGet? "meta" fs with
    | some (.list (.dict kvs :: _)) =>
      match dictGet? "content".toList kvs with
      | some (.str s) => some s
      | _ => none
    | _ => none
  | _ => none

private def c11G (tbl : List (Str × PyM PVal)) : Globals :=
  { HTML_ESCAPE_TABLE := embTbl cfg.textTbl, HTML_ATTRS_ESCAPE_TABLE := embTbl cfg.attrTbl,
    VOID_TAG_NAMES := cfg.void, NO_ESCAPE_TAG_NAMES := cfg.noesc, isSpace := fun _ => false, lower := id,
    asHtmlTagsC11 := fun d _ _ =>
      match c11Marker d with
      | some m => match tbl.find? (fun e => e.1 == m) with
        | some (_, r) => r
        | none => .error .unsupported
      | none => .error .unsupported }

private partial def c11PVal : P PVal := do
  let t ← next
  match t with
  | "N" => pure .none
  | "T" => pure (.bool true)
  | "F" => pure (.bool false)
  | "I" => do
    let s ← next
    match s.toInt? with
    | some n => pure (.int n)
    | none => throw s!"bad int {s}"
  | "D" => .float <$> str
  | "S" => .str <$> str
  | "H" => .html <$> str
  | "L" => .list <$> listOf c11PVal
  | "U" => .tuple <$> listOf c11PVal
  | "M" => .dict <$> listOf (do let k ← str; let v ← c11PVal; pure (k, v))
  | "O" => do
    let c ← next
    let fs ← listOf (do let k ← next; let v ← c11PVal; pure (k, v))
    pure (.obj c fs)
  | _ => throw s!"bad pval {t}"

private partial def c11Enc : PVal → String
  | .none => "N"
  | .bool true => "T"
  | .bool false => "F"
  | .int n => s!"I {n}"
  | .float t => "D " ++ encStr t
  | .str s => "S " ++ encStr s
  | .html s => "H " ++ encStr s
  | .list xs => "L " ++ encList (xs.map c11Enc)
  | .tuple xs => "U " ++ encList (xs.map c11Enc)
  | .dict kvs => "M " ++ encList (kvs.map fun kv => encStr kv.1 ++ " " ++ c11Enc kv.2)
  | .obj c fs => "O " ++ c ++ " " ++ encList (fs.map fun kv => kv.1 ++ " " ++ c11Enc kv.2)

private def c11Kind : String → Option PyErr
  | "TypeError" => some .typeError
  | "ValueError" => some .valueError
  | "KeyError" => some .keyError
  | "IndexError" => some .indexError
  | "AttributeError" => some .attributeError
  | "RuntimeError" => some .runtimeError
  | "NotImplementedError" => some .notImplemented
  | "Exception" => some .exception
  | _ => none

private def c11Err : PyErr → String
  | .typeError => "err TypeError"
  | .valueError => "err ValueError"
  | .keyError => "err KeyError"
  | .indexError => "err IndexError"
  | .attributeError => "err AttributeError"
  | .runtimeError => "err RuntimeError"
  | .notImplemented => "err NotImplementedError"
  | .exception => "err Exception"
  | .fuel => "unsupported fuel"
  | .unsupported => "unsupported"

def srcC11Ops : OpTable
  | "srcc11" => some do
    let tbl ← listOf (do
      let m ← str
      let k ← next
      match k with
      | "ok" => do
        let v ← c11PVal
        pure (m, (Except.ok v : PyM PVal))
      | "err" => do
        let e ← next
        match c11Kind e with
        | some pe => pure (m, (Except.error pe : PyM PVal))
        | none => throw s!"bad exception kind {e}"
      | _ => throw s!"bad table entry {k}")
    let f ← next
    let a ← listOf c11PVal
    match Generated.Src.runByName (c11G tbl) f a with
    | none => pure "unsupported"      -- not translated (left the fragment) or unknown: no verdict
    | some r =>
      match r with
      | .ok v => pure ("ok " ++ c11Enc v)
      | .error e => pure (c11Err e)
  | _ => none

end HtmlVerif.Ops
