"""Translator plug-in for C08b (DESIGN §14): the small methods of `HTML` / `HTMLDependency` and the copy functions
(htmltools/_core.py).

By value (`PyM PVal`, like every other area):

  HTML.__init__ / __str__ / __repr__ / _repr_html_          -> HTML_initC08b (returns the new self), HTML_strC08b, …
  HTMLDependency.__repr__                                   -> HTMLDependency_reprC08b
  Tag.__copy__, HTMLDocument.__copy__                       -> Tag_copyC08b, HTMLDocument_copyC08b
  _copy_tag_nodes, HTMLDependency.__copy__ (group, fuel)    -> copy_tag_nodesC08b, HTMLDependency_copyC08b
  HTMLDependency.__str__ (registered by harness/pytr_z08b.py:  -> HTMLDependency_strC08b
      it calls translations of areas that register later)

With identity (`HMC08b PVal`, Py/PrimC08b.lean — a heap of objects, references `.obj C [("__id__", n)]`): the *same source
text* of the four copy functions a second time, state-passing:

  Tag.__copy__, HTMLDocument.__copy__                       -> Tag_copyHC08b, HTMLDocument_copyHC08b
  _copy_tag_nodes, HTMLDependency.__copy__ (group, fuel)    -> copy_tag_nodesHC08b, HTMLDependency_copyHC08b

New syntax (hooks, confined to the functions of this plug-in):

* `super().__init__(e)` as a statement in a class whose only base is `UserString` (imported from `collections` at module
  level): `self := pyUserStringInitC08b self e`.
* `x.__class__` -> `pyClassAttrC08b x` (a class is a value).  `C.__new__(C)` where `C` is a local bound exactly once, by
  `<e>.__class__`: `pyNewC08b C C` / `hNewC08b C C` — `object.__new__`: the class of the method and its bases in the module
  define no `__new__` (checked on the source); which classes the primitive accepts at run time is its own table.
* `{k: v for a, b in it if c…}` as the right-hand side of an assignment: a loop of `pySetItem` on a new dict (key before
  value, later keys overwrite earlier ones in place — what a dict comprehension does); the comprehension variables are
  scoped to it.
* `x.__dict__.update(e)` as a statement: `x := pyObjDictUpdateC08b x e` (by value: `x` must be an owned name, see below) /
  `hObjDictUpdateC08b x e`.
* `str(e)` inside `HTMLDependency.__str__`: the run-time dispatch over the translated `Tag.__str__` / `TagList.__str__`
  (harness/pytr_c18.py), `pyStrDispC08b (Tag_str G fuel) (TagList_str G fuel) e`; any other value goes to `pyStr`.
* `copy(e)` (`from copy import copy` at module level, not shadowed): inside `Tag.__copy__` / `HTMLDocument.__copy__` the
  primitive `pyCopyFieldC08b` / `hCopyFieldC08b`; inside the group the run-time dispatch over the translated `__copy__`
  methods, `pyCopyDispC08b (Tag_copyC08b G) (HTMLDependency_copyC08b G fuel)` / `hCopyDispC08b …`.
  `deepcopy(e)` -> `pyDeepcopyC08b` / `hDeepcopyC08b`.
* by value only — **owned names**.  A local bound *only* by `n = copy(e)` or `n = C.__new__(C)` names an object nothing
  else refers to, so `n.a = e`, `n[i] = e`, `n.__dict__.update(e)` are functional updates of the name.  Checked: every
  other use of `n` is a read through it (`n.a`, `n[i]`, `enumerate(n)`, `len(n)`, `isinstance(n, …)`, iteration), `return n`,
  or a *move* `m[i] = n` / `m.a = n` into another owned name; a name that is moved is mentioned only by simple
  statements of one block that starts by binding it, and the move is the last of them (so each pass of a loop works on a
  new object and never touches it after it was stored).  Anything else is `Untranslatable`.
* with identity: every attribute load `x.a` is `hGetAttrC08b x "a"`, every store `x.a = e` is `hSetAttrC08b x "a" e`,
  `x[i] = e` is `hSetItemUC08b x i e`, `enumerate(x)` is `hEnumerateC08b x`, `x.__dict__` is `hObjDictC08b x` — heap
  operations; nothing needs to be assumed about aliasing.
"""
from __future__ import annotations

import ast
import os

CORE = "htmltools/_core.py"

VAL_SIMPLE = ("HTML_initC08b", "HTML_strC08b", "HTML_reprC08b", "HTML_repr_htmlC08b", "HTMLDependency_reprC08b")
VAL_COPY1 = ("Tag_copyC08b", "HTMLDocument_copyC08b")
VAL_GROUP = ("copy_tag_nodesC08b", "HTMLDependency_copyC08b")
HEAP_COPY1 = ("Tag_copyHC08b", "HTMLDocument_copyHC08b")
HEAP_GROUP = ("copy_tag_nodesHC08b", "HTMLDependency_copyHC08b")
HEAP = HEAP_COPY1 + HEAP_GROUP
DEP_STR = "HTMLDependency_strC08b"          # registered by harness/pytr_z08b.py (after the areas whose translations it calls)
MINE = VAL_SIMPLE + VAL_COPY1 + VAL_GROUP + HEAP + (DEP_STR,)

T = None
_mods: dict[str, ast.Module] = {}


def _module(fn) -> ast.Module:
    path = os.path.join(T.repo(), fn.spec.file)
    if path not in _mods:
        with open(path, encoding="utf-8") as f:
            _mods[path] = ast.parse(f.read())
    return _mods[path]


def _heap(fn) -> bool:
    return fn.spec.lean in HEAP


def _imported_from(fn, module: str, name: str) -> bool:
    """`name` is bound at module level by `from <module> import … name …` only, and is not a local of the function"""
    if name in fn.all_params or name in fn.locals:
        return False
    hits = []
    for n in _module(fn).body:
        if isinstance(n, (ast.Import, ast.ImportFrom)):
            for a in n.names:
                if (a.asname or a.name.split(".")[0]) == name:
                    hits.append((n, a))
        elif isinstance(n, (ast.FunctionDef, ast.AsyncFunctionDef, ast.ClassDef)) and n.name == name:
            hits.append((n, None))
        elif isinstance(n, (ast.Assign, ast.AnnAssign, ast.AugAssign)):
            tg = n.targets if isinstance(n, ast.Assign) else [n.target]
            if any(isinstance(x, ast.Name) and x.id == name for t in tg for x in ast.walk(t)):
                hits.append((n, None))
    return (len(hits) == 1 and isinstance(hits[0][0], ast.ImportFrom) and hits[0][0].module == module
            and hits[0][0].level == 0 and hits[0][1].name == name and hits[0][1].asname is None)


def _classdef(fn, name: str):
    return next((n for n in _module(fn).body if isinstance(n, ast.ClassDef) and n.name == name), None)


def _defines(cdef: ast.ClassDef, name: str) -> bool:
    for m in cdef.body:
        if isinstance(m, (ast.FunctionDef, ast.AsyncFunctionDef, ast.ClassDef)) and m.name == name:
            return True
        if isinstance(m, (ast.Assign, ast.AnnAssign)):
            tg = m.targets if isinstance(m, ast.Assign) else [m.target]
            if any(isinstance(t, ast.Name) and t.id == name for t in tg):
                return True
    return False


def _no_new(fn):
    """the class of the method and its bases (classes of this module, or nothing) define no `__new__`, have no metaclass"""
    if fn.cls is None:
        raise T.Untranslatable("`__new__` outside a method")
    todo, seen = [fn.cls], set()
    while todo:
        c = todo.pop()
        if c.name in seen:
            continue
        seen.add(c.name)
        if c.keywords or c.decorator_list:
            raise T.Untranslatable(f"class {c.name} has a metaclass / decorator")
        if _defines(c, "__new__") or _defines(c, "__slots__"):
            raise T.Untranslatable(f"class {c.name} defines __new__ / __slots__")
        for b in c.bases:
            if not isinstance(b, ast.Name):
                raise T.Untranslatable(f"class {c.name} has a computed base")
            bd = _classdef(fn, b.id)
            if bd is None:
                raise T.Untranslatable(f"class {c.name} has the base {b.id}, which is not a class of this module")
            todo.append(bd)


# ------------------------------------------------------------------ recognisers
def _is_call_of(e, name: str, nargs: int = 1) -> bool:
    return (isinstance(e, ast.Call) and isinstance(e.func, ast.Name) and e.func.id == name and len(e.args) == nargs
            and not e.keywords and not any(isinstance(a, ast.Starred) for a in e.args))


def _is_copy(fn, e) -> bool:
    return _is_call_of(e, "copy")


def _is_new(e) -> bool:
    return (isinstance(e, ast.Call) and isinstance(e.func, ast.Attribute) and e.func.attr == "__new__"
            and isinstance(e.func.value, ast.Name) and len(e.args) == 1 and not e.keywords
            and isinstance(e.args[0], ast.Name) and e.args[0].id == e.func.value.id)


def _class_bound(fn, name: str) -> bool:
    """the local `name` is bound exactly once, by `name = <e>.__class__`, at the top level of the body"""
    stores = [n for n in ast.walk(fn.node) if isinstance(n, ast.Name) and n.id == name and isinstance(n.ctx, ast.Store)]
    if len(stores) != 1 or name in fn.all_params:
        return False
    for s in fn.node.body:
        if (isinstance(s, ast.Assign) and len(s.targets) == 1 and s.targets[0] is stores[0]
                and isinstance(s.value, ast.Attribute) and s.value.attr == "__class__"):
            return True
    return False


# ------------------------------------------------------------------ owned names (by value)
def _blocks(node):
    """every statement list of the function"""
    for n in ast.walk(node):
        for f in ("body", "orelse", "finalbody"):
            b = getattr(n, f, None)
            if isinstance(b, list) and b and isinstance(b[0], ast.stmt):
                yield b
        if isinstance(n, ast.Try):
            for h in n.handlers:
                yield h.body


def _mentions(node, name: str) -> bool:
    return any(isinstance(x, ast.Name) and x.id == name for x in ast.walk(node))


def owned(fn) -> set[str]:
    """the owned names of a by-value translation (module docstring); raises Untranslatable on a use that is not allowed"""
    if hasattr(fn, "_c08b_owned"):
        return fn._c08b_owned
    cand: dict[str, list] = {}
    other: set[str] = set()
    for n in ast.walk(fn.node):
        tg = []
        if isinstance(n, ast.Assign):
            tg = [(t, n.value) for t in n.targets]
        elif isinstance(n, (ast.AnnAssign, ast.AugAssign)):
            tg = [(n.target, n.value)]
        elif isinstance(n, ast.For):
            tg = [(n.target, None)]
        elif isinstance(n, ast.NamedExpr):
            tg = [(n.target, n.value)]
        elif isinstance(n, ast.comprehension):
            tg = [(n.target, None)]
        for t, v in tg:
            if isinstance(t, ast.Name) and isinstance(n, ast.Assign) and len(n.targets) == 1 and v is not None \
                    and (_is_copy(fn, v) or _is_new(v)):
                cand.setdefault(t.id, []).append(n)
            else:
                for x in ast.walk(t):
                    if isinstance(x, ast.Name) and isinstance(x.ctx, ast.Store):
                        other.add(x.id)
    names = {n for n in cand if n not in other and n not in fn.all_params}
    # parents, to classify every mention
    parent: dict[int, ast.AST] = {}
    for n in ast.walk(fn.node):
        for c in ast.iter_child_nodes(n):
            parent[id(c)] = n
    moved: dict[str, list[ast.stmt]] = {}
    for x in ast.walk(fn.node):
        if not (isinstance(x, ast.Name) and x.id in names):
            continue
        p = parent.get(id(x))
        if isinstance(x.ctx, ast.Store):
            continue                                     # one of the bindings
        ok = False
        if isinstance(p, ast.Attribute) and p.value is x:
            pp = parent.get(id(p))
            # n.a (load), n.a = e (store), n.__dict__.update(e)
            ok = True
            if isinstance(pp, ast.Attribute) and pp.value is p and not (p.attr == "__dict__" and pp.attr == "update"):
                ok = isinstance(pp.ctx, ast.Load) and not isinstance(parent.get(id(pp)), ast.Call)
            if isinstance(pp, ast.Call) and pp.func is p:
                ok = False                               # a method call on the object may do anything to it
        elif isinstance(p, ast.Subscript) and p.value is x:
            ok = True                                    # n[i] (load) / n[i] = e (store)
        elif isinstance(p, ast.Call) and isinstance(p.func, ast.Name) and p.func.id in ("enumerate", "len", "isinstance") \
                and x in p.args:
            ok = True
        elif isinstance(p, ast.For) and p.iter is x:
            ok = True
        elif isinstance(p, ast.Return) and p.value is x:
            ok = True
        elif isinstance(p, ast.Assign) and p.value is x and len(p.targets) == 1:
            t = p.targets[0]
            if isinstance(t, (ast.Subscript, ast.Attribute)) and isinstance(t.value, ast.Name) and t.value.id in names \
                    and t.value.id != x.id:
                moved.setdefault(x.id, []).append(p)
                ok = True
        if not ok:
            raise T.Untranslatable(f"`{x.id}` names a copy made in this function and is used in a way that may alias it "
                                   f"(line {getattr(x, 'lineno', '?')})")
    for n, moves in moved.items():
        if len(moves) != 1:
            raise T.Untranslatable(f"`{n}` is stored in more than one place")
        mv = moves[0]
        blk = next((b for b in _blocks(fn.node) if any(s is mv for s in b)), None)
        mention = [s for s in blk if _mentions(s, n)]
        everywhere = [s for b in _blocks(fn.node) for s in b if _mentions(s, n) and not any(s is m for m in mention)
                      and not any(any(m is d for d in ast.walk(s)) for m in mention)]
        if everywhere:
            raise T.Untranslatable(f"`{n}` is stored in a container and also used outside the block that stores it")
        if not (mention and any(mention[0] is c for c in cand[n]) and mention[-1] is mv
                and all(isinstance(s, (ast.Assign, ast.AnnAssign)) for s in mention)):
            raise T.Untranslatable(f"`{n}` is stored in a container: the block must bind it first, use it in simple "
                                   "statements only, and store it last")
    fn._c08b_owned = names
    return names


# ------------------------------------------------------------------ expressions
def _copy_term(fn, arg: str) -> str:
    lean = fn.spec.lean
    if not _imported_from(fn, "copy", "copy"):
        raise T.Untranslatable("`copy` is not `copy.copy` here")
    if lean in VAL_COPY1:
        return f"(← pyCopyFieldC08b {arg})"
    if lean in HEAP_COPY1:
        return f"(← hCopyFieldC08b {arg})"
    if lean in VAL_GROUP:
        tg, dp = fn.known.get("Tag_copyC08b"), fn.known.get("HTMLDependency_copyC08b")
        if not (tg and tg.available and dp and dp.available and len(tg.all_params) == 1 and len(dp.all_params) == 1):
            raise T.Untranslatable("`copy()` may reach Tag.__copy__ / HTMLDependency.__copy__, which are not translated")
        return f"(← pyCopyDispC08b (Tag_copyC08b G) (HTMLDependency_copyC08b G fuel) {arg})"
    if lean in HEAP_GROUP:
        tg, dp = fn.known.get("Tag_copyHC08b"), fn.known.get("HTMLDependency_copyHC08b")
        if not (tg and tg.available and dp and dp.available and len(tg.all_params) == 1 and len(dp.all_params) == 1):
            raise T.Untranslatable("`copy()` may reach Tag.__copy__ / HTMLDependency.__copy__, which are not translated")
        return f"(← hCopyDispC08b (Tag_copyHC08b G) (HTMLDependency_copyHC08b G fuel) {arg})"
    raise T.Untranslatable("copy() in this function")


def expr_hook(fn, e):
    if fn.spec.lean not in MINE:
        return None
    heap = _heap(fn)
    if isinstance(e, ast.Attribute) and isinstance(e.ctx, ast.Load):
        if e.attr == "__class__":
            return f"(← pyClassAttrC08b {fn.V(e.value)})"
        if heap:
            if e.attr == "__dict__":
                return f"(← hObjDictC08b {fn.V(e.value)})"
            return f'(← hGetAttrC08b {fn.V(e.value)} "{e.attr}")'
        return None
    if _is_new(e):
        c = e.func.value.id
        if not _class_bound(fn, c):
            raise T.Untranslatable(f"`{c}.__new__({c})`: `{c}` is not a local bound once by `<x>.__class__`")
        _no_new(fn)
        return f"(← {'hNewC08b' if heap else 'pyNewC08b'} {fn.name(c)} {fn.name(c)})"
    if isinstance(e, ast.Call) and isinstance(e.func, ast.Name):
        f = e.func.id
        if f == "str" and fn.spec.lean == DEP_STR and _is_call_of(e, "str") and "str" not in fn.all_params \
                and "str" not in fn.locals:
            # `str(x)`: decided at run time by the class of `x`, over the translated `__str__` methods (harness/pytr_c18.py)
            tg, tl = fn.known.get("Tag_str"), fn.known.get("TagList_str")
            if not (tg and tg.available and tl and tl.available and len(tg.all_params) == 1 and len(tl.all_params) == 1
                    and tg.spec.recursive and tl.spec.recursive):
                raise T.Untranslatable("`str()` may reach Tag.__str__ / TagList.__str__, which are not translated")
            return f"(← pyStrDispC08b (Tag_str G fuel) (TagList_str G fuel) {fn.V(e.args[0])})"
        if f == "copy" and (fn.spec.lean in VAL_COPY1 + VAL_GROUP + HEAP):
            if not _is_call_of(e, "copy"):
                raise T.Untranslatable("copy() with other than one positional argument")
            return _copy_term(fn, fn.V(e.args[0]))
        if f == "deepcopy" and (fn.spec.lean in VAL_GROUP + HEAP_GROUP):
            if not _is_call_of(e, "deepcopy") or not _imported_from(fn, "copy", "deepcopy"):
                raise T.Untranslatable("`deepcopy` is not `copy.deepcopy(x)` here")
            return f"(← {'hDeepcopyC08b' if heap else 'pyDeepcopyC08b'} {fn.V(e.args[0])})"
        if f == "_copy_tag_nodes" and (fn.spec.lean in VAL_GROUP + HEAP_GROUP):
            if not _is_call_of(e, "_copy_tag_nodes") or f in fn.all_params or f in fn.locals:
                raise T.Untranslatable("_copy_tag_nodes with other than one positional argument")
            target = "copy_tag_nodesHC08b" if heap else "copy_tag_nodesC08b"
            info = fn.known.get(target)
            if info is None or not info.available or len(info.all_params) != 1:
                raise T.Untranslatable("calls _copy_tag_nodes, which is not translated")
            return f"(← {target} G fuel {fn.V(e.args[0])})"
        if heap and f == "enumerate" and _is_call_of(e, "enumerate") and f not in fn.all_params and f not in fn.locals:
            return f"(← hEnumerateC08b {fn.V(e.args[0])})"
    if heap and isinstance(e, ast.Call) and isinstance(e.func, ast.Attribute):
        # the only method calls of the heap-level functions: `d.items()` on the snapshot of a `__dict__`
        if not (e.func.attr == "items" and isinstance(e.func.value, ast.Attribute) and e.func.value.attr == "__dict__"
                and not e.args and not e.keywords):
            raise T.Untranslatable(f"method call .{e.func.attr}() in a function translated over the heap")
    if heap and isinstance(e, ast.Subscript):
        raise T.Untranslatable("subscript load in a function translated over the heap")
    return None


# ------------------------------------------------------------------ statements
def _dictcomp(fn, ind: int, target: ast.expr, e: ast.DictComp):
    if len(e.generators) != 1 or e.generators[0].is_async:
        raise T.Untranslatable("dict comprehension with several generators")
    g = e.generators[0]
    if isinstance(g.target, ast.Name):
        pat = [g.target.id]
    elif isinstance(g.target, ast.Tuple) and len(g.target.elts) == 2 and all(isinstance(x, ast.Name) for x in g.target.elts):
        pat = [x.id for x in g.target.elts]
    else:
        raise T.Untranslatable("dict comprehension with a pattern target other than a name / a pair of names")
    acc, var = fn.fresh("acc"), fn.fresh("cv")
    fn.emit(ind, f"let mut {acc} : PVal := PVal.dict []")
    fn.emit(ind, f"for {var} in (← pyIter {fn.V(g.iter)}) do")
    if len(pat) == 1:
        scope = {pat[0]: var}
    else:
        pr = fn.fresh("pair")
        fn.emit(ind + 1, f"let {pr} ← pyUnpack2 {var}")
        scope = {pat[0]: f"{pr}.1", pat[1]: f"{pr}.2"}
    fn.scopes = getattr(fn, "scopes", []) + [scope]
    try:
        k = ind + 1
        for c in g.ifs:
            fn.emit(k, f"if truthy {fn.V(c)} then")
            k += 1
        fn.emit(k, f"{acc} := (← pySetItem {acc} {fn.V(e.key)} {fn.V(e.value)})")
    finally:
        fn.scopes = fn.scopes[:-1]
    fn.assign_to(ind, target, acc)


def stmt_hook(fn, ind: int, s: ast.stmt):
    if fn.spec.lean not in MINE:
        return False
    heap = _heap(fn)
    # super().__init__(e) in a UserString subclass
    if isinstance(s, ast.Expr) and isinstance(s.value, ast.Call):
        c = s.value
        f = c.func
        if (isinstance(f, ast.Attribute) and isinstance(f.value, ast.Call) and isinstance(f.value.func, ast.Name)
                and f.value.func.id == "super" and not f.value.args and not f.value.keywords):
            if not (f.attr == "__init__" and len(c.args) == 1 and not c.keywords and not isinstance(c.args[0], ast.Starred)
                    and fn.cls is not None and len(fn.cls.bases) == 1 and isinstance(fn.cls.bases[0], ast.Name)
                    and fn.cls.bases[0].id == "UserString" and not fn.cls.keywords
                    and _imported_from(fn, "collections", "UserString") and fn.spec.returns_self
                    and "super" not in fn.all_params and "super" not in fn.locals):
                raise T.Untranslatable(f"super().{f.attr}(…) other than UserString.__init__(self, x)")
            me = fn.name("self")
            fn.mutates_self = True
            fn.emit(ind, f"{me} := (← pyUserStringInitC08b {me} {fn.V(c.args[0])})")
            return True
        # x.__dict__.update(e)
        if (isinstance(f, ast.Attribute) and f.attr == "update" and isinstance(f.value, ast.Attribute)
                and f.value.attr == "__dict__" and len(c.args) == 1 and not c.keywords
                and not isinstance(c.args[0], ast.Starred)):
            if heap:
                fn.emit(ind, f"hObjDictUpdateC08b {fn.V(f.value.value)} {fn.V(c.args[0])}")
                return True
            x = f.value.value
            if not (isinstance(x, ast.Name) and x.id in owned(fn)):
                raise T.Untranslatable("`.__dict__.update(…)` on something that is not a copy made in this function")
            nm = fn.name(x.id)
            fn.emit(ind, f"{nm} := (← pyObjDictUpdateC08b {nm} {fn.V(c.args[0])})")
            return True
        if heap:
            raise T.Untranslatable("expression statement in a function translated over the heap")
    if isinstance(s, ast.Assign) and len(s.targets) == 1:
        t = s.targets[0]
        if isinstance(s.value, ast.DictComp):
            _dictcomp(fn, ind, t, s.value)
            return True
        if heap:
            if isinstance(t, ast.Attribute):
                rhs = fn.fresh("rhs")
                fn.emit(ind, f"let {rhs} := {fn.V(s.value)}")          # right-hand side before the target's object
                fn.emit(ind, f'hSetAttrC08b {fn.V(t.value)} "{t.attr}" {rhs}')
                return True
            if isinstance(t, ast.Subscript):
                if isinstance(t.slice, ast.Slice):
                    raise T.Untranslatable("slice assignment in a function translated over the heap")
                rhs = fn.fresh("rhs")
                fn.emit(ind, f"let {rhs} := {fn.V(s.value)}")
                fn.emit(ind, f"hSetItemUC08b {fn.V(t.value)} {fn.V(t.slice)} {rhs}")
                return True
            return False
        # by value: mutation through an owned name
        if isinstance(t, ast.Name) and (_is_copy(fn, s.value) or _is_new(s.value)):
            if t.id in owned(fn):
                fn.fresh_objects.add(t.id)
            return False                                   # the ordinary assignment path emits it (through expr_hook)
        if isinstance(t, ast.Subscript) and isinstance(t.value, ast.Name) and not isinstance(t.slice, ast.Slice) \
                and fn.spec.lean in VAL_GROUP:
            c = t.value.id
            if c not in owned(fn):
                raise T.Untranslatable(f"item assignment into {c}, which is not a copy made in this function")
            nm = fn.name(c)
            rhs = fn.fresh("rhs")
            fn.emit(ind, f"let {rhs} := {fn.V(s.value)}")              # Python evaluates the right-hand side first
            fn.emit(ind, f"{nm} := (← pySetItemU {nm} {fn.V(t.slice)} {rhs})")
            return True
        if isinstance(t, ast.Attribute) and isinstance(t.value, ast.Name) and t.value.id != "self":
            if t.value.id not in owned(fn):
                raise T.Untranslatable(f"attribute assignment on {t.value.id}, which is not a copy made in this function")
            fn.fresh_objects.add(t.value.id)
            return False                                   # base: `n := pySetAttr n "a" v`
    if heap and isinstance(s, (ast.AugAssign, ast.With, ast.Try, ast.While, ast.Delete, ast.Global, ast.Nonlocal)):
        raise T.Untranslatable(f"statement {type(s).__name__} in a function translated over the heap")
    return False


# ------------------------------------------------------------------ the heap-level translation class
def make_fn_class():
    class FnHC08b(T.Fn):
        """a translation over the heap: result type `HMC08b PVal`"""

        def head(self, sig: str) -> str:
            if self.spec.recursive:
                return (f"def {self.spec.lean} (G : Globals) (fuel0 : Nat) {sig} : HMC08b PVal :=\n"
                        f"  match fuel0 with\n  | 0 => throw PyErr.fuel\n  | fuel + 1 => do")
            return f"def {self.spec.lean} (G : Globals) {sig} : HMC08b PVal := do"

    return FnHC08b


def heap_stub(spec, nparams: int) -> str:
    sig = " ".join(f"(_a{i} : PVal)" for i in range(nparams))
    fuel = " (_fuel : Nat)" if (spec.recursive or spec.group) else ""
    return f"def {spec.lean} (_G : Globals){fuel} {sig} : HMC08b PVal := throw PyErr.unsupported"


RUN_TABLE = '''
/-- `srcc08b <name> <heap> [args]`: the translations over the heap, by name (ample fuel); `none`: not translated / unknown /
    wrong number of arguments -/
def runByNameHC08b (G : Globals) (f : String) (a : List PVal) : Option (HMC08b PVal) :=
  match f, a with
  | "Tag_copyHC08b", [x0] => if Tag_copyHC08b_available then some (Tag_copyHC08b G x0) else none
  | "HTMLDocument_copyHC08b", [x0] => if HTMLDocument_copyHC08b_available then some (HTMLDocument_copyHC08b G x0) else none
  | "copy_tag_nodesHC08b", [x0] => if copy_tag_nodesHC08b_available then some (copy_tag_nodesHC08b G 100000 x0) else none
  | "HTMLDependency_copyHC08b", [x0] => if HTMLDependency_copyHC08b_available then some (HTMLDependency_copyHC08b G 100000 x0) else none
  | _, _ => none
'''


def register(pytranslate):
    global T
    T = pytranslate
    F = T.FnSpec
    T.SPECS += [
        F(CORE, "HTML.__init__", "HTML_initC08b", returns_self=True),
        F(CORE, "HTML.__str__", "HTML_strC08b"),
        F(CORE, "HTML.__repr__", "HTML_reprC08b"),
        F(CORE, "HTML._repr_html_", "HTML_repr_htmlC08b"),
        F(CORE, "HTMLDependency.__repr__", "HTMLDependency_reprC08b"),
        F(CORE, "Tag.__copy__", "Tag_copyC08b"),
        F(CORE, "HTMLDocument.__copy__", "HTMLDocument_copyC08b"),
        F(CORE, "_copy_tag_nodes", "copy_tag_nodesC08b", group="c08b_copy"),
        F(CORE, "HTMLDependency.__copy__", "HTMLDependency_copyC08b", group="c08b_copy"),
        F(CORE, "Tag.__copy__", "Tag_copyHC08b"),
        F(CORE, "HTMLDocument.__copy__", "HTMLDocument_copyHC08b"),
        F(CORE, "_copy_tag_nodes", "copy_tag_nodesHC08b", group="c08b_copyH"),
        F(CORE, "HTMLDependency.__copy__", "HTMLDependency_copyHC08b", group="c08b_copyH"),
    ]
    T.ARITY.update({"HTML_initC08b": 2, "HTML_strC08b": 1, "HTML_reprC08b": 1, "HTML_repr_htmlC08b": 1,
                    "HTMLDependency_reprC08b": 1, "Tag_copyC08b": 1, "HTMLDocument_copyC08b": 1, "copy_tag_nodesC08b": 1,
                    "HTMLDependency_copyC08b": 1, "Tag_copyHC08b": 1, "HTMLDocument_copyHC08b": 1,
                    "copy_tag_nodesHC08b": 1, "HTMLDependency_copyHC08b": 1})
    FnH = make_fn_class()
    for n in HEAP:
        T.FN_CLASS[n] = FnH
        T.STUBS[n] = heap_stub
        T.NO_RUN.add(n)
    T.AFTER["HTMLDependency_copyHC08b"] = RUN_TABLE
    if "HtmlVerif.Py.PrimC08b" not in T.IMPORTS:
        T.IMPORTS.append("HtmlVerif.Py.PrimC08b")
    # first in line for the functions of this area (`x.__dict__` over the heap must not reach the C08 hook); the hooks
    # decline every other function
    T.EXPR_HOOKS.insert(0, expr_hook)
    T.STMT_HOOKS.insert(0, stmt_hook)
