"""Implementation side of the display-hook ops (C17): the same program term is interpreted with REAL `with tag:`
statements and `sys.displayhook(v)` calls against the htmltools working tree.

  hook_run [ [ item* ]* ] [ stmt* ]  ->  <outcome> <recorder current again: T/F> [ flag* ] [ val* ] [ [ item* ]* ]
  hook_append <val>                  ->  ok [ item* ] | err <kind>
  hook_wrap <val>                    ->  N | S <val>

sys.displayhook is process-global: every op saves it first and restores it in `finally`.

The answer of `hook_run` holds the property's observables and nothing else: the exception kind, whether the recorder
is current again, the hook identity around every with-statement, what the recorder was handed, and the children each
(plain) Tag ends up with, in order — not how a Tag appends internally.  Displayed values are real objects of every
kind the child rules distinguish: str, numbers, HTML, self-rendering objects (also ones that are a str/tuple/list/float),
Tags, lists/tuples (and subclasses, nested), TagLists, Tagifiable objects, objects with tagify() AND _repr_html_() (an
own class and a real JSXTag), invalid objects.  Tagifiable objects are recognised in the result by identity.
"""
from __future__ import annotations

import sys

from adapters import ReprObj
from ops import op
from wire import Toks, p_list, p_hval, p_hitem, p_hprog, es, eb, elist, err_of

import htmltools
from htmltools import HTML, Tag, TagList
from htmltools._jsx import JSXTag


class Boom(Exception):
    """what an explicit `raise` statement of a program raises"""


class RStr(ReprObj, str):
    """self-rendering object that also happens to be a str (unusual but legal)"""
    def __new__(cls, s):
        return str.__new__(cls, "plain<" + s + ">")


class RTuple(ReprObj, tuple):
    def __new__(cls, s):
        return tuple.__new__(cls, (1, 2))


class RList(ReprObj, list):
    def __init__(self, s):
        ReprObj.__init__(self, s)
        list.__init__(self, ["a", "b"])
    __hash__ = None


class RFloat(ReprObj, float):
    def __new__(cls, s):
        return float.__new__(cls, 2.5)


class Flex:
    """one class, two kinds of instance: with a text it carries `_repr_html_` as an INSTANCE attribute (self-rendering),
    without it has no such method (no tag child at all).  Protocol membership is a property of the instance, not of its
    type — a classification remembered per type goes wrong on the second instance."""

    def __init__(self, s=None):
        self.s = s
        if s is not None:
            self._repr_html_ = lambda: s


def _is_repr(v) -> bool:
    return isinstance(v, ReprObj) or (isinstance(v, Flex) and v.s is not None)


class KeptMeta(htmltools.MetadataNode):
    """a metadata node displayed in a block: like a Tagifiable-only object it is a child kept as the object"""

    def __init__(self, s):
        self.s = s


REPR_CLASSES = [ReprObj, RStr, Flex, ReprObj, RTuple, ReprObj, RList, Flex, RFloat]


class Opaque:
    def __init__(self, n):
        self.n = n


# objects that are no TagChild: not str/number/None, not a list/tuple/TagList, no tagify(), no _repr_html_()
def _invalids():
    return [object(), {"a": 1}, Flex(), b"x", {1}, Flex(), 3 + 2j, Opaque(0), range(2), Flex(), bytearray(b"y")]


def _number(txt: str):
    """the number whose str() is `txt` (the model is handed str(number); here we need the number back)"""
    cands = []
    if txt in ("True", "False"):
        cands.append(txt == "True")
    try:
        cands.append(int(txt))
    except ValueError:
        pass
    try:
        cands.append(float(txt))
    except ValueError:
        pass
    for c in cands:
        if str(c) == txt:
            return c
    raise ValueError(f"no number prints as {txt!r}")


class TagifyObj:
    """Tagifiable and nothing else (no `_repr_html_`): a child kept as the object, expanded by tagify() at render time"""

    def __init__(self, s):
        self.s = s

    def tagify(self):
        return Tag("span", self.s)


class TagifyReprObj(TagifyObj):
    """Tagifiable AND self-rendering, like JSXTag or a widget: still a child kept as the object (its tagify() may
    carry dependencies that an inert HTML string would lose)"""

    def _repr_html_(self):
        return "<i>inert " + self.s + "</i>"


class ListSub(list):
    __hash__ = None


class TupleSub(tuple):
    pass


def _both(s, n):
    """an object with tagify() and _repr_html_(): our own class, or a real JSXTag"""
    return JSXTag("Foo", s) if n % 2 else TagifyReprObj(s)


def _max_tag(v) -> int:
    """1 + the largest tag id a value term refers to"""
    if v[0] == "tagRef":
        return v[1] + 1
    if v[0] in ("list", "tuple"):
        return max([_max_tag(x) for x in v[1]] or [0])
    if v[0] == "tagList":
        return max([i[1] + 1 for i in v[1] if i[0] == "tagRef"] or [0])
    return 0


class Recorder:
    """the outermost display hook: a callable OBJECT that is falsy while it has recorded nothing (`__len__`), as a
    list-like recorder would be; a hook must be restored and called whatever its truth value"""

    def __init__(self):
        self.log = []
        # a hook written with functools.wraps(previous_hook) carries the hook it replaced as `__wrapped__`; whatever a hook
        # carries, the hook itself is what must be restored and what receives a finished top-level tag
        self.shadow = []
        self.__wrapped__ = self.shadow.append

    def __call__(self, value):
        self.log.append(value)

    def __len__(self):
        return len(self.log)


class Env:
    def __init__(self, ntags: int):
        # plain Tags, all structurally equal while empty (distinct blocks must be told apart by identity)
        self.tags = [Tag("div") for _ in range(ntags)]
        self.ids = {id(t): i for i, t in enumerate(self.tags)}
        self.objs = {}       # id(object) -> ('f' | 'b', name): Tagifiable objects are recognised by identity
        self.keep = []       # ... and kept alive, so that an id is never reused
        self.n_obj = 0
        self.invalid = _invalids()
        self.invalid_ids = {id(x) for x in self.invalid}
        self.n_invalid = 0

    # ---- realise
    def val(self, v, direct=False):
        k = v[0]
        if k == "none":
            return None
        if k == "ellipsis":
            return ...
        if k == "text":
            return v[1]
        if k == "num":
            return _number(v[1])
        if k == "html":
            return HTML(v[1])
        if k == "reprHtml":
            self.n_repr = getattr(self, "n_repr", 0) + 1
            # handed straight to Tag.append (no display-hook wrapper) a list/tuple/number subclass is, correctly,
            # treated as a list/tuple/number; only there keep to classes that are nothing but self-rendering
            classes = [ReprObj, RStr, Flex] if direct else REPR_CLASSES
            return classes[(self.n_repr + len(v[1])) % len(classes)](v[1])
        if k == "tagRef":
            return self.tags[v[1]]
        if k == "invalid":
            x = self.invalid[self.n_invalid % len(self.invalid)]
            self.n_invalid += 1
            return x
        if k == "tagifiable":
            return self.obj("f", v[1])
        if k == "tagifiableRepr":
            return self.obj("b", v[1])
        if k == "tagList":
            tl = TagList()
            tl.data.extend(self.item(i) for i in v[1])      # below the normalising API: exactly these nodes
            return tl
        if k in ("list", "tuple"):
            # elements are not seen by the display-hook wrapper: they are under the rules of append()
            xs = [self.val(x, direct=True) for x in v[1]]
            self.n_obj += 1
            sub = (self.n_obj + len(xs)) % 3 == 0           # now and then a subclass of list / tuple
            if k == "list":
                return ListSub(xs) if sub else xs
            return TupleSub(xs) if sub else tuple(xs)
        raise ValueError(v)

    def obj(self, kind, name):
        self.n_obj += 1
        if kind == "f" and self.n_obj % 3 == 0:
            # "kept as the object" is also what the child rules say of a metadata node / dependency that is displayed
            x = KeptMeta(name) if self.n_obj % 2 else htmltools.HTMLDependency(f"kept{self.n_obj}", "1.0")
        else:
            x = TagifyObj(name) if kind == "f" else _both(name, self.n_obj)
        self.objs[id(x)] = (kind, name)
        self.keep.append(x)
        return x

    def item(self, i):
        k = i[0]
        if k == "text":
            return i[1]
        if k == "html":
            return HTML(i[1])
        if k == "robj":
            return ReprObj(i[1])
        if k == "tobj":
            return self.obj("f", i[1])
        if k == "trobj":
            return self.obj("b", i[1])
        return self.tags[i[1]]

    # ---- canonicalise (by identity for tags; never by repr)
    def c_item(self, c) -> str:
        r = self.objs.get(id(c))
        if r is not None:
            return ("if " if r[0] == "f" else "ib ") + es(r[1])
        if isinstance(c, Tag):
            i = self.ids.get(id(c))
            return "ix foreign-tag" if i is None else f"ig {i}"
        if _is_repr(c):
            return "ir " + es(c.s)
        if isinstance(c, HTML):
            return "ih " + es(c.as_string())
        if isinstance(c, str):
            return "it " + es(str.__str__(c))
        return "ix " + type(c).__name__

    def c_val(self, v) -> str:
        if v is None:
            return "vn"
        if v is ...:
            return "ve"
        r = self.objs.get(id(v))
        if r is not None:
            return ("vf " if r[0] == "f" else "vb ") + es(r[1])
        if isinstance(v, Tag):
            i = self.ids.get(id(v))
            return "vx foreign-tag" if i is None else f"vg {i}"
        if _is_repr(v):
            return "vr " + es(v.s)
        if isinstance(v, HTML):
            return "vh " + es(v.as_string())
        if isinstance(v, str):
            return "vt " + es(str.__str__(v))
        if isinstance(v, (bool, int, float)):
            return "vm " + es(str(v))
        if id(v) in self.invalid_ids:
            return "vi"
        if isinstance(v, TagList):
            return "vq " + elist([self.c_item(c) for c in v])
        if isinstance(v, list):
            return "vl " + elist([self.c_val(x) for x in v])
        if isinstance(v, tuple):
            return "vu " + elist([self.c_val(x) for x in v])
        return "vx " + type(v).__name__


def _prepare(env: Env, progs):
    """realise every displayed value up front, so that a harness error cannot pass for an exception of the code"""
    return [("d", env.val(p[1])) if p[0] == "d" else ("b", p[1], _prepare(env, p[2])) if p[0] == "b" else p
            for p in progs]


def _interpret(env: Env, progs, flags: list):
    """run a (prepared) statement list; exceptions propagate exactly as Python propagates them"""
    for p in progs:
        k = p[0]
        if k == "d":
            sys.displayhook(p[1])
        elif k == "r":
            raise Boom()
        elif k == "k":
            # the tag gets a new child-list object holding the same nodes (children is a public, assignable attribute)
            tag = env.tags[p[1]]
            new = TagList()
            new.data.extend(tag.children.data)
            tag.children = new
        else:
            tag = env.tags[p[1]]
            before = sys.displayhook
            slot = len(flags)
            flags.append("?")
            try:
                with tag:
                    _interpret(env, p[2], flags)
            finally:
                # sampled on every exit path, also when __enter__ itself raised
                flags[slot] = eb(sys.displayhook is before)


@op("hook_run")
def _hook_run(t: Toks) -> str:
    init = p_list(t, lambda t: p_list(t, p_hitem))
    progs = p_list(t, p_hprog)
    env = Env(len(init))
    for tag, items in zip(env.tags, init):
        # initial children installed below the normalising API
        tag.children.data.extend(env.item(i) for i in items)
    progs = _prepare(env, progs)
    recorder = Recorder()
    log = recorder.log
    flags: list = []
    saved = sys.displayhook
    try:
        sys.displayhook = recorder
        try:
            _interpret(env, progs, flags)
            outcome = "done"
        except BaseException as e:  # noqa: BLE001 - the kind is the observable
            if isinstance(e, (KeyboardInterrupt, SystemExit)):
                raise
            outcome = "raised exception" if isinstance(e, Boom) else "raised " + err_of(e)[4:]
        back = sys.displayhook is recorder
    finally:
        sys.displayhook = saved
    return " ".join([
        outcome, eb(back), elist(flags), elist([env.c_val(v) for v in log]),
        elist([elist([env.c_item(c) for c in tag.children]) for tag in env.tags]),
    ])


@op("hook_append")
def _hook_append(t: Toks) -> str:
    v = p_hval(t)
    env = Env(max(2, _max_tag(v)))
    fresh = Tag("span")
    saved = sys.displayhook
    try:
        fresh.append(env.val(v, direct=True))
    finally:
        sys.displayhook = saved
    return "ok " + elist([env.c_item(c) for c in fresh.children])


@op("hook_wrap")
def _hook_wrap(t: Toks) -> str:
    v = p_hval(t)
    env = Env(max(2, _max_tag(v)))
    got: list = []
    saved = sys.displayhook
    try:
        htmltools._core.wrap_displayhook_handler(got.append)(env.val(v))
    finally:
        sys.displayhook = saved
    if not got:
        return "N"
    if len(got) > 1:
        return "many"
    return "S " + env.c_val(got[0])
