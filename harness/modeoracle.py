"""The dependency render mode (`htmltools.html_dependency_render_mode`) is a switch for str() / repr() / _repr_html_() only.
`render()["html"]`, `get_html_string()` and `HTMLDocument.render()["html"]` report dependencies in their list (and, for a
document, in <head>); their markup is the same in both modes (C07: metadata nodes leave no trace in the rendered HTML string;
C11: everything outside <head> is the content's ordinary rendering, one <html> element, nothing after it)."""
from __future__ import annotations


def trees():
    from htmltools import HTML, HTMLDependency, Tag, TagList, head_content, tags

    def dep(n, v="1.0", **kw):
        return HTMLDependency(n, v, source={"href": "/s"}, script={"src": n + ".js"}, **kw)
    return [
        ("dependency as a child", lambda: Tag("div", "a", dep("d1"), Tag("span", "b"))),
        ("dependency as the only child", lambda: Tag("p", dep("d2"))),
        ("two dependencies and head_content in a list", lambda: TagList(dep("d3"), "t", Tag("div", dep("d4", "2.0"), head_content(tags.title("T"))), dep("d3", "0.9"))),
        ("dependency with markup in its head", lambda: Tag("section", dep("d5", head=HTML("<!-- </script> -->")), "x<y")),
        ("lone html tag", lambda: tags.html(tags.head(tags.title("t")), tags.body("b", dep("d6")))),
        ("lone body tag", lambda: tags.body(Tag("div", dep("d7")), dep("d8"))),
        ("no dependency at all", lambda: Tag("div", "plain", Tag("br"))),
    ]


def oracle(ck, label: str) -> int:
    import htmltools
    from htmltools import HTMLDocument, Tag
    n = 0

    def views(x):
        r = x.render()
        d = HTMLDocument(x).render()
        d2 = HTMLDocument(x, lang="en").render(lib_prefix=None, include_version=False) if isinstance(x, Tag) else d
        return {"render()['html']": r["html"], "render()['dependencies']": [(q.name, str(q.version)) for q in r["dependencies"]],
                "get_html_string()": x.get_html_string(), "HTMLDocument.render()['html']": d["html"],
                "HTMLDocument.render()['dependencies']": [(q.name, str(q.version)) for q in d["dependencies"]],
                "HTMLDocument.render(lib_prefix=None, include_version=False)['html']": d2["html"]}

    for tl, mk in trees():
        n += 1
        ck.holds_checked += 1
        old = htmltools.html_dependency_render_mode
        try:
            want = views(mk())
            htmltools.html_dependency_render_mode = "json"
            try:
                got = views(mk())
            finally:
                htmltools.html_dependency_render_mode = old
        except Exception as e:  # noqa: BLE001
            htmltools.html_dependency_render_mode = old
            ck.py_violation(f"render_mode {tl}", f"raised {type(e).__name__}: {e}", f"rendering {tl} in one of the two dependency render modes raised", py=tl)
            continue
        for k in want:
            if got[k] != want[k]:
                ck.py_violation(f"render_mode {tl} / {k}", str(got[k])[:400],
                                f"{label}: with htmltools.html_dependency_render_mode = 'json', {k} of a tree ({tl}) is {str(got[k])[:300]!r}; in the default mode it is "
                                f"{str(want[k])[:300]!r} (the mode is a switch for str() only)",
                                py=f"htmltools.html_dependency_render_mode = 'json'; x = <{tl}>; x.{k}")
                break
    ck.exhaustive_scopes.append({"scope": "render() / get_html_string() / HTMLDocument.render() in the 'json' dependency render mode against the default mode: 7 trees x 6 views",
                                 "n": n, "exhaustive": True})
    return n
