/-
Executable statements of C02 (text) and C03 (attribute values) at the character level, evaluated on the
implementation's `html_escape` output.  (The tree-level part is the marker substitution, harness/subst.py.)
-/
import HtmlVerif.Ops.Base
import HtmlVerif.Spec.Refs
import HtmlVerif.Ops.HoldsC02

namespace HtmlVerif.Ops
open HtmlVerif HtmlVerif.Wire

def holdsC03 : OpTable
  | "escape" => some do
    let a ← bool; let s ← str
    expect "|"
    let out ← str
    pure (encBool (escHolds a s out))
  | _ => none

end HtmlVerif.Ops
