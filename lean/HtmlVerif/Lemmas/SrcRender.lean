/-
Embedding of the tree model into Python values, and the model-level step functions that the loops of the
translated renderer simulate (used by Props/SrcRender.lean).
-/
import HtmlVerif.Lemmas.SrcTie
import HtmlVerif.Model.Render
import HtmlVerif.Generated.Src

namespace HtmlVerif.SrcTie
open HtmlVerif HtmlVerif.Py HtmlVerif.Generated.Src

mutual
  /-- a node as the Python object the renderer sees.  Only what rendering reads is recorded: a Tag's four fields; for
      self-rendering objects the text their `_repr_html_()` returns; for tagifiable objects the presence of `tagify` -/
  def embNode : Node → PVal
    | .tag name ws attrs kids =>
      .obj "Tag" [("name", .str name), ("attrs", embAttrs attrs),
                  ("children", .obj "TagList" [("data", .list (embNodes kids))]), ("add_ws", .bool ws)]
    | .text s => .str s
    | .html s => .html s
    | .robj s => .obj "ReprObj" [("_repr_html_", .str s)]
    | .mnode n => .obj "MetadataNode" [("id", .int n)]
    | .dep d _ _ => .obj "HTMLDependency" [("name", .str d.name)]
    | .tobjL rh _ => .obj "TagifiableObj" (("tagify", .none) :: match rh with
        | some s => [("_repr_html_", .str s)]
        | none => [])
    | .tobj1 rh _ => .obj "TagifiableObj" (("tagify", .none) :: match rh with
        | some s => [("_repr_html_", .str s)]
        | none => [])
  def embNodes : Nodes → List PVal
    | .nil => []
    | .cons h t => embNode h :: embNodes t
end

theorem embNodes_toList (ks : Nodes) : embNodes ks = ks.toList.map embNode := by
  induction ks using Nodes.rec (motive_1 := fun _ => True) with
  | nil => rfl
  | cons h t _ ih => simp [embNodes, Nodes.toList, ih]
  | _ => trivial

mutual
  /-- nesting depth of tags -/
  def nodeDepth : Node → Nat
    | .tag _ _ _ kids => kidsDepth kids + 1
    | _ => 0
  def kidsDepth : Nodes → Nat
    | .nil => 0
    | .cons h t => max (nodeDepth h) (kidsDepth t)
end

theorem depth_mem (ks : Nodes) (c : Node) (h : c ∈ ks.toList) : nodeDepth c ≤ kidsDepth ks := by
  induction ks using Nodes.rec (motive_1 := fun _ => True) with
  | nil => simp [Nodes.toList] at h
  | cons x t _ ih =>
    simp only [Nodes.toList, List.mem_cons] at h
    simp only [kidsDepth]
    rcases h with rfl | h
    · omega
    · have := ih h; omega
  | _ => trivial

/-! ### the child loop of `TagList.get_html_string`, one pass at the model level -/

/-- the loop state the property is about: (html_, first_child, prev_was_add_ws) -/
structure KS where
  acc : Str
  first : Bool
  prev : Bool

/-- what one pass over the child `h` does to the state; an un-expanded tagifiable object that is not self-rendering
    raises RuntimeError, and so does a tag child whose own rendering raises -/
def kidStep (cfg : Cfg) (indent : Nat) (eol : Str) (esc : Bool) (h : Node) (st : KS) : Except Err KS :=
  let leaf (s : Str) : Except Err KS :=
    .ok ⟨st.acc ++ (if !st.first && st.prev then eol else []) ++ (if st.prev then indentStr indent else []) ++ s, false, false⟩
  match h with
  | .mnode _ => .ok st
  | .dep .. => .ok st
  | .tag _ ws _ _ =>
    if h.hasTobj then .error .runtimeError else
    let pc := st.prev || ws
    .ok ⟨st.acc ++ (if !st.first && pc then eol else [])
          ++ (if pc then h.render cfg indent eol else h.render cfg 0 []), false, ws⟩
  | .text s => leaf (if esc then escText cfg s else s)
  | .html s => leaf s
  | .robj s => leaf s
  | .tobjL (some s) _ => leaf s
  | .tobj1 (some s) _ => leaf s
  | .tobjL none _ => .error .runtimeError
  | .tobj1 none _ => .error .runtimeError

/-- what a leaf contributes -/
def leafStep (indent : Nat) (eol : Str) (s : Str) (st : KS) : KS :=
  ⟨st.acc ++ (if !st.first && st.prev then eol else []) ++ (if st.prev then indentStr indent else []) ++ s, false, false⟩

theorem kidStep_mnode (cfg i e esc n st) : kidStep cfg i e esc (.mnode n) st = .ok st := rfl
theorem kidStep_dep (cfg i e esc d hh hd st) : kidStep cfg i e esc (.dep d hh hd) st = .ok st := rfl
theorem kidStep_text (cfg i e esc s st) :
    kidStep cfg i e esc (.text s) st = .ok (leafStep i e (if esc then escText cfg s else s) st) := rfl
theorem kidStep_html (cfg i e esc s st) : kidStep cfg i e esc (.html s) st = .ok (leafStep i e s st) := rfl
theorem kidStep_robj (cfg i e esc s st) : kidStep cfg i e esc (.robj s) st = .ok (leafStep i e s st) := rfl
theorem kidStep_tobjL_some (cfg i e esc s c st) : kidStep cfg i e esc (.tobjL (some s) c) st = .ok (leafStep i e s st) := rfl
theorem kidStep_tobj1_some (cfg i e esc s c st) : kidStep cfg i e esc (.tobj1 (some s) c) st = .ok (leafStep i e s st) := rfl
theorem kidStep_tobjL_none (cfg i e esc c st) : kidStep cfg i e esc (.tobjL none c) st = .error .runtimeError := rfl
theorem kidStep_tobj1_none (cfg i e esc c st) : kidStep cfg i e esc (.tobj1 none c) st = .error .runtimeError := rfl
theorem kidStep_tag (cfg i e esc nm ws a k st) :
    kidStep cfg i e esc (.tag nm ws a k) st
      = if (Node.tag nm ws a k).hasTobj then .error .runtimeError else
        .ok ⟨st.acc ++ (if !st.first && (st.prev || ws) then e else [])
              ++ (if (st.prev || ws) then (Node.tag nm ws a k).render cfg i e else (Node.tag nm ws a k).render cfg 0 []), false, ws⟩ := rfl

theorem kids_fold (cfg : Cfg) (indent : Nat) (eol : Str) (esc : Bool) (ks : Nodes) (st : KS) :
    (ks.toList.foldlM (fun st h => kidStep cfg indent eol esc h st) st).map (·.acc)
      = if ks.hasTobjKids then .error .runtimeError
        else .ok (st.acc ++ ks.renderKids cfg indent eol st.first st.prev esc) := by
  induction ks using Nodes.rec (motive_1 := fun _ => True) generalizing st with
  | nil => simp [Nodes.toList, Nodes.hasTobjKids, Nodes.renderKids, Except.map, pure, Except.pure]
  | cons h t _ ih =>
    simp only [Nodes.toList, List.foldlM_cons, Nodes.hasTobjKids]
    cases h with
    | mnode n => rw [kidStep_mnode]; simpa [Nodes.renderKids, bind, Except.bind] using ih st
    | dep d hh hd => rw [kidStep_dep]; simpa [Nodes.renderKids, bind, Except.bind] using ih st
    | tag nm ws at' kk =>
      rw [kidStep_tag]
      by_cases ht : (Node.tag nm ws at' kk).hasTobj = true
      · simp [ht, bind, Except.bind, Except.map]
      · simp only [ht, Bool.false_eq_true, if_false, bind, Except.bind, Bool.false_or]
        rw [ih]
        simp [Nodes.renderKids, List.append_assoc]
    | text s =>
      rw [kidStep_text]; simp only [bind, Except.bind, Bool.false_or]; rw [ih]
      simp [Nodes.renderKids, leafStep, List.append_assoc]
    | html s =>
      rw [kidStep_html]; simp only [bind, Except.bind, Bool.false_or]; rw [ih]
      simp [Nodes.renderKids, leafStep, List.append_assoc]
    | robj s =>
      rw [kidStep_robj]; simp only [bind, Except.bind, Bool.false_or]; rw [ih]
      simp [Nodes.renderKids, leafStep, List.append_assoc]
    | tobjL rh c =>
      cases rh with
      | none => rw [kidStep_tobjL_none]; simp [bind, Except.bind, Except.map]
      | some s =>
        rw [kidStep_tobjL_some]; simp only [bind, Except.bind, Bool.false_or]; rw [ih]
        simp [Nodes.renderKids, leafStep, List.append_assoc]
    | tobj1 rh c =>
      cases rh with
      | none => rw [kidStep_tobj1_none]; simp [bind, Except.bind, Except.map]
      | some s =>
        rw [kidStep_tobj1_some]; simp only [bind, Except.bind, Bool.false_or]; rw [ih]
        simp [Nodes.renderKids, leafStep, List.append_assoc]
  | _ => trivial

/-! ### facts about the primitives and loop lemmas used by the renderer tie -/


theorem pyMul_indent (i : Nat) : pyMul (.str [' ', ' ']) (.int i) = .ok (.str (indentStr i)) := by
  simp only [pyMul, pure_eq_ok, indentStr, Int.toNat_natCast]
  congr 2
  induction i with
  | zero => rfl
  | succ n ih => rw [List.replicate_succ, List.flatten_cons, ih, Nat.mul_succ]; simp [List.replicate_succ]

theorem rks_triv (x y z : PVal) : ∃ a a_1 a_2, (x = a ∧ y = a_1 ∧ z = a_2) ∧ a = x ∧ a_1 = y ∧ a_2 = z :=
  ⟨x, y, z, ⟨rfl, rfl, rfl⟩, rfl, rfl, rfl⟩

theorem pyAdd_str (G : Globals) (a b : Str) : pyAdd G (.str a) (.str b) = .ok (.str (a ++ b)) := rfl

/-- the relation between the loop state of `TagList.get_html_string` and the model-level state -/
def RKS {ρ : Type} (s : PVal × PVal × PVal × ρ) (b : KS) : Prop :=
  s.1 = .str b.acc ∧ s.2.1 = .bool b.first ∧ s.2.2.1 = .bool b.prev

/-- whatever the body of the child loop is: if each pass simulates `kidStep`, the loop followed by `return html_`
    is `renderList` (or RuntimeError when an un-expanded object is reached) -/
theorem child_loop {ρ : Type} (cfg : Cfg) (ks : Nodes) (i : Nat) (eol : Str) (aw esc : Bool) (r0 : ρ)
    (f : PVal → PVal × PVal × PVal × ρ → PyM (ForInStep (PVal × PVal × PVal × ρ)))
    (hstep : ∀ c ∈ ks.toList, ∀ s b, RKS s b →
      Sim (fun (r : ForInStep _) b' => ∃ s', r = .yield s' ∧ RKS s' b') embErr (f (embNode c) s) (kidStep cfg i eol esc c b)) :
    (do
      let s ← forIn (ks.toList.map embNode) (PVal.str [], PVal.bool true, PVal.bool aw, r0) f
      Except.ok s.1 : PyM PVal)
      = if ks.hasTobjKids then .error .runtimeError else .ok (.str (renderList cfg ks i eol aw esc)) := by
  have sim := forIn_sim (RKS (ρ := ρ)) embErr embNode ks.toList f (fun c b => kidStep cfg i eol esc c b)
    (PVal.str [], PVal.bool true, PVal.bool aw, r0) ⟨[], true, aw⟩ ⟨rfl, rfl, rfl⟩ hstep
  have kf := kids_fold cfg i eol esc ks ⟨[], true, aw⟩
  generalize List.foldlM (fun b c => kidStep cfg i eol esc c b) ({ acc := [], first := true, prev := aw } : KS) ks.toList = y at sim kf
  cases y with
  | error e =>
    simp only [Sim] at sim
    rw [sim]
    by_cases hk : ks.hasTobjKids = true
    · simp only [hk, if_true, Except.map] at kf ⊢
      cases kf; rfl
    · simp [hk, Except.map] at kf
  | ok b =>
    obtain ⟨s, hs, hR⟩ := sim
    rw [hs]
    by_cases hk : ks.hasTobjKids = true
    · simp [hk, Except.map] at kf
    · simp only [hk, Bool.false_eq_true, if_false, Except.map, List.nil_append] at kf ⊢
      have kf' : b.acc = ks.renderKids cfg i eol true aw esc := by injection kf
      simp [hR.1, renderList, kf']

theorem pyIn_names (nm : Str) (l : List Str) :
    pyIn (.str nm) (.list (l.map PVal.str)) = .ok (.bool (l.contains nm)) := by
  simp only [pyIn, pure_eq_ok]
  congr 2
  induction l with
  | nil => rfl
  | cons a t ih =>
    rw [List.map_cons, List.any_cons, ih, List.contains_cons, Bool.beq_comm]

/-- one attribute, as the attribute loop writes it -/
def attrText (cfg : Cfg) (kv : Str × AttrVal) : Str :=
  ' ' :: kv.1 ++ '=' :: '"' :: emitAttrVal cfg kv.2 ++ ['"']

theorem renderAttrs_fold (cfg : Cfg) (attrs : Attrs) (acc : Str) :
    attrs.foldlM (m := Except Err) (fun b kv => .ok (b ++ attrText cfg kv)) acc = .ok (acc ++ renderAttrs cfg attrs) := by
  induction attrs generalizing acc with
  | nil => simp [renderAttrs, pure, Except.pure]
  | cons kv t ih =>
    obtain ⟨k, v⟩ := kv
    simp only [List.foldlM_cons, bind, Except.bind]
    rw [ih]
    simp [renderAttrs, attrText, List.append_assoc]

/-- the attribute loop, whatever its body and whatever else its state carries: if each pass appends the attribute's
    text to the first component -/
theorem attr_loop {ρ : Type} (cfg : Cfg) (attrs : Attrs) (acc : Str) (r0 : ρ)
    (f : PVal → PVal × ρ → PyM (ForInStep (PVal × ρ)))
    (hstep : ∀ kv ∈ attrs, ∀ (s : PVal × ρ) (b : Str), s.1 = .str b →
      ∃ s', f (.tuple [.str kv.1, embVal kv.2]) s = .ok (.yield s') ∧ s'.1 = .str (b ++ attrText cfg kv)) :
    ∃ s, forIn (attrs.map fun kv => PVal.tuple [.str kv.1, embVal kv.2]) (PVal.str acc, r0) f = .ok s
      ∧ s.1 = .str (acc ++ renderAttrs cfg attrs) := by
  have sim := forIn_sim (fun (s : PVal × ρ) (b : Str) => s.1 = .str b) embErr
    (fun kv : Str × AttrVal => PVal.tuple [.str kv.1, embVal kv.2]) attrs f
    (fun kv b => .ok (b ++ attrText cfg kv)) (PVal.str acc, r0) acc rfl
    (by
      intro kv hkv s b hR
      obtain ⟨s', h1, h2⟩ := hstep kv hkv s b hR
      exact ⟨_, h1, s', rfl, h2⟩)
  rw [renderAttrs_fold] at sim
  exact sim

theorem visible_fold (ks : List Node) (b : List Node) :
    ks.foldlM (m := Except Err) (fun b c => .ok (if c.isMeta then b else b ++ [c])) b
      = .ok (b ++ ks.filter (fun c => !c.isMeta)) := by
  induction ks generalizing b with
  | nil => simp [pure, Except.pure]
  | cons c t ih =>
    simp only [List.foldlM_cons, bind, Except.bind]
    rw [ih]
    by_cases h : c.isMeta = true <;> simp [h, List.filter_cons]

theorem visible_eq_filter (ks : Nodes) : ks.visible = ks.toList.filter (fun c => !c.isMeta) := by
  induction ks using Nodes.rec (motive_1 := fun _ => True) with
  | nil => rfl
  | cons h t _ ih =>
    simp only [Nodes.visible, Nodes.toList, List.filter_cons]
    by_cases hm : h.isMeta = true <;> simp [hm, ih]
  | _ => trivial

theorem isMeta_emb (c : Node) : isInstance (embNode c) ["MetadataNode"] = c.isMeta := by
  cases c <;> simp [embNode, isInstance, builtinClasses, classBases, Node.isMeta]

/-- the comprehension `[x for x in self.children if not isinstance(x, MetadataNode)]`, whatever its body -/
theorem vis_loop (ks : Nodes) (f : PVal → List PVal → PyM (ForInStep (List PVal)))
    (hstep : ∀ c ∈ ks.toList, ∀ s, f (embNode c) s = .ok (.yield (if c.isMeta then s else s ++ [embNode c]))) :
    forIn (ks.toList.map embNode) ([] : List PVal) f = .ok (ks.visible.map embNode) := by
  have sim := forIn_sim (fun (s : List PVal) (b : List Node) => s = b.map embNode) embErr embNode ks.toList f
    (fun c b => .ok (if c.isMeta then b else b ++ [c])) [] [] rfl
    (by
      intro c hc s b hR
      subst hR
      refine ⟨_, hstep c hc _, _, rfl, ?_⟩
      by_cases h : c.isMeta = true <;> simp [h])
  rw [visible_fold] at sim
  obtain ⟨s, hs, hR⟩ := sim
  rw [hs, hR, visible_eq_filter]
  simp

theorem attr_loop_k {β ρ : Type} (cfg : Cfg) (attrs : Attrs) (acc : Str) (r0 : ρ) (L : List PVal)
    (hL : L = attrs.map fun kv => PVal.tuple [.str kv.1, embVal kv.2])
    (f : PVal → PVal × ρ → PyM (ForInStep (PVal × ρ)))
    (hstep : ∀ kv ∈ attrs, ∀ (s : PVal × ρ) (b : Str), s.1 = .str b →
      ∃ s', f (.tuple [.str kv.1, embVal kv.2]) s = .ok (.yield s') ∧ s'.1 = .str (b ++ attrText cfg kv))
    (k : PVal × ρ → PyM β) (r : PyM β)
    (hk : ∀ s, s.1 = .str (acc ++ renderAttrs cfg attrs) → k s = r) :
    (forIn L (PVal.str acc, r0) f >>= k) = r := by
  obtain ⟨s, hs, h1⟩ := attr_loop cfg attrs acc r0 f hstep
  rw [hL, hs, ok_bind]
  exact hk s h1

theorem globalsOf_void (cfg : Cfg) : (globalsOf cfg).VOID_TAG_NAMES = cfg.void := rfl
theorem globalsOf_noesc (cfg : Cfg) : (globalsOf cfg).NO_ESCAPE_TAG_NAMES = cfg.noesc := rfl

theorem pyIter_taglist (l : List PVal) : pyIter (.obj "TagList" [("data", .list l)]) = .ok l := by
  simp [pyIter]

theorem getattr_tag (nm : Str) (ws : Bool) (a : Attrs) (k : Nodes) :
    pyGetAttr (embNode (.tag nm ws a k)) "name" = .ok (.str nm)
    ∧ pyGetAttr (embNode (.tag nm ws a k)) "attrs" = .ok (embAttrs a)
    ∧ pyGetAttr (embNode (.tag nm ws a k)) "children" = .ok (.obj "TagList" [("data", .list (embNodes k))])
    ∧ pyGetAttr (embNode (.tag nm ws a k)) "add_ws" = .ok (.bool ws) := by
  simp [embNode, pyGetAttr, fieldGet?]


end HtmlVerif.SrcTie
