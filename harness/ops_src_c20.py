"""Implementation side of the `src` op for C20 (htmltools/_jsx.py): realisation of `jsx` strings and JSXTag objects,
and the calls of the real functions."""
from __future__ import annotations

import ops_src
from wire import es


def _jsx(fields):
    from htmltools._jsx import jsx
    return jsx(fields["__str__"])


def _jsxtag(fields):
    from htmltools._jsx import JSXTag, JSXTagAttrDict
    t = JSXTag.__new__(JSXTag)          # not through __init__: the attrs are the *stored* dict, as given
    t.name = fields["name"]
    a = JSXTagAttrDict()
    dict.update(a, fields["attrs"])
    t.attrs = a
    t.children = fields["children"]
    return t


def _enc(v, enc):
    from htmltools._jsx import jsx
    if type(v) is jsx:
        return "O jsx [ __str__ S " + es(str.__str__(v)) + " ]"
    return None


ops_src.REALIZE["jsx"] = _jsx
ops_src.REALIZE["JSXTag"] = _jsxtag
ops_src.ENCODE.append(_enc)


def _mod():
    from htmltools import _jsx
    return _jsx


ops_src.CALLS["JSX_normalize_attr_name"] = lambda a: _mod().JSXTagAttrDict._normalize_attr_name(a[0])
ops_src.CALLS["render_react_js"] = lambda a: _mod()._render_react_js(a[0], a[1], a[2])
ops_src.CALLS["serialize_attr"] = lambda a: _mod()._serialize_attr(a[0])
ops_src.CALLS["serialize_style_attr"] = lambda a: _mod()._serialize_style_attr(a[0])
