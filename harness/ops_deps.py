"""Implementation side of the dependency ops (lean/HtmlVerif/Ops/Deps.lean): run the real
get_dependencies / HTMLDependency(...) / packaging comparison and return the canonical answer."""
from __future__ import annotations

from ops import op
from adapters import (realize, realize_list, canon_dep, Ranks, versions_in, HTMLDependency, Tag, TagList,
                      TObjL, TObj1, Version)
from wire import Toks, p_node, p_list, p_str, p_bool, p_kv, es, eb, elist, ekvs, enodes, enode, err_of


# ------------------------------------------------------------------ wire: constructor arguments
def eitem(x) -> str:
    """('d', [(k, v)...]) | ('o',)"""
    return "d " + ekvs(x[1]) if x[0] == "d" else "o"


def eitems(x) -> str:
    """('none',) | ('one', kvs) | ('many', [item...]) | ('scalar',)"""
    k = x[0]
    if k == "none":
        return "in"
    if k == "one":
        return "i1 " + ekvs(x[1])
    if k == "many":
        return "im " + elist([eitem(i) for i in x[1]])
    return "is"


def esourcearg(x) -> str:
    """('none',) | ('other',) | ('dict', kvs)"""
    return {"none": "sn", "other": "so"}.get(x[0]) or ("sD " + ekvs(x[1]))


def edeparg(a: dict) -> str:
    return " ".join([es(a["name"]), es(a["version"]), eb(a["ver_ok"]), str(a["vrank"]), esourcearg(a["source"]),
                     eitems(a["script"]), eitems(a["stylesheet"]), eitems(a["metas"]), eb(a["all_files"])])


def p_item(t: Toks):
    k = t.next()
    return ("d", p_list(t, p_kv)) if k == "d" else ("o",)


def p_items(t: Toks):
    k = t.next()
    if k == "in":
        return ("none",)
    if k == "i1":
        return ("one", p_list(t, p_kv))
    if k == "im":
        return ("many", p_list(t, p_item))
    return ("scalar",)


def p_sourcearg(t: Toks):
    k = t.next()
    if k == "sn":
        return ("none",)
    if k == "so":
        return ("other",)
    return ("dict", p_list(t, p_kv))


def p_deparg(t: Toks) -> dict:
    return dict(name=p_str(t), version=p_str(t), ver_ok=p_bool(t), vrank=int(t.next()), source=p_sourcearg(t),
                script=p_items(t), stylesheet=p_items(t), metas=p_items(t), all_files=p_bool(t))


# non-dict values of several Python types; which one is used depends only on the case (deterministic)
class _Opaque:
    pass


NON_DICT_SOURCE = ["href", 5, ["href", "subdir"], ("subdir",), {"href"}, 1.5, True, _Opaque()]
NON_DICT_ITEM = [5, "src", ["src", "href"], None, ("name", "content"), {"src"}, 1.5, _Opaque()]
NON_ITERABLE = [5, 1.5, True, _Opaque()]


def _pick(pool, salt: int):
    return pool[salt % len(pool)]


def realize_items(x, salt: int):
    k = x[0]
    if k == "none":
        return None
    if k == "one":
        return dict(x[1])
    if k == "many":
        return [dict(i[1]) if i[0] == "d" else _pick(NON_DICT_ITEM, salt + j) for j, i in enumerate(x[1])]
    return _pick(NON_ITERABLE, salt)


def realize_sourcearg(x, salt: int):
    if x[0] == "none":
        return None
    if x[0] == "other":
        return _pick(NON_DICT_SOURCE, salt)
    return dict(x[1])


# ------------------------------------------------------------------ identity bookkeeping
def all_dep_objects(x, acc: dict):
    """every HTMLDependency object anywhere in a realised tree (also in heads and un-expanded objects)"""
    if isinstance(x, HTMLDependency):
        acc[id(x)] = x
        if x.head is not None:
            for c in x.head:
                all_dep_objects(c, acc)
    elif isinstance(x, Tag):
        for c in x.children:
            all_dep_objects(c, acc)
    elif isinstance(x, (list, TagList)):
        for c in x:
            all_dep_objects(c, acc)
    elif isinstance(x, TObjL):
        for c in x.content:
            all_dep_objects(c, acc)
    elif isinstance(x, TObj1):
        all_dep_objects(x.content, acc)
    return acc


def answer(deps, ranks: Ranks, universe: dict | None) -> str:
    """the returned *object sequence*: every object must be one of the tree's own objects (not a copy);
    its canonical form carries the unique marker the generator put into it"""
    if not isinstance(deps, list):
        return "err exception"
    for d in deps:
        if not isinstance(d, HTMLDependency):
            return "err exception"
        if universe is not None and id(d) not in universe:
            return "notsame"
    return "ok " + enodes([canon_dep(d, ranks) for d in deps])


def _ranks_of(terms) -> Ranks:
    vs = []
    for n in terms:
        versions_in(n, vs)
    return Ranks(vs)


@op("deps_list")
def _deps_list(t: Toks) -> str:
    ns = p_list(t, p_node)
    dedup = p_bool(t)
    obj = realize_list(ns)
    uni = all_dep_objects(obj, {})
    return answer(obj.get_dependencies(dedup=dedup), _ranks_of(ns), uni)


@op("deps_tag")
def _deps_tag(t: Toks) -> str:
    n = p_node(t)
    dedup = p_bool(t)
    obj = realize(n)
    uni = all_dep_objects(obj, {})
    # positional and keyword call styles alternate (Tag.get_dependencies takes dedup positionally too)
    deps = obj.get_dependencies(dedup) if len(n[4]) % 2 else obj.get_dependencies(dedup=dedup)
    return answer(deps, _ranks_of([n]), uni)


@op("deps_twice")
def _deps_twice(t: Toks) -> str:
    ns = p_list(t, p_node)
    obj = realize_list(ns)
    uni = all_dep_objects(obj, {})
    once = obj.get_dependencies()
    twice = TagList(*once).get_dependencies()
    return answer(twice, _ranks_of(ns), uni)


@op("deps_render")
def _deps_render(t: Toks) -> str:
    n = p_node(t)
    obj = realize(n)
    res = obj.render()
    return answer(res["dependencies"], _ranks_of([n]), None)   # render() works on a tagified copy


@op("dep_init")
def _dep_init(t: Toks) -> str:
    a = p_deparg(t)
    salt = sum(map(ord, a["name"])) + a["vrank"]
    try:
        d = HTMLDependency(
            a["name"], a["version"],
            source=realize_sourcearg(a["source"], salt),
            script=realize_items(a["script"], salt + 1),
            stylesheet=realize_items(a["stylesheet"], salt + 2),
            meta=realize_items(a["metas"], salt + 3),
            all_files=a["all_files"],
        )
    except Exception as e:
        return err_of(e)
    try:
        c = canon_dep(d, None)
        c[1]["vrank"] = a["vrank"]
        return "ok " + enode(c)
    except Exception:
        # accepted, but what was stored is not a well-formed dependency record
        return "accepted-malformed"


def _vstr(rel) -> str:
    return ".".join(str(x) for x in rel)


@op("vcmp")
def _vcmp(t: Toks) -> str:
    a = [int(x) for x in p_list(t, lambda t: t.next())]
    b = [int(x) for x in p_list(t, lambda t: t.next())]
    va, vb = Version(_vstr(a)), Version(_vstr(b))
    return eb(va <= vb) + " " + eb(va > vb)


@op("vparse")
def _vparse(t: Toks) -> str:
    s = p_str(t)
    try:
        v = Version(s)
    except Exception:
        return "N"
    return "S " + elist([str(x) for x in v.release])
