#!/usr/bin/env python3
"""Writes /verif/MANIFEST.json from the table below (single source of truth)."""
import json
import os

VERIF = os.path.dirname(os.path.dirname(os.path.abspath(__file__)))
ALL = [f"C{n:02d}" for n in range(1, 21)]

BASE_NOTE = ("Trusted: Lean 4.33 kernel; axioms limited to propext/Classical.choice/Quot.sound (audited on every run with "
             "#print axioms; no sorry/native_decide/bv_decide/axiom); the ast translator for tables; the differential "
             "correspondence harness (model vs /repo on generated inputs) which ties the hand-written model to the code; "
             "the Lean compiler for the driver. ")

HOLD = {}


def load_claims():
    """each harness/props/cnn.py may define MANIFEST = dict(text=, design=, note=, technique=[, category=])"""
    import importlib
    import sys
    sys.path.insert(0, os.path.join(VERIF, "harness"))
    claims = {}
    for pid in ALL:
        path = os.path.join(VERIF, "harness", "props", pid.lower() + ".py")
        if not os.path.exists(path):
            continue
        src = open(path).read()
        if "MANIFEST" not in src:
            continue
        mod = importlib.import_module("props." + pid.lower())
        if getattr(mod, "CLAIM", True) is not True:
            HOLD[pid] = str(getattr(mod, "CLAIM"))
            continue
        m = dict(mod.MANIFEST)
        m["note"] = BASE_NOTE + m.get("note", "")
        claims[pid] = m
    return claims


NOT_YET = "not claimed yet: model/theorems for this property are still being built in this round (see DESIGN.md §11 build order)"


def main():
    CLAIMS = load_claims()
    checks = []
    for pid in ALL:
        if pid not in CLAIMS:
            continue
        c = CLAIMS[pid]
        checks.append({
            "property_id": pid,
            "quick_cmd": f"./check {pid} --tier quick",
            "thorough_cmd": f"./check {pid} --tier thorough",
            "evidence_file": f"evidence/{pid}.json",
            "replay_cmd_template": "./check replay {path}",
            "engine": "lean-model+correspondence",
            "level_claimed": {"category": c.get("category", "proof"), "text": c["text"], "design_ref": c["design"]},
            "level_note": c["note"],
            "technique": c["technique"],
        })
    man = {
        "version": 1,
        "setup_cmd": "./check setup",
        "hooks": {
            "guard": "POSIT_DEV_PY_HTMLTOOLS_VERIF",
            "enable": "no source hooks are needed: all observations go through the public API; checks import htmltools from /repo's working tree",
            "baseline_off_cmd": "cd /repo && /venv/bin/python -m pytest -ra -q -p no:cacheprovider --timeout=900 --continue-on-collection-errors",
            "source_commits": [],
            "add_only": True,
        },
        "engines": [
            {"name": "lean-model", "path": "lean/", "serves_properties": sorted(CLAIMS), "kind_free_text": "Lean 4 model + theorems (lake project HtmlVerif), compiled line-protocol driver htdriver"},
            {"name": "translator", "path": "harness/translate.py", "serves_properties": sorted(CLAIMS), "kind_free_text": "ast-based regeneration of tables (void names, escape tables, tag wrappers) on every run"},
            {"name": "correspondence", "path": "harness/", "serves_properties": sorted(CLAIMS), "kind_free_text": "differential check model vs implementation over a wire protocol; failing-input search"},
        ],
        "checks": checks,
        "not_applicable": [{"property_id": p, "reason": HOLD.get(p, NOT_YET)} for p in ALL if p not in CLAIMS],
        "notes": "See DESIGN.md. Evidence files are written by ./check on every run.",
    }
    with open(os.path.join(VERIF, "MANIFEST.json"), "w") as f:
        json.dump(man, f, indent=1)
        f.write("\n")


if __name__ == "__main__":
    main()
