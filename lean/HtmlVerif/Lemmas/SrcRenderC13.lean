/-
Helper lemmas for the source tie of `TagList.render` and `HTMLTextDocument.render` (Props/SrcC13.lean).

The three translated functions `TagList.render` calls are tied to the model in three areas, each with its own embedding
of trees (`embT tv` for `tagify` / `get_dependencies`: Lemmas/SrcC10.lean; `embNode` for `get_html_string`:
Lemmas/SrcRender.lean; `embA` for the child-list operations: Lemmas/SrcC14.lean).  On *plain* trees — tags, text, `HTML`,
self-rendering objects, metadata nodes; no `HTMLDependency` object and no un-expanded tagifiable object anywhere — the
embeddings coincide, `tagify()` is the identity and nothing is collected; that is the class the markup of
`HTMLDependency.as_html_tags` lives in.
-/
import HtmlVerif.Generated.Src
import HtmlVerif.Lemmas.PyLoop
import HtmlVerif.Lemmas.SrcTie
import HtmlVerif.Lemmas.SrcRender
import HtmlVerif.Lemmas.SrcC09
import HtmlVerif.Lemmas.SrcC10
import HtmlVerif.Lemmas.SrcC14
import HtmlVerif.Model.TextDoc
import HtmlVerif.Lemmas.Tagify

set_option linter.unusedVariables false

namespace HtmlVerif.SrcTie
open HtmlVerif HtmlVerif.Py HtmlVerif.Generated.Src

/-! ### plain trees -/

mutual
  /-- no `HTMLDependency` object and no tagifiable object of a foreign class, at any depth -/
  def plainNodeC13 : Node → Bool
    | .tag _ _ _ kids => plainKidsC13 kids
    | .text _ => true
    | .html _ => true
    | .robj _ => true
    | .mnode _ => true
    | .dep .. => false
    | .tobjL .. => false
    | .tobj1 .. => false
  def plainKidsC13 : Nodes → Bool
    | .nil => true
    | .cons h t => plainNodeC13 h && plainKidsC13 t
end

mutual
  theorem plain_tagifiedC13 (n : Node) (h : plainNodeC13 n = true) : n.tagified = true := by
    cases n with
    | tag nm w a kids => simpa [Node.tagified] using plainKids_tagifiedC13 kids (by simpa [plainNodeC13] using h)
    | dep d hh hd => simp [plainNodeC13] at h
    | tobjL rh c => simp [plainNodeC13] at h
    | tobj1 rh c => simp [plainNodeC13] at h
    | _ => rfl
  theorem plainKids_tagifiedC13 (ks : Nodes) (h : plainKidsC13 ks = true) : ks.tagifiedKids = true := by
    cases ks with
    | nil => rfl
    | cons a t =>
      simp only [plainKidsC13, Bool.and_eq_true] at h
      simp [Nodes.tagifiedKids, plain_tagifiedC13 a h.1, plainKids_tagifiedC13 t h.2]
end

mutual
  /-- on a plain tree the two embeddings are the same value -/
  theorem embT_plainC13 (tv : Node → PVal) (n : Node) (h : plainNodeC13 n = true) : embT tv n = embNode n := by
    cases n with
    | tag nm w a kids =>
      simp only [embT, embNode, embTs_plainC13 tv kids (by simpa [plainNodeC13] using h)]
    | dep d hh hd => simp [plainNodeC13] at h
    | tobjL rh c => simp [plainNodeC13] at h
    | tobj1 rh c => simp [plainNodeC13] at h
    | text s => rfl
    | html s => rfl
    | robj s => rfl
    | mnode k => rfl
  theorem embTs_plainC13 (tv : Node → PVal) (ks : Nodes) (h : plainKidsC13 ks = true) : embTs tv ks = embNodes ks := by
    cases ks with
    | nil => rfl
    | cons a t =>
      simp only [plainKidsC13, Bool.and_eq_true] at h
      simp only [embTs, embNodes, embT_plainC13 tv a h.1, embTs_plainC13 tv t h.2]
end

mutual
  /-- nothing is collected from a plain tree -/
  theorem collect_plainC13 (n : Node) (h : plainNodeC13 n = true) : n.collect = [] := by
    cases n with
    | tag nm w a kids => simpa [Node.collect] using collectKids_plainC13 kids (by simpa [plainNodeC13] using h)
    | _ => rfl
  theorem collectKids_plainC13 (ks : Nodes) (h : plainKidsC13 ks = true) : ks.collect = [] := by
    cases ks with
    | nil => rfl
    | cons a t =>
      simp only [plainKidsC13, Bool.and_eq_true] at h
      have ht := collectKids_plainC13 t h.2
      cases a with
      | tag nm w a' kids =>
        have ha := collect_plainC13 (.tag nm w a' kids) h.1
        simp [Nodes.collect, ha, ht]
      | dep d hh hd => simp [plainNodeC13] at h
      | text s => simp [Nodes.collect, ht]
      | html s => simp [Nodes.collect, ht]
      | robj s => simp [Nodes.collect, ht]
      | mnode k => simp [Nodes.collect, ht]
      | tobjL rh c => simp [Nodes.collect, ht]
      | tobj1 rh c => simp [Nodes.collect, ht]
end

theorem plainKids_appendC13 (a b : Nodes) : plainKidsC13 (a ++ b) = (plainKidsC13 a && plainKidsC13 b) := by
  induction a using Nodes.rec (motive_1 := fun _ => True) with
  | nil => rfl
  | cons h t _ ih =>
    show plainKidsC13 (.cons h (t ++ b)) = _
    simp only [plainKidsC13, ih, Bool.and_assoc]
  | _ => trivial


/-! ### the child-list operations on lists of nodes (Model/Children.lean) -/

/-- nodes as argument values -/
def nodeArgsC13 : Nodes → Args
  | .nil => .nil
  | .cons h t => .cons (.node h) (nodeArgsC13 t)

theorem embAs_nodeArgsC13 (ks : Nodes) : embAs (nodeArgsC13 ks) = embNodes ks := by
  induction ks using Nodes.rec (motive_1 := fun _ => True) with
  | nil => rfl
  | cons h t _ ih => simp only [nodeArgsC13, embAs, embNodes, embA, ih]
  | _ => trivial

theorem argsRep_nodeArgsC13 (ks : Nodes) : argsRep (nodeArgsC13 ks) = true := by
  induction ks using Nodes.rec (motive_1 := fun _ => True) with
  | nil => rfl
  | cons h t _ ih => simp only [nodeArgsC13, argsRep, argRep, ih, Bool.and_self]
  | _ => trivial

theorem argsFdepth_nodeArgsC13 (ks : Nodes) : argsFdepth (nodeArgsC13 ks) = 0 := by
  induction ks using Nodes.rec (motive_1 := fun _ => True) with
  | nil => rfl
  | cons h t _ ih => simp only [nodeArgsC13, argsFdepth, argFdepth, ih, Nat.max_self]
  | _ => trivial

theorem flattenInto_nodeArgsC13 (ks : Nodes) (acc : List Arg) :
    (nodeArgsC13 ks).flattenInto acc = acc ++ ks.toList.map Arg.node := by
  induction ks using Nodes.rec (motive_1 := fun _ => True) generalizing acc with
  | nil => simp [nodeArgsC13, Args.flattenInto, Nodes.toList]
  | cons h t _ ih => simp [nodeArgsC13, Args.flattenInto, Arg.flattenItem, Nodes.toList, ih]
  | _ => trivial

theorem isTagNode_nodeC13 (n : Node) : (Arg.node n).isTagNode = true := by
  cases n <;> rfl

theorem convertLoop_nodesC13 (ns : List Node) : convertLoop (ns.map Arg.node) = .ok (ns.map Stored.node) := by
  induction ns with
  | nil => rfl
  | cons n t ih => simp [convertLoop, isTagNode_nodeC13, ih, Stored.ofArg]

/-- the `.data` of a TagList that holds these nodes -/
def tlOfC13 (ns : List Node) : TL := ns.map Stored.node

theorem embTL_tlOfC13 (ns : List Node) : embTL (tlOfC13 ns) = tagListOf (ns.map embNode) := by
  simp [embTL, tlOfC13, tagListOf, embStored, Stored.toArg, embA, Function.comp_def]

/-- a list of TagLists of nodes, as an argument value -/
def tlsArgC13 (l : List Nodes) : Arg := .list (Args.ofList (l.map fun ks => Arg.taglist (nodeArgsC13 ks)))

theorem embA_tlsArgC13 (l : List Nodes) : embA (tlsArgC13 l) = .list (l.map fun ks => tagListOf (embNodes ks)) := by
  simp [tlsArgC13, embA, embAs_ofList, embAs_nodeArgsC13, tagListOf, Function.comp_def]

theorem argRep_tlsArgC13 (l : List Nodes) : argRep (tlsArgC13 l) = true := by
  simp [tlsArgC13, argRep, rep_ofList, argsRep_nodeArgsC13]

theorem argsFdepth_tlsC13 (l : List Nodes) :
    argsFdepth (Args.ofList (l.map fun ks => Arg.taglist (nodeArgsC13 ks))) ≤ 1 := by
  induction l with
  | nil => simp [Args.ofList, argsFdepth]
  | cons a t ih =>
    simp only [List.map_cons, Args.ofList, argsFdepth, argFdepth, argsFdepth_nodeArgsC13]
    omega

theorem iterDepth_tlsArgC13 (l : List Nodes) : iterDepth (tlsArgC13 l) ≤ 1 := argsFdepth_tlsC13 l

theorem flattenInto_tlsC13 (l : List Nodes) (acc : List Arg) :
    (Args.ofList (l.map fun ks => Arg.taglist (nodeArgsC13 ks))).flattenInto acc
      = acc ++ (l.flatMap Nodes.toList).map Arg.node := by
  induction l generalizing acc with
  | nil => simp [Args.ofList, Args.flattenInto]
  | cons a t ih =>
    simp only [List.map_cons, Args.ofList, Args.flattenInto, Arg.flattenItem, flattenInto_nodeArgsC13, ih, List.flatMap_cons,
      List.map_append, List.append_assoc]

theorem tagchilds_tlsArgC13 (l : List Nodes) :
    chTagchildsToTagnodes (tlsArgC13 l) = .ok (tlOfC13 (l.flatMap Nodes.toList)) := by
  simp only [chTagchildsToTagnodes, tlsArgC13, Arg.isStr, Bool.false_eq_true, if_false, Arg.iter, flatten, flattenInto_tlsC13,
    List.nil_append, convertLoop_nodesC13, tlOfC13]

theorem extend_tlsArgC13 (ns : List Node) (l : List Nodes) :
    TL.extend (tlOfC13 ns) (tlsArgC13 l) = ⟨.ok (), tlOfC13 (ns ++ l.flatMap Nodes.toList)⟩ := by
  simp only [TL.extend, tagchilds_tlsArgC13, tlOfC13, List.map_append]

theorem append_nodeC13 (ns : List Node) (n : Node) :
    TL.append (tlOfC13 ns) [.node n] = ⟨.ok (), tlOfC13 (ns ++ [n])⟩ := by
  have : chTagchildsToTagnodes (.list (Args.ofList [Arg.node n])) = .ok [Stored.node n] := by
    simp [chTagchildsToTagnodes, Arg.isStr, Arg.iter, flatten, Args.ofList, Args.flattenInto, Arg.flattenItem, convertLoop,
      isTagNode_nodeC13, Stored.ofArg]
  simp only [TL.append, TL.extend, this, tlOfC13, List.map_append, List.map_cons, List.map_nil]

theorem init_emptyC13 : TL.init [] = .ok (tlOfC13 []) := by
  simp [TL.init, chTagchildsToTagnodes, Arg.isStr, Arg.iter, flatten, Args.ofList, Args.flattenInto, convertLoop, tlOfC13]

/-! ### `headNodes` as a list -/

theorem toList_concatNodesC13 (l : List Nodes) : (concatNodes l).toList = l.flatMap Nodes.toList := by
  induction l with
  | nil => rfl
  | cons a t ih => simp [concatNodes, ih]

theorem toList_headNodesC13 (asTags : SDep → Nodes) (ds : List SDep) :
    (headNodes asTags ds).toList
      = (if ds.isEmpty then [] else [listingNode ds]) ++ (ds.map asTags).flatMap Nodes.toList := by
  simp only [headNodes, Nodes.toList_append, toList_concatNodesC13]
  cases ds <;> simp [Nodes.toList]

theorem plainKids_concatC13 (l : List Nodes) (h : ∀ ks ∈ l, plainKidsC13 ks = true) : plainKidsC13 (concatNodes l) = true := by
  induction l with
  | nil => rfl
  | cons a t ih =>
    simp only [concatNodes, plainKids_appendC13, h a (by simp), ih (fun ks hk => h ks (by simp [hk])), Bool.and_self]

theorem plain_listingNodeC13 (ds : List SDep) : plainNodeC13 (listingNode ds) = true := rfl

theorem plainKids_headNodesC13 (asTags : SDep → Nodes) (ds : List SDep) (h : ∀ d ∈ ds, plainKidsC13 (asTags d) = true) :
    plainKidsC13 (headNodes asTags ds) = true := by
  simp only [headNodes, plainKids_appendC13]
  have hc := plainKids_concatC13 (ds.map asTags) (by
    intro ks hk; simp only [List.mem_map] at hk; obtain ⟨d, hd, rfl⟩ := hk; exact h d hd)
  cases ds with
  | nil => simpa [plainKidsC13] using hc
  | cons a t => simpa [plainKidsC13, plain_listingNodeC13] using hc

/-! ### primitives of the listing script -/

theorem pyAdd_strC13 (G : Globals) (a b : Str) : pyAdd G (.str a) (.str b) = .ok (.str (a ++ b)) := rfl

theorem pyJoin_strsC13 (sep : Str) (l : List Str) : pyJoin (.str sep) (.list (l.map PVal.str)) = .ok (.str (joinStr sep l)) := by
  simp only [pyJoin, pyIter_list, ok_bind, strsOf_map_str, pure_eq_ok]

/-- `Tag("script", text, type="application/html-dependencies")` is the listing node -/
theorem pyMkTag_listingC13 (t : Str) :
    pyMkTagC13 (.str ['s', 'c', 'r', 'i', 'p', 't']) (.tuple [.str t])
        (.dict [(['t', 'y', 'p', 'e'], .str ['a', 'p', 'p', 'l', 'i', 'c', 'a', 't', 'i', 'o', 'n', '/', 'h', 't', 'm', 'l', '-',
          'd', 'e', 'p', 'e', 'n', 'd', 'e', 'n', 'c', 'i', 'e', 's'])])
      = .ok (embNode (.tag ['s', 'c', 'r', 'i', 'p', 't'] true
          [(['t', 'y', 'p', 'e'], .plain ['a', 'p', 'p', 'l', 'i', 'c', 'a', 't', 'i', 'o', 'n', '/', 'h', 't', 'm', 'l', '-',
            'd', 'e', 'p', 'e', 'n', 'd', 'e', 'n', 'c', 'i', 'e', 's'])]
          (.cons (.text t) .nil))) := by
  rfl

/-- a comprehension `[v(x) for x in xs]` as the translator renders it: whatever else the loop state carries, each pass
    appends one value to the accumulator (read out of the state by `get`) -/
theorem collect_loop_kC13 {α σ β : Type} (get : σ → List PVal) (e : α → PVal) (v : α → PVal) (ds : List α)
    (f : PVal → σ → PyM (ForInStep σ))
    (hstep : ∀ a ∈ ds, ∀ s, ∃ s', f (e a) s = .ok (.yield s') ∧ get s' = get s ++ [v a])
    (k : σ → PyM β) (r : PyM β) (init : σ) (hk : ∀ s, get s = get init ++ ds.map v → k s = r) :
    (forIn (ds.map e) init f >>= k) = r := by
  induction ds generalizing init with
  | nil =>
    simp only [List.map_nil, List.forIn_nil, pure_eq_ok, ok_bind]
    exact hk init (by simp)
  | cons a t ih =>
    obtain ⟨s', e1, e2⟩ := hstep a (by simp) init
    simp only [List.map_cons, List.forIn_cons, e1, ok_bind]
    refine ih (fun b hb s => hstep b (by simp [hb]) s) s' (fun s hs => hk s ?_)
    simp only [hs, e2, List.map_cons, List.append_assoc, List.cons_append, List.nil_append]

end HtmlVerif.SrcTie
