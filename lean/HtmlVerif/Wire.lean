/-
Wire codec of the correspondence check (DESIGN §4.2).  Not part of any theorem.
Tokens are space separated; strings are dot-separated hexadecimal code points (`-` = empty).
-/
import HtmlVerif.Model.Tree
import HtmlVerif.Model.Render
import HtmlVerif.Model.Attrs
import HtmlVerif.Model.Hook
import HtmlVerif.Model.Children

namespace HtmlVerif.Wire
open HtmlVerif

abbrev P := StateT (List String) (Except String)

def next : P String := do
  match (← get) with
  | [] => throw "unexpected end of line"
  | t :: r => set r; pure t

def peek : P (Option String) := do
  match (← get) with
  | [] => pure none
  | t :: _ => pure (some t)

def expect (s : String) : P Unit := do
  let t ← next
  if t != s then throw s!"expected {s}, got {t}"

def hexVal (c : Char) : Option Nat :=
  if '0' ≤ c ∧ c ≤ '9' then some (c.toNat - '0'.toNat)
  else if 'a' ≤ c ∧ c ≤ 'f' then some (c.toNat - 'a'.toNat + 10)
  else if 'A' ≤ c ∧ c ≤ 'F' then some (c.toNat - 'A'.toNat + 10)
  else none

def parseHex (s : String) : Option Nat :=
  if s.isEmpty then none else
  s.toList.foldl (fun acc c => do let a ← acc; let v ← hexVal c; pure (a * 16 + v)) (some 0)

def decodeStr (t : String) : Except String Str :=
  if t == "-" then .ok [] else
  (t.splitOn ".").mapM fun h =>
    match parseHex h with
    | some n => .ok (Char.ofNat n)
    | none => .error s!"bad string token {t}"

def str : P Str := do
  let t ← next
  match decodeStr t with
  | .ok s => pure s
  | .error e => throw e

def nat : P Nat := do
  let t ← next
  match t.toNat? with
  | some n => pure n
  | none => throw s!"bad nat {t}"

def bool : P Bool := do
  let t ← next
  if t == "T" then pure true else if t == "F" then pure false else throw s!"bad bool {t}"

def optStr : P (Option Str) := do
  let t ← next
  if t == "N" then pure none
  else if t == "S" then some <$> str
  else throw s!"bad optstr {t}"

partial def listOf {α} (item : P α) : P (List α) := do
  expect "["
  let rec loop (acc : Array α) : P (List α) := do
    match (← peek) with
    | some "]" => let _ ← next; pure acc.toList
    | _ => let x ← item; loop (acc.push x)
  loop #[]

def attrVal : P AttrVal := do
  let t ← next
  if t == "p" then .plain <$> str else if t == "h" then .html <$> str else throw s!"bad attrval {t}"

def attr : P (Str × AttrVal) := do
  let k ← str
  let v ← attrVal
  pure (k, v)

/-- an un-normalised attribute value: `an` None, `af` False, `at` True, `as s`, `ah s` (HTML), `am txt` (number), `ab` (bad type) -/
def attrArg : P AttrArg := do
  let t ← next
  match t with
  | "an" => pure .none
  | "af" => pure .boolF
  | "at" => pure .boolT
  | "as" => .str <$> str
  | "ah" => .html <$> str
  | "am" => .num <$> str
  | "ab" => pure .bad
  | _ => throw s!"bad attrarg {t}"

def attrPair : P (Str × AttrArg) := do
  let k ← str
  let v ← attrArg
  pure (k, v)

def kv : P (Str × Str) := do
  let k ← str
  let v ← str
  pure (k, v)

def depSource : P DepSource := do
  let t ← next
  if t == "sn" then pure .none
  else if t == "sh" then .href <$> str
  else if t == "sd" then do
    let p ← optStr; let d ← str; let a ← str; pure (.subdir p d a)
  else throw s!"bad source {t}"

def depInfo : P DepInfo := do
  let name ← str
  let version ← str
  let vrank ← nat
  let source ← depSource
  let script ← listOf (listOf kv)
  let stylesheet ← listOf (listOf kv)
  let metas ← listOf (listOf kv)
  let allFiles ← bool
  pure { name, version, vrank, source, script, stylesheet, metas, allFiles }

mutual
  partial def node : P Node := do
    let t ← next
    match t with
    | "tag" => do
      let name ← str; let ws ← bool; let attrs ← listOf attr; let kids ← nodes
      pure (.tag name ws attrs kids)
    | "text" => .text <$> str
    | "html" => .html <$> str
    | "robj" => .robj <$> str
    | "meta" => .mnode <$> nat
    | "dep" => do
      let d ← depInfo; let hh ← bool; let hd ← nodes
      pure (.dep d hh hd)
    | "tobjL" => do let rh ← optStr; let c ← nodes; pure (.tobjL rh c)
    | "tobj1" => do let rh ← optStr; let c ← node; pure (.tobj1 rh c)
    | _ => throw s!"bad node {t}"
  partial def nodes : P Nodes := do
    expect "["
    let rec loop (acc : Array Node) : P Nodes := do
      match (← peek) with
      | some "]" => let _ ← next; pure (Nodes.ofList acc.toList)
      | _ => let x ← node; loop (acc.push x)
    loop #[]
end

/-! ### encoders -/

def hexDigit (n : Nat) : Char :=
  if n < 10 then Char.ofNat ('0'.toNat + n) else Char.ofNat ('a'.toNat + n - 10)

partial def toHex (n : Nat) : String :=
  if n < 16 then String.singleton (hexDigit n) else toHex (n / 16) ++ String.singleton (hexDigit (n % 16))

def encStr (s : Str) : String :=
  if s.isEmpty then "-" else ".".intercalate (s.map fun c => toHex c.toNat)

def encBool (b : Bool) : String := if b then "T" else "F"

def encOptStr : Option Str → String
  | none => "N"
  | some s => "S " ++ encStr s

def encList (xs : List String) : String :=
  if xs.isEmpty then "[ ]" else "[ " ++ " ".intercalate xs ++ " ]"

def encAttrVal : AttrVal → String
  | .plain s => "p " ++ encStr s
  | .html s => "h " ++ encStr s

def encAttrs (a : Attrs) : String :=
  encList (a.map fun (k, v) => encStr k ++ " " ++ encAttrVal v)

def encKvs (d : List (Str × Str)) : String :=
  encList (d.map fun (k, v) => encStr k ++ " " ++ encStr v)

def encSource : DepSource → String
  | .none => "sn"
  | .href h => "sh " ++ encStr h
  | .subdir p d a => "sd " ++ encOptStr p ++ " " ++ encStr d ++ " " ++ encStr a

def encDepInfo (d : DepInfo) : String :=
  " ".intercalate [encStr d.name, encStr d.version, toString d.vrank, encSource d.source,
    encList (d.script.map encKvs), encList (d.stylesheet.map encKvs), encList (d.metas.map encKvs),
    encBool d.allFiles]

mutual
  partial def encNode : Node → String
    | .tag n w a k => "tag " ++ encStr n ++ " " ++ encBool w ++ " " ++ encAttrs a ++ " " ++ encNodes k
    | .text s => "text " ++ encStr s
    | .html s => "html " ++ encStr s
    | .robj s => "robj " ++ encStr s
    | .mnode n => "meta " ++ toString n
    | .dep d hh hd => "dep " ++ encDepInfo d ++ " " ++ encBool hh ++ " " ++ encNodes hd
    | .tobjL rh c => "tobjL " ++ encOptStr rh ++ " " ++ encNodes c
    | .tobj1 rh c => "tobj1 " ++ encOptStr rh ++ " " ++ encNode c
  partial def encNodes (ks : Nodes) : String :=
    encList (ks.toList.map encNode)
end

def encErr : Err → String
  | .typeError => "typeError"
  | .valueError => "valueError"
  | .keyError => "keyError"
  | .runtimeError => "runtimeError"
  | .notImplemented => "notImplemented"
  | .exception => "exception"

def encExcept {α} (f : α → String) : Except Err α → String
  | .ok a => "ok " ++ f a
  | .error e => "err " ++ encErr e

/-! ### C14: argument values, stored elements, operation histories (appended) -/

def int : P Int := do
  let t ← next
  match t.toInt? with
  | some n => pure n
  | none => throw s!"bad int {t}"

/-- `_` = None -/
def optInt : P (Option Int) := do
  match (← peek) with
  | some "_" => let _ ← next; pure none
  | _ => some <$> int

def numKind : P NumKind := do
  let t ← next
  match t with
  | "i" => pure .int
  | "f" => pure .float
  | "b" => pure .bool
  | _ => throw s!"bad numkind {t}"

def seqKind : P SeqKind := do
  let t ← next
  match t with
  | "bytes" => pure .bytes
  | "range" => pure .range
  | "set" => pure .set
  | "dict" => pure .dict
  | "gen" => pure .gen
  | _ => throw s!"bad seqkind {t}"

mutual
  /-- `none` | `num k txt` | `node <node>` | `list [ … ]` | `tuple [ … ]` | `tl [ … ]` | `seq kind [ … ]` | `bad k` -/
  partial def arg : P Arg := do
    let t ← next
    match t with
    | "none" => pure .none
    | "num" => do let k ← numKind; let s ← str; pure (.num k s)
    | "node" => .node <$> node
    | "list" => .list <$> args
    | "tuple" => .tuple <$> args
    | "tl" => .taglist <$> args
    | "seq" => do let k ← seqKind; let xs ← args; pure (.seqLike k xs)
    | "bad" => .bad <$> nat
    | _ => throw s!"bad arg {t}"
  partial def args : P Args := do
    expect "["
    let rec loop (acc : Array Arg) : P Args := do
      match (← peek) with
      | some "]" => let _ ← next; pure (Args.ofList acc.toList)
      | _ => let x ← arg; loop (acc.push x)
    loop #[]
end

def argList : P (List Arg) := Args.toList <$> args

/-- `n <node>` | `r <arg>` -/
def stored : P Stored := do
  let t ← next
  match t with
  | "n" => .node <$> node
  | "r" => .raw <$> arg
  | _ => throw s!"bad stored {t}"

/-- a stored element followed by the implementation's `is_tag_node` verdict -/
def storedV : P (Stored × Bool) := do
  let x ← stored
  let b ← bool
  pure (x, b)

/-- `v <arg>` | `self` | `inl [ … ] [ … ]` -/
def oarg : P OArg := do
  let t ← next
  match t with
  | "v" => .val <$> arg
  | "self" => pure .self
  | "inl" => do let a ← argList; let b ← argList; pure (.inList a b)
  | _ => throw s!"bad oarg {t}"

def childOp : P Op := do
  let t ← next
  match t with
  | "init" => .init <$> argList
  | "extend" => .extend <$> oarg
  | "append" => .append <$> listOf oarg
  | "insert" => do let i ← int; let a ← oarg; pure (.insert i a)
  | "add" => .add <$> oarg
  | "radd" => .radd <$> oarg
  | "iadd" => .iadd <$> oarg
  | "slice" => do let a ← optInt; let b ← optInt; let c ← optInt; pure (.slice a b c)
  | "mul" => .mul <$> int
  | "rmul" => .rmul <$> int
  | "imul" => .imul <$> int
  | _ => throw s!"bad child op {t}"

def encNumKind : NumKind → String
  | .int => "i"
  | .float => "f"
  | .bool => "b"

def encSeqKind : SeqKind → String
  | .bytes => "bytes"
  | .range => "range"
  | .set => "set"
  | .dict => "dict"
  | .gen => "gen"

mutual
  partial def encArg : Arg → String
    | .none => "none"
    | .num k s => "num " ++ encNumKind k ++ " " ++ encStr s
    | .node n => "node " ++ encNode n
    | .list xs => "list " ++ encArgs xs
    | .tuple xs => "tuple " ++ encArgs xs
    | .taglist xs => "tl " ++ encArgs xs
    | .seqLike k xs => "seq " ++ encSeqKind k ++ " " ++ encArgs xs
    | .bad k => "bad " ++ toString k
  partial def encArgs (xs : Args) : String :=
    encList (xs.toList.map encArg)
end

def encStored : Stored → String
  | .node n => "n " ++ encNode n
  | .raw a => "r " ++ encArg a

def encStoredList (s : TL) : String := encList (s.map encStored)

/-- the list with the model's `is_tag_node` verdict after every element -/
def encState (s : TL) : String :=
  encList (s.map fun x => encStored x ++ " " ++ encBool x.isTagNode)

def encResult : Except Err Unit → String
  | .ok _ => "ok"
  | .error e => "err " ++ encErr e

def encTrace (tr : List StepOut) : String :=
  encList (tr.map fun o => encResult o.result ++ " " ++ encState o.state)

end HtmlVerif.Wire

/-! ### display-hook programs (C17): `Val`, `Item`, `Prog`, `Outcome` -/
namespace HtmlVerif.Wire
open HtmlVerif HtmlVerif.Hook

/-- stored child: `it s`, `ih s`, `ir s`, `ig id`, `if s` (Tagifiable object), `ib s` (Tagifiable with `_repr_html_`) -/
def hookItem : P Item := do
  let t ← next
  match t with
  | "it" => .text <$> str
  | "ih" => .html <$> str
  | "ir" => .robj <$> str
  | "ig" => .tagRef <$> nat
  | "if" => .tobj <$> str
  | "ib" => .trobj <$> str
  | _ => throw s!"bad hook item {t}"

/-- displayed value: `vn` None, `ve` Ellipsis, `vt s`, `vm txt` (number), `vh s` (HTML), `vr s` (`_repr_html_` object),
    `vg id` (Tag), `vi` (invalid), `vf s` (Tagifiable object), `vb s` (Tagifiable with `_repr_html_`),
    `vq [ item* ]` (TagList), `vl [ val* ]` (list), `vu [ val* ]` (tuple) -/
partial def hookVal : P Val := do
  let t ← next
  match t with
  | "vn" => pure .none
  | "ve" => pure .ellipsis
  | "vt" => .text <$> str
  | "vm" => .num <$> str
  | "vh" => .html <$> str
  | "vr" => .reprHtml <$> str
  | "vg" => .tagRef <$> nat
  | "vi" => pure .invalid
  | "vf" => .tagifiable <$> str
  | "vb" => .tagifiableRepr <$> str
  | "vq" => .tagList <$> listOf hookItem
  | "vl" => (fun l => .list (Vals.ofList l)) <$> listOf hookVal
  | "vu" => (fun l => .tuple (Vals.ofList l)) <$> listOf hookVal
  | _ => throw s!"bad hook value {t}"

mutual
  /-- statement: `d <val>` | `b <tag id> [ stmts ]` | `r` | `k <tag id>` (new child-list object, same nodes) -/
  partial def hookProg : P Prog := do
    let t ← next
    match t with
    | "d" => .display <$> hookVal
    | "b" => do let i ← nat; let b ← hookProgs; pure (.block i b)
    | "r" => pure .raise
    | "k" => .rebind <$> nat
    | _ => throw s!"bad hook statement {t}"
  partial def hookProgs : P Progs := do
    expect "["
    let rec loop (acc : Array Prog) : P Progs := do
      match (← peek) with
      | some "]" => let _ ← next; pure (Progs.ofList acc.toList)
      | _ => let x ← hookProg; loop (acc.push x)
    loop #[]
end

def hookOutcome : P Outcome := do
  let t ← next
  match t with
  | "done" => pure .done
  | "raised" => do
    let k ← next
    match k with
    | "typeError" => pure (.raised .typeError)
    | "valueError" => pure (.raised .valueError)
    | "keyError" => pure (.raised .keyError)
    | "runtimeError" => pure (.raised .runtimeError)
    | "notImplemented" => pure (.raised .notImplemented)
    | "exception" => pure (.raised .exception)
    | _ => throw s!"bad error kind {k}"
  | _ => throw s!"bad outcome {t}"

def encHookItem : Item → String
  | .text s => "it " ++ encStr s
  | .html s => "ih " ++ encStr s
  | .robj s => "ir " ++ encStr s
  | .tagRef t => "ig " ++ toString t
  | .tobj s => "if " ++ encStr s
  | .trobj s => "ib " ++ encStr s

mutual
  def encHookVal : Val → String
    | .none => "vn"
    | .ellipsis => "ve"
    | .text s => "vt " ++ encStr s
    | .num s => "vm " ++ encStr s
    | .html s => "vh " ++ encStr s
    | .reprHtml s => "vr " ++ encStr s
    | .tagRef t => "vg " ++ toString t
    | .invalid => "vi"
    | .tagifiable s => "vf " ++ encStr s
    | .tagifiableRepr s => "vb " ++ encStr s
    | .tagList its => "vq " ++ encList (its.map encHookItem)
    | .list vs => "vl " ++ encList (encHookVals vs)
    | .tuple vs => "vu " ++ encList (encHookVals vs)
  def encHookVals : Vals → List String
    | .nil => []
    | .cons v vs => encHookVal v :: encHookVals vs
end

def encOutcome : Outcome → String
  | .done => "done"
  | .raised e => "raised " ++ encErr e

end HtmlVerif.Wire
