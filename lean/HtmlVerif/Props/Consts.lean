/-
Tie of the model's literal constants and defaults to the source (translator, DESIGN §4.1):
`Generated/Consts.lean` is rewritten from the AST of htmltools/_core.py on every run; the theorems below
say that the constants the hand-written model uses are the ones the code uses *now*.  A changed literal
(doctype, listing type, separator, indentation unit, a default argument, the extraction regex, the
neutralisation pair …) breaks the corresponding theorem even if no sampled input would show it.
-/
import HtmlVerif.Generated.Consts
import HtmlVerif.Model.Render
import HtmlVerif.Model.Document
import HtmlVerif.Model.TextDoc
import HtmlVerif.Model.HeadContent
import HtmlVerif.Model.Json

namespace HtmlVerif.Consts
open HtmlVerif HtmlVerif.Generated

def attrsOf : Node → Attrs
  | .tag _ _ a _ => a
  | _ => []

/-- two spaces per level, in both renderers -/
theorem indent_unit : indentUnitTag = some [' ', ' '] ∧ indentUnitList = some [' ', ' '] := by decide +kernel

theorem indentStr_is_units (n : Nat) : indentStr n = (List.replicate n [' ', ' ']).flatten := by
  induction n with
  | zero => rfl
  | succ k ih =>
    have : indentStr (k + 1) = indentStr k ++ [' ', ' '] := by
      show List.replicate (2 * (k + 1)) ' ' = List.replicate (2 * k) ' ' ++ [' ', ' ']
      have e : 2 * (k + 1) = 2 * k + 1 + 1 := by omega
      rw [e, List.replicate_succ', List.replicate_succ']; simp
    rw [this, ih, List.replicate_succ']
    simp

/-- defaults of get_html_string / Tag(): indent 0, eol "\n", add_ws True, escaping on -/
theorem render_defaults :
    dTagIndent = some (none, none, some 0) ∧ dTagEol = some (some ['\n'], none, none) ∧
    dListIndent = some (none, none, some 0) ∧ dListEol = some (some ['\n'], none, none) ∧
    dListAddWs = some (none, some true, none) ∧ dListEscape = some (none, some true, none) ∧
    dTagAddWs = some (none, some true, none) := by
  refine ⟨?_, ?_, ?_, ?_, ?_, ?_, ?_⟩ <;> decide +kernel

/-- HTMLDocument: doctype line, listing script type and separator, charset meta -/
theorem doc_literals :
    doctypeLit = some Doc.doctype ∧
    alookup ['t', 'y', 'p', 'e'] (attrsOf (Doc.listingNode [])) = listingTypeDoc.map AttrVal.plain ∧
    listingSepDoc = some [';'] ∧
    alookup ['c', 'h', 'a', 'r', 's', 'e', 't'] (attrsOf Doc.metaCharset) = charsetLit.map AttrVal.plain := by
  decide +kernel

/-- HTMLTextDocument writes the same listing as HTMLDocument -/
theorem textdoc_literals : listingTypeText = listingTypeDoc ∧ listingSepText = listingSepDoc := by decide +kernel

/-- defaults of the document / dependency methods: lib_prefix = libdir = "lib", include_version True,
    dedup True, all_files False -/
theorem doc_defaults :
    dDocLibPrefix = some (some ['l', 'i', 'b'], none, none) ∧ dDocInclVersion = some (none, some true, none) ∧
    dTextDocLibPrefix = dDocLibPrefix ∧ dTextDocInclVersion = dDocInclVersion ∧
    dSaveLibdir = dDocLibPrefix ∧ dSaveInclVersion = dDocInclVersion ∧
    dTagSaveLibdir = dDocLibPrefix ∧ dListSaveLibdir = dDocLibPrefix ∧
    dAsTagsLibPrefix = dDocLibPrefix ∧ dAsTagsInclVersion = dDocInclVersion ∧
    dAsDictLibPrefix = dDocLibPrefix ∧ dAsDictInclVersion = dDocInclVersion ∧
    dCopyInclVersion = dDocInclVersion ∧ dDedup = some (none, some true, none) ∧
    dAllFiles = some (none, some false, none) := by
  refine ⟨?_, ?_, ?_, ?_, ?_, ?_, ?_, ?_, ?_, ?_, ?_, ?_, ?_, ?_, ?_⟩ <;> decide +kernel

/-- head_content: name prefix and version -/
theorem headcontent_literals :
    headcontentPrefixLit = some headcontentPrefix ∧ headcontentVersionLit = some ['0', '.', '0'] := by decide +kernel

/-- serialised dependencies: the extraction regex is OPEN + lazy any-character group + CLOSE over the model's
    markers; every `</` is replaced by `<\/`; the element's type -/
theorem json_literals :
    extractPattern = some (openMarker ++ ['(', '(', '?', ':', '.', '|', '\\', 'r', '|', '\\', 'n', ')', '*', '?', ')'] ++ closeMarker) ∧
    neutraliseFrom = some ['<', '/'] ∧ neutraliseTo = some ['<', '\\', '/'] ∧
    serialTypeLit = some ['a', 'p', 'p', 'l', 'i', 'c', 'a', 't', 'i', 'o', 'n', '/', 'j', 's', 'o', 'n'] := by
  decide +kernel

end HtmlVerif.Consts
